//! C05 embedded WAL: op sequences over EmbeddedWal (public API in memvid_core::io::wal).
use crate::term::*;
use memvid_core::io::wal::EmbeddedWal;
use memvid_core::types::Header;
use memvid_core::MemvidError;
use std::collections::BTreeMap;

const WAL_OFFSET: u64 = 4096;

#[derive(Clone, Debug)]
pub enum Op { Append(u64, u8), Checkpoint, Stats, Pending, RecordsAfter(u64), Reopen, ShouldCheckpoint }

fn header_for(size: u64) -> Header {
    Header { magic: *b"MV2\0", version: 0x0201, footer_offset: 0, wal_offset: WAL_OFFSET, wal_size: size, wal_checkpoint_pos: 0, wal_sequence: 0, toc_checksum: [0u8; 32] }
}

fn summary(payload: &[u8]) -> (u64, u64) {
    (payload.len() as u64, payload.iter().map(|b| *b as u64).sum::<u64>())
}

fn err_kind(e: &MemvidError) -> u128 {
    let s = e.to_string();
    if s.contains("must not be empty") { 6 } else if s.contains("too small") { 1 } else if s.contains("region full") { 2 } else if s.contains("too large") { 3 }
    else if s.contains("length invalid") { 4 } else if s.contains("checksum mismatch") { 5 } else { 9 }
}

fn ok3(a: u64, b: u64, c: u64) -> T { T::C("Ok", vec![recs_term(&[(a, b, c)])]) }

fn recs_term(rs: &[(u64, u64, u64)]) -> T {
    T::L(rs.iter().map(|(s, l, c)| T::Tup(vec![T::N(*s as u128), T::N(*l as u128), T::N(*c as u128)])).collect())
}

pub struct RunResult { pub outs: Vec<T>, pub violation: Option<String>, pub reached: Vec<String> }

/// runs the ops on the real EmbeddedWal, returns per-op outputs and the first property violation
pub fn execute(size: u64, ops: &[Op]) -> RunResult {
    let file = tempfile::tempfile().expect("tempfile");
    file.set_len(WAL_OFFSET + size).expect("set_len");
    let mut header = header_for(size);
    let mut outs = vec![];
    let mut viol: Option<String> = None;
    let mut reached = vec![];
    let mut wal = match EmbeddedWal::open(&file, &header) {
        Ok(w) => w,
        Err(e) => { return RunResult { outs: vec![T::C("Err", vec![T::N(err_kind(&e))])], violation: None, reached }; }
    };
    // reference: records appended since the last checkpoint (seq, len, sum)
    let mut pending: Vec<(u64, u64, u64)> = vec![];
    let mut all: Vec<(u64, u64, u64)> = vec![];
    let mut ckpt_seq = 0u64;
    let mut set_viol = |v: &mut Option<String>, s: String| { if v.is_none() { *v = Some(s); } };
    for (i, op) in ops.iter().enumerate() {
        match op {
            Op::Append(len, fill) => {
                let payload = vec![*fill; *len as usize];
                let before = wal.stats();
                match wal.append_entry(&payload) {
                    Ok(seq) => {
                        let (l, c) = summary(&payload);
                        pending.push((seq, l, c)); all.push((seq, l, c));
                        outs.push(ok3(seq, 0, 0));
                        reached.push("append_ok".into());
                    }
                    Err(e) => {
                        let k = err_kind(&e);
                        outs.push(T::C("Err", vec![T::N(k)]));
                        reached.push(format!("append_err{}", k));
                        if wal.stats() != before { set_viol(&mut viol, format!("wal-reject-changes-state: op {} append of {} bytes was rejected but stats changed", i, len)); }
                        if !(k == 1 || k == 2 || k == 3 || (k == 6 && *len == 0)) { set_viol(&mut viol, format!("wal-reject-kind: op {} append rejected with unexpected error {}", i, e)); }
                    }
                }
            }
            Op::Checkpoint => {
                match wal.record_checkpoint(&mut header) {
                    Ok(()) => { ckpt_seq = header.wal_sequence; pending.clear(); outs.push(ok3(header.wal_sequence, 0, 0)); reached.push("checkpoint".into()); }
                    Err(e) => outs.push(T::C("Err", vec![T::N(err_kind(&e))])),
                }
            }
            Op::Stats => {
                let s = wal.stats();
                outs.push(ok3(s.pending_bytes, s.sequence, 0));
                let want: u64 = pending.iter().map(|(_, l, _)| 48 + l).sum();
                if s.pending_bytes != want { set_viol(&mut viol, format!("wal-stats: op {} pending_bytes {} but {} bytes were appended since the checkpoint", i, s.pending_bytes, want)); }
            }
            Op::ShouldCheckpoint => {
                outs.push(ok3(wal.should_checkpoint() as u64, 0, 0));
            }
            Op::Pending | Op::RecordsAfter(_) => {
                let after = if let Op::RecordsAfter(n) = op { *n } else { ckpt_seq };
                let r = if let Op::RecordsAfter(n) = op { wal.records_after(*n) } else { wal.pending_records() };
                match r {
                    Ok(rs) => {
                        let got: Vec<(u64, u64, u64)> = rs.iter().map(|r| { let (l, c) = summary(&r.payload); (r.sequence, l, c) }).collect();
                        outs.push(T::C("Ok", vec![recs_term(&got)]));
                        if let Op::Pending = op {
                            reached.push(format!("pending{}", got.len().min(3)));
                            if got != pending {
                                let lost = pending.iter().filter(|p| !got.contains(p)).count();
                                let extra = got.iter().filter(|g| !pending.contains(g)).count();
                                set_viol(&mut viol, format!("{}: op {} pending_records returned {} records, {} were appended since the last checkpoint ({} lost, {} not appended since the checkpoint)",
                                    if lost > 0 { "wal-lost-records" } else { "wal-resurrected-records" }, i, got.len(), pending.len(), lost, extra));
                            }
                        } else {
                            // records_after(n): must contain every pending record with seq > n, in order, and nothing with seq <= n
                            let want: Vec<_> = pending.iter().filter(|p| p.0 > after).cloned().collect();
                            let got_pending: Vec<_> = got.iter().filter(|g| g.0 > ckpt_seq).cloned().collect();
                            if got.iter().any(|g| g.0 <= after) { set_viol(&mut viol, format!("wal-records-after: op {} returned a record with sequence <= {}", i, after)); }
                            if after >= ckpt_seq && got_pending != want { set_viol(&mut viol, format!("wal-lost-records: op {} records_after({}) returned {} pending records, expected {}", i, after, got_pending.len(), want.len())); }
                        }
                    }
                    Err(e) => {
                        outs.push(T::C("Err", vec![T::N(err_kind(&e))]));
                        set_viol(&mut viol, format!("wal-scan-error: op {} scanning the log failed: {}", i, e));
                    }
                }
            }
            Op::Reopen => {
                drop(wal);
                match EmbeddedWal::open(&file, &header) {
                    Ok(w) => { wal = w; outs.push(T::C("Ok", vec![T::L(vec![])])); reached.push("reopen".into()); }
                    Err(e) => {
                        outs.push(T::C("Err", vec![T::N(err_kind(&e))]));
                        set_viol(&mut viol, format!("wal-scan-error: op {} reopen from header failed: {}", i, e));
                        return RunResult { outs, violation: viol, reached };
                    }
                }
            }
        }
    }
    let _ = all;
    RunResult { outs, violation: viol, reached }
}

pub fn op_term(op: &Op) -> T {
    match op {
        Op::Append(l, f) => T::C("WAppend", vec![T::N(*l as u128), T::N(*f as u128)]),
        Op::Checkpoint => T::C("WCheckpoint", vec![]),
        Op::Stats => T::C("WStats", vec![]),
        Op::Pending => T::C("WPending", vec![]),
        Op::RecordsAfter(n) => T::C("WRecordsAfter", vec![T::N(*n as u128)]),
        Op::Reopen => T::C("WReopen", vec![]),
        Op::ShouldCheckpoint => T::C("WShould", vec![]),
    }
}

fn digest_table(ops: &[Op]) -> T {
    let mut m: BTreeMap<(u64, u8), Vec<u8>> = BTreeMap::new();
    for op in ops { if let Op::Append(l, f) = op { m.entry((*l, *f)).or_insert_with(|| blake3::hash(&vec![*f; *l as usize]).as_bytes().to_vec()); } }
    T::L(m.into_iter().map(|((l, f), d)| T::Tup(vec![T::N(l as u128), T::N(f as u128), T::H(d)])).collect())
}

fn gen_ops(r: &mut Rng, size: u64, nops: usize) -> Vec<Op> {
    let mut ops = vec![];
    // track an estimate of the write head so that sizes can be aimed at the region end
    let mut head: u64 = 0; let mut pend: u64 = 0;
    for _ in 0..nops {
        let c = r.below(100);
        if c < 58 {
            let room = size.saturating_sub(head);
            let len = match r.below(10) {
                0..=3 => { // aim to end within +-60 bytes of the region end (the 48-byte edge)
                    let target = room as i64 - 48 + (r.below(121) as i64 - 60);
                    if target >= 1 { target as u64 } else { r.range(1, 40) }
                }
                4 => { let t = room as i64 - 48; if t >= 1 { t as u64 } else { 1 } }  // ends exactly at the region end
                5..=7 => r.range(1, (size / 4).max(2)),
                8 => r.range(0, 8),
                _ => r.range(size.saturating_sub(60).max(1), size + 10), // about the whole region / too large
            };
            let fill = r.below(251) as u8 + 1;
            let es = 48 + len;
            if es <= size && pend + es <= size { if head + es > size { if pend == 0 { head = es; pend += es; } } else { head += es; pend += es; } }
            ops.push(Op::Append(len, fill));
        } else if c < 74 { ops.push(Op::Checkpoint); pend = 0; }
        else if c < 86 { ops.push(Op::Pending); }
        else if c < 90 { ops.push(Op::Stats); }
        else if c < 93 { ops.push(Op::RecordsAfter(r.below(12))); }
        else if c < 96 { ops.push(Op::ShouldCheckpoint); }
        else { ops.push(Op::Reopen); }
    }
    ops.push(Op::Pending);
    ops
}

pub fn witness_cases() -> Vec<(u64, Vec<Op>)> {
    vec![
        // DESIGN F1: three 200-byte appends then a 210-byte one ends 22 bytes before the end of a 1024-byte region
        (1024, vec![Op::Append(200, 7), Op::Append(200, 8), Op::Append(200, 9), Op::Append(210, 10), Op::Pending]),
        (1024, vec![Op::Append(200, 7), Op::Append(200, 8), Op::Append(200, 9), Op::Checkpoint, Op::Append(210, 10), Op::Pending]),
        // append ends exactly at the region end
        (1024, vec![Op::Append(464, 1), Op::Append(464, 2), Op::Pending]),
        (96, vec![Op::Append(48, 1), Op::Pending]),
        // empty payload
        (1024, vec![Op::Append(10, 1), Op::Append(0, 0), Op::Append(5, 2), Op::Pending]),
        (512, vec![Op::Append(100, 3), Op::Checkpoint, Op::Append(316, 4), Op::Pending, Op::Reopen, Op::Pending]),
    ]
}

pub fn run(seed: u64, n: usize, w: &mut dyn std::io::Write) {
    let mut r = Rng::new(seed ^ 0xC05);
    let mut all: Vec<(u64, Vec<Op>, &'static str)> = witness_cases().into_iter().map(|(s, o)| (s, o, "witness")).collect();
    for i in 0..n {
        let size = match r.below(12) { 0 => r.range(1, 100), 1 => 96, 2 => 128, 3 => 200, 4 => 512, 5..=6 => 1024, 7 => 4096, 8 => r.range(100, 3000), 9 => if i % 8 == 0 { 65536 } else { 2048 }, _ => r.range(97, 700) };
        let nops = if size > 8192 { r.range(10, 40) } else { r.range(3, 60) } as usize;
        let ops = gen_ops(&mut r, size, nops);
        all.push((size, ops, "gen"));
    }
    for (size, ops, kind) in all {
        let res = execute(size, &ops);
        let input = T::Tup(vec![T::N(size as u128), digest_table(&ops), T::L(ops.iter().map(op_term).collect())]);
        let mut tags: Vec<String> = res.reached.clone(); tags.sort(); tags.dedup();
        tags.push(kind.to_string());
        tags.push(format!("size{}", if size < 97 { "<97" } else if size <= 512 { "<=512" } else if size <= 4096 { "<=4096" } else { "64k" }));
        let nontrivial = res.reached.iter().any(|t| t == "checkpoint") && res.reached.iter().filter(|t| *t == "append_ok").count() >= 2;
        let key = blake3::hash(format!("{}{:?}", size, ops).as_bytes()).to_hex()[..16].to_string();
        emit(w, "ops", &Case { input, output: T::L(res.outs), violation: res.violation, nontrivial, tags, key });
    }
}
