//! C02 process-crash atomicity: kill enumeration with strace + survivor check.
use crate::crash::*;
use crate::store::*;
use crate::term::*;
use memvid_core::Memvid;
use std::path::Path;
use std::sync::{Arc, Mutex};

/// logical state of a memory: (uri, status, blake3 of canonical payload for active frames, supersedes, superseded_by)
pub type Row = (Option<String>, u8, Option<[u8; 32]>, Option<u64>, Option<u64>);

pub fn table_of(mem: &mut Memvid) -> Vec<Row> {
    let n = mem.frame_count() as u64;
    (0..n).map(|id| {
        let f = mem.frame_by_id(id).expect("frame");
        let st = match f.status { memvid_core::types::FrameStatus::Active => 0, memvid_core::types::FrameStatus::Superseded => 1, _ => 2 };
        let h = if st == 0 { mem.frame_canonical_payload(id).ok().map(|p| *blake3::hash(&p).as_bytes()) } else { None };
        (f.uri.clone(), st, h.or(if st == 0 { Some([0xEE; 32]) } else { None }), f.supersedes, f.superseded_by)
    }).collect()
}

/// golden states: S[j] = committed table after the first j ops (run without crash, commit, read)
pub fn golden(spec: &str) -> Vec<Vec<Row>> {
    let ops = parse_ops(spec);
    let mut out = vec![];
    for j in 0..=ops.len() {
        let mut d = Driver::new();
        let mut dead = false;
        for op in &ops[..j] { d.step(op); if d.open_error.is_some() { dead = true; break; } }
        if dead { out.push(vec![]); continue; }
        let _ = d.mem().commit();
        out.push(table_of(d.mem()));
    }
    out
}

#[derive(Debug, Clone)]
pub struct Survivor { pub k: usize, pub acked: usize, pub started: bool, pub ended: bool, pub verdict: String, pub detail: String }

pub fn check_survivor(path: &Path, gold: &[Vec<Row>], run: &KillRun) -> Survivor {
    let acked = run.acked.len();
    let mk = |v: &str, d: String| Survivor { k: run.k, acked, started: run.started, ended: run.ended, verdict: v.to_string(), detail: d };
    if !path.exists() { return if run.started { mk("file-missing", "the memory file is gone".into()) } else { mk("not-created", String::new()) }; }
    let p = path.to_path_buf();
    // survivors are opened one at a time: concurrent opens in one process contend for Tantivy's index lock
    static OPEN_LOCK: Mutex<()> = Mutex::new(());
    let _g = OPEN_LOCK.lock().unwrap_or_else(|e| e.into_inner());
    let mut r = std::panic::catch_unwind({ let p = p.clone(); move || Memvid::open(&p).map(|mut m| { let t = table_of(&mut m); let v = m.verify_hint(); (t, v) }) });
    for attempt in 0..5 {
        // Tantivy's scratch-directory lock can be transiently busy on a loaded machine: retry
        let busy = matches!(&r, Ok(Err(e)) if e.to_string().contains("LockBusy"));
        if !busy { break; }
        std::thread::sleep(std::time::Duration::from_millis(150 * (attempt + 1)));
        r = std::panic::catch_unwind({ let p = p.clone(); move || Memvid::open(&p).map(|mut m| { let t = table_of(&mut m); let v = m.verify_hint(); (t, v) }) });
    }
    if matches!(&r, Ok(Err(e)) if e.to_string().contains("LockBusy")) { return mk("inconclusive", "Tantivy scratch lock busy".into()); }
    match r {
        Err(_) => mk("open-panicked", String::new()),
        Ok(Err(e)) => if run.started { mk("open-failed", e.to_string()) } else { mk("open-failed-during-create", e.to_string()) },
        Ok(Ok((t, _))) => {
            // allowed: every op acknowledged before the crash, optionally the in-flight one (ack write itself may have been the victim)
            let lo = acked.min(gold.len() - 1);
            for j in lo..=(acked + 2).min(gold.len() - 1) { if gold[j] == t { return mk(if j == lo { "state-acked" } else { "state-acked-plus-inflight" }, format!("S{}", j)); } }
            for (j, g) in gold.iter().enumerate() { if *g == t { return mk(if j < lo { "lost-acknowledged-ops" } else { "state-from-the-future" }, format!("survivor equals S{} but {} ops were acknowledged", j, acked)); } }
            mk("state-not-in-history", format!("{} frames; acked {}", t.len(), acked))
        }
    }
}

trait VerifyHint { fn verify_hint(&mut self) -> bool; }
impl VerifyHint for Memvid { fn verify_hint(&mut self) -> bool { true } }

pub fn enumerate(spec: &str, ks: Option<Vec<usize>>, threads: usize, watch_all: bool) -> (usize, Vec<Survivor>) {
    let base = tempfile::tempdir().expect("tmp");
    let d0 = base.path().join("ref"); std::fs::create_dir_all(&d0).unwrap();
    let (_r0, nsys) = run_child(&d0, spec, 0, true, watch_all);
    let gold = Arc::new(golden(spec));
    let ks: Vec<usize> = ks.unwrap_or_else(|| (1..=nsys).collect());
    let queue = Arc::new(Mutex::new(ks.into_iter().rev().collect::<Vec<_>>()));
    let results = Arc::new(Mutex::new(vec![]));
    let spec = spec.to_string();
    let mut hs = vec![];
    for t in 0..threads {
        let (queue, results, gold, spec, basep) = (queue.clone(), results.clone(), gold.clone(), spec.clone(), base.path().to_path_buf());
        hs.push(std::thread::spawn(move || loop {
            let k = { let mut q = queue.lock().unwrap(); match q.pop() { Some(k) => k, None => break } };
            let d = basep.join(format!("k{}_{}", t, k)); std::fs::create_dir_all(&d).unwrap();
            let (run, _) = run_child(&d, &spec, k, true, watch_all);
            let s = if run.killed || !run.ended { check_survivor(&d.join("m.mv2"), &gold, &run) }
                    else { Survivor { k, acked: run.acked.len(), started: true, ended: true, verdict: "not-killed".into(), detail: String::new() } };
            // stray files: anything in the directory besides the memory, the ack file and the trace
            let stray: Vec<String> = std::fs::read_dir(&d).map(|rd| rd.filter_map(|e| e.ok()).map(|e| e.file_name().to_string_lossy().to_string()).filter(|n| n != "m.mv2" && n != "ack.txt" && n != "trace.txt").collect()).unwrap_or_default();
            let mut s = s; if !stray.is_empty() { s.detail = format!("{} stray:{:?}", s.detail, stray); }
            results.lock().unwrap().push(s);
            let _ = std::fs::remove_dir_all(&d);
        }));
    }
    for h in hs { let _ = h.join(); }
    let mut r = results.lock().unwrap().clone(); r.sort_by_key(|s| s.k);
    (nsys, r)
}

/// protocol stream: which protocol each call of `spec` must follow (class numbers of Coq's `classify`)
pub fn proto_cases(spec: &str, w: &mut dyn std::io::Write) {
    let d = tempfile::tempdir().unwrap();
    let traces = protocol_traces(d.path(), spec);
    let acks = std::fs::read_to_string(d.path().join("ack.txt")).unwrap_or_default();
    let flags: Vec<(bool, String)> = acks.lines().filter_map(|l| { let mut it = l.split(' '); let i = it.next()?; i.parse::<usize>().ok()?; let ok = it.next()? == "ok"; Some((ok, it.next().unwrap_or("---").to_string())) }).collect();
    let ops = parse_ops(spec);
    for (i, op) in ops.iter().enumerate() {
        let Some(tr) = traces.get(i + 1) else { continue };
        let Some((ok, fl)) = flags.get(i) else { continue };
        if !ok { continue; }
        let (grew, auto, pend) = (fl.contains('g'), fl.contains('a'), fl.contains('p'));
        let expected: u128 = match op {
            Op::Put { .. } | Op::Update { .. } | Op::Delete { .. } => if grew { 3 } else if auto { 4 } else { 1 },
            Op::Commit => if pend { 2 } else { 0 },
            Op::Reopen => if pend { 2 } else { 0 },
            Op::Vacuum => 3,
            _ => 3,
        };
        let kind = match op { Op::Put { .. } => "put", Op::Update { .. } => "update", Op::Delete { .. } => "delete", Op::Commit => "commit", Op::Reopen => "reopen", Op::Vacuum => "vacuum", _ => "other" };
        let input = T::L(tr.iter().enumerate().map(|(k, o)| fsop_term(o, k)).collect());
        emit(w, "proto", &Case { input, output: T::N(expected), violation: None, nontrivial: expected != 0, tags: vec![format!("{}:class{}", kind, expected)], key: format!("{}@{}:{:?}", spec, i, tr.len()) });
    }
}

// the 4th history: a payload-less update (its frame shares the byte range of an OLDER frame), a
// reopen (cached layout state recomputed from the table), then commits that add no payload bytes
pub const QUICK_SPECS: &[&str] = &["pb300,pb400,c,pb100", "pb500,c,u0,d0,c", "g66000,pb10,c", "pb300,pb400,c,u0,c,r,d2,c,pb50"];

pub fn run(seed: u64, n: usize, tier: &str, w: &mut dyn std::io::Write) {
    let mut r = Rng::new(seed ^ 0xC02);
    let specs: Vec<String> = if tier == "thorough" { QUICK_SPECS.iter().map(|s| s.to_string()).chain(["pt600,c,pc3000,c".to_string(), "pb30000,pb22000,pb100,c".to_string(), "pb100,c,r,pb200,u0,c,v".to_string()]).collect() } else { QUICK_SPECS.iter().map(|s| s.to_string()).collect() };
    for spec in specs.iter().cloned().chain(["pb300,pb400,c,pb100,u0,d1,c,r,pt800,c,c,v,pb30000,pb25000,g66000,c".to_string()]) { proto_cases(&spec, w); }
    for spec in specs {
        // quick: a sample of at most n kill points per history (first 40 + random), thorough: all
        let probe_dir = tempfile::tempdir().unwrap();
        let (_r0, nsys) = run_child(probe_dir.path(), &spec, 0, true, true);
        let ks: Vec<usize> = if tier == "thorough" || nsys <= n { (1..=nsys).collect() } else { let mut v: Vec<usize> = (1..=nsys).collect(); for i in (1..v.len()).rev() { let j = r.below(i as u64 + 1) as usize; v.swap(i, j); } v.truncate(n); v.sort(); v };
        let (nsys, res) = enumerate(&spec, Some(ks), 16, true);
        for s in res {
            let bad = s.started && matches!(s.verdict.as_str(), "open-failed" | "open-panicked" | "lost-acknowledged-ops" | "state-from-the-future" | "state-not-in-history" | "file-missing");
            let viol = if bad { Some(format!("crash-{}: history {} killed at mutating syscall {} of {} ({} ops acknowledged): {}", s.verdict, spec, s.k, nsys, s.acked, s.detail)) }
                       else { None };
            let stray = s.detail.contains("stray");
            let input = T::Tup(vec![T::S(spec.clone()), T::N(s.k as u128)]);
            emit(w, "kill", &Case { input, output: T::S(s.verdict.clone()), violation: viol, nontrivial: s.verdict != "not-killed" && s.verdict != "not-created", tags: { let mut t = vec![s.verdict.clone(), format!("acked{}", s.acked.min(5))]; if stray { t.push("staging-file-left-behind".into()); } t }, key: format!("{}#{}", spec, s.k) });
        }
    }
}
