//! C01 / C06: op histories on a real Memvid against the frame-table model and an
//! independent reference table kept by the harness.
use crate::store::*;
use crate::term::*;

#[derive(Clone, Debug, PartialEq)]
pub struct RefFrame { pub uri: T_uri, pub tag: u64, pub status: u8, pub supersedes: Option<u64>, pub superseded_by: Option<u64>, pub role: u8, pub chunked: bool }
#[derive(Clone, Debug, PartialEq)]
pub enum T_uri { Default(u64), Exp(u64), Chunk(u64, u64) }

fn uri_of(s: &Option<String>) -> T_uri {
    match s {
        Some(s) => {
            if let Some(r) = s.strip_prefix("mv2://frames/") { return T_uri::Default(r.parse().unwrap_or(u64::MAX)); }
            if let Some(r) = s.strip_prefix("mv2://u/") {
                if let Some((k, p)) = r.split_once("#page-") { return T_uri::Chunk(k.parse().unwrap_or(u64::MAX), p.parse().unwrap_or(u64::MAX)); }
                return T_uri::Exp(r.parse().unwrap_or(u64::MAX));
            }
            T_uri::Exp(u64::MAX)
        }
        None => T_uri::Exp(u64::MAX),
    }
}

/// update/delete targets: committed frames of role Document (chunk frames are owned by their
/// document; deleting one makes the document unreadable by design), or an id that does not exist
fn pick_doc(r: &mut Rng, reference: &[RefFrame], n_committed: u64, unchunked_only: bool) -> u64 {
    if r.chance(1, 8) { return n_committed + r.below(3); }
    let docs: Vec<u64> = (0..n_committed.min(reference.len() as u64)).filter(|i| reference[*i as usize].role == 0 && !(unchunked_only && reference[*i as usize].chunked)).collect();
    if docs.is_empty() { n_committed } else { docs[r.below(docs.len() as u64) as usize] }
}

/// steps of the scripted idioms (resolved against the live reference when they run)
#[derive(Clone, Copy, Debug)]
enum Step { UpdNOldest, UpdNAny, DelNewest, PutSmall, PutMid, Commit, Reopen, Crash }

/// Idioms = short legal op sequences around the places where the writer's cached layout state is
/// recomputed (open, replay) or where a commit adds no payload bytes (tombstone, payload-less
/// update: the new frame shares an OLDER frame's byte range).  Random histories reach them rarely.
fn idiom(r: &mut Rng) -> Vec<Step> {
    use Step::*;
    match r.below(8) {
        0 => vec![UpdNOldest, Commit, Reopen, DelNewest, Commit],
        1 => vec![UpdNOldest, Commit, Crash, UpdNAny, Commit],
        2 => vec![DelNewest, PutSmall, Commit],
        3 => vec![UpdNAny, UpdNAny, Commit, Reopen, PutSmall, Commit],
        4 => vec![PutMid, Crash, DelNewest, Commit, Reopen],
        5 => vec![UpdNOldest, DelNewest, Commit, Reopen, UpdNAny, Commit],
        6 => vec![UpdNOldest, Commit, Reopen, PutMid, Commit, Reopen, DelNewest, Commit],
        _ => vec![DelNewest, Commit, Reopen, UpdNOldest, Commit, Crash, DelNewest, Commit],
    }
}

fn active_plain_docs(reference: &[RefFrame], n_committed: u64) -> Vec<u64> {
    (0..n_committed.min(reference.len() as u64)).filter(|i| { let f = &reference[*i as usize]; f.role == 0 && f.status == 0 && !f.chunked }).collect()
}

pub struct History { pub ops_terms: Vec<T>, pub outs: Vec<T>, pub violation: Option<String>, pub tags: Vec<String>, pub final_table: T, pub nontrivial: bool }

/// run one adaptive history; `plan` decides op kinds, sizes are aimed using live WAL stats
pub fn run_history(r: &mut Rng, nops: usize, profile: u64, maintenance: bool) -> History {
    let mut d = Driver::new();
    let mut reference: Vec<RefFrame> = vec![];
    let mut committed_len = 0usize; // reference frames known committed
    let mut ops_terms = vec![]; let mut outs = vec![]; let mut viol: Option<String> = None; let mut tags: Vec<String> = vec![];
    let mut overhead: i64 = 330; // estimated WAL record overhead for a Bin put (refined from observations)
    let mut uri_counter = 0u32;
    let mut autos = 0; let mut grows = 0; let mut crossed_edge = 0;
    let mut final_table = T::L(vec![]);
    let mut script: std::collections::VecDeque<Step> = std::collections::VecDeque::new();
    let mut idioms = 0;
    for i in 0..nops {
        let (region, pending, _, _) = memvid_core::verif_hooks::wal_stats(d.mem());
        let c = r.below(100);
        let n_committed = d.mem().frame_count() as u64;
        if script.is_empty() && i >= 3 && i + 9 < nops && active_plain_docs(&reference, n_committed).len() >= 2 && r.chance(1, 5) {
            script.extend(idiom(r)); idioms += 1;
        }
        let scripted: Option<Op> = match script.pop_front() {
            None => None,
            Some(st) => {
                let docs = active_plain_docs(&reference, n_committed);
                Some(match st {
                    Step::UpdNOldest if !docs.is_empty() => Op::Update { target: docs[0], payload: None, uri: None },
                    Step::UpdNAny if !docs.is_empty() => Op::Update { target: docs[r.below(docs.len() as u64) as usize], payload: None, uri: None },
                    Step::DelNewest if !docs.is_empty() => Op::Delete { target: *docs.last().unwrap() },
                    Step::PutSmall => Op::Put { kind: PayloadKind::Bin, size: r.range(1, 200) as usize, uri: None, ts: 1_700_000_000 + i as i64, embed: None, default_opts: false },
                    Step::PutMid => Op::Put { kind: PayloadKind::Bin, size: r.range(500, 3000) as usize, uri: None, ts: 1_700_000_000 + i as i64, embed: None, default_opts: false },
                    Step::Reopen => Op::Reopen,
                    Step::Crash => Op::Crash,
                    _ => Op::Commit,
                })
            }
        };
        let op = if i + 1 == nops { Op::Commit }
        else if let Some(o) = scripted { o }
        else if c < 62 || n_committed == 0 && c < 80 {
            let room = region as i64 - pending as i64;
            let size: usize = match (profile, r.below(10)) {
                (0, _) => r.range(1, 64) as usize,                                   // tiny payloads only
                (_, 0..=2) if region <= 262144 => { let t = room - 48 - overhead + (r.below(121) as i64 - 60); if t >= 1 { t as usize } else { r.range(1, 300) as usize } } // end near the region end
                (_, 3) if region <= 262144 => { let t = room - 48 - overhead; if t >= 1 { t as usize } else { 10 } }
                (1, _) => r.range(2500, 3600) as usize,                              // many mid-size records: crosses 75% then the end
                (2, 4..=5) => r.range(20000, 70000) as usize,                        // larger than the remaining room: forces growth
                (_, 6) => r.range(1, 16) as usize,
                _ => r.range(200, 4000) as usize,
            };
            let kind = match r.below(12) { 0 => PayloadKind::Text, 1 if profile != 1 => PayloadKind::Chunked, _ => PayloadKind::Bin };
            let size = match kind { PayloadKind::Chunked => r.range(2500, 7000) as usize, PayloadKind::Text => size.min(2000).max(1), _ => size };
            let uri = if r.chance(1, 2) { uri_counter += 1; Some(if r.chance(1, 6) && uri_counter > 1 { r.range(1, uri_counter as u64 - 1) as u32 } else { uri_counter }) } else { None };
            let default_opts = r.chance(1, 6) && !matches!(kind, PayloadKind::Bin);
            Op::Put { kind, size: size.min(70000), uri, ts: 1_700_000_000 + i as i64, embed: None, default_opts }
        } else if c < 72 && n_committed > 0 {
            let target = pick_doc(r, &reference, n_committed, true);
            let payload = if r.chance(1, 2) { Some((PayloadKind::Bin, r.range(1, 2000) as usize)) } else { None };
            let uri = if r.chance(1, 5) { uri_counter += 1; Some(uri_counter) } else { None };
            Op::Update { target, payload, uri }
        } else if c < 80 && n_committed > 0 {
            Op::Delete { target: pick_doc(r, &reference, n_committed, false) }
        } else if maintenance && c < 84 { Op::Vacuum } else if maintenance && c < 88 { Op::Doctor(r.below(16) as u8) }
        else if c < 90 { Op::Commit } else if c < 95 { Op::Reopen } else { Op::Crash };

        let (region_b, pending_b, _, _) = memvid_core::verif_hooks::wal_stats(d.mem());
        if std::env::var("MV_DEBUG").is_ok() { eprintln!("op {} {:?} wal {:?}", i, op, memvid_core::verif_hooks::wal_stats(d.mem())); }
        let obs = d.step(&op);
        if let Some(e) = d.open_error.clone() {
            viol.get_or_insert(format!("open-failed: op {} {:?}: the memory could not be opened again: {}", i, op, e));
            ops_terms.push(obs.op_term); outs.push(obs.out_term);
            break;
        }
        let (region_a, pending_a, _, _) = memvid_core::verif_hooks::wal_stats(d.mem());
        if region_a > region_b { grows += 1; }
        if obs.auto_committed { autos += 1; }
        if let Op::Put { kind: PayloadKind::Bin, size, .. } = &op {
            if obs.ok && pending_a > pending_b && region_a == region_b { overhead = pending_a as i64 - pending_b as i64 - 48 - *size as i64; }
            if obs.ok && region_a == region_b && pending_a > 0 && region_a - pending_a < 48 { crossed_edge += 1; }
        }
        // ---- reference model (acknowledged calls only) ----
        if obs.ok {
            match &op {
                Op::Put { uri, .. } => {
                    let nch = obs.next_after - obs.next_before - 1;
                    let tag = d.last_tag;
                    let id = reference.len() as u64;
                    if obs.next_before != id { viol.get_or_insert(format!("id-prediction: op {} next_frame_id() was {} before the put but the reference table holds {} frames", i, obs.next_before, id)); }
                    reference.push(RefFrame { uri: uri.map(|u| T_uri::Exp(u as u64)).unwrap_or(T_uri::Default(id)), tag, status: 0, supersedes: None, superseded_by: None, role: 0, chunked: nch > 0 });
                    for j in 0..nch {
                        let cid = reference.len() as u64;
                        reference.push(RefFrame { uri: uri.map(|u| T_uri::Chunk(u as u64, j + 1)).unwrap_or(T_uri::Default(cid)), tag: tag + j + 1, status: 0, supersedes: None, superseded_by: None, role: 1, chunked: false });
                    }
                }
                Op::Update { target, payload, uri } => {
                    let id = reference.len() as u64;
                    let old = reference[*target as usize].clone();
                    let tag = if payload.is_some() { d.last_tag } else { old.tag };
                    reference.push(RefFrame { uri: uri.map(|u| T_uri::Exp(u as u64)).unwrap_or(old.uri.clone()), tag, status: 0, supersedes: Some(*target), superseded_by: None, role: old.role, chunked: false });
                    reference[*target as usize].status = 1; reference[*target as usize].superseded_by = Some(id);
                }
                Op::Delete { target } => { reference[*target as usize].status = 2; reference[*target as usize].superseded_by = None; }
                _ => {}
            }
        } else if matches!(op, Op::Put { .. } | Op::Commit) {
            viol.get_or_insert(format!("op-failed: op {} {:?} returned an error", i, op));
        }
        ops_terms.push(obs.op_term); outs.push(obs.out_term);
        // ---- compare at quiescent points ----
        let quiescent = matches!(op, Op::Commit | Op::Reopen | Op::Crash | Op::Vacuum | Op::Doctor(_)) || obs.auto_committed;
        if let Op::Doctor(_) = op { if let Some(st) = d.last_doctor.clone() { if st == "panic" || st.starts_with("error") || st == "Failed" { viol.get_or_insert(format!("doctor-failed: op {} doctor on a healthy closed memory ended with {}", i, st)); } tags.push("doctor".into()); } }
        if let Op::Vacuum = op { tags.push("vacuum".into()); }
        if quiescent && memvid_core::verif_hooks::wal_stats(d.mem()).1 == 0 || i + 1 == nops {
            let (tt, frames) = d.table();
            final_table = tt;
            if frames.len() != reference.len() {
                viol.get_or_insert(format!("lost-or-duplicated-frames: after op {} the memory holds {} frames, {} were acknowledged", i, frames.len(), reference.len()));
            } else {
                for (k, f) in frames.iter().enumerate() {
                    let rf = &reference[k];
                    let payload = d.mem().frame_canonical_payload(k as u64).unwrap_or_default();
                    let tag = d.tags.get(blake3::hash(&payload).as_bytes()).cloned();
                    let status = match f.status { memvid_core::types::FrameStatus::Active => 0, memvid_core::types::FrameStatus::Superseded => 1, _ => 2 };
                    if f.id != k as u64 { viol.get_or_insert(format!("id-not-dense: frame at index {} has id {}", k, f.id)); }
                    if uri_of(&f.uri) != rf.uri { viol.get_or_insert(format!("frame-mismatch: after op {} frame {} has uri {:?}, reference {:?}", i, k, f.uri, rf.uri)); }
                    if status != rf.status { viol.get_or_insert(format!("frame-mismatch: after op {} frame {} has status {}, reference {}", i, k, status, rf.status)); }
                    if status == 0 && tag != Some(rf.tag) { viol.get_or_insert(format!("content-mismatch: after op {} frame {} content tag {:?}, reference {}", i, k, tag, rf.tag)); }
                    if f.supersedes != rf.supersedes || f.superseded_by != rf.superseded_by { viol.get_or_insert(format!("frame-mismatch: after op {} frame {} supersedes/superseded_by {:?}/{:?}, reference {:?}/{:?}", i, k, f.supersedes, f.superseded_by, rf.supersedes, rf.superseded_by)); }
                }
            }
            committed_len = reference.len();
        }
    }
    let _ = committed_len;
    if idioms > 0 { tags.push("idiom".into()); }
    if autos > 0 { tags.push("autocheckpoint".into()); }
    if grows > 0 { tags.push("walgrowth".into()); }
    if crossed_edge > 0 { tags.push("ended_within_48_of_region_end".into()); }
    tags.sort(); tags.dedup();
    tags.push(format!("profile{}", profile));
    let nontrivial = autos > 0 || grows > 0 || crossed_edge > 0;
    History { ops_terms, outs, violation: viol, tags, final_table, nontrivial }
}

pub fn run(seed: u64, n: usize, w: &mut dyn std::io::Write) { run_with(seed, n, w, false) }
pub fn run_c06(seed: u64, n: usize, w: &mut dyn std::io::Write) { run_with(seed ^ 0x60606, n, w, true) }

fn run_with(seed: u64, n: usize, w: &mut dyn std::io::Write, maintenance: bool) {
    let mut r = Rng::new(seed ^ 0xC01);
    for i in 0..n {
        let profile = (i % 4) as u64;
        let nops = match profile { 0 => r.range(5, 60), 1 => r.range(30, 70), _ => r.range(10, 50) } as usize;
        let h = run_history(&mut r, nops, profile, maintenance);
        let input = T::L(h.ops_terms.clone());
        let output = T::Tup(vec![T::L(h.outs.clone()), h.final_table.clone()]);
        let key = blake3::hash(input.coq().as_bytes()).to_hex()[..16].to_string();
        emit(w, "hist", &Case { input, output, violation: h.violation, nontrivial: h.nontrivial, tags: h.tags, key });
    }
}
