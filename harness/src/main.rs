mod term;
mod c07;
mod c09;
mod c23;
mod c21;
mod c22;
mod c18;
mod c28;
mod c10;
mod c29;
mod c41;
mod c17;
mod c19;
mod c20;
mod c16;
mod c11;
mod c42;
mod c40;
mod c13;
mod c26;
mod c14;
mod c08;
mod c15;
mod c24;
mod c30;
mod c25;
mod c12;
mod c33;
mod c37;
mod c27;
mod c38;
mod c36;
mod crash;
mod c02;
mod c04;
mod c34;
mod c32;
mod c39;
mod c35;
mod c31;
mod c05;
mod store;
mod c01;

fn main() {
    let args: Vec<String> = std::env::args().collect();
    if args.len() >= 6 && args[1] == "C32-child" { c32::child(&args[2..]); return; }
    if args.len() >= 5 && args[1] == "CRASH-child" { crash::child(&args[2..]); return; }
    if args.len() >= 3 && args[1] == "C02-trace" { let d = tempfile::tempdir().unwrap(); for (i, t) in crash::protocol_traces(d.path(), &args[2]).iter().enumerate() { println!("{} {:?}", i, t); } return; }
    if args.len() >= 8 && args[1] == "C20-child" { c20::child(&args[2..]); return; }
    if args.len() >= 3 && args[1] == "C17-child" { c17::child(&args[2..]); return; }
    if args.len() >= 3 && args[1] == "C17-writer" { c17::writer_child(&args[2..]); return; }
    if args.len() >= 4 && args[1] == "C18-child" { c18::child(&args[2..]); return; }
    if args.len() >= 5 && args[1] == "C22-child" { c22::child(&args[2..]); return; }
    if args.len() >= 4 && args[1] == "C23-child" { c23::child(&args[2..]); return; }
    if args.len() < 5 {
        eprintln!("usage: mvharness <property> <seed> <n> <outfile> [extra...]");
        std::process::exit(2);
    }
    let prop = args[1].as_str();
    let seed: u64 = args[2].parse().expect("seed");
    let n: usize = args[3].parse().expect("n");
    let mut out = std::io::BufWriter::new(std::fs::File::create(&args[4]).expect("outfile"));
    let _extra = &args[5..];
    match prop {
        "C31" => c31::run(seed, n, &mut out),
        "C05" => c05::run(seed, n, &mut out),
        "C02" => c02::run(seed, n, _extra.first().map(|s| s.as_str()).unwrap_or("quick"), &mut out),
        "C03" => c04::run_c03(seed, n, _extra.first().map(|s| s.as_str()).unwrap_or("quick"), &mut out),
        "C04" => c04::run(seed, n, _extra.first().map(|s| s.as_str()).unwrap_or("quick"), &mut out),
        "C01" => c01::run(seed, n, &mut out),
        "C06" => c01::run_c06(seed, n, &mut out),
        "C35" => c35::run(seed, n, &mut out),
        "C39" => c39::run(seed, n, &mut out),
        "C32" => c32::run(seed, n, _extra.first().map(|s| s.as_str()).unwrap_or("quick"), &mut out),
        "C34" => c34::run(seed, n, &mut out),
        "C36" => c36::run(seed, n, &mut out),
        "C38" => c38::run(seed, n, &mut out),
        "C27" => c27::run(seed, n, &mut out),
        "C37" => c37::run(seed, n, &mut out),
        "C33" => c33::run(seed, n, &mut out),
        "C12" => c12::run(seed, n, &mut out),
        "C25" => c25::run(seed, n, &mut out),
        "C30" => c30::run(seed, n, &mut out),
        "C24" => c24::run(seed, n, &mut out),
        "C15" => c15::run(seed, n, &mut out),
        "C08" => c08::run(seed, n, &mut out),
        "C14" => c14::run(seed, n, &mut out),
        "C26" => c26::run(seed, n, &mut out),
        "C13" => c13::run(seed, n, _extra.first().map(|s| s.as_str()).unwrap_or("quick"), &mut out),
        "C40" => c40::run(seed, n, &mut out),
        "C42" => c42::run(seed, n, &mut out),
        "C11" => c11::run(seed, n, &mut out),
        "C16" => c16::run(seed, n, _extra.first().map(|s| s.as_str()).unwrap_or("quick"), &mut out),
        "C20" => c20::run(seed, n, _extra.first().map(|s| s.as_str()).unwrap_or("quick"), &mut out),
        "C19" => c19::run(seed, n, &mut out),
        "C17" => c17::run(seed, n, &mut out),
        "C41" => c41::run(seed, n, _extra.first().map(|s| s.as_str()).unwrap_or("quick"), &mut out),
        "C29" => c29::run(seed, n, &mut out),
        "C10" => c10::run(seed, n, &mut out),
        "C28" => c28::run(seed, n, &mut out),
        "C18" => c18::run(seed, n, _extra.first().map(|s| s.as_str()).unwrap_or("quick"), &mut out),
        "C22" => c22::run(seed, n, _extra.first().map(|s| s.as_str()).unwrap_or("quick"), &mut out),
        "C21" => c21::run(seed, n, _extra.first().map(|s| s.as_str()).unwrap_or("quick"), &mut out),
        "C23" => c23::run(seed, n, &mut out),
        "C09" => c09::run(seed, n, &mut out),
        "C07" => c07::run(seed, n, &mut out),
        _ => { eprintln!("unknown property {}", prop); std::process::exit(2); }
    }
}
