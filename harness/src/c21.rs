//! C21: Memvid::doctor on real memory files.
//! A base memory is built through the shared driver (puts of text / binary documents, some with
//! embeddings, updates, deletes, several commits) and closed either normally or without the commit on
//! drop (acknowledged records stay pending in the log).  Each case takes a COPY of the base file, applies
//! one targeted damage with std::fs (regions delimited with the public Header / Toc / footer types), and
//! runs: doctor(options) -> verify(deep) -> doctor(default or same options) -> open + frame table.
//! The model's input is the abstract description of the damaged file (by construction of the damage),
//! its expected output the implementation's report.  The property oracle works on the implementation
//! alone: reference table = the undamaged copy opened normally (pending records replayed by open).
use crate::store::*;
use crate::term::*;
use memvid_core::io::header::HeaderCodec;
use memvid_core::types::{DoctorOptions, DoctorStatus, Frame, FrameStatus, Header, Toc, VerificationStatus};
use memvid_core::{find_last_valid_footer, Memvid};
use std::collections::HashMap;
use std::path::{Path, PathBuf};

#[repr(C)]
struct RLimit { cur: u64, max: u64 }
extern "C" {
    fn setrlimit(resource: i32, rlim: *const RLimit) -> i32;
    fn signal(signum: i32, handler: usize) -> usize;
}
/// a damaged file can make the implementation write gigabytes of scratch data: cap file sizes at 1 GiB
/// (writes beyond fail with EFBIG instead of killing the process)
fn limit_file_size() {
    unsafe {
        signal(25, 1); // SIGXFSZ -> SIG_IGN
        let l = RLimit { cur: 1 << 30, max: 1 << 30 };
        let _ = setrlimit(1, &l); // RLIMIT_FSIZE
    }
}

fn emb_of(k: u64) -> Vec<f32> { vec![(k % 7) as f32, ((k / 7) % 7) as f32, ((k / 49) % 7) as f32, 1.0 + (k % 3) as f32] }

/// every column of a frame except its payload window (vacuum moves payloads)
fn meta_desc(f: &Frame) -> String { let mut g = f.clone(); g.payload_offset = 0; g.payload_length = 0; format!("{:?}", g) }

#[derive(Clone, Debug, PartialEq)]
struct Row { id: u64, status: u8, meta: String, content: String, tag: u64 }

fn status_n(s: FrameStatus) -> u8 { match s { FrameStatus::Active => 0, FrameStatus::Superseded => 1, FrameStatus::Deleted => 2 } }

fn table_of(mem: &mut Memvid, tags: &HashMap<[u8; 32], u64>) -> Vec<Row> {
    let n = mem.frame_count() as u64;
    let mut v = vec![];
    for id in 0..n {
        let f = match mem.frame_by_id(id) { Ok(f) => f, Err(e) => { v.push(Row { id, status: 9, meta: format!("frame_by_id error {}", e), content: String::new(), tag: 1 }); continue; } };
        let (content, tag) = if f.status == FrameStatus::Active {
            match std::panic::catch_unwind(std::panic::AssertUnwindSafe(|| mem.frame_canonical_payload(id))) {
                Ok(Ok(b)) => { let h = blake3::hash(&b); (h.to_hex()[..16].to_string(), tags.get(h.as_bytes()).cloned().unwrap_or(1)) }
                Ok(Err(e)) => (format!("error {}", e), 1),
                Err(_) => ("panic".into(), 1),
            }
        } else { (String::new(), 0) };
        v.push(Row { id, status: status_n(f.status), meta: meta_desc(&f), content, tag });
    }
    v
}

fn rows_term(t: &[Row]) -> T { T::L(t.iter().map(|r| T::Tup(vec![T::N(r.status as u128), T::N(r.tag as u128)])).collect()) }

struct Layout { header: Header, len: u64, toc: Toc, toc_off: u64, footer_off: u64 }

fn layout(bytes: &[u8]) -> Option<Layout> {
    let hb: [u8; 4096] = bytes.get(..4096)?.try_into().ok()?;
    let header = HeaderCodec::decode(&hb).ok()?;
    let fs = find_last_valid_footer(bytes)?;
    let toc = Toc::decode(fs.toc_bytes).ok()?;
    Some(Layout { header, len: bytes.len() as u64, toc, toc_off: fs.toc_offset as u64, footer_off: fs.footer_offset as u64 })
}

/// commits (footer + TOC whose hash still matches) found anywhere in the file
fn count_valid_footers(bytes: &[u8]) -> usize {
    let mut n = 0; let mut end = bytes.len();
    while end >= 56 { match find_last_valid_footer(&bytes[..end]) { Some(fs) => { n += 1; end = fs.footer_offset + 55; } None => break } }
    n
}

#[derive(Clone, Debug, PartialEq)]
enum Damage {
    None,
    // header pointer
    PtrPlus(u64), PtrMinus(u64), PtrZero, PtrBeyond(u64), PtrAtFooter,
    // TOC checksum: the header's copy / the field stored inside the TOC
    HdrCksum(usize), TocCksumField(usize),
    // footer, per field
    FooterMagic(usize), FooterLen(usize), FooterHash(usize), FooterGen(usize),
    // index segments
    TimeZero, VecZero, LexSegZero(usize),
    // outside the property's list
    WalGarbage, TocByte(u64),
}

impl Damage {
    fn name(&self) -> &'static str {
        match self {
            Damage::None => "none", Damage::PtrPlus(_) => "ptr+k", Damage::PtrMinus(_) => "ptr-k", Damage::PtrZero => "ptr0", Damage::PtrBeyond(_) => "ptr>eof", Damage::PtrAtFooter => "ptr=footer",
            Damage::HdrCksum(_) => "hdr-toc-checksum", Damage::TocCksumField(_) => "toc-checksum-field", Damage::FooterMagic(_) => "footer-magic", Damage::FooterLen(_) => "footer-len",
            Damage::FooterHash(_) => "footer-hash", Damage::FooterGen(_) => "footer-generation", Damage::TimeZero => "time-index-zeroed", Damage::VecZero => "vec-index-zeroed",
            Damage::LexSegZero(_) => "tantivy-segment-zeroed", Damage::WalGarbage => "log-garbage", Damage::TocByte(_) => "toc-byte",
        }
    }
    fn is_ptr(&self) -> bool { matches!(self, Damage::PtrPlus(_) | Damage::PtrMinus(_) | Damage::PtrZero | Damage::PtrBeyond(_) | Damage::PtrAtFooter) }
    fn is_footer(&self) -> bool { matches!(self, Damage::FooterMagic(_) | Damage::FooterLen(_) | Damage::FooterHash(_)) }
    fn in_list(&self) -> bool { !matches!(self, Damage::WalGarbage | Damage::TocByte(_)) }
}

fn zero(bytes: &mut [u8], off: u64, len: u64) { for x in &mut bytes[off as usize..(off + len) as usize] { *x = 0; } }

fn apply_damage(bytes: &mut Vec<u8>, l: &Layout, d: &Damage) -> bool {
    let put_ptr = |b: &mut Vec<u8>, v: u64| b[8..16].copy_from_slice(&v.to_le_bytes());
    let fo = l.footer_off as usize;
    match d {
        Damage::None => true,
        Damage::PtrPlus(k) => { put_ptr(bytes, l.header.footer_offset + k); true }
        Damage::PtrMinus(k) => { put_ptr(bytes, l.header.footer_offset.saturating_sub(*k)); *k > 0 && l.header.footer_offset >= *k }
        Damage::PtrZero => { put_ptr(bytes, 0); true }
        Damage::PtrBeyond(k) => { put_ptr(bytes, l.len + k); true }
        Damage::PtrAtFooter => { put_ptr(bytes, l.footer_off); true }
        Damage::HdrCksum(i) => { bytes[48 + i % 32] ^= 0x40; true }
        Damage::FooterMagic(i) => { bytes[fo + i % 8] ^= 0x01; true }
        Damage::FooterLen(i) => { bytes[fo + 8 + i % 8] ^= 0x01; true }
        Damage::FooterHash(i) => { bytes[fo + 16 + i % 32] ^= 0x10; true }
        Damage::FooterGen(i) => { bytes[fo + 48 + i % 8] ^= 0x01; true }
        Damage::TocCksumField(i) => {
            // the TOC ends with its own 32-byte checksum; make sure that is what we are flipping
            if bytes[fo - 32..fo] != l.toc.toc_checksum { return false; }
            bytes[fo - 32 + i % 32] ^= 0x04; true
        }
        Damage::TocByte(p) => { let n = l.footer_off - l.toc_off - 32; bytes[(l.toc_off + p % n) as usize] ^= 0x08; true }
        Damage::TimeZero => match &l.toc.time_index { Some(m) if m.bytes_length > 0 => { zero(bytes, m.bytes_offset, m.bytes_length); true } _ => false },
        Damage::VecZero => match &l.toc.indexes.vec { Some(m) if m.bytes_length > 0 => { zero(bytes, m.bytes_offset, m.bytes_length); true } _ => false },
        Damage::LexSegZero(k) => { let s = &l.toc.indexes.lex_segments; if s.is_empty() { return false; } let m = &s[k % s.len()]; if m.bytes_length == 0 { return false; } zero(bytes, m.bytes_offset, m.bytes_length); true }
        Damage::WalGarbage => { let o = l.header.wal_offset as usize; for (i, x) in bytes[o..o + 64].iter_mut().enumerate() { *x = 0xA5 ^ i as u8; } true }
    }
}

fn opts_of(bits: u8) -> DoctorOptions { DoctorOptions { rebuild_time_index: bits & 1 != 0, rebuild_lex_index: bits & 2 != 0, rebuild_vec_index: bits & 4 != 0, vacuum: bits & 8 != 0, dry_run: bits & 16 != 0, quiet: true } }

struct DocRun { status: u128, findings: Vec<u128>, phases: Vec<u128>, text: String, heal_ptr_executed: bool }

fn run_doctor(path: &Path, bits: u8) -> DocRun {
    let p = path.to_path_buf();
    match std::panic::catch_unwind(move || Memvid::doctor(&p, opts_of(bits))) {
        Ok(Ok(r)) => {
            let status = match r.status { DoctorStatus::Clean => 0, DoctorStatus::Healed => 1, DoctorStatus::Partial => 2, DoctorStatus::Failed => 3, DoctorStatus::PlanOnly => 4 };
            let mut findings: Vec<u128> = r.plan.findings.iter().map(|f| f.code as u128).collect();
            if bits & 16 == 0 { findings.extend(r.findings.iter().map(|f| f.code as u128)); }
            let phases: Vec<u128> = r.plan.phases.iter().map(|p| p.phase as u128).collect();
            let detail: Vec<String> = r.phases.iter().map(|p| format!("{:?}:{:?}", p.phase, p.status)).collect();
            let msgs: Vec<String> = r.findings.iter().map(|f| format!("{:?}: {}", f.code, f.message)).collect();
            let heal_ptr_executed = r.phases.iter().any(|p| p.actions.iter().any(|a| matches!(a.action, memvid_core::types::DoctorActionKind::HealHeaderPointer) && matches!(a.status, memvid_core::types::DoctorActionStatus::Executed)));
            DocRun { status, findings, phases, text: format!("{:?} phases {:?} findings {:?}", r.status, detail, msgs), heal_ptr_executed }
        }
        Ok(Err(e)) => DocRun { status: 9, findings: vec![], phases: vec![], text: format!("doctor returned an error: {}", e), heal_ptr_executed: false },
        Err(_) => DocRun { status: 9, findings: vec![], phases: vec![], text: "doctor panicked".into(), heal_ptr_executed: false },
    }
}

fn verify_status(path: &Path) -> (bool, String) {
    let p = path.to_path_buf();
    match std::panic::catch_unwind(move || Memvid::verify(&p, true)) {
        Ok(Ok(rep)) => {
            let failed: Vec<String> = rep.checks.iter().filter(|c| c.status == VerificationStatus::Failed).map(|c| format!("{} ({})", c.name, c.details.clone().unwrap_or_default())).collect();
            (rep.overall_status == VerificationStatus::Passed, failed.join(", "))
        }
        Ok(Err(e)) => (false, format!("verify returned an error: {}", e)),
        Err(_) => (false, "verify panicked".into()),
    }
}

fn open_table(path: &Path, tags: &HashMap<[u8; 32], u64>) -> Result<(Vec<Row>, u64), String> { open_table_emb(path, tags).map(|(t, nv, _)| (t, nv)) }

/// frame table, vector count, and per frame whether the vector index holds an embedding for it
fn open_table_emb(path: &Path, tags: &HashMap<[u8; 32], u64>) -> Result<(Vec<Row>, u64, Vec<bool>), String> {
    let p = path.to_path_buf();
    match std::panic::catch_unwind(std::panic::AssertUnwindSafe(move || -> Result<(Vec<Row>, u64, Vec<bool>), String> {
        let mut m = Memvid::open(&p).map_err(|e| format!("{}", e))?;
        let t = table_of(&mut m, tags);
        let nv = m.stats().map(|s| s.vector_count).unwrap_or(u64::MAX >> 8);
        let emb: Vec<bool> = (0..t.len() as u64).map(|id| matches!(m.frame_embedding(id), Ok(Some(_)))).collect();
        Ok((t, nv, emb))
    })) { Ok(r) => r, Err(_) => Err("panic".into()) }
}

#[derive(Clone, Debug)]
enum Pop { Ins(u64, bool), Upd(u64, u64), Del(u64) }

struct Base { profile: usize, pemb: u64, bytes: Vec<u8>, l: Layout, rows: Vec<Row>, pops: Vec<Pop>, tags: HashMap<[u8; 32], u64>, ref_table: Vec<Row>, ref_nvec: u64, dir: tempfile::TempDir, desc: String, old_footers: usize }

/// history profiles of the base memory.  1-4 contain the layout idioms that make payload byte ranges shared or
/// out of id order (a payload-less update creates a NEWER frame that points at an OLDER frame's bytes).
const PROFILES: [&str; 5] = ["random", "A,B,commit,update(A,None),commit", "payload-less-update-of-middle+more-puts", "update-with-payload+delete-newest+payload-less-update", "updates+vacuum"];

fn build_base(r: &mut Rng, profile: usize, pending: bool) -> Option<Base> {
    let mut d = Driver::new();
    let mut ts = 1_700_000_000i64;
    let mut uri = 0u32;
    let with_vec = r.chance(3, 4);
    let mut put = |d: &mut Driver, r: &mut Rng, size: usize, ts: &mut i64, uri: &mut u32| -> bool {
        *ts += r.range(1, 50) as i64; *uri += 1;
        let kind = match r.below(4) { 0 => PayloadKind::Bin, _ => PayloadKind::Text };
        let embed = if with_vec && r.chance(1, 2) { Some(emb_of(r.below(300))) } else { None };
        d.step(&Op::Put { kind, size, uri: Some(*uri), ts: *ts, embed, default_opts: false }).ok
    };
    let rsize = |r: &mut Rng| -> usize { match r.below(5) { 0 => r.range(1, 30) as usize, 4 => r.range(1500, 2300) as usize, _ => r.range(40, 600) as usize } };
    match profile {
        1 => {
            // put A, put B, commit, update_frame(A, None), commit: frame 2 (newest) shares frame 0's bytes, B lies behind them
            if !put(&mut d, r, 300, &mut ts, &mut uri) || !put(&mut d, r, 220, &mut ts, &mut uri) { return None; }
            if !d.step(&Op::Commit).ok { return None; }
            if !d.step(&Op::Update { target: 0, payload: None, uri: None }).ok { return None; }
            if !d.step(&Op::Commit).ok { return None; }
        }
        2 => {
            let n = r.range(3, 5);
            for _ in 0..n { let sz = rsize(r); if !put(&mut d, r, sz, &mut ts, &mut uri) { return None; } }
            if !d.step(&Op::Commit).ok { return None; }
            if !d.step(&Op::Update { target: r.range(1, n - 2), payload: None, uri: None }).ok { return None; }
            if !d.step(&Op::Commit).ok { return None; }
            if r.chance(2, 3) { for _ in 0..r.range(1, 2) { let sz = rsize(r); if !put(&mut d, r, sz, &mut ts, &mut uri) { return None; } } if !d.step(&Op::Commit).ok { return None; } }
        }
        3 => {
            let n = r.range(3, 4);
            for _ in 0..n { let sz = rsize(r); if !put(&mut d, r, sz, &mut ts, &mut uri) { return None; } }
            if !d.step(&Op::Commit).ok { return None; }
            if !d.step(&Op::Update { target: 0, payload: Some((PayloadKind::Text, r.range(30, 300) as usize)), uri: None }).ok { return None; }
            if !d.step(&Op::Delete { target: n - 1 }).ok { return None; }
            if !d.step(&Op::Commit).ok { return None; }
            if !d.step(&Op::Update { target: r.range(1, n - 2), payload: None, uri: None }).ok { return None; }
            if !d.step(&Op::Commit).ok { return None; }
        }
        4 => {
            for _ in 0..4 { let sz = rsize(r); if !put(&mut d, r, sz, &mut ts, &mut uri) { return None; } }
            if !d.step(&Op::Commit).ok { return None; }
            if !d.step(&Op::Delete { target: 2 }).ok { return None; }
            if !d.step(&Op::Update { target: 1, payload: Some((PayloadKind::Text, r.range(30, 300) as usize)), uri: None }).ok { return None; }
            if !d.step(&Op::Update { target: 0, payload: None, uri: None }).ok { return None; }
            if !d.step(&Op::Commit).ok { return None; }
            if !d.step(&Op::Vacuum).ok { return None; }
            if r.chance(1, 2) { let sz = rsize(r); if !put(&mut d, r, sz, &mut ts, &mut uri) { return None; } if !d.step(&Op::Commit).ok { return None; } }
        }
        _ => {
            let rounds = r.range(1, 3);
            for round in 0..rounds {
                let n = r.range(2, 4);
                for _ in 0..n { let sz = rsize(r); if !put(&mut d, r, sz, &mut ts, &mut uri) { return None; } }
                if !d.step(&Op::Commit).ok { return None; }
                if round > 0 || r.chance(1, 2) {
                    let n = d.mem().frame_count() as u64;
                    let a = r.below(n); let b = (a + 1 + r.below(n - 1)) % n;
                    d.step(&Op::Delete { target: a });
                    d.step(&Op::Update { target: b, payload: Some((PayloadKind::Text, r.range(30, 300) as usize)), uri: None });
                    if !d.step(&Op::Commit).ok { return None; }
                }
            }
        }
    }
    // committed table
    let committed_n = d.mem().frame_count() as u64;
    let tags0 = d.tags.clone();
    let rows = table_of(d.mem(), &tags0);
    let mut pops = vec![];
    if pending {
        let k = r.range(1, 3);
        for _ in 0..k {
            ts += 3; uri += 1;
            let kind = if r.chance(1, 3) { PayloadKind::Bin } else { PayloadKind::Text };
            let embed = if with_vec && r.chance(1, 2) { Some(emb_of(r.below(300))) } else { None };
            let embedded = embed.is_some();
            let o = d.step(&Op::Put { kind, size: r.range(20, 500) as usize, uri: Some(uri), ts, embed, default_opts: false });
            if !o.ok || o.auto_committed { return None; }
            pops.push(Pop::Ins(d.last_tag, embedded));
        }
        let act: Vec<u64> = rows.iter().filter(|x| x.status == 0).map(|x| x.id).collect();
        if act.len() >= 2 && r.chance(2, 3) {
            let a = act[r.below(act.len() as u64) as usize];
            let o = d.step(&Op::Delete { target: a }); if !o.ok || o.auto_committed { return None; }
            pops.push(Pop::Del(a));
            if r.chance(1, 2) {
                let b = *act.iter().find(|x| **x != a).unwrap();
                let o = d.step(&Op::Update { target: b, payload: Some((PayloadKind::Text, r.range(30, 200) as usize)), uri: None }); if !o.ok || o.auto_committed { return None; }
                pops.push(Pop::Upd(b, d.last_tag));
            }
        }
        // a pending payload-less update: the new frame re-uses the bytes (and the content) of a committed frame
        let used: Vec<u64> = pops.iter().filter_map(|p| match p { Pop::Upd(a, _) | Pop::Del(a) => Some(*a), _ => None }).collect();
        if profile != 0 && r.chance(2, 3) {
            if let Some(x) = rows.iter().find(|x| x.status == 0 && !used.contains(&x.id)) {
                let o = d.step(&Op::Update { target: x.id, payload: None, uri: None }); if !o.ok || o.auto_committed { return None; }
                pops.push(Pop::Upd(x.id, x.tag));
            }
        }
        if d.mem().frame_count() as u64 != committed_n { return None; }
        let m = d.mem.take().unwrap();
        memvid_core::verif_hooks::drop_without_commit(m);
    } else {
        let m = d.mem.take().unwrap();
        drop(m);
    }
    let tags = d.tags.clone();
    let bytes = std::fs::read(&d.path).ok()?;
    let l = layout(&bytes)?;
    if l.header.footer_offset != l.toc_off || l.toc.frames.len() as u64 != committed_n { return None; }
    let dir = tempfile::tempdir().ok()?;
    let refp = dir.path().join("ref.mv2");
    std::fs::write(&refp, &bytes).ok()?;
    let (ref_table, ref_nvec, ref_emb) = open_table_emb(&refp, &tags).ok()?;
    // embeddings carried by the pending records (an update inherits the embedding of the frame it supersedes)
    let pemb = ref_emb.iter().skip(committed_n as usize).filter(|x| **x).count() as u64;
    let old_footers = count_valid_footers(&bytes).saturating_sub(1);
    let desc = format!("history '{}': {} committed frames, pending {:?}, {} vectors, file {} bytes, toc at {}, footer at {}", PROFILES[profile], committed_n, pops, ref_nvec, l.len, l.toc_off, l.footer_off);
    Some(Base { profile, pemb, bytes, l, rows, pops, tags, ref_table, ref_nvec, dir, desc, old_footers })
}

fn b(x: bool) -> T { T::B(x) }

/// the abstract file (Model/Doctor.v afile, through Corr/C21.v file_of) for base + damages
fn abstract_input(base: &Base, dmgs: &[Damage], bits: u8, same: bool) -> T {
    let l = &base.l;
    let (mut ptr, toc, foot) = (l.header.footer_offset, l.toc_off, l.footer_off);
    let (mut h, mut s, c) = (1u64, 1u64, 1u64);
    let (mut footer, mut tocbytes) = (true, true);
    let mut walk = if base.pops.is_empty() { 0 } else { 1 };
    let mut time = if l.toc.time_index.is_some() { 1 } else { 0 };
    let lex = !l.toc.indexes.lex_segments.is_empty();
    let mut vec = if l.toc.indexes.vec.is_some() { 1 } else { 0 };
    for d in dmgs {
        match d {
            Damage::None | Damage::FooterGen(_) | Damage::LexSegZero(_) | Damage::TocByte(_) => {}
            Damage::PtrPlus(k) => ptr = l.header.footer_offset + k,
            Damage::PtrMinus(k) => ptr = l.header.footer_offset - k,
            Damage::PtrZero => ptr = 0,
            Damage::PtrBeyond(k) => ptr = l.len + k,
            Damage::PtrAtFooter => ptr = l.footer_off,
            Damage::HdrCksum(_) => h = 2,
            Damage::TocCksumField(_) => { s = 3; tocbytes = false; }
            Damage::FooterMagic(_) | Damage::FooterLen(_) | Damage::FooterHash(_) => footer = false,
            Damage::TimeZero => time = 2,
            Damage::VecZero => vec = 2,
            Damage::WalGarbage => walk = 2,
        }
    }
    let pops: Vec<T> = base.pops.iter().map(|p| match p { Pop::Ins(t, _) => T::Tup(vec![T::N(0), T::N(*t as u128), T::N(0)]), Pop::Upd(a, t) => T::Tup(vec![T::N(1), T::N(*a as u128), T::N(*t as u128)]), Pop::Del(a) => T::Tup(vec![T::N(2), T::N(*a as u128), T::N(0)]) }).collect();
    T::Tup(vec![
        T::Tup(vec![T::N(ptr as u128), T::N(toc as u128), T::N(foot as u128), T::N(h as u128), T::N(s as u128), T::N(c as u128)]),
        T::Tup(vec![b(footer), b(tocbytes), b(true)]),
        T::Tup(vec![T::N(walk), T::L(pops)]),
        // embeddings of active frames the index holds once the READABLE pending records are applied: an unreadable
        // log contributes none, an index whose bytes are damaged contributes none (only the pending embeddings remain)
        T::Tup(vec![T::N(time), b(lex), T::N(vec), T::N({
            let committed = if vec == 2 { 0 } else { l.toc.indexes.vec.as_ref().map_or(0, |m| m.vector_count) };
            let pemb = base.pemb;
            if walk == 2 { committed } else if vec == 2 { pemb } else { base.ref_nvec }
        } as u128)]),
        rows_term(&base.rows),
        T::Tup(vec![b(bits & 1 != 0), b(bits & 2 != 0), b(bits & 4 != 0), b(bits & 8 != 0), b(bits & 16 != 0)]),
        b(same),
    ])
}

fn one_case(base: &Base, dmgs: &[Damage], bits: u8, same: bool, w: &mut dyn std::io::Write, stream: &str) -> bool {
    let mut bytes = base.bytes.clone();
    for d in dmgs { if !apply_damage(&mut bytes, &base.l, d) { return false; } }
    let p = base.dir.path().join("work.mv2");
    std::fs::write(&p, &bytes).expect("write work copy");
    let dry = bits & 16 != 0;
    let has_insert = base.pops.iter().any(|p| !matches!(p, Pop::Del(_)));
    let ptr_damaged = dmgs.iter().any(|d| d.is_ptr());
    let in_list = dmgs.iter().all(|d| d.in_list()) && !(ptr_damaged && dmgs.iter().any(|d| d.is_footer() || matches!(d, Damage::TocCksumField(_))));
    // a non-dry run happens (the first, or the second with default options)
    let healing_run = !dry || !same;
    let stale = healing_run && ptr_damaged && has_insert;
    let tocck = healing_run && dmgs.iter().any(|d| matches!(d, Damage::TocCksumField(_))) && base.pops.is_empty();

    let r1 = run_doctor(&p, bits);
    let after1 = std::fs::read(&p).unwrap_or_default();
    let (vpass, vtext) = verify_status(&p);
    let bits2 = if same { bits } else { 0 };
    let r2 = run_doctor(&p, bits2);
    let opened = open_table(&p, &base.tags);

    // ---- property oracle (implementation only) ----
    let mut viol: Option<String> = None;
    // F-C21-1 (pointer damage + pending insert) was repaired by f76b325: a failure there is a plain violation again
    let class = |sym: &str| -> String { if tocck { "toc-checksum-field".into() } else if stale { format!("{}(repaired-class stale-pointer-after-replay)", sym) } else { sym.to_string() } };
    let ctx = format!("[{}; damage {:?}; options time={} lex={} vec={} vacuum={} dry_run={}]", base.desc, dmgs, bits & 1 != 0, bits & 2 != 0, bits & 4 != 0, bits & 8 != 0, dry);
    if in_list {
        if dry {
            if after1 != bytes { viol.get_or_insert(format!("dry-run-wrote: doctor with dry_run changed the file {}", ctx)); }
            if r1.status != 0 && r1.status != 4 { viol.get_or_insert(format!("dry-run-status: dry run reported {} {}", r1.text, ctx)); }
        } else {
            if r1.status != 0 && r1.status != 1 { viol.get_or_insert(format!("{}: doctor did not heal the file: {} {}", class("doctor-failed"), r1.text, ctx)); }
            if !vpass { viol.get_or_insert(format!("{}: verify(deep) after doctor: {} {}", class("verify-failed"), vtext, ctx)); }
            let want2: &[u128] = if same && bits & 15 != 0 { &[0, 1] } else { &[0] };
            if !want2.contains(&r2.status) { viol.get_or_insert(format!("{}: the second doctor run ({}) reported {} {}", class("second-run-not-clean"), if same { "same options" } else { "default options" }, r2.text, ctx)); }
        }
        // with two dry runs doctor never touched the file: what open does with the damage is not doctor's
        if healing_run { match &opened {
            Err(e) => { viol.get_or_insert(format!("{}: the memory does not open after doctor: {} {}", class("open-failed"), e, ctx)); }
            Ok((t, _)) => {
                for rr in base.ref_table.iter().filter(|x| x.status == 0) {
                    match t.iter().find(|x| x.id == rr.id) {
                        None => { viol.get_or_insert(format!("{}: active frame {} is gone after doctor (table has {} rows) {}", class("frame-lost"), rr.id, t.len(), ctx)); }
                        Some(x) => {
                            if x.status != rr.status || x.content != rr.content { viol.get_or_insert(format!("{}: active frame {} altered after doctor: status {} -> {}, content {} -> {} {}", class("frame-altered"), rr.id, rr.status, x.status, rr.content, x.content, ctx)); }
                            else if x.meta != rr.meta { viol.get_or_insert(format!("{}: active frame {} metadata altered after doctor: {} -> {} {}", class("frame-meta-altered"), rr.id, rr.meta, x.meta, ctx)); }
                        }
                    }
                }
            }
        } }
    }

    // ---- output for the model ----
    let findings = T::L(r1.findings.iter().map(|x| T::N(*x)).collect());
    let phases = T::L(r1.phases.iter().map(|x| T::N(*x)).collect());
    let out = {
        let (ok, rows, nv) = match &opened { Ok((t, nv)) => (true, T::some(rows_term(t)), *nv), Err(_) => (false, T::none(), 0) };
        // two dry runs on a damaged vector index: the count is open's own doing (C14), not compared (Corr/C21.v)
        let nv = if !healing_run && dmgs.contains(&Damage::VecZero) { 0 } else { nv };
        T::Tup(vec![T::N(r1.status), findings, phases, b(vpass), T::N(r2.status), b(ok), rows, T::N(nv as u128)])
    };
    let mut tags: Vec<String> = dmgs.iter().map(|d| format!("damage:{}", d.name())).collect();
    tags.push(format!("history:{}", PROFILES[base.profile]));
    tags.push(format!("log:{}", if base.pops.is_empty() { "clean" } else if dmgs.contains(&Damage::WalGarbage) { "corrupt-with-pending" } else { "pending" }));
    tags.push(format!("opts:{}{}", bits & 15, if dry { "+dry" } else { "" }));
    tags.push(format!("second:{}", if same { "same" } else { "default" }));
    tags.push(format!("status1:{}", r1.status)); tags.push(format!("status2:{}", r2.status));
    tags.push(if in_list { "in-list".into() } else { "outside-list".into() });
    if base.old_footers > 0 { tags.push("older-valid-footer-in-file".into()); }
    if stale { tags.push("ptr-damage+pending-insert(F-C21-1 fixed)".into()); }
    // the repaired HealHeaderPointer still writes when the planned target lies AHEAD of the handle's pointer
    if r1.heal_ptr_executed || r2.heal_ptr_executed { tags.push("heal-header-pointer-EXECUTED".into()); }
    // since fix 83a83e8 a vector rebuild keeps the embeddings; only a damaged index (the only copy) loses them
    if let Ok((_, nv)) = &opened { if *nv < base.ref_nvec { tags.push(if dmgs.contains(&Damage::VecZero) { "vectors-lost(damaged-index)".to_string() } else if dmgs.contains(&Damage::WalGarbage) { "vectors-lost(unreadable-log)".to_string() } else { "vectors-lost-UNEXPECTED".to_string() }); } }
    let input = abstract_input(base, dmgs, bits, same);
    let key = blake3::hash(format!("{}{:?}{}{}", blake3::hash(&base.bytes).to_hex(), dmgs, bits, same).as_bytes()).to_hex()[..16].to_string();
    let nontrivial = !(dmgs.iter().all(|d| *d == Damage::None) && base.pops.is_empty() && bits == 0);
    if std::env::var("MV_DEBUG").is_ok() { eprintln!("C21 {:?} bits {} same {} -> {} | verify {} {} | 2nd {} | open {:?} | viol {:?}", dmgs, bits, same, r1.text, vpass, vtext, r2.text, opened.as_ref().map(|(t, nv)| (t.len(), *nv)).map_err(|e| e.clone()), viol); }
    emit(w, stream, &Case { input, output: out, violation: viol, nontrivial, tags, key });
    true
}

fn pick_damage(r: &mut Rng, class: u64) -> Damage {
    match class {
        0 => Damage::None,
        1 => match r.below(5) { 0 => Damage::PtrPlus(r.range(1, 300)), 1 => Damage::PtrMinus(r.range(1, 300)), 2 => Damage::PtrZero, 3 => Damage::PtrBeyond(r.below(5000)), _ => Damage::PtrAtFooter },
        2 => Damage::HdrCksum(r.below(32) as usize),
        3 => match r.below(3) { 0 => Damage::FooterMagic(r.below(8) as usize), 1 => Damage::FooterLen(r.below(8) as usize), _ => Damage::FooterHash(r.below(32) as usize) },
        4 => Damage::FooterGen(r.below(8) as usize),
        5 => Damage::TocCksumField(r.below(32) as usize),
        6 => Damage::TimeZero,
        7 => Damage::VecZero,
        8 => Damage::LexSegZero(r.below(8) as usize),
        10 => if r.chance(1, 2) { Damage::FooterLen(r.below(8) as usize) } else { Damage::FooterHash(r.below(32) as usize) },
        _ => Damage::WalGarbage,
    }
}

pub fn run(seed: u64, n: usize, tier: &str, w: &mut dyn std::io::Write) {
    limit_file_size();
    // private scratch directory for everything this run (and Tantivy) creates
    let scratch = tempfile::tempdir().expect("scratch dir");
    std::env::set_var("TMPDIR", scratch.path());
    let mut r = Rng::new(seed ^ 0xC21);
    let thorough = tier == "thorough";
    // plan entries: (history profile, crash-left?, damage classes, fixed option bits or random).
    // The head runs first on every seed: the shared-byte-range base of the coordinator's seeded change
    // (rebuild_time_index; damaged time index with default options), then the known / repaired classes.
    type E = (usize, bool, Vec<u64>, Option<u8>);
    let head: Vec<E> = vec![
        (1, false, vec![0], Some(1)), (1, false, vec![6], Some(0)),
        (0, true, vec![1], Some(0)), (0, false, vec![5], Some(4)),
        (2, true, vec![6], Some(0)), (3, false, vec![0], Some(2)), (4, false, vec![7], Some(0)), (1, true, vec![0], Some(4)),
    ];
    let mut tail: Vec<E> = vec![
        (0, true, vec![0], Some(0)), (0, false, vec![1], Some(15)), (0, true, vec![2], Some(8)), (2, false, vec![3], Some(16)), (0, true, vec![5], Some(0)),
        (3, true, vec![0], Some(1)), (0, false, vec![6], Some(0)), (0, true, vec![7], Some(0)), (4, true, vec![3], Some(15)), (0, false, vec![8], Some(0)),
        (0, true, vec![9], Some(0)), (2, false, vec![0], Some(15)), (0, true, vec![3], Some(4)), (0, false, vec![2], Some(31)), (4, false, vec![0], Some(1)),
        (0, false, vec![4], Some(0)), (3, false, vec![6], Some(8)), (0, true, vec![6], Some(15)), (0, false, vec![7], Some(16)), (2, true, vec![1], Some(2)),
        (0, false, vec![2, 6], Some(0)), (0, true, vec![3, 7], Some(0)), (0, false, vec![1, 10], Some(0)), (1, false, vec![3], Some(4)), (0, false, vec![9], Some(0)),
        (4, true, vec![6], Some(0)), (0, true, vec![8], Some(4)), (3, true, vec![2], Some(15)), (1, true, vec![6], Some(0)), (2, false, vec![7], Some(1)),
    ];
    let rot = (r.below(6) as usize) * 5;
    tail.rotate_left(rot % 30);
    let mut plan = head; plan.extend(tail);
    let mut made = 0usize; let mut idx = 0usize;
    let mut bases: std::collections::HashMap<(usize, bool), (Base, usize)> = std::collections::HashMap::new();
    while made < n && idx < 100000 {
        let (profile, pending, classes, fixed_bits) = plan[idx % plan.len()].clone();
        let key = (profile, pending);
        let stale_base = bases.get(&key).map_or(true, |(_, uses)| *uses >= 4 || (idx >= plan.len() && *uses >= 2));
        if stale_base { match build_base(&mut r, profile, pending) { Some(bs) => { bases.insert(key, (bs, 0)); } None => { bases.remove(&key); idx += 1; continue; } } }
        let entry = bases.get_mut(&key).unwrap(); entry.1 += 1;
        let base = &entry.0;
        let dmgs: Vec<Damage> = classes.iter().map(|c| pick_damage(&mut r, *c)).collect();
        let same = r.chance(1, 3);
        if thorough && idx % 5 == 0 {
            // all 32 option sets on this (base, damage)
            for bits in 0..32u8 { if one_case(base, &dmgs, bits, bits % 3 == 0, w, "doctor") { made += 1; } }
        } else {
            let bits = match fixed_bits { Some(x) if idx < plan.len() => x, _ => r.below(32) as u8 };
            if one_case(base, &dmgs, bits, same, w, "doctor") { made += 1; }
        }
        idx += 1;
    }
    drop(bases);
    let _ = std::fs::remove_dir_all(scratch.path());
}
