//! C22 no panic / hang on arbitrary file bytes.
//!
//! Streams
//!   walscan : EmbeddedWal::open on small crafted files (arbitrary wal_offset / wal_size / record
//!             headers / checksums / truncations) -- compared with Model/OpenSeq.v `wal_open_chk`
//!             (outcome, pending bytes, last sequence); the model carries every `+` of the scan as a
//!             checked addition.
//!   fuzz    : (impl oracle only; the only coverage of serde / Tantivy / zstd internals) valid small
//!             memories built by the shared driver, damaged per region class (header fields, log,
//!             frame payloads, time index, Tantivy segments, vec index, sketch / memories / mesh
//!             tracks, TOC, footer): single-byte, multi-byte, 8-byte edge values, zero- and
//!             random-filled regions, truncations at every region boundary -1/0/+1, random files
//!             behind a valid header, crash-left files (pending log records), and TOC-consistent
//!             ("re-signed") damage of manifest fields / index bytes.  Every damaged file goes, in a
//!             CHILD PROCESS (`mvharness C22-child`, RLIMIT_FSIZE 1 GiB, RLIMIT_AS 8 GiB, 20 s CPU,
//!             private TMPDIR), through open_read_only(+reads), verify(deep), doctor_plan,
//!             open(+reads), doctor -- each on a fresh copy.  A panic (caught per call inside the
//!             child and reported with its source location), an abort, a kill by a limit, or a
//!             timeout is an observation; the oracle is "every call returned Ok or Err".
//!   req     : searches on an intact memory with extreme cursor / top_k and `date:[* TO *]`.
use crate::store::*;
use crate::term::*;
use memvid_core::footer::{CommitFooter, FOOTER_SIZE};
use memvid_core::io::header::HeaderCodec;
use memvid_core::io::wal::EmbeddedWal;
use memvid_core::types::manifest::Toc;
use memvid_core::types::sketch_track::SketchVariant;
use memvid_core::types::{AclEnforcementMode, DoctorOptions, Header, SearchRequest, TimelineQuery};
use memvid_core::Memvid;
use std::io::Write as _;
use std::num::NonZeroU64;
use std::panic::{catch_unwind, AssertUnwindSafe};
use std::path::{Path, PathBuf};
use std::sync::{Arc, Mutex};

const FSIZE_LIMIT: u64 = 1 << 30;
const AS_LIMIT: u64 = 8 << 30;
/// CPU seconds a child may use (RLIMIT_CPU: robust against a loaded machine) and the wall-clock
/// cap for a child that is blocked rather than spinning
const CHILD_CPU_S: u64 = 20;
const CHILD_TIMEOUT_MS: u64 = 600_000;
const HDR: usize = 4096;

// ------------------------------------------------------------------------------------------------
// child
// ------------------------------------------------------------------------------------------------
static LAST_PANIC: Mutex<String> = Mutex::new(String::new());

fn say(line: &str) {
    let so = std::io::stdout();
    let mut l = so.lock();
    let _ = writeln!(l, "@@C22 {}", line.replace('\n', " "));
    let _ = l.flush();
}

fn guarded<R>(name: &str, f: impl FnOnce() -> Result<R, String>) -> Option<R> {
    say(&format!("BEGIN {}", name));
    LAST_PANIC.lock().unwrap().clear();
    match catch_unwind(AssertUnwindSafe(f)) {
        Ok(Ok(r)) => { say(&format!("END {} ok", name)); Some(r) }
        Ok(Err(e)) => { let e: String = e.chars().take(160).collect(); say(&format!("END {} err {}", name, e)); None }
        Err(_) => { let p = LAST_PANIC.lock().unwrap().clone(); say(&format!("END {} panic {}", name, p)); None }
    }
}

fn sreq(query: &str, top_k: usize, cursor: Option<String>) -> SearchRequest {
    SearchRequest { query: query.into(), top_k, snippet_chars: 80, uri: None, scope: None, cursor,
        as_of_frame: None, as_of_ts: None, no_sketch: false, acl_context: None, acl_enforcement_mode: AclEnforcementMode::Audit }
}

fn reads(tag: &str, mem: &mut Memvid) {
    let e = |x: memvid_core::MemvidError| x.to_string();
    guarded(&format!("{}.stats", tag), || mem.stats().map(|_| ()).map_err(e));
    let n = mem.frame_count() as u64;
    let mut ids: Vec<u64> = (0..n.min(5)).collect();
    if n > 5 { ids.push(n - 1); }
    ids.push(n); ids.push(u64::MAX);
    for id in ids {
        guarded(&format!("{}.frame_by_id", tag), || mem.frame_by_id(id).map(|_| ()).map_err(e));
        guarded(&format!("{}.frame_canonical_payload", tag), || mem.frame_canonical_payload(id).map(|_| ()).map_err(e));
        guarded(&format!("{}.frame_text_by_id", tag), || mem.frame_text_by_id(id).map(|_| ()).map_err(e));
        guarded(&format!("{}.frame_preview_by_id", tag), || mem.frame_preview_by_id(id).map(|_| ()).map_err(e));
        guarded(&format!("{}.frame_embedding", tag), || mem.frame_embedding(id).map(|_| ()).map_err(e));
        guarded(&format!("{}.blob_reader", tag), || mem.blob_reader(id).map(|_| ()).map_err(e));
    }
    guarded(&format!("{}.frame_by_uri", tag), || mem.frame_by_uri("mv2://u/1").map(|_| ()).map_err(e));
    let tqs = vec![
        TimelineQuery::default(),
        TimelineQuery { limit: NonZeroU64::new(2), reverse: true, ..Default::default() },
        TimelineQuery { since: Some(1_700_000_001), until: Some(1_700_000_003), ..Default::default() },
        TimelineQuery { since: Some(i64::MIN), until: Some(i64::MAX), limit: NonZeroU64::new(u64::MAX), ..Default::default() },
    ];
    for tq in tqs { guarded(&format!("{}.timeline", tag), || mem.timeline(tq).map(|_| ()).map_err(e)); }
    for q in ["alpha", "doc1000 OR bravo", "\"charlie delta\"", "alpha AND NOT bravo", "date:[2023-01-01 TO 2024-12-31] alpha", "uri:mv2://u/1 echo", "zzzzqq"] {
        guarded(&format!("{}.search", tag), || mem.search(sreq(q, 5, None)).map(|_| ()).map_err(e));
    }
    guarded(&format!("{}.search_paged", tag), || {
        let r1 = mem.search(sreq("alpha OR bravo OR charlie", 1, None)).map_err(e)?;
        if let Some(c) = r1.next_cursor { mem.search(sreq("alpha OR bravo OR charlie", 1, Some(c))).map_err(e)?; }
        Ok(())
    });
    guarded(&format!("{}.search_vec4", tag), || mem.search_vec(&[0.5, -0.25, 0.125, 1.0], 3).map(|_| ()).map_err(e));
    guarded(&format!("{}.search_vec1", tag), || mem.search_vec(&[1.0], 3).map(|_| ()).map_err(e));
    guarded(&format!("{}.sketch_stats", tag), || { let _ = mem.sketch_stats(); let _ = mem.has_sketches(); Ok(()) });
}

fn dopts(bits: u8, dry: bool) -> DoctorOptions {
    DoctorOptions { rebuild_time_index: bits & 1 != 0, rebuild_lex_index: bits & 2 != 0, rebuild_vec_index: bits & 4 != 0, vacuum: bits & 8 != 0, dry_run: dry, quiet: true }
}

/// `mvharness C22-child <file> <workdir> <api,api,...>`
pub fn child(args: &[String]) {
    std::panic::set_hook(Box::new(|info| {
        let loc = info.location().map(|l| format!("{}:{}", l.file(), l.line())).unwrap_or_else(|| "?".into());
        let msg = if let Some(s) = info.payload().downcast_ref::<&str>() { s.to_string() } else if let Some(s) = info.payload().downcast_ref::<String>() { s.clone() } else { "?".into() };
        let msg: String = msg.chars().take(200).collect();
        if let Ok(mut g) = LAST_PANIC.lock() { if g.is_empty() { *g = format!("{} | {}", loc, msg); } }
    }));
    let src = PathBuf::from(&args[0]);
    let work = PathBuf::from(&args[1]);
    let e = |x: memvid_core::MemvidError| x.to_string();
    for (k, api) in args[2].split(',').enumerate() {
        let p = work.join(format!("w{}.mv2", k));
        if std::fs::copy(&src, &p).is_err() { say(&format!("END {} err copy-failed", api)); continue; }
        match api {
            "open_ro" => { if let Some(mut m) = guarded("open_ro", || Memvid::open_read_only(&p).map_err(e)) { reads("ro", &mut m); guarded("ro.drop", || { drop(m); Ok(()) }); } }
            "open" => { if let Some(mut m) = guarded("open", || Memvid::open(&p).map_err(e)) { reads("rw", &mut m); guarded("rw.drop", || { drop(m); Ok(()) }); } }
            "verify" => { guarded("verify", || Memvid::verify(&p, true).map(|_| ()).map_err(e)); }
            "verify_shallow" => { guarded("verify_shallow", || Memvid::verify(&p, false).map(|_| ()).map_err(e)); }
            "plan" => { guarded("doctor_plan", || Memvid::doctor_plan(&p, dopts(7, true)).map(|_| ()).map_err(e)); }
            "doctor" => {
                guarded("doctor", || Memvid::doctor(&p, dopts(7, false)).map(|_| ()).map_err(e));
                if let Some(mut m) = guarded("open_after_doctor", || Memvid::open(&p).map_err(e)) { guarded("after_doctor.search", || m.search(sreq("alpha", 3, None)).map(|_| ()).map_err(e)); }
            }
            "doctor_vacuum" => { guarded("doctor_vacuum", || Memvid::doctor(&p, dopts(15, false)).map(|_| ()).map_err(e)); }
            "doctor_default" => { guarded("doctor_default", || Memvid::doctor(&p, DoctorOptions { quiet: true, ..Default::default() }).map(|_| ()).map_err(e)); }
            a if a.starts_with("req:") => {
                // req:<top_k>:<cursor or ->:<query index>
                let parts: Vec<&str> = a.split(':').collect();
                let top_k: usize = parts[1].parse().unwrap_or(usize::MAX);
                let cursor = if parts[2] == "-" { None } else { Some(parts[2].to_string()) };
                let qi = parts[3].parse::<usize>().unwrap_or(0);
                let q = ["alpha", "date:[* TO *]", "date:[* TO *] alpha", "alpha OR bravo"][qi % 4];
                if let Some(mut m) = guarded("open_ro", || Memvid::open_read_only(&p).map_err(e)) {
                    // query index >= 4: the same queries with the sketch pre-filter off
                    let mut rq = sreq(q, top_k, cursor); rq.no_sketch = qi >= 4;
                    guarded("req.search", || m.search(rq).map(|_| ()).map_err(e));
                }
            }
            _ => say(&format!("END {} err unknown-api", api)),
        }
        let _ = std::fs::remove_file(&p);
    }
    say("DONE");
}

// ------------------------------------------------------------------------------------------------
// parent: running one child
// ------------------------------------------------------------------------------------------------
#[derive(Clone, Debug, Default)]
struct ChildObs {
    /// (call name, "ok" | "err ..." | "panic loc | msg")
    calls: Vec<(String, String)>,
    /// Some(description) if the process did not finish by itself with exit code 0
    death: Option<String>,
    /// call that was running when the process died / was killed
    in_flight: Option<String>,
    ms: u128,
}

fn run_child(file: &Path, work: &Path, apis: &str) -> ChildObs {
    let exe = std::env::current_exe().expect("exe");
    let _ = std::fs::create_dir_all(work);
    let tmp = work.join("tmp"); let _ = std::fs::create_dir_all(&tmp);
    let out_p = work.join("stdout.txt"); let err_p = work.join("stderr.txt");
    let t0 = std::time::Instant::now();
    let mut cmd = std::process::Command::new("prlimit");
    cmd.arg(format!("--fsize={}", FSIZE_LIMIT)).arg(format!("--as={}", AS_LIMIT)).arg(format!("--cpu={}:{}", CHILD_CPU_S, CHILD_CPU_S + 5)).arg("--core=0").arg("--")
        .arg(&exe).arg("C22-child").arg(file).arg(work).arg(apis)
        .env("RUST_BACKTRACE", "0").env("TMPDIR", &tmp).env_remove("RUST_LOG")
        .stdin(std::process::Stdio::null())
        .stdout(std::fs::File::create(&out_p).expect("stdout file"))
        .stderr(std::fs::File::create(&err_p).expect("stderr file"));
    let mut ch = cmd.spawn().expect("spawn prlimit");
    let mut death = None;
    let status = loop {
        match ch.try_wait() {
            Ok(Some(st)) => break Some(st),
            Ok(None) => {
                if t0.elapsed().as_millis() as u64 > CHILD_TIMEOUT_MS { let _ = ch.kill(); let _ = ch.wait(); death = Some(format!("timeout: no answer within {} s of wall-clock time (not CPU bound)", CHILD_TIMEOUT_MS / 1000)); break None; }
                std::thread::sleep(std::time::Duration::from_millis(15));
            }
            Err(_) => break None,
        }
    };
    let ms = t0.elapsed().as_millis();
    let stdout = String::from_utf8_lossy(&std::fs::read(&out_p).unwrap_or_default()).to_string();
    let stderr = String::from_utf8_lossy(&std::fs::read(&err_p).unwrap_or_default()).to_string();
    let mut calls = vec![]; let mut in_flight: Option<String> = None; let mut done = false;
    for l in stdout.lines() {
        let Some(i) = l.find("@@C22 ") else { continue };
        let l = &l[i + 6..];
        if let Some(n) = l.strip_prefix("BEGIN ") { in_flight = Some(n.to_string()); }
        else if let Some(rest) = l.strip_prefix("END ") {
            let (n, r) = rest.split_once(' ').unwrap_or((rest, ""));
            calls.push((n.to_string(), r.to_string())); in_flight = None;
        } else if l.starts_with("DONE") { done = true; }
    }
    if death.is_none() {
        if let Some(st) = status {
            use std::os::unix::process::ExitStatusExt;
            if let Some(sig) = st.signal() {
                let why = match sig { 24 => format!("timeout: SIGXCPU after {} s of CPU time", CHILD_CPU_S), 25 => "SIGXFSZ: a write went beyond the 1 GiB file size limit".to_string(), 6 => "SIGABRT".to_string(), 11 => "SIGSEGV".to_string(), 9 => "SIGKILL".to_string(), s => format!("signal {}", s) };
                let tail: String = stderr.lines().rev().take(3).collect::<Vec<_>>().join(" / ").chars().take(240).collect();
                death = Some(format!("{} [{}]", why, tail));
            } else if st.code() != Some(0) || !done {
                let tail: String = stderr.lines().rev().take(3).collect::<Vec<_>>().join(" / ").chars().take(240).collect();
                death = Some(format!("exit code {:?} [{}]", st.code(), tail));
            }
        } else { death = Some("wait failed".into()); }
    }
    let _ = std::fs::remove_dir_all(work);
    ChildObs { calls, death, in_flight, ms }
}

// ------------------------------------------------------------------------------------------------
// classification of what went wrong (class tags)
// ------------------------------------------------------------------------------------------------
// The classes below named "regressed-..." were known findings F-C22-1..5, -8..11; they are repaired in
// /repo (b6c8721, bc37f0b, 9b4da04, d3e296c, 03a10a9, 51f7ee1, 5ec1fc0 + e2af843) and no longer listed in
// KNOWN_FINDINGS.json: the inputs are still generated (regression cases) and a reappearance is a plain VIOLATION.
pub const K_TI: &str = "regressed-time-index-count-capacity";
pub const K_SKETCH: &str = "regressed-sketch-count-mul-overflow";
pub const K_CURSOR: &str = "regressed-search-cursor-add-overflow";
pub const K_DATE: &str = "regressed-tantivy-unbounded-date-range";
pub const K_TOPK: &str = "regressed-search-topk-mul-overflow";
/// Tantivy's own decoders panic on segment bytes that are not what Tantivy wrote; the manifest
/// checksum of the segment no longer matches (a check at load time would turn this into an error)
/// Vec::with_capacity(2 * doc_limit) inside Tantivy's TopDocs collector for an absurd top_k
pub const K_TOPK_COLLECTOR: &str = "regressed-search-topk-collector-capacity";
/// open / doctor_plan (log sentinel) and doctor (zeroing of the whole region) write at the header's
/// wal_offset .. + wal_size without comparing them with the file length
pub const K_DOCTOR_WAL: &str = "regressed-log-region-outside-file-written";
/// a Tantivy segment whose TOC extent ends beyond the file: open (also read-only) "aligns" the footer
/// with the catalog, i.e. rewrites TOC + footer at that end, then copies the extent to a scratch file
pub const K_SEG: &str = "regressed-segment-extent-beyond-file-realigned";
/// `max_ts - timestamp` (i64) in the recency boost of search
pub const K_RECENCY: &str = "regressed-search-recency-timestamp-sub-overflow";
pub const K_TANTIVY: &str = "tantivy-damaged-segment";
/// the same with the manifest checksum re-stamped by the attacker (only containment helps)
pub const K_TANTIVY_RESIGNED: &str = "tantivy-damaged-segment-resigned";

fn short_loc(p: &str) -> String {
    // "/repo/src/io/time_index.rs:96 | capacity overflow" -> "src/io/time_index.rs:96"
    let loc = p.split(" | ").next().unwrap_or("?");
    let loc = loc.rsplit_once("/repo/").map(|x| x.1).unwrap_or(loc);
    let loc = if let Some(i) = loc.find("/registry/src/") { loc[i + 14..].split_once('/').map(|x| x.1).unwrap_or(loc) } else { loc };
    loc.to_string()
}

/// class tag of a panic, from where it happened and what it said; the caller additionally checks
/// the class predicate on the INPUT (the damaged file) for the first two
fn panic_class(call: &str, p: &str) -> String {
    let loc = short_loc(p);
    let msg = p.split(" | ").nth(1).unwrap_or("");
    if loc.starts_with("src/io/time_index.rs") && msg.contains("capacity overflow") { return K_TI.into(); }
    if msg.contains("capacity overflow") && (call.contains("timeline") || call.contains("verify") || call.contains("doctor")) && loc.contains("raw_vec") { return K_TI.into(); }
    if loc.starts_with("src/types/sketch_track.rs") && msg.contains("multiply with overflow") { return K_SKETCH.into(); }
    if loc.starts_with("src/memvid/search") && msg.contains("add with overflow") && call.starts_with("req.") { return K_CURSOR.into(); }
    if msg.contains("At least one bound must be set") { return K_DATE.into(); }
    if loc.starts_with("src/memvid/search/mod.rs") && msg.contains("multiply with overflow") && call.starts_with("req.") { return K_TOPK.into(); }
    if loc.starts_with("tantivy") || loc.starts_with("ownedbytes") { return K_TANTIVY.into(); }
    if loc.starts_with("src/memvid/search/tantivy.rs") && msg.contains("subtract with overflow") { return K_RECENCY.into(); }
    if loc.starts_with("src/memvid/doctor.rs") && msg.contains("add with overflow") && call.starts_with("doctor") { return K_DOCTOR_WAL.into(); }
    format!("panic-at-{}", loc.replace(':', "-L"))
}

// ------------------------------------------------------------------------------------------------
// base files and their regions
// ------------------------------------------------------------------------------------------------
#[derive(Clone, Debug)]
struct Region { class: &'static str, name: String, off: usize, len: usize }

#[derive(Clone)]
struct Base { name: &'static str, bytes: Vec<u8>, regions: Vec<Region>, header: Header, toc: Toc, toc_off: usize }

fn put(d: &mut Driver, kind: PayloadKind, size: usize, uri: u32, ts: i64, embed: Option<Vec<f32>>) {
    let o = d.step(&Op::Put { kind, size, uri: Some(uri), ts, embed, default_opts: false });
    assert!(o.ok, "base put failed");
}

fn parse_file(bytes: &[u8]) -> Option<(Header, Toc, usize)> {
    if bytes.len() < HDR + FOOTER_SIZE { return None; }
    let arr: [u8; HDR] = bytes[..HDR].try_into().ok()?;
    let header = HeaderCodec::decode(&arr).ok()?;
    let fo = header.footer_offset as usize;
    if fo > bytes.len() - FOOTER_SIZE { return None; }
    let toc = Toc::decode(&bytes[fo..bytes.len() - FOOTER_SIZE]).ok()?;
    Some((header, toc, fo))
}

fn regions_of(bytes: &[u8], header: &Header, toc: &Toc, toc_off: usize) -> Vec<Region> {
    let mut v = vec![];
    let mut add = |class: &'static str, name: String, off: u64, len: u64| {
        let (off, len) = (off as usize, len as usize);
        if len > 0 && off < bytes.len() { v.push(Region { class, name, off, len: len.min(bytes.len() - off) }); }
    };
    add("header", "magic+version+spec".into(), 0, 8);
    add("header", "footer_offset".into(), 8, 8);
    add("header", "wal_offset".into(), 16, 8);
    add("header", "wal_size".into(), 24, 8);
    add("header", "wal_checkpoint_pos".into(), 32, 8);
    add("header", "wal_sequence".into(), 40, 8);
    add("header", "toc_checksum".into(), 48, 32);
    add("header", "legacy+padding".into(), 80, (HDR - 80) as u64);
    add("log", "first record header".into(), header.wal_offset, 48);
    add("log", "log head (first 600 bytes)".into(), header.wal_offset, 600);
    add("log", "whole log region".into(), header.wal_offset, header.wal_size);
    for f in toc.frames.iter().take(6) { add("payload", format!("frame {} payload", f.id), f.payload_offset, f.payload_length); }
    if let Some(m) = &toc.time_index { add("time_index", "time index header".into(), m.bytes_offset, 12); add("time_index", "time index".into(), m.bytes_offset, m.bytes_length); }
    if let Some(m) = &toc.indexes.lex { add("lex", "lex index blob".into(), m.bytes_offset, m.bytes_length); add("lex", "lex index blob head".into(), m.bytes_offset, 64); }
    for s in toc.indexes.lex_segments.iter().take(12) { add("tantivy", format!("lex segment {}", s.path), s.bytes_offset, s.bytes_length); }
    for s in toc.segment_catalog.tantivy_segments.iter().take(6) { add("tantivy", format!("tantivy segment {}", s.common.segment_id), s.common.bytes_offset, s.common.bytes_length); }
    for s in toc.segment_catalog.lex_segments.iter().take(4) { add("tantivy", format!("catalog lex segment {}", s.common.segment_id), s.common.bytes_offset, s.common.bytes_length); }
    if let Some(m) = &toc.indexes.vec { add("vec", "vec index".into(), m.bytes_offset, m.bytes_length); add("vec", "vec index head".into(), m.bytes_offset, 32); }
    for s in toc.segment_catalog.vec_segments.iter().take(4) { add("vec", format!("vec segment {}", s.common.segment_id), s.common.bytes_offset, s.common.bytes_length); add("vec", format!("vec segment {} head", s.common.segment_id), s.common.bytes_offset, 32); }
    for s in toc.segment_catalog.time_segments.iter().take(4) { add("time_index", format!("time segment {}", s.common.segment_id), s.common.bytes_offset, s.common.bytes_length); }
    if let Some(m) = &toc.sketch_track { add("sketch", "sketch header".into(), m.bytes_offset, 24); add("sketch", "sketch track".into(), m.bytes_offset, m.bytes_length); }
    if let Some(m) = &toc.memories_track { add("memories", "memories track".into(), m.bytes_offset, m.bytes_length); }
    if let Some(m) = &toc.logic_mesh { add("mesh", "logic mesh".into(), m.bytes_offset, m.bytes_length); }
    let toc_len = bytes.len() - FOOTER_SIZE - toc_off;
    add("toc", "toc prefix (version, counts)".into(), toc_off as u64, 24);
    add("toc", "toc".into(), toc_off as u64, toc_len as u64);
    add("toc", "toc tail (checksums)".into(), (bytes.len() - FOOTER_SIZE).saturating_sub(80) as u64, 80);
    add("footer", "footer magic".into(), (bytes.len() - FOOTER_SIZE) as u64, 8);
    add("footer", "footer toc_len".into(), (bytes.len() - FOOTER_SIZE + 8) as u64, 8);
    add("footer", "footer hash".into(), (bytes.len() - FOOTER_SIZE + 16) as u64, 32);
    add("footer", "footer generation".into(), (bytes.len() - 8) as u64, 8);
    v
}

fn finish_base(name: &'static str, path: &Path) -> Base {
    let bytes = std::fs::read(path).expect("read base");
    let (header, toc, toc_off) = parse_file(&bytes).expect("base file parses");
    let regions = regions_of(&bytes, &header, &toc, toc_off);
    Base { name, bytes, regions, header, toc, toc_off }
}

fn card(id: u64, entity: &str, slot: &str, value: &str) -> memvid_core::types::MemoryCard {
    use memvid_core::types::{MemoryCard, MemoryKind, VersionRelation};
    MemoryCard { id, kind: MemoryKind::Fact, entity: entity.into(), slot: slot.into(), value: value.into(), polarity: None, event_date: Some(1_700_000_000), document_date: None,
        version_key: None, version_relation: VersionRelation::Sets, source_frame_id: 0, source_uri: None, source_offset: None, engine: "x".into(), engine_version: "1".into(), confidence: Some(0.5), created_at: 1_700_000_000 }
}

fn build_bases() -> Vec<Base> {
    let mut out = vec![];
    // text: lexical index (Tantivy segments), time index, one chunked document, one binary, one deleted
    {
        let mut d = Driver::new();
        put(&mut d, PayloadKind::Text, 300, 1, 1_700_000_001, None);
        put(&mut d, PayloadKind::Text, 700, 2, 1_700_000_002, None);
        put(&mut d, PayloadKind::Bin, 200, 3, 1_700_000_003, None);
        put(&mut d, PayloadKind::Chunked, 3000, 4, 1_700_000_004, None);
        d.step(&Op::Commit);
        d.step(&Op::Delete { target: 1 });
        put(&mut d, PayloadKind::Text, 150, 5, 1_700_000_005, None);
        d.step(&Op::Commit);
        let m = d.mem.take().unwrap(); drop(m);
        out.push(finish_base("text", &d.path));
    }
    // vec: embeddings (vec index) + text
    {
        let mut d = Driver::new();
        for i in 0..5u32 { put(&mut d, PayloadKind::Text, 120 + 40 * i as usize, 10 + i, 1_700_000_010 + i as i64, Some(vec![i as f32, 1.0, -0.5 * i as f32, 0.25])); }
        d.step(&Op::Commit);
        let m = d.mem.take().unwrap(); drop(m);
        out.push(finish_base("vec", &d.path));
    }
    // tracks: memory cards, mesh, sketch track, text
    {
        let mut d = Driver::new();
        put(&mut d, PayloadKind::Text, 400, 20, 1_700_000_020, None);
        put(&mut d, PayloadKind::Text, 500, 21, 1_700_000_021, None);
        put(&mut d, PayloadKind::Text, 250, 22, 1_700_000_022, None);
        d.step(&Op::Commit);
        let _ = d.mem().put_memory_card(card(1, "alice", "city", "paris"));
        let _ = d.mem().put_memory_card(card(2, "bob", "job", "smith"));
        {
            use memvid_core::types::{EntityKind, LinkType, MeshEdge, MeshNode};
            d.mem().add_mesh_node(MeshNode { id: 1, canonical_name: "amy".into(), display_name: "AMY".into(), kind: EntityKind::Person, confidence: 80, frame_ids: vec![0], mentions: vec![(0, 3, 3)] });
            d.mem().add_mesh_node(MeshNode { id: 2, canonical_name: "acme".into(), display_name: "ACME".into(), kind: EntityKind::Organization, confidence: 70, frame_ids: vec![1], mentions: vec![(1, 5, 4)] });
            d.mem().add_mesh_edge(MeshEdge { from_node: 1, to_node: 2, link: LinkType::Member, confidence: 60, frame_id: 0 });
        }
        let _ = d.mem().build_all_sketches(SketchVariant::Small);
        d.step(&Op::Commit);
        let m = d.mem.take().unwrap(); drop(m);
        out.push(finish_base("tracks", &d.path));
    }
    // pending: a committed state followed by puts / a delete that were never committed (crash-left)
    {
        let mut d = Driver::new();
        put(&mut d, PayloadKind::Text, 300, 30, 1_700_000_030, None);
        put(&mut d, PayloadKind::Text, 350, 31, 1_700_000_031, None);
        d.step(&Op::Commit);
        put(&mut d, PayloadKind::Text, 280, 32, 1_700_000_032, None);
        put(&mut d, PayloadKind::Bin, 90, 33, 1_700_000_033, None);
        d.step(&Op::Delete { target: 0 });
        let m = d.mem.take().unwrap();
        memvid_core::verif_hooks::drop_without_commit(m);
        out.push(finish_base("pending", &d.path));
    }
    out
}

// ------------------------------------------------------------------------------------------------
// mutations
// ------------------------------------------------------------------------------------------------
#[derive(Clone, Debug)]
struct Mutant { base: usize, class: String, kind: String, desc: String, bytes: Vec<u8> }

fn edge_u64(r: &mut Rng, file_len: u64) -> u64 {
    match r.below(16) {
        0 => 0, 1 => 1, 2 => u64::MAX, 3 => u64::MAX - 1, 4 => 1 << 63, 5 => (1 << 63) - 1, 6 => 1 << 32, 7 => (1 << 32) - 1,
        8 => file_len, 9 => file_len + 1, 10 => file_len.saturating_sub(1), 11 => 1 << 59, 12 => (1 << 60) + 1, 13 => r.below(file_len + 1),
        14 => 1 << 40, _ => r.next(),
    }
}

/// re-encode the TOC, stamp its checksum, write TOC + footer at `toc_off`, update the header
fn resign(prefix: &[u8], header: &Header, toc: &Toc, toc_off: usize, generation: u64) -> Option<Vec<u8>> {
    let mut t = toc.clone();
    t.toc_checksum = [0u8; 32];
    let z = t.encode().ok()?;
    t.toc_checksum = Toc::calculate_checksum(&z);
    let tb = t.encode().ok()?;
    let mut f = prefix[..toc_off.min(prefix.len())].to_vec();
    f.resize(toc_off, 0);
    f.extend_from_slice(&tb);
    let foot = CommitFooter { toc_len: tb.len() as u64, toc_hash: *blake3::hash(&tb).as_bytes(), generation };
    f.extend_from_slice(&foot.encode());
    let mut h = header.clone();
    h.footer_offset = toc_off as u64; h.toc_checksum = t.toc_checksum;
    let hb = HeaderCodec::encode(&h).ok()?;
    f[..HDR].copy_from_slice(&hb);
    Some(f)
}

fn base_generation(b: &Base) -> u64 { CommitFooter::decode(&b.bytes[b.bytes.len() - FOOTER_SIZE..]).map(|f| f.generation).unwrap_or(1) }

/// TOC-consistent damage: one manifest / frame field set to an edge value, TOC re-signed
fn resigned_field(r: &mut Rng, bi: usize, b: &Base) -> Option<Mutant> {
    let mut t = b.toc.clone();
    let fl = b.bytes.len() as u64;
    let v = edge_u64(r, fl);
    let mut what = String::new();
    let mut tries = 0;
    while what.is_empty() && tries < 40 {
        tries += 1;
        match r.below(30) {
            0 => if let Some(m) = t.time_index.as_mut() { m.bytes_offset = v; what = "time_index.bytes_offset".into(); },
            1 => if let Some(m) = t.time_index.as_mut() { m.bytes_length = v; what = "time_index.bytes_length".into(); },
            2 => if let Some(m) = t.time_index.as_mut() { m.entry_count = v; what = "time_index.entry_count".into(); },
            3 => if let Some(m) = t.indexes.lex.as_mut() { m.bytes_offset = v; what = "indexes.lex.bytes_offset".into(); },
            4 => if let Some(m) = t.indexes.lex.as_mut() { m.bytes_length = v; what = "indexes.lex.bytes_length".into(); },
            5 => if let Some(m) = t.indexes.lex.as_mut() { m.doc_count = v; what = "indexes.lex.doc_count".into(); },
            6 => if let Some(m) = t.indexes.vec.as_mut() { m.bytes_offset = v; what = "indexes.vec.bytes_offset".into(); },
            7 => if let Some(m) = t.indexes.vec.as_mut() { m.bytes_length = v; what = "indexes.vec.bytes_length".into(); },
            8 => if let Some(m) = t.indexes.vec.as_mut() { m.vector_count = v; what = "indexes.vec.vector_count".into(); },
            9 => if let Some(m) = t.indexes.vec.as_mut() { m.dimension = v as u32; what = "indexes.vec.dimension".into(); },
            10 => if let Some(s) = t.indexes.lex_segments.first_mut() { s.bytes_offset = v; what = "indexes.lex_segments[0].bytes_offset".into(); },
            11 => { let n = t.indexes.lex_segments.len(); if n > 0 { let i = r.below(n as u64) as usize; t.indexes.lex_segments[i].bytes_length = v; what = format!("indexes.lex_segments[{}].bytes_length", i); } },
            12 => if let Some(s) = t.segment_catalog.tantivy_segments.first_mut() { s.common.bytes_offset = v; what = "tantivy_segments[0].bytes_offset".into(); },
            13 => if let Some(s) = t.segment_catalog.tantivy_segments.first_mut() { s.common.bytes_length = v; what = "tantivy_segments[0].bytes_length".into(); },
            14 => if let Some(s) = t.segment_catalog.vec_segments.first_mut() { s.common.bytes_offset = v; what = "vec_segments[0].bytes_offset".into(); },
            15 => if let Some(s) = t.segment_catalog.vec_segments.first_mut() { s.common.bytes_length = v; what = "vec_segments[0].bytes_length".into(); },
            16 => if let Some(m) = t.sketch_track.as_mut() { m.bytes_offset = v; what = "sketch_track.bytes_offset".into(); },
            17 => if let Some(m) = t.sketch_track.as_mut() { m.bytes_length = v; what = "sketch_track.bytes_length".into(); },
            18 => if let Some(m) = t.memories_track.as_mut() { if r.chance(1, 2) { m.bytes_offset = v; what = "memories_track.bytes_offset".into(); } else { m.bytes_length = v; what = "memories_track.bytes_length".into(); } },
            19 => if let Some(m) = t.logic_mesh.as_mut() { if r.chance(1, 2) { m.bytes_offset = v; what = "logic_mesh.bytes_offset".into(); } else { m.bytes_length = v; what = "logic_mesh.bytes_length".into(); } },
            20 => { let n = t.frames.len(); if n > 0 { let i = r.below(n as u64) as usize; t.frames[i].payload_offset = v; what = format!("frames[{}].payload_offset", i); } },
            21 => { let n = t.frames.len(); if n > 0 { let i = r.below(n as u64) as usize; t.frames[i].payload_length = v; what = format!("frames[{}].payload_length", i); } },
            22 => { let n = t.frames.len(); if n > 0 { let i = r.below(n as u64) as usize; t.frames[i].id = v; what = format!("frames[{}].id", i); } },
            23 => { let n = t.frames.len(); if n > 0 { let i = r.below(n as u64) as usize; t.frames[i].timestamp = v as i64; what = format!("frames[{}].timestamp", i); } },
            24 => { let n = t.frames.len(); if n > 0 { let i = r.below(n as u64) as usize; t.frames[i].parent_id = Some(v); what = format!("frames[{}].parent_id", i); } },
            25 => { let n = t.frames.len(); if n > 1 { let i = r.below(n as u64) as usize; t.frames.remove(i); what = format!("frames: entry {} removed", i); } },
            26 => { let n = t.frames.len(); if n > 0 { let i = r.below(n as u64) as usize; let f = t.frames[i].clone(); t.frames.push(f); what = format!("frames: entry {} duplicated at the end", i); } },
            27 => { t.segment_catalog.next_segment_id = v; what = "segment_catalog.next_segment_id".into(); },
            28 => { t.ticket_ref.capacity_bytes = v; what = "ticket_ref.capacity_bytes".into(); },
            _ => { let n = t.frames.len(); if n > 0 { let i = r.below(n as u64) as usize; if let Some(cm) = t.frames[i].chunk_manifest.as_mut() { cm.chunk_chars = v as usize; if let Some(c) = cm.chunks.first_mut() { c.end = v as usize; } what = format!("frames[{}].chunk_manifest.chunk_chars and chunks[0].end", i); } else { t.frames[i].supersedes = Some(v); what = format!("frames[{}].supersedes", i); } } },
        }
    }
    if what.is_empty() { return None; }
    let bytes = resign(&b.bytes, &b.header, &t, b.toc_off, base_generation(b) + 1)?;
    Some(Mutant { base: bi, class: "resigned-toc".into(), kind: "field".into(), desc: format!("{} := {} (TOC re-encoded, checksum / footer / header re-stamped)", what, v), bytes })
}

/// damage inside an index / track region with the manifest checksum re-stamped
fn resigned_region(r: &mut Rng, bi: usize, b: &Base) -> Option<Mutant> {
    let mut bytes = b.bytes.clone();
    let mut t = b.toc.clone();
    let fl = bytes.len() as u64;
    let pick = r.below(6);
    let (off, len, what): (usize, usize, &str) = match pick {
        0 => { let m = t.time_index.as_ref()?; (m.bytes_offset as usize, m.bytes_length as usize, "time_index") }
        1 => { let m = t.sketch_track.as_ref()?; (m.bytes_offset as usize, m.bytes_length as usize, "sketch_track") }
        2 => { let m = t.memories_track.as_ref()?; (m.bytes_offset as usize, m.bytes_length as usize, "memories_track") }
        3 => { let m = t.indexes.vec.as_ref()?; (m.bytes_offset as usize, m.bytes_length as usize, "vec") }
        4 => { let m = t.indexes.lex.as_ref()?; (m.bytes_offset as usize, m.bytes_length as usize, "lex") }
        _ => { let n = t.indexes.lex_segments.len(); if n == 0 { return None; } let s = &t.indexes.lex_segments[r.below(n as u64) as usize]; (s.bytes_offset as usize, s.bytes_length as usize, "lex_segment") }
    };
    if len == 0 || off + len > bytes.len() { return None; }
    let head = len.min(if r.chance(2, 3) { 40 } else { len });
    let at = off + r.below(head as u64) as usize;
    let desc;
    if r.chance(1, 2) && at + 8 <= off + len {
        let v = edge_u64(r, fl); bytes[at..at + 8].copy_from_slice(&v.to_le_bytes());
        desc = format!("{}: u64 {} written at +{} of the region, manifest checksum re-stamped", what, v, at - off);
    } else {
        let old = bytes[at]; let new = match r.below(3) { 0 => old ^ (1 << r.below(8)), 1 => 0xFF, _ => r.next() as u8 };
        bytes[at] = if new == old { old ^ 1 } else { new };
        desc = format!("{}: byte at +{} {:#04x} -> {:#04x}, manifest checksum re-stamped", what, at - off, old, bytes[at]);
    }
    let sum = *blake3::hash(&bytes[off..off + len]).as_bytes();
    match pick {
        0 => t.time_index.as_mut()?.checksum = sum,
        1 => t.sketch_track.as_mut()?.checksum = sum,
        2 => t.memories_track.as_mut()?.checksum = sum,
        3 => t.indexes.vec.as_mut()?.checksum = sum,
        4 => t.indexes.lex.as_mut()?.checksum = sum,
        _ => { for s in t.indexes.lex_segments.iter_mut() { if s.bytes_offset as usize == off { s.checksum = sum; } } for s in t.segment_catalog.tantivy_segments.iter_mut() { if s.common.bytes_offset as usize == off { s.common.checksum = sum; } } }
    }
    let bytes = resign(&bytes, &b.header, &t, b.toc_off, base_generation(b) + 1)?;
    Some(Mutant { base: bi, class: format!("resigned-{}", what), kind: "region".into(), desc, bytes })
}

/// the witnesses of the known classes, built on purpose
fn witnesses(bases: &[Base]) -> Vec<Mutant> {
    let mut v = vec![];
    // time index: count = 2^59 in the track header, manifest length = 12 + 2^63 (matches count * 16)
    for (bi, b) in bases.iter().enumerate() {
        if let Some(m) = &b.toc.time_index {
            let mut bytes = b.bytes.clone(); let mut t = b.toc.clone();
            let off = m.bytes_offset as usize;
            bytes[off + 4..off + 12].copy_from_slice(&(1u64 << 59).to_le_bytes());
            let tm = t.time_index.as_mut().unwrap(); tm.bytes_length = 12 + (1u64 << 63); tm.entry_count = 1 << 59;
            if let Some(bytes) = resign(&bytes, &b.header, &t, b.toc_off, base_generation(b) + 1) {
                v.push(Mutant { base: bi, class: "witness".into(), kind: "ti-capacity".into(), desc: "time index track count := 2^59 and manifest bytes_length := 12 + 2^63 (count * 16 = declared payload >= 2^63), TOC re-signed".into(), bytes });
            }
            break;
        }
    }
    // header: log region far beyond the end of the file (doctor zeroes it / open writes the sentinel there)
    for (bi, b) in bases.iter().enumerate().take(1) {
        for (wo, ws, note) in [(1u64 << 40, 10u64, "wal_offset := 2^40, wal_size := 10"), (1u64 << 40, b.header.wal_size, "wal_offset := 2^40"), (u64::MAX - 100, 4096, "wal_offset := 2^64-101, wal_size := 4096")] {
            let mut bytes = b.bytes.clone();
            bytes[16..24].copy_from_slice(&wo.to_le_bytes()); bytes[24..32].copy_from_slice(&ws.to_le_bytes());
            v.push(Mutant { base: bi, class: "witness".into(), kind: "log-region".into(), desc: format!("header {} (log region outside the file); nothing else touched", note), bytes });
        }
    }
    // a Tantivy segment extent ending beyond the file; two frame timestamps further apart than i64::MAX
    for (bi, b) in bases.iter().enumerate().take(1) {
        let mut t = b.toc.clone();
        if let Some(sg) = t.indexes.lex_segments.first_mut() { sg.bytes_length = 1 << 32; }
        if let Some(sg) = t.segment_catalog.tantivy_segments.first_mut() { sg.common.bytes_length = 1 << 32; }
        if let Some(bytes) = resign(&b.bytes, &b.header, &t, b.toc_off, base_generation(b) + 1) {
            v.push(Mutant { base: bi, class: "witness".into(), kind: "segment-extent".into(), desc: "first Tantivy segment bytes_length := 2^32 in indexes.lex_segments and segment_catalog.tantivy_segments, TOC re-signed".into(), bytes });
        }
        let mut t = b.toc.clone();
        if t.frames.len() >= 2 { t.frames[1].timestamp = i64::MIN; }
        if let Some(bytes) = resign(&b.bytes, &b.header, &t, b.toc_off, base_generation(b) + 1) {
            v.push(Mutant { base: bi, class: "witness".into(), kind: "timestamp-span".into(), desc: "frames[1].timestamp := i64::MIN, TOC re-signed".into(), bytes });
        }
    }
    // Tantivy's term dictionary (the .term segment file) with an 8-byte edge value at fixed places, once with
    // the original manifest checksum (F-C22-6) and once with checksum / TOC / footer / header re-stamped (F-C22-7)
    for (bi, b) in bases.iter().enumerate().take(1) {
        if let Some(sg) = b.toc.indexes.lex_segments.iter().filter(|s| s.path.ends_with(".term") && s.bytes_length >= 128).max_by_key(|s| s.bytes_length) {
            let (off, len) = (sg.bytes_offset as usize, sg.bytes_length as usize);
            for (k, rel) in [8usize, 19, 88, len / 2, len - 8, len - 16, len - 24, len - 40].into_iter().enumerate() {
                let val: u64 = if k % 2 == 0 { (1 << 63) - 1 } else { u32::MAX as u64 };
                let mut bytes = b.bytes.clone();
                if off + rel + 8 > bytes.len() { continue; }
                bytes[off + rel..off + rel + 8].copy_from_slice(&val.to_le_bytes());
                v.push(Mutant { base: bi, class: "tantivy".into(), kind: "term-dict".into(), desc: format!("tantivy / lex segment {}: u64 {} written at +{} of {} (original manifest checksum)", sg.path, val, rel, len), bytes: bytes.clone() });
                let mut t = b.toc.clone();
                let sum = *blake3::hash(&bytes[off..off + len]).as_bytes();
                for x in t.indexes.lex_segments.iter_mut() { if x.bytes_offset as usize == off { x.checksum = sum; } }
                for x in t.segment_catalog.tantivy_segments.iter_mut() { if x.common.bytes_offset as usize == off { x.common.checksum = sum; } }
                if let Some(bytes) = resign(&bytes, &b.header, &t, b.toc_off, base_generation(b) + 1) {
                    v.push(Mutant { base: bi, class: "resigned-lex_segment".into(), kind: "term-dict".into(), desc: format!("lex_segment {}: u64 {} written at +{} of {}, manifest checksum re-stamped, TOC re-signed", sg.path, val, rel, len), bytes });
                }
            }
        }
    }
    // sketch track: entry_count = 2^60 with entry size 32 -> count * size = 2^65
    for (bi, b) in bases.iter().enumerate() {
        if let Some(m) = &b.toc.sketch_track {
            for (cnt, note) in [(1u64 << 60, "2^60"), (u64::MAX, "2^64-1"), ((1u64 << 59) + 1, "2^59+1")] {
                let mut bytes = b.bytes.clone();
                let off = m.bytes_offset as usize;
                bytes[off + 8..off + 16].copy_from_slice(&cnt.to_le_bytes());
                v.push(Mutant { base: bi, class: "witness".into(), kind: "sketch-mul".into(), desc: format!("sketch track header entry_count := {} (entry size {}: the product does not fit u64); nothing else touched", note, m.entry_size), bytes });
            }
            break;
        }
    }
    v
}

fn mutate(r: &mut Rng, bases: &[Base], n: usize) -> Vec<Mutant> {
    let mut v: Vec<Mutant> = vec![];
    // the intact bases first: they must pass everything
    for (bi, b) in bases.iter().enumerate() { v.push(Mutant { base: bi, class: "intact".into(), kind: "none".into(), desc: "unchanged".into(), bytes: b.bytes.clone() }); }
    v.extend(witnesses(bases));
    // truncations at every region boundary -1 / 0 / +1 (deduplicated per base), a sample of them
    let mut truncs = vec![];
    for (bi, b) in bases.iter().enumerate() {
        let mut cuts = std::collections::BTreeSet::new();
        for rg in &b.regions { for c in [rg.off, rg.off + rg.len] { for d in [-1i64, 0, 1] { let x = c as i64 + d; if x >= 0 && (x as usize) < b.bytes.len() { cuts.insert((x as usize, rg.class)); } } } }
        for x in [0usize, 1, 3, 4, 5, 79, 80, 4095, 4096, 4097, b.bytes.len() - 1, b.bytes.len() - 55, b.bytes.len() - 56, b.bytes.len() - 57] { cuts.insert((x, "edge")); }
        for (c, cl) in cuts { truncs.push((bi, c, cl)); }
    }
    let want_trunc = (n / 5).max(24).min(truncs.len());
    // spread: shuffle by rng
    for i in (1..truncs.len()).rev() { let j = r.below(i as u64 + 1) as usize; truncs.swap(i, j); }
    for (bi, c, cl) in truncs.into_iter().take(want_trunc) {
        let mut bytes = bases[bi].bytes[..c].to_vec();
        let mut desc = format!("truncated to {} bytes (boundary of a {} region +-1)", c, cl);
        if r.chance(1, 6) { let extra = r.below(200) as usize; bytes.extend(r.bytes(extra)); desc.push_str(&format!(", then {} random bytes appended", extra)); }
        v.push(Mutant { base: bi, class: format!("trunc-{}", cl), kind: "truncate".into(), desc, bytes });
    }
    while v.len() < n {
        let bi = r.below(bases.len() as u64) as usize; let b = &bases[bi];
        let fl = b.bytes.len() as u64;
        let roll = r.below(100);
        if roll < 10 { if let Some(m) = resigned_field(r, bi, b) { v.push(m); } continue; }
        if roll < 18 { if let Some(m) = resigned_region(r, bi, b) { v.push(m); } continue; }
        if roll < 23 {
            // random file behind a valid (or field-damaged) header
            let mut bytes = b.bytes[..HDR].to_vec();
            let body = match r.below(4) { 0 => 0, 1 => r.below(200) as usize, 2 => r.range(200, 5000) as usize, _ => r.range(5000, 90000) as usize };
            let style = r.below(3);
            bytes.extend((0..body).map(|_| match style { 0 => r.next() as u8, 1 => if r.chance(1, 20) { r.next() as u8 } else { 0 }, _ => *r.pick(b"MV2FOOT!MVTIMVSK\x00\x00\x00\x01") }));
            let mut desc = format!("valid header of base, then {} bytes of style {}", body, style);
            if r.chance(1, 2) {
                let fo = match r.below(4) { 0 => HDR as u64, 1 => r.below(bytes.len() as u64 + 1), 2 => bytes.len() as u64, _ => edge_u64(r, bytes.len() as u64) };
                bytes[8..16].copy_from_slice(&fo.to_le_bytes()); desc.push_str(&format!(", footer_offset := {}", fo));
            }
            if r.chance(1, 3) { let ws = match r.below(3) { 0 => r.below(300) + 1, 1 => bytes.len() as u64, _ => edge_u64(r, bytes.len() as u64).max(1) }; bytes[24..32].copy_from_slice(&ws.to_le_bytes()); desc.push_str(&format!(", wal_size := {}", ws)); }
            if r.chance(1, 4) && bytes.len() >= HDR + 100 {
                // a well-formed footer for a random "TOC" at the end
                let tl = r.range(1, 60) as usize; let at = bytes.len() - FOOTER_SIZE; let toc = bytes[at - tl..at].to_vec();
                let f = CommitFooter { toc_len: tl as u64, toc_hash: *blake3::hash(&toc).as_bytes(), generation: r.below(9) };
                bytes[at..].copy_from_slice(&f.encode()); desc.push_str(", last 56 bytes := valid footer over the preceding random bytes");
            }
            v.push(Mutant { base: bi, class: "random-file".into(), kind: "random".into(), desc, bytes });
            continue;
        }
        // region-directed damage
        // class first (so that the many Tantivy segment files do not crowd out the rest), then a region of it
        let classes: Vec<&'static str> = { let mut c: Vec<&'static str> = b.regions.iter().map(|x| x.class).collect(); c.sort(); c.dedup(); c };
        let cl = *r.pick(&classes);
        let of_class: Vec<&Region> = b.regions.iter().filter(|x| x.class == cl).collect();
        let rg = (*r.pick(&of_class)).clone();
        let mut bytes = b.bytes.clone();
        let kind; let desc;
        match r.below(10) {
            0..=2 => {
                let at = rg.off + r.below(rg.len as u64) as usize; let old = bytes[at];
                let new = match r.below(4) { 0 => old ^ (1 << r.below(8)), 1 => 0, 2 => 0xFF, _ => r.next() as u8 };
                bytes[at] = if new == old { old ^ 0x80 } else { new };
                kind = "byte"; desc = format!("{} / {}: byte at {} (+{}) {:#04x} -> {:#04x}", rg.class, rg.name, at, at - rg.off, old, bytes[at]);
            }
            3..=4 => {
                let k = r.range(2, 16) as usize; let at = rg.off + r.below(rg.len as u64) as usize; let end = (at + k).min(bytes.len());
                for x in at..end { bytes[x] = r.next() as u8; }
                kind = "multi"; desc = format!("{} / {}: {} random bytes at {} (+{})", rg.class, rg.name, end - at, at, at - rg.off);
            }
            5..=6 => {
                let slots = (rg.len / 8).max(1); let at = (rg.off + 8 * r.below(slots as u64) as usize + if r.chance(1, 4) { r.below(8) as usize } else { 0 }).min(bytes.len().saturating_sub(8));
                let val = edge_u64(r, fl); bytes[at..at + 8].copy_from_slice(&val.to_le_bytes());
                kind = "u64"; desc = format!("{} / {}: u64 {} written at {} (+{})", rg.class, rg.name, val, at, at as i64 - rg.off as i64);
            }
            7 => {
                let len = rg.len.min(70000); for x in rg.off..rg.off + len { bytes[x] = 0; }
                kind = "zero"; desc = format!("{} / {}: {} bytes at {} zero-filled", rg.class, rg.name, len, rg.off);
            }
            8 => {
                let len = rg.len.min(70000); for x in rg.off..rg.off + len { bytes[x] = r.next() as u8; }
                kind = "randfill"; desc = format!("{} / {}: {} bytes at {} random-filled", rg.class, rg.name, len, rg.off);
            }
            _ => {
                // two independent single-byte damages in two regions
                let rg2 = r.pick(&b.regions).clone();
                let a1 = rg.off + r.below(rg.len as u64) as usize; let a2 = rg2.off + r.below(rg2.len as u64) as usize;
                bytes[a1] ^= 1 << r.below(8); bytes[a2] = r.next() as u8;
                kind = "two"; desc = format!("{} / {} bit flip at {} and {} / {} random byte at {}", rg.class, rg.name, a1, rg2.class, rg2.name, a2);
            }
        }
        v.push(Mutant { base: bi, class: rg.class.to_string(), kind: kind.into(), desc, bytes });
    }
    v
}

// ------------------------------------------------------------------------------------------------
// class predicates on the input (the damaged file), for the two file-borne known classes
// ------------------------------------------------------------------------------------------------
fn u64_at(b: &[u8], off: usize) -> Option<u64> { b.get(off..off + 8).map(|s| u64::from_le_bytes(s.try_into().unwrap())) }

/// the TOC the implementation will end up with is not observable; the predicate is evaluated on
/// every TOC that decodes from a footer-described or header-described position
fn candidate_tocs(bytes: &[u8]) -> Vec<Toc> {
    let mut v = vec![];
    if let Some((_, t, _)) = parse_file(bytes) { v.push(t); }
    if let Some(s) = memvid_core::find_last_valid_footer(bytes) { if let Ok(t) = Toc::decode(s.toc_bytes) { v.push(t); } }
    v
}
fn in_ti_class(bytes: &[u8]) -> bool {
    candidate_tocs(bytes).iter().any(|t| t.time_index.as_ref().map_or(false, |m| {
        let off = m.bytes_offset as usize;
        bytes.get(off..off + 4) == Some(b"MVTI") && u64_at(bytes, off + 4).map_or(false, |count| {
            count.checked_mul(16).map_or(false, |p| m.bytes_length >= 12 && m.bytes_length - 12 == p && p >= 1 << 63)
        })
    }))
}
fn in_sketch_class(bytes: &[u8]) -> bool {
    candidate_tocs(bytes).iter().any(|t| t.sketch_track.as_ref().map_or(false, |m| {
        let off = m.bytes_offset as usize;
        bytes.get(off..off + 4) == Some(b"MVSK") && {
            let esz = bytes.get(off + 6..off + 8).map(|s| u16::from_le_bytes(s.try_into().unwrap())).unwrap_or(0) as u128;
            let count = u64_at(bytes, off + 8).unwrap_or(0) as u128;
            (esz == 32 || esz == 64 || esz == 96) && 24 + count * esz >= 1u128 << 64
        }
    }))
}

/// class predicate of K_SEG, on the input: a TOC that decodes (at the header's or the last valid footer's
/// position) lists a Tantivy segment whose extent ends beyond the end of the file
fn segment_beyond_file(bytes: &[u8]) -> bool {
    let fl = bytes.len() as u64;
    candidate_tocs(bytes).iter().any(|t| {
        t.segment_catalog.tantivy_segments.iter().map(|s| (s.common.bytes_offset, s.common.bytes_length))
            .chain(t.indexes.lex_segments.iter().map(|s| (s.bytes_offset, s.bytes_length)))
            .any(|(o, l)| l != 0 && o.checked_add(l).map_or(false, |e| e > fl))
    })
}
/// class predicate of K_RECENCY, on the input: two frame timestamps further apart than i64::MAX
fn timestamps_span_overflows(bytes: &[u8]) -> bool {
    candidate_tocs(bytes).iter().any(|t| {
        let mx = t.frames.iter().map(|f| f.timestamp as i128).max(); let mn = t.frames.iter().map(|f| f.timestamp as i128).min();
        match (mx, mn) { (Some(a), Some(b)) => a - b > i64::MAX as i128, _ => false }
    })
}

/// class predicate of K_DOCTOR_WAL, on the input: the header decodes and the log region it
/// describes does not lie inside the file
fn log_region_outside_file(bytes: &[u8]) -> bool {
    if bytes.len() < HDR { return false; }
    let arr: [u8; HDR] = bytes[..HDR].try_into().unwrap();
    // the legacy lock bytes are scrubbed by HeaderCodec::read before decoding
    let mut a = arr; for x in a[80..140].iter_mut() { *x = 0; }
    match HeaderCodec::decode(&a) { Ok(h) => h.wal_offset.checked_add(h.wal_size).map_or(true, |e| e > bytes.len() as u64), Err(_) => false }
}

/// class predicate of the Tantivy classes, on the input: some byte of a Tantivy segment region of
/// the base differs in (or is cut off from) the damaged file, or the TOC entry describing a
/// segment was changed
fn tantivy_bytes_damaged(m: &Mutant, b: &Base) -> bool {
    if m.desc.contains("lex_segments[") || m.desc.contains("tantivy_segments[") || m.desc.contains("indexes.lex.") { return true; }
    b.regions.iter().filter(|r| r.class == "tantivy" || r.class == "lex").any(|r| {
        let end = r.off + r.len;
        m.bytes.len() < end || m.bytes[r.off..end] != b.bytes[r.off..end]
    })
}

// ------------------------------------------------------------------------------------------------
// parent: the fuzz stream
// ------------------------------------------------------------------------------------------------
fn verdict(m: Option<&Mutant>, base: Option<&Base>, obs: &ChildObs) -> (Option<String>, Vec<String>) {
    let mut tags = vec![]; let mut viols: Vec<String> = vec![];
    for (call, res) in &obs.calls {
        if let Some(p) = res.strip_prefix("panic ") {
            let mut cls = panic_class(call, p);
            if let Some(m) = m {
                if cls == K_TI && !in_ti_class(&m.bytes) { cls = format!("{}-outside-class", K_TI); }
                if cls == K_SKETCH && !in_sketch_class(&m.bytes) { cls = format!("{}-outside-class", K_SKETCH); }
                if cls == K_TANTIVY {
                    let dmg = base.map_or(false, |b| tantivy_bytes_damaged(m, b));
                    if !dmg { cls = format!("{}-outside-class", K_TANTIVY); }
                    else if m.class.starts_with("resigned-lex") { cls = K_TANTIVY_RESIGNED.into(); }
                }
            }
            if m.is_none() && cls == K_TANTIVY { cls = format!("{}-outside-class", K_TANTIVY); }
            if cls == K_RECENCY && !m.map_or(false, |m| timestamps_span_overflows(&m.bytes)) { cls = format!("{}-outside-class", K_RECENCY); }
            if cls == K_DOCTOR_WAL && !m.map_or(false, |m| log_region_outside_file(&m.bytes)) { cls = format!("{}-outside-class", K_DOCTOR_WAL); }
            viols.push(format!("{}: {} panicked at {}", cls, call, p));
        }
        if res.starts_with("err") && res.contains("File too large") { viols.push(format!("resource-file-size: {} hit the 1 GiB file size limit ({})", call, res)); }
    }
    if let Some(d) = &obs.death {
        let call = obs.in_flight.clone().unwrap_or_else(|| "?".into());
        let doctor_wal = d.contains("SIGXFSZ") && (call.starts_with("doctor") || call == "open" || call == "open_after_doctor") && m.map_or(false, |m| log_region_outside_file(&m.bytes));
        if doctor_wal { viols.push(format!("{}: child died during {}: {}", K_DOCTOR_WAL, call, d)); }
        let seg = !doctor_wal && d.contains("SIGXFSZ") && m.map_or(false, |m| segment_beyond_file(&m.bytes));
        if seg { viols.push(format!("{}: child died during {}: {}", K_SEG, call, d)); }
        let cls = if doctor_wal || seg { "also" } else if d.starts_with("timeout") { "hang" } else if d.contains("SIGXFSZ") { "resource-file-size" } else if d.contains("memory allocation") { "resource-memory" } else if d.contains("overflowed its stack") { "stack-overflow" } else { "process-died" };
        if cls != "also" { viols.push(format!("{}-in-{}: child died during {}: {}", cls, call.split('.').last().unwrap_or("?"), call, d)); }
    }
    let n_ok = obs.calls.iter().filter(|c| c.1 == "ok").count(); let n_err = obs.calls.iter().filter(|c| c.1.starts_with("err")).count();
    tags.push(format!("calls-ok-{}", if n_ok == 0 { "0" } else if n_ok < 10 { "1..9" } else if n_ok < 60 { "10..59" } else { "60+" }));
    tags.push(format!("calls-err-{}", if n_err == 0 { "0" } else if n_err < 10 { "1..9" } else { "10+" }));
    for api in ["open_ro", "open", "verify", "doctor_plan", "doctor"] {
        if let Some((_, r)) = obs.calls.iter().find(|c| c.0 == api) { tags.push(format!("{}-{}", api, r.split(' ').next().unwrap_or("?"))); }
    }
    // the smallest class first so that the report is stable
    viols.sort();
    // known classes last: an unknown class must not hide behind a known one
    let known = [K_TANTIVY, K_TANTIVY_RESIGNED];
    viols.sort_by_key(|v| known.iter().any(|k| v.starts_with(&format!("{}:", k))));
    (viols.first().cloned(), tags)
}

fn obs_term(obs: &ChildObs) -> T {
    let n = |p: &str| obs.calls.iter().filter(|c| c.1.starts_with(p)).count() as u128;
    T::Tup(vec![T::N(n("ok")), T::N(n("err")), T::N(n("panic")), T::B(obs.death.is_some())])
}

fn pool<I: Send + 'static, O: Send + 'static>(items: Vec<I>, threads: usize, f: impl Fn(usize, I) -> O + Send + Sync + 'static) -> Vec<O> {
    let n = items.len();
    let q = Arc::new(Mutex::new(items.into_iter().enumerate().collect::<Vec<_>>()));
    { let mut g = q.lock().unwrap(); g.reverse(); }
    let res: Arc<Mutex<Vec<Option<O>>>> = Arc::new(Mutex::new((0..n).map(|_| None).collect()));
    let f = Arc::new(f);
    let hs: Vec<_> = (0..threads).map(|_| { let q = q.clone(); let res = res.clone(); let f = f.clone(); std::thread::spawn(move || loop {
        let it = { q.lock().unwrap().pop() };
        match it { None => break, Some((i, x)) => { let o = f(i, x); res.lock().unwrap()[i] = Some(o); } }
    }) }).collect();
    for h in hs { let _ = h.join(); }
    let mut g = res.lock().unwrap();
    g.drain(..).map(|o| o.expect("worker result")).collect()
}

const APIS: &str = "open_ro,verify,plan,open,doctor";

pub fn run(seed: u64, n: usize, tier: &str, w: &mut dyn std::io::Write) {
    let mut r = Rng::new(seed ^ 0xC22);
    run_walscan(&mut r, (n / 2).max(60), w);
    let root = std::env::temp_dir().join(format!("c22_{}_{}", std::process::id(), seed));
    let _ = std::fs::remove_dir_all(&root); std::fs::create_dir_all(&root).expect("c22 root");
    let bases = build_bases();
    for b in &bases {
        let classes: std::collections::BTreeSet<&str> = b.regions.iter().map(|r| r.class).collect();
        eprintln!("C22 base {}: {} bytes, {} frames, region classes {:?}", b.name, b.bytes.len(), b.toc.frames.len(), classes);
    }
    let muts = mutate(&mut r, &bases, n);
    let threads = if tier == "thorough" { 14 } else { 12 };
    let root2 = root.clone();
    let jobs: Vec<(usize, Vec<u8>)> = muts.iter().enumerate().map(|(i, m)| (i, m.bytes.clone())).collect();
    let t0 = std::time::Instant::now();
    let obs = pool(jobs, threads, move |_, (i, bytes)| {
        let dir = root2.join(format!("j{}", i)); let _ = std::fs::create_dir_all(&dir);
        let fp = root2.join(format!("f{}.mv2", i));
        std::fs::write(&fp, &bytes).expect("write mutant");
        let o = run_child(&fp, &dir, APIS);
        let _ = std::fs::remove_file(&fp);
        o
    });
    eprintln!("C22 fuzz: {} children in {:.1}s", muts.len(), t0.elapsed().as_secs_f64());
    for (m, o) in muts.iter().zip(obs.iter()) {
        let (mut viol, mut tags) = verdict(Some(m), Some(&bases[m.base]), o);
        if m.class == "intact" {
            // an intact memory must answer Ok on every entry point: the generator's sanity check
            for api in ["open_ro", "open", "verify", "doctor_plan", "doctor"] {
                match o.calls.iter().find(|c| c.0 == api) { Some((_, r)) if r == "ok" => {}, other => { viol.get_or_insert(format!("intact-file-refused: {} on the unchanged base {} answered {:?}", api, bases[m.base].name, other)); } }
            }
        }
        tags.push(format!("base-{}", bases[m.base].name)); tags.push(format!("class-{}", m.class)); tags.push(format!("kind-{}", m.kind));
        if o.ms > 5000 { tags.push("slow-5s".into()); }
        let reached = o.calls.len() > 5 || o.calls.iter().any(|c| c.1.starts_with("err"));
        let input = T::Tup(vec![T::S(bases[m.base].name.to_string()), T::S(ascii(&m.desc)), T::N(m.bytes.len() as u128)]);
        emit(w, "fuzz", &Case { input, output: obs_term(o), violation: viol, nontrivial: reached, tags, key: blake3::hash(&m.bytes).to_hex()[..16].to_string() });
    }
    run_req(&bases, &root, w);
    let _ = std::fs::remove_dir_all(&root);
}

fn ascii(s: &str) -> String { s.chars().map(|c| if c.is_ascii() && c != '"' && !c.is_control() { c } else { '?' }).collect() }

// ------------------------------------------------------------------------------------------------
// stream req: request parameters on an intact memory
// ------------------------------------------------------------------------------------------------
fn run_req(bases: &[Base], root: &Path, w: &mut dyn std::io::Write) {
    let b = &bases[0];
    let fp = root.join("req_base.mv2"); std::fs::write(&fp, &b.bytes).expect("write req base");
    let cases: Vec<(usize, &str, usize)> = vec![
        (1, "18446744073709551615", 0), (usize::MAX, "1", 0), (usize::MAX, "-", 0), (usize::MAX - 1, "1", 0), (usize::MAX - 1, "2", 3), (1, "18446744073709551614", 3),
        (0, "0", 0), (5, "99999", 0), (5, "abc", 0), (5, " 1 ", 0), (5, "-1", 0), (5, "18446744073709551616", 0), (3, "-", 1), (3, "-", 2), (3, "1", 3),
        (usize::MAX, "1", 4), (usize::MAX, "-", 4), (usize::MAX / 10, "-", 0), (usize::MAX / 10 + 1, "-", 0), (usize::MAX - 5, "5", 4), (usize::MAX - 5, "6", 4), (3, "-", 5),
        (1 << 61, "-", 4), (1 << 59, "-", 4), (1 << 40, "-", 4), (100_000, "-", 4), (1 << 40, "-", 0),
    ];
    let jobs: Vec<(usize, &str, usize)> = cases.clone();
    let root2 = root.to_path_buf(); let fp2 = fp.clone();
    let jobs2: Vec<String> = jobs.iter().map(|(k, c, q)| format!("req:{}:{}:{}", k, c, q)).collect();
    let obs = pool(jobs2, 8, move |i, api| run_child(&fp2, &root2.join(format!("r{}", i)), &api));
    for ((top_k, cursor, q), o) in cases.iter().zip(obs.iter()) {
        let (mut viol, mut tags) = verdict(None, None, o);
        // class predicate on the input: top_k.max(1) + (cursor parsed as usize, else 0) > usize::MAX
        if let Some(v) = &viol { if v.starts_with(K_CURSOR) {
            let hint = cursor.parse::<usize>().unwrap_or(0) as u128;
            if (*top_k).max(1) as u128 + hint <= usize::MAX as u128 { viol = Some(format!("{}-outside-class: {}", K_CURSOR, v)); }
        } }
        if let Some(v) = &viol { if v.starts_with(K_TOPK) { if (*top_k as u128) * 10 < 1u128 << 64 || *q >= 4 { viol = Some(format!("{}-outside-class: {}", K_TOPK, v)); } } }
        // Tantivy's collector: TopDocs::with_limit(doc_limit) allocates 2 * doc_limit entries; class predicate on the
        // input: no sketch pre-filter and 4 * (max(top_k, 1) + cursor) >= 2^32 (a panic for >= 2^58, an allocation failure below)
        if let Some(v) = &viol { if v.starts_with("tantivy-damaged-segment-outside-class") || v.starts_with("resource-memory") {
            let hint = cursor.parse::<usize>().unwrap_or(0) as u128;
            if *q >= 4 && 4 * ((*top_k).max(1) as u128 + hint) >= 1u128 << 32 { viol = Some(format!("{}: {}", K_TOPK_COLLECTOR, v)); }
        } }
        if let Some(v) = &viol { if v.starts_with(K_DATE) { if *q % 4 != 1 && *q % 4 != 2 { viol = Some(format!("{}-outside-class: {}", K_DATE, v)); } } }
        tags.push(format!("query-{}", q));
        let input = T::Tup(vec![T::N(*top_k as u128), T::S(cursor.to_string()), T::N(*q as u128)]);
        emit(w, "req", &Case { input, output: obs_term(o), violation: viol, nontrivial: true, tags, key: format!("req-{}-{}-{}", top_k, cursor, q) });
    }
}

// ------------------------------------------------------------------------------------------------
// stream walscan: EmbeddedWal::open against the checked-arithmetic model
// ------------------------------------------------------------------------------------------------
fn wal_record(seq: u64, payload: &[u8]) -> Vec<u8> {
    let mut v = Vec::with_capacity(48 + payload.len());
    v.extend_from_slice(&seq.to_le_bytes()); v.extend_from_slice(&(payload.len() as u32).to_le_bytes()); v.extend_from_slice(&[0u8; 4]);
    v.extend_from_slice(blake3::hash(payload).as_bytes()); v.extend_from_slice(payload);
    v
}

fn run_walscan(r: &mut Rng, n: usize, w: &mut dyn std::io::Write) {
    let dir = tempfile::tempdir().expect("tempdir");
    for k in 0..n {
        // file = `pad` zero bytes, then `tail`; the log region is [wal_offset, wal_offset + wal_size)
        let pad: u64 = match r.below(6) { 0 => 4096, 1 => 4097, 2 => r.range(4096, 4200), 3 => 5000, _ => 4096 };
        let mut tail: Vec<u8> = vec![]; let mut tags: Vec<String> = vec![];
        let nrec = match r.below(8) { 0 => 0, 1..=4 => r.range(1, 3), _ => r.range(3, 6) };
        let mut seq = r.below(5);
        let mut table: Vec<(Vec<u8>, Vec<u8>)> = vec![];
        for _ in 0..nrec {
            seq += if r.chance(1, 8) { 0 } else { 1 };
            let plen = match r.below(6) { 0 => 1, 1 => r.range(1, 8), _ => r.range(8, 60) } as usize;
            let p = r.bytes(plen);
            tail.extend(wal_record(seq, &p));
        }
        let good_len = tail.len() as u64;
        // what follows the records: zero header, nothing, junk, a header with len 0 / seq 0, a huge length
        match r.below(8) {
            0 => {}
            1..=3 => tail.extend(vec![0u8; r.range(48, 120) as usize]),
            4 => tail.extend(vec![0u8; r.below(48) as usize]),
            5 => { let junk_len = r.range(1, 100) as usize; tail.extend(r.bytes(junk_len)); tags.push("junk-after".into()); }
            6 => { let mut h = vec![0u8; 48]; h[..8].copy_from_slice(&r.range(1, 9).to_le_bytes()); tail.extend(h); tags.push("len0-seq-nonzero".into()); }
            _ => { let mut h = vec![0u8; 48]; h[8..12].copy_from_slice(&(match r.below(3) { 0 => u32::MAX, 1 => 1 << 31, _ => r.range(1, 300) as u32 }).to_le_bytes()); tail.extend(h); tail.extend(vec![0u8; r.below(80) as usize]); tags.push("seq0-len-nonzero".into()); }
        }
        // damage
        match r.below(10) {
            0 if !tail.is_empty() => { let i = r.below(tail.len() as u64) as usize; tail[i] ^= 1 << r.below(8); tags.push("bitflip".into()); }
            1 if !tail.is_empty() => { let c = r.below(tail.len() as u64) as usize; tail.truncate(c); tags.push("file-cut".into()); }
            2 if tail.len() >= 12 => { let v: u32 = match r.below(4) { 0 => u32::MAX, 1 => 0, 2 => (tail.len() as u32).saturating_sub(47), _ => r.next() as u32 }; tail[8..12].copy_from_slice(&v.to_le_bytes()); tags.push("len-field".into()); }
            _ => {}
        }
        let file_len = pad + tail.len() as u64;
        let wal_offset: u64 = match r.below(16) { 0 => pad + r.below(60), 1 => file_len, 2 => file_len + r.below(100), 3 => u64::MAX, 4 => u64::MAX - r.below(100), 5 => (1 << 63) - 1 - r.below(50), 6 => 1 << 63, 7 => pad.saturating_sub(r.below(40)).max(4096), _ => pad };
        let avail = file_len.saturating_sub(wal_offset);
        // since 03a10a9 a region that does not fit the file is refused before the scan: most sizes stay
        // inside the file (the scan is what the model is about), the boundary end == file length and
        // end == file length + 1 and the absurd values are kept
        let wal_size: u64 = match r.below(20) {
            0 => 0, 1 => r.range(1, 47), 2 => 48, 3 | 4 => good_len, 5 | 6 => (good_len + r.below(48)).min(avail.max(1)), 7 | 8 => (good_len + 48).min(avail.max(1)),
            9 | 10 | 11 => avail, 12 => avail + 1, 13 => avail + r.range(1, 100), 14 | 15 => avail.saturating_sub(r.range(1, 60)).max(1),
            16 => u64::MAX, 17 => u64::MAX - r.below(48), 18 => 1 << 63, _ => avail.max(1),
        };
        let ckpt_pos = match r.below(4) { 0 => 0, 1 => r.next(), _ => r.below(wal_size.max(1).saturating_add(3)) };
        let ckpt_seq = match r.below(5) { 0 => 0, 1 => seq, 2 => seq + 1, 3 => u64::MAX, _ => r.below(seq + 2) };
        // the digests the model needs: every record-shaped window the scan can look at
        {
            let mut cur = 0usize; let base = (wal_offset.saturating_sub(pad)) as usize;
            if wal_offset >= pad && wal_offset <= file_len {
                for _ in 0..12 {
                    let at = base + cur;
                    if at + 48 > tail.len() { break; }
                    let len = u32::from_le_bytes(tail[at + 8..at + 12].try_into().unwrap()) as usize;
                    if len == 0 || at + 48 + len > tail.len() { break; }
                    let p = tail[at + 48..at + 48 + len].to_vec();
                    table.push((p.clone(), blake3::hash(&p).as_bytes().to_vec()));
                    cur += 48 + len;
                }
            }
        }
        // run the implementation on a read-only clone: read_only = true keeps the sentinel writes out
        // (they are exercised by the fuzz stream); EmbeddedWal::open_read_only is the same scan
        let p = dir.path().join(format!("w{}.bin", k % 8));
        { let mut f = std::fs::File::create(&p).expect("create"); f.write_all(&vec![0u8; pad as usize]).unwrap(); f.write_all(&tail).unwrap(); }
        let file = std::fs::OpenOptions::new().read(true).write(true).open(&p).expect("open");
        let mut h = bases_header();
        h.wal_offset = wal_offset; h.wal_size = wal_size; h.wal_checkpoint_pos = ckpt_pos; h.wal_sequence = ckpt_seq;
        let res = catch_unwind(AssertUnwindSafe(|| EmbeddedWal::open_read_only(&file, &h)));
        let mut viol = None;
        let out = match &res {
            Ok(Ok(wal)) => { let s = wal.stats(); tags.push("ok".into()); T::C("Ok", vec![T::Tup(vec![T::N(s.pending_bytes as u128), T::N(s.sequence as u128)])]) }
            Ok(Err(e)) => {
                let s = e.to_string();
                let k = if s.contains("wal_size must be non-zero") { 7 } else if s.contains("wal region extends past end of file") { 8 } else if s.contains("length invalid") { 4 } else if s.contains("checksum mismatch") { 5 } else { 9 };
                tags.push(format!("err{}", k)); T::C("Err", vec![T::N(k)])
            }
            Err(_) => { viol = Some("wal-open-panic: EmbeddedWal::open_read_only panicked".to_string()); tags.push("panic".into()); T::C("Panic", vec![T::N(0)]) }
        };
        let tbl = T::L(table.iter().map(|(a, b)| T::Tup(vec![T::H(a.clone()), T::H(b.clone())])).collect());
        let input = T::Tup(vec![T::Tup(vec![T::N(pad as u128), T::H(tail.clone()), tbl]), T::Tup(vec![T::N(wal_offset as u128), T::N(wal_size as u128), T::N(ckpt_seq as u128)])]);
        let mut kb = tail.clone(); kb.extend_from_slice(&pad.to_le_bytes()); kb.extend_from_slice(&wal_offset.to_le_bytes()); kb.extend_from_slice(&wal_size.to_le_bytes()); kb.extend_from_slice(&ckpt_seq.to_le_bytes());
        emit(w, "walscan", &Case { input, output: out, violation: viol, nontrivial: nrec >= 1, tags, key: blake3::hash(&kb).to_hex()[..16].to_string() });
    }
}

fn bases_header() -> Header {
    Header { magic: *b"MV2\0", version: 0x0201, footer_offset: 4096, wal_offset: 4096, wal_size: 1, wal_checkpoint_pos: 0, wal_sequence: 0, toc_checksum: [0u8; 32] }
}
