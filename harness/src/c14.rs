//! C14: vector index membership.  Histories of embedded puts (whole and chunked), updates
//! with / without an explicit embedding, deletes, enable_vec, commits, reopen, exit without
//! commit + reopen, vacuum and doctor on a real Memvid, against (a) the model Model/VecStore.v
//! (per-op observation of vec_enabled / has_vec_index / vector_count / the loaded index) and
//! (b) an independent reference map frame id -> embedding kept here (the property oracle).
use crate::store::*;
use crate::term::*;
use memvid_core::types::FrameStatus;
use memvid_core::PutOptions;
use std::collections::{BTreeMap, BTreeSet};

const DIM: usize = 4;

#[derive(Clone, Debug)]
enum VOp {
    Put { kind: PayloadKind, size: usize, uri: Option<u32>, parent: Option<Vec<f32>>, chunks: Option<Vec<Vec<f32>>> },
    Update { target: u64, payload: Option<usize>, uri: Option<u32>, explicit: Option<Vec<f32>> },
    Delete { target: u64 },
    EnableVec,
    Commit, Reopen, Crash, Vacuum, Doctor(u8),
}

fn bits(e: &[f32]) -> Vec<u32> { e.iter().map(|x| x.to_bits()).collect() }
fn emb_term(e: &[f32]) -> T { T::L(e.iter().map(|x| T::N(x.to_bits() as u128)).collect()) }
fn opt_emb_term(e: &Option<Vec<f32>>) -> T { match e { Some(v) => T::some(emb_term(v)), None => T::none() } }
fn opt_n(v: Option<u64>) -> T { match v { Some(x) => T::some(T::N(x as u128)), None => T::none() } }

fn plain_opts(uri: Option<u32>, ts: i64) -> PutOptions {
    let mut o = PutOptions::default();
    o.timestamp = Some(ts); o.uri = uri.map(uri_string);
    o.auto_tag = false; o.extract_dates = false; o.extract_triplets = false; o.instant_index = false;
    o
}

/// did the mutating call end with an automatic checkpoint?  (copy of store.rs's private oracle)
fn auto_oracle(d: &mut Driver, wal_seq_before: u64, appended: u64) -> (T, bool) {
    let (_, pending, _, seq_now) = memvid_core::verif_hooks::wal_stats(d.mem());
    let grew = seq_now - wal_seq_before;
    if grew > 0 && pending == 0 { (T::some(T::N((grew.saturating_sub(appended)) as u128)), true) }
    else if grew > appended { (T::some(T::N((grew - appended) as u128)), true) }
    else { (T::none(), false) }
}

struct Obs { enabled: bool, has: bool, count: u64, index: Option<Vec<(u64, Vec<u32>)>>, err: Option<String> }

/// what the handle shows about the vector index right now
fn observe(d: &mut Driver) -> Obs {
    let st = d.mem().stats().expect("stats");
    let mut err = None;
    let q = [0.0f32; DIM];
    let index = match d.mem().search_vec(&q, 1_000_000) {
        Ok(hits) => {
            let mut ids: Vec<u64> = hits.iter().map(|h| h.frame_id).collect();
            ids.sort();
            let mut v = vec![];
            for id in ids {
                match d.mem().frame_embedding(id) {
                    Ok(Some(e)) => v.push((id, bits(&e))),
                    Ok(None) => { err.get_or_insert(format!("search_vec reaches frame {} but frame_embedding({}) is None", id, id)); v.push((id, vec![])); }
                    Err(e) => { err.get_or_insert(format!("frame_embedding({}) failed: {}", id, e)); }
                }
            }
            Some(v)
        }
        Err(e) => { let s = e.to_string(); if !s.contains("not enabled") { err.get_or_insert(format!("search_vec failed: {}", s)); } None }
    };
    Obs { enabled: st.vec_enabled, has: st.has_vec_index, count: st.vector_count, index, err }
}

fn obs_term(o: &Obs) -> T {
    let idx = match &o.index {
        Some(v) => T::some(T::L(v.iter().map(|(id, e)| T::Tup(vec![T::N(*id as u128), T::L(e.iter().map(|b| T::N(*b as u128)).collect())])).collect())),
        None => T::none(),
    };
    T::Tup(vec![T::B(o.enabled), T::B(o.has), T::N(o.count as u128), idx])
}

pub struct VHistory { ops: Vec<T>, outs: Vec<T>, violation: Option<String>, tags: Vec<String>, nontrivial: bool }

fn fresh_emb(r: &mut Rng, counter: &mut u32, pool: &mut Vec<Vec<f32>>) -> Vec<f32> {
    // mostly distinct vectors; sometimes a repeat of an earlier one (two frames at distance 0), negative zero, large values
    if !pool.is_empty() && r.chance(1, 10) { return pool[r.below(pool.len() as u64) as usize].clone(); }
    *counter += 1;
    let c = *counter as f32;
    let e = match r.below(8) {
        0 => vec![c, -0.0, 0.0, 1.0],
        1 => vec![c * 1.0e6, 3.5, -c, 1.0e-3],
        2 => vec![0.0, 0.0, 0.0, c],
        _ => vec![c, (r.below(200) as f32 - 100.0) / 8.0, (r.below(1000) as f32) / 16.0, -c / 2.0],
    };
    pool.push(e.clone());
    e
}

pub fn run_history(r: &mut Rng, nops: usize, profile: u64, script: Option<&[VOp]>) -> VHistory {
    let nops = script.map(|s| s.len()).unwrap_or(nops);
    let mut d = Driver::new();
    let mut ops_terms: Vec<T> = vec![]; let mut outs: Vec<T> = vec![];
    let mut tags: BTreeSet<String> = BTreeSet::new();
    let mut unknown_viol: Option<String> = None;
    // ---- reference (acknowledged calls only) ----
    let mut active: Vec<bool> = vec![];                 // per frame id
    let mut is_doc: Vec<bool> = vec![];                 // Document (not chunk) frames: update/delete targets
    let mut chunked: Vec<bool> = vec![];
    let mut given: BTreeMap<u64, Vec<u32>> = BTreeMap::new();
    let mut pending_given: Vec<u64> = vec![];           // ids given an embedding since the last quiescent point
    let mut disk_has_manifest = false;                  // the TOC in the file has a vec manifest
    let mut counter = 0u32; let mut pool: Vec<Vec<f32>> = vec![];
    let mut uri_counter = 0u32; let mut next_tag = 1000u64;
    let mut survived_commit = false; let mut touched_embedded = false;

    for i in 0..nops {
        let n_committed = d.mem().frame_count() as u64;
        let c = r.below(100);
        let pick_target = |r: &mut Rng, want_embedded: bool| -> u64 {
            if r.chance(1, 10) { return n_committed + r.below(3); }
            let docs: Vec<u64> = (0..n_committed.min(active.len() as u64)).filter(|i| is_doc[*i as usize] && !chunked[*i as usize]).collect();
            let pref: Vec<u64> = docs.iter().cloned().filter(|i| active[*i as usize] && (!want_embedded || given.contains_key(i))).collect();
            if !pref.is_empty() && r.chance(5, 6) { pref[r.below(pref.len() as u64) as usize] }
            else if !docs.is_empty() { docs[r.below(docs.len() as u64) as usize] } else { n_committed }
        };
        let op = if let Some(s) = script { s[i].clone() } else if i + 1 == nops { VOp::Commit }
        else if c < 46 || n_committed == 0 && c < 70 {
            let k = r.below(100);
            let uri = if r.chance(1, 3) { uri_counter += 1; Some(uri_counter) } else { None };
            if k < 12 {
                // chunked text document through put_with_chunk_embeddings
                let size = r.range(2500, 6500) as usize;
                let text = payload_bytes(&PayloadKind::Chunked, size, next_tag);
                let n = std::str::from_utf8(&text).ok().and_then(|t| memvid_core::verif_hooks::plan_text_chunks(t)).map(|p| p.2.len()).unwrap_or(0);
                let m = match r.below(6) { 0 => 0, 1 => n.saturating_sub(1), 2 => n + 2, 3 => 1, _ => n };
                let parent = if r.chance(2, 3) { Some(fresh_emb(r, &mut counter, &mut pool)) } else { None };
                let parent = if parent.is_some() && r.chance(1, 6) { Some(vec![]) } else { parent };     // "can be empty Vec if chunks have embeddings"
                let chunks = (0..m).map(|_| if r.chance(1, 12) { vec![] } else { fresh_emb(r, &mut counter, &mut pool) }).collect();
                VOp::Put { kind: PayloadKind::Chunked, size, uri, parent, chunks: Some(chunks) }
            } else if k < 16 {
                // chunk embeddings offered for a document that is not split: they are ignored (but enable the index)
                let chunks = (0..r.range(1, 3)).map(|_| fresh_emb(r, &mut counter, &mut pool)).collect();
                let parent = if r.chance(1, 2) { Some(fresh_emb(r, &mut counter, &mut pool)) } else { None };
                VOp::Put { kind: PayloadKind::Bin, size: r.range(1, 300) as usize, uri, parent, chunks: Some(chunks) }
            } else {
                let size = match (profile, r.below(12)) {
                    (1, 0..=1) => r.range(47000, 52000) as usize,        // crosses the 75 % automatic checkpoint
                    (2, 0) => r.range(66000, 80000) as usize,            // larger than the log region: growth
                    (2, 1) => r.range(30000, 40000) as usize,
                    _ => r.range(1, 400) as usize,
                };
                let kind = if size < 2000 && r.chance(1, 6) { PayloadKind::Text } else { PayloadKind::Bin };
                let p_emb = match profile { 3 => 3, _ => 7 };            // profile 3: few embeddings (index stays disabled / placeholder longer)
                let parent = if r.below(10) < p_emb { Some(if r.chance(1, 14) { vec![] } else { fresh_emb(r, &mut counter, &mut pool) }) } else { None };
                VOp::Put { kind, size, uri, parent, chunks: None }
            }
        } else if c < 60 && n_committed > 0 {
            let target = pick_target(r, true);
            let payload = if r.chance(1, 2) { Some(r.range(1, 600) as usize) } else { None };
            let uri = if r.chance(1, 6) { uri_counter += 1; Some(uri_counter) } else { None };
            let explicit = if r.chance(2, 5) { Some(if r.chance(1, 8) { vec![] } else { fresh_emb(r, &mut counter, &mut pool) }) } else { None };
            VOp::Update { target, payload, uri, explicit }
        } else if c < 70 && n_committed > 0 { VOp::Delete { target: pick_target(r, true) } }
        else if c < 72 { VOp::EnableVec }
        else if c < 77 { VOp::Vacuum }
        else if c < 83 { VOp::Doctor(match r.below(10) { 0 => 4, 1 => if r.chance(1, 2) { 12 } else { 7 }, 2 => r.below(16) as u8, _ => (r.below(16) as u8) & !4 }) }
        else if c < 90 { VOp::Commit } else if c < 95 { VOp::Reopen } else { VOp::Crash };

        // ---- run it ----
        let t_op = std::time::Instant::now();
        let (region_b, _, _, wal_seq_before) = memvid_core::verif_hooks::wal_stats(d.mem());
        let next_before = d.mem().next_frame_id();
        let pending_had_embedding = !pending_given.is_empty();
        let disk_before = disk_has_manifest;
        let mut ok = true; let mut quiescent_op = false; let mut auto_committed = false;
        let op_term; let out_term;
        match &op {
            VOp::Put { kind, size, uri, parent, chunks } => {
                let tag = next_tag; next_tag += 1000;
                let bytes = payload_bytes(kind, *size, tag);
                let opts = plain_opts(*uri, 1_700_000_000 + i as i64);
                let res = match (parent, chunks) {
                    (p, Some(cs)) => d.mem().put_with_chunk_embeddings(&bytes, p.clone(), cs.clone(), opts),
                    (Some(p), None) => d.mem().put_with_embedding_and_options(&bytes, p.clone(), opts),
                    (None, None) => d.mem().put_bytes_with_options(&bytes, opts),
                };
                let seq = match res { Ok(s) => s, Err(e) => { ok = false; unknown_viol.get_or_insert(format!("op-failed: op {} put returned an error: {}", i, e)); 0 } };
                let next_after = d.mem().next_frame_id();
                let nchunks = if ok { next_after - next_before - 1 } else { 0 };
                let (auto, ac) = auto_oracle(&mut d, wal_seq_before, 1 + nchunks); auto_committed = ac && ok;
                let grew = memvid_core::verif_hooks::wal_stats(d.mem()).0 > region_b;
                if grew { tags.insert("walgrowth".into()); }
                op_term = T::C("VOp", vec![T::C("OPut", vec![opt_n(uri.map(|u| u as u64)), T::N(tag as u128), T::N(nchunks as u128), T::N(0), auto]),
                                           T::C("VPut", vec![opt_emb_term(parent), match chunks { Some(cs) => T::some(T::L(cs.iter().map(|e| emb_term(e)).collect())), None => T::none() }, T::B(grew)])]);
                let fc = d.mem().frame_count() as u64;
                out_term = T::Tup(vec![if ok { T::C("Ok", vec![T::N(seq as u128)]) } else { T::C("Err", vec![T::N(9)]) }, T::N(fc as u128), T::N(next_after as u128)]);
                if ok {
                    let id = active.len() as u64;
                    if id != next_before { unknown_viol.get_or_insert(format!("id-prediction: op {} next_frame_id() {} but {} frames were acknowledged", i, next_before, id)); }
                    active.push(true); is_doc.push(true); chunked.push(nchunks > 0);
                    if let Some(p) = parent { if !p.is_empty() { given.insert(id, bits(p)); pending_given.push(id); } else { tags.insert("empty-vector".into()); } }
                    for j in 0..nchunks {
                        active.push(true); is_doc.push(false); chunked.push(false);
                        if let Some(e) = chunks.as_ref().and_then(|cs| cs.get(j as usize)) { if !e.is_empty() { given.insert(id + 1 + j, bits(e)); pending_given.push(id + 1 + j); tags.insert("chunk-embedding".into()); } else { tags.insert("empty-vector".into()); } }
                    }
                    if nchunks > 0 { tags.insert("chunked".into()); }
                }
            }
            VOp::Update { target, payload, uri, explicit } => {
                let mut newtag = None; let mut bytes = None;
                if let Some(size) = payload { let tag = next_tag; next_tag += 1000; newtag = Some(tag); bytes = Some(payload_bytes(&PayloadKind::Bin, *size, tag)); }
                let mut opts = PutOptions::default();
                opts.uri = uri.map(uri_string); opts.auto_tag = false; opts.extract_dates = false; opts.extract_triplets = false; opts.instant_index = false;
                let mut errk = 0u128; let mut seq = 0;
                match d.mem().update_frame(*target, bytes, opts, explicit.clone()) {
                    Ok(s) => seq = s,
                    Err(e) => { ok = false; let s = e.to_string(); errk = if s.contains("not active") { 2 } else { 1 }; }
                }
                let (auto, ac) = auto_oracle(&mut d, wal_seq_before, 1); auto_committed = ac && ok;
                let grew = memvid_core::verif_hooks::wal_stats(d.mem()).0 > region_b;
                op_term = T::C("VOp", vec![T::C("OUpdate", vec![T::N(*target as u128), opt_n(newtag), opt_n(uri.map(|u| u as u64)), auto]), T::C("VUpd", vec![opt_emb_term(explicit), T::B(grew)])]);
                let fc = d.mem().frame_count() as u64; let na = d.mem().next_frame_id();
                out_term = T::Tup(vec![if ok { T::C("Ok", vec![T::N(seq as u128)]) } else { T::C("Err", vec![T::N(errk)]) }, T::N(fc as u128), T::N(na as u128)]);
                if ok {
                    let id = active.len() as u64;
                    let carried = match explicit { Some(e) if e.is_empty() => { tags.insert("empty-vector".into()); None } Some(e) => { tags.insert("update-explicit".into()); Some(bits(e)) } None => { let c = given.get(target).cloned(); if c.is_some() { tags.insert("update-carry".into()); } c } };
                    if given.contains_key(target) { touched_embedded = true; }
                    active[*target as usize] = false;
                    active.push(true); is_doc.push(true); chunked.push(false);
                    if let Some(e) = carried { given.insert(id, e); pending_given.push(id); }
                } else { tags.insert("update-rejected".into()); }
            }
            VOp::Delete { target } => {
                let mut errk = 0u128; let mut seq = 0;
                match d.mem().delete_frame(*target) {
                    Ok(s) => seq = s,
                    Err(e) => { ok = false; let s = e.to_string(); errk = if s.contains("not active") { 2 } else { 1 }; }
                }
                let (auto, ac) = auto_oracle(&mut d, wal_seq_before, 1); auto_committed = ac && ok;
                let grew = memvid_core::verif_hooks::wal_stats(d.mem()).0 > region_b;
                op_term = T::C("VOp", vec![T::C("ODelete", vec![T::N(*target as u128), auto]), T::C("VDel", vec![T::B(grew)])]);
                let fc = d.mem().frame_count() as u64; let na = d.mem().next_frame_id();
                out_term = T::Tup(vec![if ok { T::C("Ok", vec![T::N(seq as u128)]) } else { T::C("Err", vec![T::N(errk)]) }, T::N(fc as u128), T::N(na as u128)]);
                if ok { if given.contains_key(target) { touched_embedded = true; tags.insert("delete-embedded".into()); } active[*target as usize] = false; }
            }
            VOp::EnableVec => {
                if let Err(e) = d.mem().enable_vec() { unknown_viol.get_or_insert(format!("op-failed: enable_vec: {}", e)); }
                op_term = T::C("VEnableVec", vec![]);
                let fc = d.mem().frame_count() as u64; let na = d.mem().next_frame_id();
                out_term = T::Tup(vec![T::C("Ok", vec![T::N(0)]), T::N(fc as u128), T::N(na as u128)]);
                tags.insert("enable_vec".into());
            }
            VOp::Commit | VOp::Reopen | VOp::Crash | VOp::Vacuum | VOp::Doctor(_) => {
                let sop = match &op { VOp::Commit => Op::Commit, VOp::Reopen => Op::Reopen, VOp::Crash => Op::Crash, VOp::Vacuum => Op::Vacuum, VOp::Doctor(b) => Op::Doctor(*b), _ => unreachable!() };
                let obs = d.step(&sop);
                if let Some(e) = d.open_error.clone() {
                    unknown_viol.get_or_insert(format!("open-failed: op {} {:?}: the memory could not be opened again: {}", i, op, e));
                    break;
                }
                if !obs.ok { unknown_viol.get_or_insert(format!("op-failed: op {} {:?} returned an error", i, op)); }
                let info = match &op { VOp::Vacuum => T::C("VVacuum", vec![]), VOp::Doctor(b) => T::C("VDoctor", vec![T::N(*b as u128)]), _ => T::C("VNone", vec![]) };
                op_term = T::C("VOp", vec![obs.op_term, info]);
                out_term = obs.out_term;
                quiescent_op = true;
                match &op {
                    VOp::Doctor(b) => {
                        tags.insert(if b & 4 != 0 { "doctor-vec".into() } else { "doctor".into() });
                        if let Some(st) = d.last_doctor.clone() { if st == "panic" || st.starts_with("error") || st == "Failed" { unknown_viol.get_or_insert(format!("doctor-failed: op {} doctor ended with {}", i, st)); } }
                    }
                    VOp::Vacuum => { tags.insert("vacuum".into()); }
                    VOp::Reopen => { tags.insert("reopen".into()); }
                    VOp::Crash => {
                        tags.insert("crash".into());
                        if !disk_before && pending_had_embedding { tags.insert("crash-before-vec-manifest".into()); }
                        if disk_before && pending_had_embedding { tags.insert("crash-replays-embeddings".into()); }
                    }
                    _ => {}
                }
            }
        }
        if auto_committed { tags.insert("autocheckpoint".into()); }
        ops_terms.push(op_term);
        if std::env::var("MV_TIME").is_ok() { eprintln!("TIME {} {:?}", short(&op).split('(').next().unwrap_or(""), t_op.elapsed().as_millis()); }

        // ---- observation compared with the model ----
        let o = observe(&mut d);
        if let Some(e) = &o.err { unknown_viol.get_or_insert(format!("index-inconsistent: after op {} {}", i, e)); }
        outs.push(T::Tup(vec![out_term, obs_term(&o)]));
        let grew_now = memvid_core::verif_hooks::wal_stats(d.mem()).0 > region_b;
        if quiescent_op || auto_committed || grew_now { disk_has_manifest = o.has; }

        // ---- property oracle at quiescent points ----
        let quiescent = quiescent_op || auto_committed;   // the frame records are applied; only the commit's own lex records may still be pending
        if quiescent || i + 1 == nops {
            let mut problems: Vec<String> = vec![];
            let expected: BTreeMap<u64, Vec<u32>> = given.iter().filter(|(id, _)| active.get(**id as usize).cloned().unwrap_or(false)).map(|(a, b)| (*a, b.clone())).collect();
            let reach: BTreeMap<u64, Vec<u32>> = o.index.clone().unwrap_or_default().into_iter().collect();
            let missing: Vec<u64> = expected.keys().filter(|k| !reach.contains_key(k)).cloned().collect();
            let extra: Vec<u64> = reach.keys().filter(|k| !expected.contains_key(k)).cloned().collect();
            if !missing.is_empty() { problems.push(format!("active frames {:?} were given an embedding but vector search cannot reach them", missing)); }
            if !extra.is_empty() { problems.push(format!("vector search reaches frames {:?} which are not active frames with an embedding", extra)); }
            for (id, e) in &expected { if let Some(g) = reach.get(id) { if g != e { problems.push(format!("frame {} has embedding bits {:?} in the index, was given {:?}", id, g, e)); } } }
            if o.count != expected.len() as u64 && missing.is_empty() && extra.is_empty() { problems.push(format!("Stats.vector_count {} but {} embedded active frames", o.count, expected.len())); }
            // the status table of the implementation agrees with the reference
            let fc = d.mem().frame_count() as u64;
            if fc != active.len() as u64 { problems.push(format!("{} frames, {} acknowledged", fc, active.len())); }
            for id in 0..fc.min(active.len() as u64) {
                let f = d.mem().frame_by_id(id).expect("frame_by_id");
                if (f.status == FrameStatus::Active) != active[id as usize] { problems.push(format!("frame {} status {:?}, reference active = {}", id, f.status, active[id as usize])); }
            }
            // findability: each expected frame is found at its own embedding with k = index size, and frame_embedding returns the bits
            if missing.is_empty() && extra.is_empty() {
                for (id, e) in &expected {
                    let q: Vec<f32> = e.iter().map(|b| f32::from_bits(*b)).collect();
                    match d.mem().search_vec(&q, o.count.max(1) as usize) {
                        Ok(hits) => { if !hits.iter().any(|h| h.frame_id == *id && h.distance == 0.0) { problems.push(format!("search_vec at frame {}'s own embedding with k = {} does not return it at distance 0", id, o.count)); } }
                        Err(err) => problems.push(format!("search_vec failed: {}", err)),
                    }
                    match d.mem().frame_embedding(*id) { Ok(Some(g)) if bits(&g) == *e => {}, other => problems.push(format!("frame_embedding({}) = {:?}", id, other.map(|o| o.map(|v| bits(&v))).map_err(|e| e.to_string()))) }
                }
                for id in 0..fc.min(active.len() as u64) { if !expected.contains_key(&id) { if let Ok(Some(_)) = d.mem().frame_embedding(id) { problems.push(format!("frame_embedding({}) is Some for a frame outside the expected set", id)); } } }
            }
            if !problems.is_empty() {
                let only_missing = extra.is_empty() && problems.len() == 1 && !missing.is_empty();
                let text = format!("after op {} {:?}: {}", i, short(&op), problems.join("; "));
                // F-C14-1 / F-C14-2 are repaired (83a83e8, 8099cac): their classes are ordinary violations again
                let class = match &op {
                    VOp::Doctor(b) if b & 4 != 0 && only_missing && reach.is_empty() => "doctor-vec-rebuild",
                    VOp::Crash if !disk_before && pending_had_embedding && only_missing && missing.iter().all(|m| pending_given.contains(m)) => "crash-before-vec-manifest",
                    _ => "membership-mismatch",
                };
                unknown_viol.get_or_insert(format!("{}: {}", class, text));
                // resynchronise the reference with the implementation so the rest of the history is still checked
                given.retain(|id, _| reach.contains_key(id) || !active.get(*id as usize).cloned().unwrap_or(false));
                for (id, e) in &reach { given.insert(*id, e.clone()); }
            } else if !expected.is_empty() { survived_commit = true; }
            pending_given.clear();
        }
    }
    let nontrivial = survived_commit && touched_embedded;
    let mut tags: Vec<String> = tags.into_iter().collect();
    tags.push(format!("profile{}", profile));
    VHistory { ops: ops_terms, outs, violation: unknown_viol, tags, nontrivial }
}

fn short(op: &VOp) -> String {
    match op {
        VOp::Put { size, parent, chunks, .. } => format!("Put(size {}, parent emb {}, chunk embs {:?})", size, parent.is_some(), chunks.as_ref().map(|c| c.len())),
        VOp::Update { target, payload, explicit, .. } => format!("Update({}, payload {}, explicit emb {})", target, payload.is_some(), explicit.is_some()),
        o => format!("{:?}", o),
    }
}

/// fixed histories run before the generated ones: the witnesses of the repaired findings
/// (F-C14-1 doctor with rebuild_vec_index, F-C14-2 exit before the vec manifest reached the file),
/// their combinations, and empty vectors
fn corpus() -> Vec<Vec<VOp>> {
    let e = |k: u32| -> Vec<f32> { vec![k as f32, 2.0, -0.5 * k as f32, 4.0] };
    let put = |p: Option<Vec<f32>>| VOp::Put { kind: PayloadKind::Bin, size: 40, uri: None, parent: p, chunks: None };
    let upd = |t: u64, payload: Option<usize>, x: Option<Vec<f32>>| VOp::Update { target: t, payload, uri: None, explicit: x };
    vec![
        vec![put(Some(e(1))), VOp::Commit, VOp::Doctor(4), VOp::Reopen],
        vec![put(Some(e(1))), VOp::Crash, put(Some(e(2))), VOp::Commit],
        vec![put(Some(e(1))), put(Some(e(2))), put(None), VOp::Commit, upd(0, Some(10), None), VOp::Delete { target: 1 }, VOp::Commit,
             VOp::Doctor(12), VOp::Doctor(7), VOp::Vacuum, VOp::Reopen, upd(3, None, None), VOp::Doctor(15), VOp::Commit],
        vec![VOp::Put { kind: PayloadKind::Chunked, size: 4000, uri: Some(1), parent: None, chunks: Some(vec![e(3), e(4), e(5)]) }, VOp::Crash,
             put(Some(e(6))), VOp::Commit, VOp::Doctor(4), VOp::Delete { target: 0 }, VOp::Crash],
        vec![put(Some(vec![])), VOp::Commit, put(Some(e(1))), put(Some(vec![])), VOp::Commit, upd(1, None, Some(vec![])), upd(0, Some(5), Some(e(2))), VOp::Commit, VOp::Reopen],
        vec![VOp::EnableVec, VOp::Commit, put(Some(e(1))), VOp::Crash, VOp::Doctor(4), VOp::Commit],
        vec![put(None), VOp::Commit, VOp::Doctor(4), put(Some(e(1))), VOp::Crash, VOp::Doctor(6), VOp::Reopen],
        vec![put(Some(e(1))), upd(0, None, None), VOp::Crash, upd(0, None, None), VOp::Crash, VOp::Doctor(5)],
    ]
}

pub fn run(seed: u64, n: usize, w: &mut dyn std::io::Write) {
    // real-memory histories fsync on every commit: keep the scratch files on tmpfs when there is one
    if std::env::var("MV_KEEP_TMPDIR").is_err() && std::path::Path::new("/dev/shm").is_dir() { std::env::set_var("TMPDIR", "/dev/shm"); }
    let mut r = Rng::new(seed ^ 0xC14);
    let scripts = corpus();
    for i in 0..scripts.len() + n {
        let profile = (i % 4) as u64;
        let h = if i < scripts.len() {
            let mut h = run_history(&mut r, 0, 0, Some(&scripts[i])); h.tags.push("corpus".into()); h
        } else {
            let nops = match profile { 0 => r.range(6, 30), 1 => r.range(10, 34), _ => r.range(8, 28) } as usize;
            run_history(&mut r, nops, profile, None)
        };
        let input = T::L(h.ops.clone());
        let output = T::L(h.outs.clone());
        let key = blake3::hash(input.coq().as_bytes()).to_hex()[..16].to_string();
        emit(w, "hist", &Case { input, output, violation: h.violation, nontrivial: h.nontrivial, tags: h.tags, key });
    }
}
