//! C33 text normalization: `memvid_core::text::{normalize_text, truncate_at_grapheme_boundary}`.
//!
//! Per case the harness runs the real functions, evaluates the property clause by clause on the
//! implementation's output (independently of the model) and emits, for the Coq model, the Unicode
//! oracle tables of exactly the strings involved, computed with the same crates the implementation
//! uses (unicode-normalization, unicode-segmentation, char::is_control / is_whitespace).
use crate::term::*;
use memvid_core::text::{normalize_text, truncate_at_grapheme_boundary, NormalizedText};
use std::collections::BTreeSet;
use std::panic::{catch_unwind, AssertUnwindSafe};
use unicode_normalization::UnicodeNormalization;
use unicode_segmentation::UnicodeSegmentation;

pub type NormFn = fn(&str, usize) -> Option<NormalizedText>;
pub type TruncFn = fn(&str, usize) -> usize;

const WORDS: &[&str] = &["a", "b", "ab", "cd", "memory", "frame", "x", "Hello", "World", "test", "next", "e", "o", "A"];
const SPACES: &[&str] = &[" ", " ", "  ", "   ", "\t", " \t ", "\u{a0}", "\u{2028}", "\u{2029}", "\u{3000}", "\u{1680}", "\u{2003}", "\u{202f}", "\u{205f}", "\u{200a}"];
const NEWLINES: &[&str] = &["\n", "\r", "\r\n", "\n\n", "\r\n\r\n", " \n", "\n ", " \n ", "\n\t\n", "\n \n", "  \n", "\r \r", "\n\r"];
const CONTROLS: &[&str] = &["\u{0}", "\u{1}", "\u{7}", "\u{8}", "\u{b}", "\u{c}", "\u{1b}", "\u{1f}", "\u{7f}", "\u{80}", "\u{85}", "\u{9f}"];
const MARKS: &[&str] = &["\u{301}", "\u{300}", "\u{308}", "\u{323}", "\u{327}", "\u{301}\u{323}", "\u{323}\u{301}", "\u{334}", "\u{20dd}", "\u{fe0f}", "\u{200d}", "\u{200b}", "\u{ad}"];
const COMPOSED: &[&str] = &["é", "á", "ü", "ñ", "Å", "ç", "ệ", "e\u{301}", "a\u{301}", "u\u{308}", "A\u{30a}", "q\u{301}"];
const COMPAT: &[&str] = &["ﬁ", "ﬃ", "Ａ", "ｂ", "１", "²", "³", "½", "™", "㎏", "Ⅳ", "ª", "…", "´", "¨", "\u{2002}a", "ｶﾞ", "㈱"];
const EMOJI: &[&str] = &["😀", "👍🏽", "👨\u{200d}👩\u{200d}👧", "🇮🇳", "🇩🇪🇫🇷", "🏳\u{fe0f}\u{200d}🌈", "❤\u{fe0f}", "1\u{fe0f}\u{20e3}"];
const HANGUL: &[&str] = &["\u{1100}\u{1161}", "\u{1100}\u{1161}\u{11a8}", "한", "각", "\u{1112}\u{1161}\u{11ab}", "\u{ac00}\u{11a8}", "\u{1100}", "\u{1161}"];
const OTHER: &[&str] = &["中", "文", "日本", "Ω", "ß", "ا", "ก\u{e33}", "न\u{94d}द", "\u{e01}\u{e31}", "𝒜", "\u{10ffff}", "\u{fffd}", "\u{7ff}", "\u{800}", "\u{ffff}", "\u{10000}"];

fn pk(r: &mut Rng, v: &[&'static str]) -> &'static str { v[r.below(v.len() as u64) as usize] }

/// 0 plain prose, 1 whitespace heavy, 2 control heavy (controls between bases and marks), 3 unicode mix,
/// 4 tiny, 5 mostly whitespace/control (None results), 6 long graphemes (fallback path)
fn gen_text(r: &mut Rng, style: u64) -> String {
    let pieces = match style { 4 => r.below(4), 5 => r.below(6), _ => match r.below(10) { 0 => r.below(3), 1..=6 => r.range(2, 10), _ => r.range(10, 22) } };
    let mut s = String::new();
    for _ in 0..pieces {
        let k = r.below(100);
        let p: &str = match style {
            0 => if k < 55 { pk(r, WORDS) } else if k < 85 { pk(r, &SPACES[..4]) } else if k < 93 { pk(r, &NEWLINES[..3]) } else { pk(r, COMPOSED) },
            1 => if k < 30 { pk(r, WORDS) } else if k < 65 { pk(r, SPACES) } else if k < 90 { pk(r, NEWLINES) } else if k < 95 { pk(r, CONTROLS) } else { pk(r, MARKS) },
            2 => if k < 25 { pk(r, WORDS) } else if k < 50 { pk(r, CONTROLS) } else if k < 70 { pk(r, MARKS) } else if k < 80 { pk(r, COMPOSED) } else if k < 88 { pk(r, HANGUL) } else if k < 94 { pk(r, SPACES) } else { pk(r, NEWLINES) },
            3 => if k < 15 { pk(r, WORDS) } else if k < 30 { pk(r, COMPAT) } else if k < 45 { pk(r, EMOJI) } else if k < 55 { pk(r, HANGUL) } else if k < 67 { pk(r, OTHER) } else if k < 77 { pk(r, MARKS) } else if k < 85 { pk(r, COMPOSED) } else if k < 92 { pk(r, SPACES) } else if k < 96 { pk(r, NEWLINES) } else { pk(r, CONTROLS) },
            4 => if k < 30 { pk(r, WORDS) } else if k < 45 { pk(r, SPACES) } else if k < 55 { pk(r, NEWLINES) } else if k < 65 { pk(r, CONTROLS) } else if k < 75 { pk(r, MARKS) } else if k < 85 { pk(r, EMOJI) } else { pk(r, COMPAT) },
            5 => if k < 40 { pk(r, SPACES) } else if k < 65 { pk(r, NEWLINES) } else if k < 92 { pk(r, CONTROLS) } else { pk(r, &["a", "\u{301}", "\u{200b}"]) },
            _ => if k < 35 { pk(r, EMOJI) } else if k < 55 { pk(r, MARKS) } else if k < 70 { pk(r, HANGUL) } else if k < 80 { pk(r, WORDS) } else if k < 90 { pk(r, SPACES) } else { pk(r, COMPOSED) },
        };
        s.push_str(p);
        // a control character right between a base and a following mark / jamo (the shield pattern)
        if style == 2 && r.chance(1, 4) { s.push_str(pk(r, &["a", "e", "\u{1100}", "q"])); s.push_str(pk(r, CONTROLS)); s.push_str(pk(r, &["\u{301}", "\u{308}", "\u{1161}", "\u{323}\u{301}"])); }
    }
    s
}

/// a str as the compact literal `U8 "<hex of its UTF-8 bytes>"` (decoded to code points in Corr/C33.v)
fn cps(s: &str) -> T { T::C("U8", vec![T::S(s.bytes().map(|b| format!("{:02x}", b)).collect())]) }
/// a segmentation as the code-point counts of its graphemes, `GL "<2 hex digits each>"`
fn glens(s: &str) -> T { T::C("GL", vec![T::S(s.graphemes(true).map(|g| format!("{:02x}", g.chars().count().min(255))).collect())]) }
fn res_term(r: &Option<NormalizedText>) -> T {
    match r { None => T::none(), Some(n) => T::some(T::Tup(vec![cps(&n.text), T::B(n.truncated)])) }
}
fn map_ch(c: char) -> char { let c = if c == '\r' { '\n' } else { c }; if c == '\t' { ' ' } else { c } }
fn is_nfkc(s: &str) -> bool { s.nfkc().collect::<String>() == s }

/// The property, clause by clause, on the implementation's output.  `trimmed` is the untruncated
/// normalization (normalize_text(input, usize::MAX)), used only to state "grapheme boundary of the
/// text being truncated" and "first grapheme".  Unknown classes take priority over known ones so a
/// new defect is never hidden behind a recorded one.  Expectations that go beyond the property text
/// (None only for blank input, maximal cut, meaning of the truncation flag) are not violations: they
/// are returned separately and only show up as `beyond-text:` tags in the evidence (the exact
/// behaviour is pinned by the comparison with the model instead).
fn property_oracle(input: &str, limit: usize, r1: &Option<NormalizedText>, r2: &Option<NormalizedText>, full: &Option<NormalizedText>) -> (Option<String>, bool, bool, Vec<String>) {
    let mut unknown: Vec<String> = vec![];
    let mut beyond: Vec<String> = vec![];
    let mut known: Vec<String> = vec![];
    let (mut k_shield, mut k_trailing) = (false, false);
    let out = match r1 {
        None => {
            // None only when nothing but whitespace / controls is left
            let left: String = input.nfkc().filter(|c| !(map_ch(*c).is_control() || map_ch(*c).is_whitespace())).collect();
            if !left.is_empty() { beyond.push("none-for-nonblank".into()); }
            if full.is_some() { beyond.push("none-depends-on-limit".into()); }
            return (None, false, false, beyond);
        }
        Some(n) => n,
    };
    let t = &out.text;
    if t.is_empty() { beyond.push("empty-output".into()); }
    if let Some(c) = t.chars().find(|c| c.is_control() && *c != '\n') { unknown.push(format!("control-char: output contains U+{:04X}", c as u32)); }
    if t.chars().next().map_or(false, char::is_whitespace) { unknown.push("leading-whitespace: output starts with whitespace".into()); }
    if t.chars().last().map_or(false, char::is_whitespace) {
        if out.truncated { k_trailing = true; known.push(format!("trailing-whitespace-after-truncation: normalize_text({:?}, {}) = {:?} ends with whitespace (cut right after a whitespace grapheme)", input, limit, t)); }
        else { unknown.push("trailing-whitespace: untruncated output ends with whitespace".into()); }
    }
    let cs: Vec<char> = t.chars().collect();
    if cs.iter().any(|c| c.is_whitespace() && *c != ' ' && *c != '\n') { unknown.push("whitespace-kind: whitespace other than ' ' and '\\n' in output".into()); }
    if cs.windows(2).any(|w| w[0].is_whitespace() && w[1].is_whitespace()) { unknown.push("whitespace-run: two whitespace characters in a row (double space / blank line)".into()); }
    // byte limit with the first-grapheme exception, grapheme boundary of the trimmed text, maximality
    match full {
        None => beyond.push("some-depends-on-limit".into()),
        Some(f) => {
            let trimmed = &f.text;
            let first = trimmed.graphemes(true).next().unwrap_or("");
            if t.len() > limit && t != first { unknown.push(format!("over-limit: {} bytes > limit {} and not the first grapheme alone", t.len(), limit)); }
            if !trimmed.starts_with(t.as_str()) { unknown.push("not-a-prefix: output is not a prefix of the untruncated normalization".into()); }
            else {
                let bounds: Vec<usize> = trimmed.grapheme_indices(true).map(|(i, _)| i).chain(std::iter::once(trimmed.len())).collect();
                if !bounds.contains(&t.len()) { unknown.push("mid-grapheme: output does not end on a grapheme boundary".into()); }
                else if t.len() < trimmed.len() {
                    let next = trimmed[t.len()..].graphemes(true).next().unwrap();
                    if t.len() + next.len() <= limit.max(1) { beyond.push("cut-too-early".into()); }
                    if !out.truncated { beyond.push("cut-but-flag-false".into()); }
                }
            }
            if !out.truncated && t != trimmed { beyond.push("flag-false-but-differs".into()); }
        }
    }
    // NFKC and idempotence
    let removed_ctl = input.nfkc().any(|c| { let c = map_ch(c); c.is_control() && c != '\n' });
    let nfkc_ok = is_nfkc(t);
    if !nfkc_ok {
        if removed_ctl { k_shield = true; known.push(format!("nfkc-shielded-by-removed-control: normalize_text({:?}, {}) = {:?} is not NFKC (NFKC of it is {:?}): a removed control character had separated code points that NFKC composes or reorders", input, limit, t, t.nfkc().collect::<String>())); }
        else { unknown.push(format!("nfkc-not-normalized: output {:?} is not NFKC although no control character was removed", t)); }
    }
    if !out.truncated {
        let fixed = matches!(r2, Some(n2) if n2.text == *t && !n2.truncated);
        if !fixed {
            if nfkc_ok { unknown.push(format!("not-idempotent: second pass gives {:?}", r2)); }
            else if !removed_ctl { unknown.push(format!("not-idempotent: second pass gives {:?} (no control removed)", r2)); }
        }
    }
    (unknown.into_iter().next().or(known.into_iter().next()), k_shield, k_trailing, beyond)
}

fn norm_case(w: &mut dyn std::io::Write, f: NormFn, input: &str, limit: usize, mut tags: Vec<String>) {
    let call = |s: &str, l: usize| -> Result<Option<NormalizedText>, ()> { catch_unwind(AssertUnwindSafe(|| f(s, l))).map_err(|_| ()) };
    let (r1, full) = match (call(input, limit), call(input, usize::MAX)) {
        (Ok(a), Ok(b)) => (a, b),
        _ => {
            emit(w, "norm", &Case { input: T::Tup(vec![cps(input), T::N(limit as u128)]), output: T::C("Panic", vec![T::N(0)]), violation: Some("panic: normalize_text panicked".into()), nontrivial: true, tags, key: blake3::hash(input.as_bytes()).to_hex()[..16].to_string() });
            return;
        }
    };
    let r2 = match &r1 { Some(n) => call(&n.text, limit).unwrap_or(None), None => None };
    let full2 = match &r1 { Some(n) => call(&n.text, usize::MAX).unwrap_or(None), None => None };
    let (viol, k_shield, k_trailing, beyond) = property_oracle(input, limit, &r1, &r2, &full);
    for b in beyond { tags.push(format!("beyond-text:{}", b)); }

    // oracle tables for the model (entries that equal the model's defaults or repeat a key are left out)
    let mut nt: Vec<(String, String)> = vec![];
    let mut gt: Vec<String> = vec![];
    let add_n = |nt: &mut Vec<(String, String)>, k: &str| { let v: String = k.nfkc().collect(); if v != k && !nt.iter().any(|(a, _)| a == k) { nt.push((k.to_string(), v)); } };
    let add_g = |gt: &mut Vec<String>, k: &str| { if !gt.iter().any(|a| a == k) { gt.push(k.to_string()); } };
    add_n(&mut nt, input);
    if let Some(f1) = &full { add_g(&mut gt, &f1.text); }
    if let Some(n) = &r1 {
        add_n(&mut nt, &n.text);
        if let Some(f2) = &full2 { add_g(&mut gt, &f2.text); }
    }
    let mut all: BTreeSet<char> = BTreeSet::new();
    all.insert(' '); all.insert('\n'); all.insert('\r'); all.insert('\t');
    all.extend(input.chars());
    for (a, b) in &nt { all.extend(a.chars()); all.extend(b.chars()); }
    for a in &gt { all.extend(a.chars()); }
    let ctl = cps(&all.iter().filter(|c| c.is_control()).collect::<String>());
    let wsl = cps(&all.iter().filter(|c| c.is_whitespace()).collect::<String>());
    let nt_t = T::L(nt.iter().map(|(a, b)| T::Tup(vec![cps(a), cps(b)])).collect());
    let gt_t = T::L(gt.iter().map(|a| T::Tup(vec![cps(a), glens(a)])).collect());
    let input_t = T::Tup(vec![cps(input), T::N(limit as u128), nt_t, gt_t, ctl, wsl]);
    let r2_t = if r2 == r1 { T::none() } else { T::some(res_term(&r2)) };
    let output = T::Tup(vec![res_term(&r1), r2_t, T::Tup(vec![T::B(k_shield), T::B(k_trailing)]), T::Tup(vec![T::B(true), T::B(true)])]);

    let nfkc_in: String = input.nfkc().collect();
    match &r1 {
        None => tags.push("none".into()),
        Some(n) => {
            tags.push(if n.truncated { "truncated".into() } else { "whole".into() });
            if n.text.len() > limit { tags.push("fallback_first_grapheme".into()); }
            if n.text.graphemes(true).any(|g| g.chars().count() > 1) { tags.push("multi_cp_grapheme".into()); }
            if n.text.len() != n.text.chars().count() { tags.push("multibyte".into()); }
        }
    }
    if nfkc_in != input { tags.push("nfkc_changes_input".into()); }
    if nfkc_in.chars().any(|c| { let c = map_ch(c); c.is_control() && c != '\n' }) { tags.push("removes_control".into()); }
    if nfkc_in.chars().any(|c| c.is_whitespace()) { tags.push("has_whitespace".into()); }
    if k_shield { tags.push("known_shield".into()); }
    if k_trailing { tags.push("known_trailing".into()); }
    tags.push(match limit { 0 => "limit0".into(), usize::MAX => "limitMAX".into(), l if l <= 4 => "limit1-4".to_string(), _ => "limit5+".to_string() });
    let nontrivial = match (&r1, &full) { (Some(n), _) => n.text != input, (None, _) => !input.is_empty() };
    emit(w, "norm", &Case { input: input_t, output, violation: viol, nontrivial, tags, key: blake3::hash(format!("{}|{}", input, limit).as_bytes()).to_hex()[..16].to_string() });
}

fn trunc_case(w: &mut dyn std::io::Write, f: TruncFn, s: &str, limit: usize, mut tags: Vec<String>) {
    let got = catch_unwind(AssertUnwindSafe(|| f(s, limit)));
    let gs: Vec<&str> = s.graphemes(true).collect();
    let input = T::Tup(vec![cps(s), T::N(limit as u128), glens(s)]);
    let key = blake3::hash(format!("t|{}|{}", s, limit).as_bytes()).to_hex()[..16].to_string();
    let r = match got { Ok(r) => r, Err(_) => { emit(w, "trunc", &Case { input, output: T::Tup(vec![T::N(u128::MAX), T::B(true)]), violation: Some("panic: truncate_at_grapheme_boundary panicked".into()), nontrivial: true, tags, key }); return; } };
    let bounds: Vec<usize> = s.grapheme_indices(true).map(|(i, _)| i).chain(std::iter::once(s.len())).collect();
    let first = gs.first().map_or(0, |g| g.len());
    // the property text: a grapheme boundary that respects the limit unless the first grapheme alone exceeds it
    let mut viol = None;
    if !bounds.contains(&r) { viol = Some(format!("not-a-boundary: index {} is not a grapheme boundary of {:?}", r, s)); }
    else if r > limit && r != first { viol = Some(format!("over-limit: index {} > limit {} and not the first grapheme", r, limit)); }
    // beyond the text (pinned by the comparison with the model): whole string when it fits, never 0, maximal
    if s.len() <= limit && r != s.len() { tags.push("beyond-text:short-not-whole".into()); }
    if r == 0 && !s.is_empty() { tags.push("beyond-text:zero-index".into()); }
    if r < s.len() { if let Some(next) = bounds.iter().find(|b| **b > r) { if *next <= limit { tags.push("beyond-text:cut-too-early".into()); } } }
    tags.push(if s.len() <= limit { "fits".into() } else if r > limit { "fallback_first_grapheme".into() } else { "cut".into() });
    emit(w, "trunc", &Case { input, output: T::Tup(vec![T::N(r as u128), T::B(true)]), violation: viol, nontrivial: s.len() > limit, tags, key });
}

fn pick_limit(r: &mut Rng, len: usize) -> usize {
    match r.below(12) {
        0 => 0,
        1 => 1,
        2 => usize::MAX,
        3 => r.range(2, 4) as usize,
        4 => r.range(1, 64) as usize,
        5 => len, 6 => len.saturating_sub(1), 7 => len + 1,
        _ => r.below(len as u64 + 3) as usize,
    }
}

pub fn run_with(seed: u64, n: usize, w: &mut dyn std::io::Write, nf: NormFn, tf: TruncFn) {
    let mut r = Rng::new(seed ^ 0xC33);
    // fixed cases first: the recorded witnesses, the crate's own unit tests, edge cases
    let fixed: &[(&str, usize)] = &[
        ("a\u{1}\u{301} b", 100), ("ab cd", 3), ("ab\ncd", 3),
        (" Hello\tWorld \u{b} test\r\nnext", 128), ("a\u{301}bcd", 3), ("🇮🇳hello", 4), ("🇮🇳", 4), ("🇮🇳", 8),
        ("", 10), (" ", 10), ("\u{1}", 5), ("a", 0), ("ab", 0), ("é", 1), ("é", 2), ("a \u{85} b", 10), ("a\u{2028}b", 10),
        ("a\r\n\r\nb", 10), ("a \n b", 10), ("a\n \nb", 10), ("a\t\tb", 10), (" \u{301}a", 10), ("a \u{301}", 10), ("a \u{301}", 2),
        ("\u{1100}\u{1}\u{1161}", 10), ("a\u{301}\u{7f}\u{323}", 10), ("ﬁ ²", 10), ("x\u{a0}\u{a0}y", 10), ("a\u{1}\n", 10), ("a \u{1} b", 10), ("a\n\u{1}\nb", 10),
    ];
    for (s, l) in fixed { norm_case(w, nf, s, *l, vec!["fixed".into()]); }
    for (s, l) in fixed { trunc_case(w, tf, s, *l, vec!["fixed".into()]); }
    for _ in 0..n {
        let style = r.below(7);
        let s = gen_text(&mut r, style);
        let approx = nf(&s, usize::MAX).map_or(s.len(), |x| x.text.len());
        let limit = pick_limit(&mut r, approx);
        norm_case(w, nf, &s, limit, vec![format!("style{}", style)]);
    }
    for _ in 0..(n / 3).max(20) {
        let style = *r.pick(&[0u64, 2, 3, 3, 4, 6, 6]);
        let s = gen_text(&mut r, style);
        let limit = pick_limit(&mut r, s.len());
        trunc_case(w, tf, &s, limit, vec![format!("style{}", style)]);
    }
}

pub fn run(seed: u64, n: usize, w: &mut dyn std::io::Write) {
    run_with(seed, n, w, normalize_text, truncate_at_grapheme_boundary);
}
