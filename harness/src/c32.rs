//! C32 query language: lexer/parser totality and match semantics.
//! Streams: `parse` (random text over the token alphabet + Unicode), `eval` (random ASTs,
//! printed with minimal parentheses, evaluated on random documents), `nest` (deep nesting,
//! run in a child process so that a stack overflow is an observation).
use crate::term::*;
use memvid_core::types::Frame;
use memvid_core::verif_hooks::{evaluate_query, parse_query_ast};
use serde_json::{json, Value};
use std::collections::BTreeSet;

/// MAX_QUERY_DEPTH of src/search/parser.rs (only used to aim the generators at the limit and for the
/// oracle's expectation that deeper nesting is rejected; the model takes its own value from the source)
const LIMIT: usize = 64;

// ---------------------------------------------------------------- Coq term helpers
fn cps(s: &str) -> T {
    if s.chars().all(|c| (' '..='~').contains(&c)) {
        T::C("cps", vec![T::S(s.to_string())])
    } else {
        T::L(s.chars().map(|c| T::N(c as u128)).collect())
    }
}
fn opt_z(v: Option<i64>) -> T { match v { Some(z) => T::some(T::Z(z as i128)), None => T::none() } }

fn ast_term(v: &Value) -> T {
    let o = v.as_object().expect("ast object");
    let (k, x) = o.iter().next().expect("one key");
    let s = |n: &'static str| T::C("ETerm", vec![T::C(n, vec![cps(x.as_str().unwrap())])]);
    match k.as_str() {
        "or" => T::C("EOr", vec![T::L(x.as_array().unwrap().iter().map(ast_term).collect())]),
        "and" => T::C("EAnd", vec![T::L(x.as_array().unwrap().iter().map(ast_term).collect())]),
        "not" => T::C("ENot", vec![ast_term(x)]),
        "word" => s("TWord"), "phrase" => s("TPhrase"), "wild" => s("TWild"), "uri" => s("TUri"),
        "scope" => s("TScope"), "track" => s("TTrack"), "tag" => s("TTag"), "label" => s("TLabel"),
        "date" => {
            let a = x.as_array().unwrap();
            T::C("ETerm", vec![T::C("TDate", vec![opt_z(a[0].as_i64()), opt_z(a[1].as_i64())])])
        }
        other => panic!("unknown AST key {}", other),
    }
}

/// error text -> the model's error kind (the InvalidQuery reasons of parser.rs); 0 = not an InvalidQuery
fn err_kind(e: &str) -> u128 {
    let Some(r) = e.strip_prefix("Invalid query: ") else { return 0 };
    if r.starts_with("unterminated quoted string") { 1 }
    else if r.starts_with("date range must be in format") { 2 }
    else if r.starts_with("unterminated date range") { 3 }
    else if r.starts_with("expected ')'") { 4 }
    else if r.starts_with("unexpected token") { 5 }
    else if r.starts_with("unexpected end of query") { 6 }
    else if r.starts_with("unsupported field") { 7 }
    else if r.starts_with("unexpected field for date range") { 8 }
    else if r.starts_with("query nesting too deep") { 9 }
    else { 0 }
}

/// parse_date_value through the hook: `date:[s TO *]` lexes to one DateRange token whose
/// start is parse_date_value(s), for every s without whitespace and ']'.
fn date_oracle(s: &str) -> Option<i64> {
    if s.is_empty() || s.chars().any(|c| c.is_whitespace() || c == ']') { return None; }
    match parse_query_ast(&format!("date:[{} TO *]", s)) {
        Ok(v) => v.get("date").and_then(|d| d.get(0)).and_then(|x| x.as_i64()),
        Err(_) => None,
    }
}

/// every string that can become an endpoint of a date-range token of `q`
fn date_strings_of_query(q: &str) -> BTreeSet<String> {
    let cs: Vec<char> = q.chars().collect();
    let mut out = BTreeSet::new();
    for i in 0..cs.len() {
        if cs[i] == '[' {
            if let Some(j) = cs[i + 1..].iter().position(|c| *c == ']') {
                let inner: String = cs[i + 1..i + 1 + j].iter().collect();
                let parts: Vec<&str> = inner.split_whitespace().collect();
                if parts.len() == 3 { out.insert(parts[0].to_string()); out.insert(parts[2].to_string()); }
            }
        }
    }
    out
}

fn alnum_table(q: &str) -> T {
    let set: BTreeSet<char> = q.chars().filter(|c| !c.is_ascii() && c.is_alphanumeric()).collect();
    T::L(set.into_iter().map(|c| T::N(c as u128)).collect())
}
fn date_table(strings: &BTreeSet<String>) -> T {
    T::L(strings.iter().map(|s| T::Tup(vec![cps(s), opt_z(date_oracle(s))])).collect())
}

fn ps(r: &mut Rng, v: &[&'static str]) -> &'static str { v[r.below(v.len() as u64) as usize] }
fn digest(s: &str) -> String { blake3::hash(s.as_bytes()).to_hex()[..16].to_string() }

// ---------------------------------------------------------------- stream `parse`
const WS: &[char] = &[' ', ' ', ' ', '\t', '\n', '\r', '\u{b}', '\u{c}', '\u{85}', '\u{a0}', '\u{1680}', '\u{2000}', '\u{2003}',
    '\u{200a}', '\u{2028}', '\u{2029}', '\u{202f}', '\u{205f}', '\u{3000}'];
const NOT_WS: &[char] = &['\u{200b}', '\u{180e}', '\u{feff}', '\u{1c}', '\u{1f}', '\u{8}', '\u{e}', '\u{2060}', '\u{200c}'];
const UNI: &[char] = &['é', 'É', 'Ж', 'ж', '中', '٣', '½', 'ª', '—', '¿', '\u{301}', '\u{345}', '😀', 'ß', 'İ', 'K', '²', '़', 'ⅷ', '\u{10ffff}', '\u{0}'];
const WORDS: &[&str] = &["alpha", "beta", "Gamma", "DELTA", "machine", "learning", "x", "a1", "42", "AND1", "ORacle", "nota", "And", "Or", "Not", "aNd", "oR", "nOT"];
const KEYW: &[&str] = &["AND", "OR", "NOT", "and", "or", "not"];
const FIELDS: &[&str] = &["uri", "scope", "track", "tag", "label", "date", "URI", "Tag", "LABEL", "Date", "tAg", "foo", "ur", "tags", "", "é"];
const PUNCT: &[&str] = &["-", "--", ":", "::", "?", "??", "*", "**", "?*", ".", ",", "!", "'", "[", "]", "[]", "\"", "\"\"", "(", ")", "()", ")(", "\\", "/"];
const DATES: &[&str] = &["2024-01-01", "2024-12-31", "2023-06", "2024", "*", "\"2024-02-02\"", "2024-03-01T00:00:00Z", "2024-03-01T05:00:00+05:00",
    "foo", "2024-13-01", "2024-02-30", "0000", "99999", "-5", "", "1970-01-01", "1969-12-31", "2024-1-1", "+2024-01-01", "2024-01-01T00:00:00z"];

fn gen_word(r: &mut Rng) -> String {
    let mut w = String::new();
    match r.below(10) {
        0..=4 => w.push_str(ps(r, WORDS)),
        5 => { // word with wildcard / question marks / punctuation around
            let base = ps(r, WORDS);
            let pre = ps(r, &["", "", "-", "*", "?", "'", "¿", "(", "\u{301}"]);
            let post = ps(r, &["", "?", "??", "*", "*?", "?*", "-", ".", "!?", "é?", "\u{345}"]);
            let mid = ps(r, &["", "", "*", "?", "-", ":", "\""]);
            let k = r.below(base.len() as u64 + 1) as usize;
            w.push_str(pre); w.push_str(&base[..k]); w.push_str(mid); w.push_str(&base[k..]); w.push_str(post);
        }
        6 => { for _ in 0..r.range(1, 4) { w.push(*r.pick(UNI)); } if r.chance(1, 2) { w.push_str(ps(r, WORDS)); } }
        7 => w.push_str(ps(r, PUNCT)),
        8 => { w.push_str(ps(r, WORDS)); w.push(*r.pick(NOT_WS)); w.push_str(ps(r, WORDS)); }
        _ => { w.push_str(ps(r, KEYW)); if r.chance(1, 3) { w.push_str(ps(r, &["s", ":", "?", "*", "\""])); } }
    }
    w
}

fn gen_field(r: &mut Rng) -> String {
    let f = ps(r, FIELDS);
    let mut s = format!("{}:", f);
    match r.below(10) {
        0..=2 => s.push_str(&gen_word(r)),
        3..=4 => { s.push('"'); s.push_str(&gen_word(r)); if r.chance(1, 2) { s.push(' '); s.push_str(&gen_word(r)); } if r.chance(7, 8) { s.push('"'); } }
        5..=7 => { // date range, mostly well formed
            s.push('[');
            if r.chance(1, 6) { s.push(*r.pick(WS)); }
            s.push_str(ps(r, DATES));
            match r.below(8) { 0 => s.push_str(" to "), 1 => s.push_str("\u{a0}To\t"), 2 => s.push_str(" - "), 3 => s.push_str(" TO"), 4 => s.push_str(" TO TO "), _ => s.push_str(" TO ") }
            s.push_str(ps(r, DATES));
            if r.chance(1, 6) { s.push(' '); }
            if r.chance(9, 10) { s.push(']'); }
            if r.chance(1, 6) { s.push_str(&gen_word(r)); }
        }
        8 => { s.push_str("\"\""); s.push_str(ps(r, WORDS)); s.push_str("\"\""); }
        _ => {}
    }
    s
}

/// a field term that lexes and converts (mostly): known field, word / quoted value / date range
fn gen_good_field(r: &mut Rng) -> String {
    match r.below(10) {
        0..=5 => {
            let f = ps(r, &["uri", "scope", "track", "tag", "label", "URI", "Tag", "LABEL", "tAg", "Scope"]);
            let v = gen_word(r);
            if r.chance(1, 2) { format!("{}:\"{}{}\"", f, v.replace('"', ""), if r.chance(1, 3) { " b" } else { "" }) } else { format!("{}:{}", f, v) }
        }
        6..=8 => format!("{}:[{}{}{}{}{}]", ps(r, &["date", "Date", "DATE"]), if r.chance(1, 8) { " " } else { "" }, ps(r, DATES),
                         ps(r, &[" TO ", " TO ", " to ", "  To\t", "\u{a0}TO\u{2003}"]), ps(r, DATES), if r.chance(1, 8) { " " } else { "" }),
        _ => gen_field(r),
    }
}

fn gen_operand(r: &mut Rng, depth: u32, q: &mut String) {
    if r.chance(1, 5) { q.push_str(ps(r, &["NOT ", "not ", "NOT\t", "NOT NOT ", "NOT("])); if q.ends_with('(') { gen_seq(r, depth.saturating_sub(1), q); q.push(')'); return; } }
    match r.below(10) {
        0..=4 => q.push_str(&gen_word(r)),
        5 => { q.push('"'); for i in 0..r.below(3) { if i > 0 { q.push(' '); } q.push_str(&gen_word(r).replace('"', "")); } q.push('"'); }
        6..=7 => q.push_str(&gen_good_field(r)),
        _ => if depth > 0 { q.push('('); if r.chance(1, 4) { q.push(' '); } gen_seq(r, depth - 1, q); if r.chance(1, 4) { q.push(' '); } q.push(')'); } else { q.push_str(&gen_word(r)); }
    }
}
fn gen_seq(r: &mut Rng, depth: u32, q: &mut String) {
    let k = match r.below(6) { 0 => 1, 1..=3 => r.range(2, 3), _ => r.range(3, 6) };
    for i in 0..k {
        if i > 0 {
            match r.below(8) { 0..=2 => q.push(' '), 3..=4 => q.push_str(ps(r, &[" AND ", " and ", " AND\t"])), 5..=6 => q.push_str(ps(r, &[" OR ", " or ", "\u{a0}OR "])), _ => { q.push(*r.pick(WS)); } }
        }
        gen_operand(r, depth, q);
    }
}

fn gen_text(r: &mut Rng) -> (String, Vec<String>) {
    let mut tags = vec![];
    let style = r.below(20);
    let mut q = String::new();
    if r.chance(1, 16) {
        // nesting around the depth limit: k levels of '(' / NOT / mixed, k in 60..=68
        let k = r.range(LIMIT as u64 - 4, LIMIT as u64 + 4) as usize;
        let kind = r.below(4);
        let mut closes: usize = 0;
        for _ in 0..k {
            match if kind == 3 { r.below(3) } else { kind } {
                0 => { q.push('('); closes += 1; if r.chance(1, 10) { q.push(' '); } }
                1 => q.push_str(ps(r, &["NOT ", "not ", "NOT\t"])),
                _ => { q.push_str(ps(r, &["NOT(", "not (", "(NOT "])); closes += 1; }
            }
        }
        // the mixed NOT( pieces open two levels each: the total is what matters, it is tagged below
        gen_seq(r, 1, &mut q);
        let drop = if r.chance(1, 6) { r.below(3) as usize } else { 0 };
        for _ in 0..closes.saturating_sub(drop) { q.push(')'); }
        if r.chance(1, 4) { q.push_str(ps(r, &[" x", " OR y", " AND NOT z", " (w)"])); }
        tags.push("near-limit".to_string());
        if !q.is_ascii() { tags.push("unicode".into()); }
        return (q, tags);
    }
    if style < 11 {
        // mostly well-formed: operands, operators in place, balanced parentheses; then maybe one edit
        tags.push("structured".to_string());
        gen_seq(r, 2, &mut q);
        if r.chance(1, 4) {
            let cs: Vec<char> = q.chars().collect();
            let k = r.below(cs.len() as u64 + 1) as usize;
            let mut out: String = cs[..k].iter().collect();
            match r.below(3) { 0 => { out.push(*r.pick(&['(', ')', '"', ':', '[', ']', ' ', '?', '*'])); out.extend(cs[k..].iter()); }
                               1 => { out.extend(cs[k..].iter().skip(1)); }
                               _ => { out.push_str(ps(r, &[" AND ", " OR ", " NOT ", " ) ", " ( "])); out.extend(cs[k..].iter()); } }
            q = out; tags.push("edited".into());
        }
    } else {
        let npieces = match r.below(20) { 0 => 0, 1..=10 => r.range(1, 6), 11..=17 => r.range(6, 14), _ => r.range(14, 40) };
        for _ in 0..npieces {
            match if style == 11 { r.below(3) + 7 } else { r.below(12) } {
                0..=2 => q.push_str(&gen_word(r)),
                3 => q.push_str(ps(r, KEYW)),
                4 => q.push_str(&gen_field(r)),
                5 => q.push('('),
                6 => q.push(')'),
                7 => { q.push('"'); for _ in 0..r.below(3) { q.push_str(&gen_word(r)); q.push(' '); } if r.chance(5, 6) { q.push('"'); } }
                8 => q.push(*r.pick(UNI)),
                9 => q.push_str(ps(r, PUNCT)),
                _ => q.push_str(ps(r, &["(", ")", "NOT", "OR", "AND"])),
            }
            match r.below(10) { 0 => {}, 1 => q.push(*r.pick(WS)), 2 => { q.push(' '); q.push(*r.pick(WS)); } _ => q.push(' ') }
        }
        tags.push("soup".into());
    }
    if r.chance(1, 20) { let n = q.chars().count(); if n > 0 { let k = r.below(n as u64) as usize; q = q.chars().take(k).collect(); tags.push("trunc".into()); } }
    if !q.is_ascii() { tags.push("unicode".into()); }
    (q, tags)
}

fn tag_of_ast(v: &Value, tags: &mut BTreeSet<String>) {
    if let Some(o) = v.as_object() { for (k, x) in o { tags.insert(format!("ast-{}", k));
        match x { Value::Array(a) => for y in a { tag_of_ast(y, tags) }, Value::Object(_) => tag_of_ast(x, tags), _ => {} } } }
}

fn run_parse(r: &mut Rng, n: usize, w: &mut dyn std::io::Write) {
    let fixed: &[&str] = &["", " ", "alpha AND beta", "a OR b c", "NOT a b", "NOT NOT a", "(a OR b) c", "a ) b", "(", ")", "((a)", "a AND", "OR", "a OR",
        "NOT", "\"", "\"abc", "tag:", "tag:\"", "tag:\"x", "date:[", "date:[a TO", "date:[2024 TO *]", "date:[2024 2025]", "date:2024", "Tag:X", "uri:\"A B\"",
        "ratio:1:2", "tag:a:b", "-", "machine?", "mach?ne", "*", "?", "a\u{a0}b", "a\u{200b}b", "tag:(a)", "date:[a TO b](c)", "x:tag:y", "label:\"\"q\"\"", "AND AND", "a AND OR b", "()", "a ()"];
    let mut boundary: Vec<String> = vec![];
    for k in (LIMIT - 2)..=(LIMIT + 3) {
        boundary.push(format!("{}x{}", "(".repeat(k), ")".repeat(k)));
        boundary.push(format!("{}x", "NOT ".repeat(k)));
        boundary.push(format!("{}{}x{}", "(".repeat(k / 2), "not ".repeat(k - k / 2), ")".repeat(k / 2)));
        boundary.push(format!("a OR ({}x{}) b", "(NOT ".repeat(k / 2), ")".repeat(k / 2)));   // 1 + 2*(k/2) levels
        boundary.push(format!("{}x", "(".repeat(k)));
        boundary.push(format!("(a) (b) {}x{} NOT c", "(".repeat(k), ")".repeat(k)));          // depth is restored after ')'
    }
    for i in 0..(n + fixed.len() + boundary.len()) {
        let (q, mut tags) = if i < fixed.len() { (fixed[i].to_string(), vec!["fixed".to_string()]) }
            else if i < fixed.len() + boundary.len() { (boundary[i - fixed.len()].clone(), vec!["fixed".to_string(), "near-limit".to_string()]) }
            else { gen_text(r) };
        let res = std::panic::catch_unwind(|| parse_query_ast(&q));
        let mut viol = None;
        let out = match &res {
            Ok(Ok(v)) => { let mut s = BTreeSet::new(); tag_of_ast(v, &mut s); tags.extend(s); tags.push("ok".into()); T::C("Ok", vec![ast_term(v)]) }
            Ok(Err(e)) => {
                let k = err_kind(e);
                if k == 0 { viol = Some(format!("not-invalid-query: parse returned an error that is not InvalidQuery: {}", e)); }
                tags.push(format!("err{}", k));
                T::C("Err", vec![T::N(k)])
            }
            Err(_) => { viol = Some("parse-panic: parse_query panicked".to_string()); T::C("Panic", vec![T::N(0)]) }
        };
        let nchars = q.chars().count();
        tags.push(format!("len{}", match nchars { 0 => "0", 1..=10 => "1-10", 11..=50 => "11-50", 51..=120 => "51-120", _ => ">120" }));
        let input = T::Tup(vec![cps(&q), alnum_table(&q), date_table(&date_strings_of_query(&q))]);
        let nontrivial = q.split_whitespace().count() >= 2 || q.contains('(') || q.contains(':');
        emit(w, "parse", &Case { input, output: out, violation: viol, nontrivial, tags, key: digest(&q) });
    }
}

// ---------------------------------------------------------------- stream `eval`
#[derive(Clone, Debug)]
enum G { Or(Vec<G>), And(Vec<G>), Not(Box<G>), Word(String), Phrase(String), Wild(String), Field(&'static str, String), Date(String, String) }

const VOCAB: &[&str] = &["alpha", "beta", "gamma", "delta", "mach", "machine", "ine", "é1"];
const URIS: &[&str] = &["mv2://docs/a", "mv2://docs/b", "MV2://Docs/A", "mv2://d", "file.txt"];
const TRACKS: &[&str] = &["main", "Main", "side"];
const TAGV: &[&str] = &["red", "Red", "blue", "two words", "x"];
const CDATES: &[&str] = &["2024-01-01", "2024-06-15", "2023", "2024-03-01T00:00:00Z", "junk", "2025-01", "1969-12-31"];
const QDATES: &[&str] = &["2024-01-01", "2024-06-15", "2024-12-31", "2023", "2024", "2025-01", "*", "junk", "2024-03-01T00:00:00Z", "1970-01-01", "\"2024-06-15\""];
const WILDS: &[&str] = &["mach*", "*ine", "m?ch", "ma*ne", "*", "a*a", "*a*", "mach*?e", "?*", "be?a*", "*\\*", "a.c*", "al*pha", "alpha?beta", "alpha*beta", "alpha*", "*beta", "alpha?*"];

fn gen_leaf(r: &mut Rng) -> G {
    match r.below(14) {
        0..=4 => { let w = ps(r, VOCAB); if r.chance(1, 5) { G::Word(w.to_uppercase()) } else { G::Word(w.to_string()) } }
        5 => { let k = r.range(1, 3); let mut p = String::new(); for i in 0..k { if i > 0 { p.push(' '); } p.push_str(ps(r, VOCAB)); }
               if r.chance(1, 6) { p = format!("{} AND ({}", ps(r, VOCAB), ps(r, VOCAB)); }
               if r.chance(1, 6) { p = p.to_uppercase(); } G::Phrase(p) }
        6 => G::Wild(ps(r, WILDS).to_string()),
        7 => { let u = ps(r, URIS); G::Field("uri", if r.chance(1, 3) { u.to_uppercase() } else { u.to_string() }) }
        8 => { let u = ps(r, URIS); let k = r.below(u.len() as u64 + 1) as usize; let j = if r.chance(1, 3) { r.below(k as u64 + 1) as usize } else { 0 }; G::Field("scope", u[j..k].to_string()) }
        9 => G::Field("track", ps(r, TRACKS).to_string()),
        10 => G::Field("tag", ps(r, TAGV).to_string()),
        11 => G::Field("label", ps(r, TAGV).to_string()),
        _ => G::Date(ps(r, QDATES).to_string(), ps(r, QDATES).to_string()),
    }
}
fn gen_ast(r: &mut Rng, depth: u32) -> G {
    if depth == 0 || r.chance(1, 4) { return gen_leaf(r); }
    match r.below(7) {
        0..=1 => G::Or((0..r.range(1, 3)).map(|_| gen_ast(r, depth - 1)).collect()),
        2..=4 => G::And((0..r.range(1, 3)).map(|_| gen_ast(r, depth - 1)).collect()),
        _ => G::Not(Box::new(gen_ast(r, depth - 1))),
    }
}

/// precedence-directed printer (same shape as `pr` in Model/Query.v): lvl 0 = OR level,
/// 1 = AND level, 2 = factor. Random surface choices: explicit/implicit AND, keyword case,
/// spaces around parentheses, redundant parentheses, quoted/unquoted field values.
fn pr(r: &mut Rng, g: &G, lvl: u32, out: &mut String) {
    let sp = |r: &mut Rng, out: &mut String| { match r.below(8) { 0 => out.push_str("  "), 1 => out.push('\t'), 2 => out.push('\u{a0}'), _ => out.push(' ') } };
    let redundant = r.chance(1, 12);
    let need = match g { G::Or(_) => lvl >= 1, G::And(_) => lvl >= 2, _ => false } || redundant;
    if need { out.push('('); if r.chance(1, 3) { out.push(' '); } }
    let inner = if need { 0 } else { lvl };
    match g {
        G::Or(l) => { let _ = inner; for (i, c) in l.iter().enumerate() { if i > 0 { sp(r, out); out.push_str(if r.chance(1, 3) { "or" } else { "OR" }); sp(r, out); } pr(r, c, 1, out); } }
        G::And(l) => { for (i, c) in l.iter().enumerate() { if i > 0 { sp(r, out); if r.chance(1, 2) { out.push_str(if r.chance(1, 3) { "and" } else { "AND" }); sp(r, out); } } pr(r, c, 2, out); } }
        G::Not(c) => { out.push_str(if r.chance(1, 3) { "not" } else { "NOT" }); if matches!(**c, G::Or(_) | G::And(_)) && r.chance(1, 2) { } else { sp(r, out); } pr_factor(r, c, out); }
        G::Word(w) | G::Wild(w) => out.push_str(w),
        G::Phrase(p) => { out.push('"'); out.push_str(p); out.push('"'); }
        G::Field(f, v) => { let f2 = if r.chance(1, 4) { f.to_uppercase() } else { f.to_string() }; out.push_str(&f2); out.push(':');
            if v.contains(' ') || v.is_empty() || r.chance(1, 2) { out.push('"'); out.push_str(v); out.push('"'); } else { out.push_str(v); } }
        G::Date(a, b) => { out.push_str("date:["); out.push_str(a); out.push_str(if r.chance(1, 4) { " to " } else { " TO " }); out.push_str(b); out.push(']'); }
    }
    if need { if r.chance(1, 3) { out.push(' '); } out.push(')'); }
}
/// NOT's operand: a factor. `NOT(` without a space is only safe when the operand is parenthesised.
fn pr_factor(r: &mut Rng, g: &G, out: &mut String) {
    match g {
        G::Or(_) | G::And(_) => { // always parenthesised at level 2; make sure the text so far does not glue onto it
            pr(r, g, 2, out);
        }
        _ => pr(r, g, 2, out),
    }
}

struct Doc { uri: Option<String>, track: Option<String>, tags: Vec<String>, labels: Vec<String>, ts: i64, dates: Vec<String>, content: String }

fn gen_doc(r: &mut Rng) -> Doc {
    let mut content = String::new();
    match r.below(6) {
        0 => content.push_str(ps(r, &["alpha\nbeta", "alpha beta", "alpha-beta", "machine", "alpha", "beta", "mach", "alpha\n", "\nbeta", "alphabeta"])),
        1 => { content.push_str(ps(r, VOCAB)); content.push(*r.pick(&[' ', '\n', '-'])); content.push_str(ps(r, VOCAB)); }
        2 => {}
        _ => { for i in 0..r.range(1, 8) { if i > 0 { content.push(*r.pick(&[' ', ' ', '\n', ',', '(', ' '])); } content.push_str(ps(r, VOCAB)); } if r.chance(1, 4) { content.push_str(" and (beta"); } }
    }
    let pickv = |r: &mut Rng, pool: &[&'static str], max: u64| -> Vec<String> { (0..r.below(max + 1)).map(|_| ps(r, pool).to_string()).collect() };
    let base: i64 = *r.pick(&[1704067200i64, 1718409600, 1735603200, 1672531200, 1709251200, 0, -86400, 1735689600]);
    let ts = base + *r.pick(&[0i64, 0, 1, -1, 86399, 86400, 40000]);
    Doc {
        uri: if r.chance(1, 6) { None } else { Some(ps(r, URIS).to_string()) },
        track: if r.chance(1, 4) { None } else { Some(ps(r, TRACKS).to_string()) },
        tags: pickv(r, TAGV, 3), labels: pickv(r, TAGV, 2), ts, dates: pickv(r, CDATES, 2), content,
    }
}

fn frame_of(d: &Doc) -> Frame {
    serde_json::from_value(json!({
        "id": 1, "timestamp": d.ts, "kind": null, "track": d.track, "payload_offset": 0, "payload_length": 0,
        "checksum": vec![0u8; 32], "uri": d.uri, "tags": d.tags, "labels": d.labels, "content_dates": d.dates,
    })).expect("frame from json")
}

fn lower(s: &str) -> Vec<char> { s.chars().map(|c| c.to_ascii_lowercase()).collect() }
fn substr(n: &[char], h: &[char]) -> bool { n.is_empty() || (h.len() >= n.len() && (0..=h.len() - n.len()).any(|i| &h[i..i + n.len()] == n)) }
fn glob(p: &[char], s: &[char]) -> bool {
    match p.split_first() {
        None => s.is_empty(),
        Some(('*', rest)) => (0..=s.len()).any(|k| s[..k].iter().all(|c| *c != '\n') && glob(rest, &s[k..])),
        Some(('?', rest)) => !s.is_empty() && s[0] != '\n' && glob(rest, &s[1..]),
        Some((c, rest)) => !s.is_empty() && s[0] == *c && glob(rest, &s[1..]),
    }
}

/// the reference semantics of the property, evaluated on the generated AST
fn sem(g: &G, d: &Doc) -> bool {
    let content: Vec<char> = d.content.chars().collect();
    match g {
        G::Or(l) => l.iter().any(|c| sem(c, d)),
        G::And(l) => l.iter().all(|c| sem(c, d)),
        G::Not(c) => !sem(c, d),
        G::Word(w) | G::Phrase(w) => substr(&lower(w), &content),
        G::Wild(w) => glob(&lower(w), &content),
        G::Field(f, v) => {
            let eq = |x: &String| lower(x) == lower(v);
            match *f {
                "uri" => d.uri.as_ref().is_some_and(eq),
                "scope" => d.uri.as_ref().is_some_and(|u| { let (u, p): (Vec<char>, Vec<char>) = (u.chars().collect(), lower(v)); u.len() >= p.len() && u[..p.len()] == p[..] }),
                "track" => d.track.as_ref().is_some_and(eq),
                "tag" => d.tags.iter().any(eq),
                "label" => d.labels.iter().any(eq),
                _ => unreachable!(),
            }
        }
        G::Date(a, b) => {
            let (s, e) = (date_oracle(a), date_oracle(b));
            let mut cand = vec![d.ts];
            cand.extend(d.dates.iter().filter_map(|x| date_oracle(x)));
            cand.iter().any(|t| s.map_or(true, |s| *t >= s) && e.map_or(true, |e| *t <= e))
        }
    }
}

fn doc_term(d: &Doc) -> T {
    let o = |x: &Option<String>| match x { Some(s) => T::some(cps(s)), None => T::none() };
    let l = |x: &Vec<String>| T::L(x.iter().map(|s| cps(s)).collect());
    T::Tup(vec![o(&d.uri), o(&d.track), l(&d.tags), l(&d.labels), T::Z(d.ts as i128), l(&d.dates), cps(&d.content)])
}

fn shape_tags(g: &G, tags: &mut BTreeSet<String>, parent: &str) {
    let me = match g { G::Or(_) => "or", G::And(_) => "and", G::Not(_) => "not", G::Word(_) => "word", G::Phrase(_) => "phrase", G::Wild(_) => "wild", G::Field(f, _) => f, G::Date(..) => "date" };
    if matches!(g, G::Or(_) | G::And(_) | G::Not(_)) && !parent.is_empty() { tags.insert(format!("{}-under-{}", me, parent)); } else { tags.insert(me.to_string()); }
    match g { G::Or(l) | G::And(l) => for c in l { shape_tags(c, tags, me) }, G::Not(c) => shape_tags(c, tags, me), _ => {} }
}

fn run_eval(r: &mut Rng, n: usize, w: &mut dyn std::io::Write) {
    for _ in 0..n {
        let depth = r.range(1, 5) as u32;
        let g = gen_ast(r, depth);
        let mut q = String::new();
        pr(r, &g, 0, &mut q);
        let docs: Vec<Doc> = (0..6).map(|_| gen_doc(r)).collect();
        let mut viol = None;
        let mut outs = vec![];
        let mut err = None;
        let mut hits = 0;
        for d in &docs {
            let f = frame_of(d);
            let res = std::panic::catch_unwind(|| evaluate_query(&q, &f, &d.content));
            match res {
                Ok(Ok(b)) => {
                    let want = sem(&g, d);
                    if b != want && viol.is_none() {
                        viol = Some(format!("semantics: query {:?} on content {:?} uri {:?} track {:?} tags {:?} labels {:?} ts {} dates {:?}: implementation says {}, reference semantics of the printed expression says {}",
                            q, d.content, d.uri, d.track, d.tags, d.labels, d.ts, d.dates, b, want));
                    }
                    if b { hits += 1; }
                    outs.push(T::B(b));
                }
                Ok(Err(e)) => { if viol.is_none() { viol = Some(format!("printed-query-rejected: well-formed query {:?} rejected: {}", q, e)); } err = Some(T::C("Err", vec![T::N(err_kind(&e))])); break; }
                Err(_) => { viol = Some(format!("parse-panic: evaluate panicked on {:?}", q)); err = Some(T::C("Panic", vec![T::N(0)])); break; }
            }
        }
        let out = err.unwrap_or(T::C("Ok", vec![T::L(outs)]));
        let mut ds = date_strings_of_query(&q);
        for d in &docs { for s in &d.dates { ds.insert(s.clone()); } }
        let mut tags = BTreeSet::new(); shape_tags(&g, &mut tags, "");
        tags.insert(format!("hits{}", hits));
        let input = T::Tup(vec![cps(&q), alnum_table(&q), date_table(&ds), T::L(docs.iter().map(doc_term).collect())]);
        let mixed = tags.iter().any(|t| t.contains("-under-"));
        emit(w, "eval", &Case { input, output: out, violation: viol, nontrivial: mixed && hits > 0 && hits < 6, tags: tags.into_iter().collect(), key: digest(&format!("{}|{:?}", q, docs.iter().map(|d| &d.content).collect::<Vec<_>>())) });
    }
}

// ---------------------------------------------------------------- stream `nest` (child process)
fn build_nested(pre: &str, n: usize, mid: &str, post: &str) -> String {
    let mut q = String::with_capacity((pre.len() + post.len()) * n + mid.len());
    for _ in 0..n { q.push_str(pre); }
    q.push_str(mid);
    for _ in 0..n { q.push_str(post); }
    q
}

/// `mvharness C32-child <pre> <n> <mid> <post>`: parse + evaluate + drop in this process; prints OK / ERR.
pub fn child(args: &[String]) {
    let n: usize = args[1].parse().expect("n");
    let q = build_nested(&args[0], n, &args[2], &args[3]);
    let f = frame_of(&Doc { uri: None, track: None, tags: vec![], labels: vec![], ts: 0, dates: vec![], content: String::new() });
    match evaluate_query(&q, &f, "x") {
        Ok(_) => println!("C32CHILD OK"),
        Err(e) => println!("C32CHILD ERR {}", err_kind(&e)),
    }
}

fn run_nest(r: &mut Rng, tier: &str, w: &mut dyn std::io::Write) {
    let exe = std::env::current_exe().expect("current_exe");
    // (pre, mid, post, name, nesting levels opened per repetition; usize::MAX = no expectation, model only)
    let shapes: &[(&str, &str, &str, &str, usize)] = &[
        ("(", "x", ")", "balanced", 1), ("(", "", "", "open-only", 1), ("(", "x", "", "unclosed", 1), ("NOT ", "x", "", "not-chain", 1),
        ("(NOT ", "x", ")", "paren-not", 2), ("not(", "x", ")", "not-paren", 2), ("(a OR ", "x", ")", "or-right", 1), ("", "x", ")", "close-only", 0),
        ("a AND ", "x", "", "flat-and", 0), ("a OR ", "x", "", "flat-or", 0), ("\"(\" ", "x", "", "quoted-parens", 0), ("tag:\"( not\" ", "x", "", "field-quoted", 0),
        ("(\"", "x", "", "paren-quote", usize::MAX), ("(", "x", ") y", "balanced-and", 1), ("(a) NOT b ", "x", "", "sequential", 0),
    ];
    let mut sizes: Vec<usize> = vec![0, 1, 2, 10, 31, 32, 33, LIMIT - 1, LIMIT, LIMIT + 1, LIMIT + 2, 200, 1000, 20000, 60000];
    if tier == "thorough" { sizes.extend([100000, 5000, 2000]); }
    for _ in 0..3 { sizes.push(r.range(3, 2 * LIMIT as u64) as usize); }
    for (pre, mid, post, name, levels) in shapes {
        for &n in &sizes {
            let outp = std::process::Command::new(&exe).args(["C32-child", pre, &n.to_string(), mid, post]).env("RUST_BACKTRACE", "0").output().expect("spawn child");
            let so = String::from_utf8_lossy(&outp.stdout);
            let line = so.lines().find(|l| l.starts_with("C32CHILD")).unwrap_or("");
            let kind: u128 = if outp.status.success() && line.starts_with("C32CHILD OK") { 0 }
                else if outp.status.success() && line.starts_with("C32CHILD ERR") { line.split_whitespace().nth(2).and_then(|k| k.parse().ok()).unwrap_or(0).max(1) }
                else { 100 };
            let nesting = if *levels == usize::MAX { 0 } else { levels * n };
            let expect = *levels != usize::MAX;
            let mut viol = None;
            if kind == 100 {
                let se = String::from_utf8_lossy(&outp.stderr);
                let what = if se.contains("overflowed its stack") || se.contains("stack overflow") { "stack overflow" } else { "abnormal exit" };
                viol = Some(format!("stack-abort: process died ({}, status {:?}) parsing/evaluating {:?} repeated {} times around {:?}", what, outp.status.code(), pre, n, mid));
            } else if expect && nesting > LIMIT && kind != 9 {
                viol = Some(format!("depth-limit-not-enforced: {:?} repeated {} times around {:?} nests {} levels (> {}) but parse returned {}", pre, n, mid, nesting, LIMIT, if kind == 0 { "Ok".to_string() } else { format!("error kind {}", kind) }));
            } else if expect && nesting <= LIMIT && kind == 9 {
                viol = Some(format!("depth-limit-too-strict: {:?} repeated {} times around {:?} nests only {} levels (<= {}) but was rejected as too deep", pre, n, mid, nesting, LIMIT));
            }
            let run_model = *levels > 0 || n <= 1000;
            let tags = vec![name.to_string(), format!("n{}", if n < LIMIT - 1 { "<limit" } else if n <= LIMIT + 2 { "~limit" } else if n <= 1000 { "<=1000" } else { ">1000" }),
                            match kind { 0 => "ok".to_string(), 100 => "died".to_string(), k => format!("err{}", k) }];
            let input = T::Tup(vec![cps(pre), T::N(n as u128), cps(mid), cps(post), T::B(run_model), T::N(kind)]);
            emit(w, "nest", &Case { input, output: T::N(kind), violation: viol, nontrivial: n >= 10, tags, key: digest(&format!("{}|{}|{}|{}", pre, n, mid, post)) });
        }
    }
}

pub fn run(seed: u64, n: usize, tier: &str, w: &mut dyn std::io::Write) {
    std::panic::set_hook(Box::new(|_| {}));
    let mut r = Rng::new(seed ^ 0xC32);
    run_parse(&mut r, n, w);
    run_eval(&mut r, n / 3, w);
    run_nest(&mut r, tier, w);
}
