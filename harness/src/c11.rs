//! C11 time-travel search (`as_of_frame` / `as_of_ts`): candidate-filter composition at the
//! top of `Memvid::search`, `get_replay_frame_ids`, on real memories.
//!
//! Per request the harness records, through public API only, everything the composition
//! reads: the frame table (id, timestamp, active), the time index entries (via `timeline`),
//! the parsed query facts (hook `query_facts`: text tokens, field terms, date range), the
//! sketch candidates (`find_sketch_candidates` with the options `search` builds) and the
//! engine oracle U = the frames the engine returns for this query with no as-of filter, no
//! sketch pre-filter and an unbounded top_k.  The Coq model composes the candidate filter F
//! from those inputs and predicts the hit set engine(F) = U restricted to F (or nothing on
//! an early exit); the implementation's hit set must be equal (stream `exact`, requests that
//! top_k / doc_limit do not truncate) or a subset with the predicted size (stream `trunc`).
//!
//! Property oracle (independent of the model, from the property text): a hit with
//! id > as_of_frame or timestamp > as_of_ts (no known class: always a VIOLATION); in the
//! non-truncating regime a hit of the filtered request that the same request without
//! as_of_* does not return (known class F-C11-2 `sketch-miss-surfaced-by-asof`: the as-of
//! request dropped the sketch pre-filter in its empty-intersection branch and the added hit
//! is a frame the sketch rejects; anything else is a VIOLATION).
use crate::term::*;
use memvid_core::types::{AclEnforcementMode, AskMode, AskRequest, FrameStatus, SearchRequest, TimelineQuery, VecEmbedder};
use memvid_core::{Memvid, PutOptions, SketchSearchOptions};
use std::collections::BTreeSet;

const SYL: [&str; 20] = ["ba", "co", "du", "fe", "gi", "ha", "jo", "ku", "le", "mi", "na", "po", "ru", "ta", "vo", "wi", "xa", "zo", "be", "lu"];

/// 7-letter pseudo-words (three syllables + 'k'), all of the same length so that none is a
/// substring of another (query evaluation is substring containment).
fn word(k: u64) -> String {
    let a = (k % 20) as usize; let b = ((k / 20) % 20) as usize; let c = ((k / 400) % 20) as usize;
    format!("{}{}{}k", SYL[c], SYL[b], SYL[a])
}

struct Doc { text: String, ts: i64, words: Vec<u64>, deleted: bool }

struct Corpus {
    _dir: tempfile::TempDir,
    mem: Memvid,
    docs: Vec<Doc>,
    shared: Vec<u64>,
    style: &'static str,
}

const TS_BASE: i64 = 1_700_000_000;

fn build_corpus(r: &mut Rng) -> Corpus {
    let n = match r.below(10) { 0 => r.range(3, 9), 1..=6 => r.range(10, 30), _ => r.range(31, 60) } as usize;
    // vocabulary: word codes 0..8000; doc i owns codes 100*i+1 .. 100*i+9 (i < 60), the shared pool is 7000..
    let style = *r.pick(&["distinct", "distinct", "distinct", "mixed", "mixed", "oneVocab"]);
    let npool = match style { "distinct" => r.range(1, 3), "mixed" => r.range(3, 8), _ => 6 } as usize;
    let shared: Vec<u64> = (0..npool).map(|j| 7000 + j as u64).collect();
    let ts_mode = r.below(4); // 0 increasing with id, 1 random, 2 random with many ties, 3 decreasing
    let span = *r.pick(&[50i64, 5_000, 3_000_000]);
    let mut docs = Vec::new();
    for i in 0..n {
        let mut words: Vec<u64> = Vec::new();
        if style != "oneVocab" {
            let own = r.range(2, 5);
            for j in 0..own { words.push(100 * i as u64 + 1 + j); }
        }
        let nsh = match style { "distinct" => if r.chance(1, 3) { 1 } else { 0 }, "mixed" => r.range(0, 3), _ => r.range(3, 5) };
        for _ in 0..nsh { let w = *r.pick(&shared); if !words.contains(&w) { words.push(w); } }
        if words.is_empty() { words.push(100 * i as u64 + 1); }
        // shuffle
        for k in (1..words.len()).rev() { let j = r.below(k as u64 + 1) as usize; words.swap(k, j); }
        let text = words.iter().map(|w| word(*w)).collect::<Vec<_>>().join(" ");
        let ts = TS_BASE + match ts_mode {
            0 => (i as i64) * (span / n as i64).max(1),
            1 => r.below(span as u64) as i64,
            2 => (r.below(5) as i64) * (span / 5).max(1),
            _ => ((n - i) as i64) * (span / n as i64).max(1),
        };
        docs.push(Doc { text, ts, words, deleted: false });
    }
    let dir = tempfile::tempdir().expect("tempdir");
    let path = dir.path().join("c11.mv2");
    let mut mem = Memvid::create(&path).expect("create");
    let commit_mid = r.chance(1, 3);
    for (i, d) in docs.iter().enumerate() {
        let mut o = PutOptions::default();
        o.timestamp = Some(d.ts); o.uri = Some(format!("mv2://c11/{}", i));
        o.auto_tag = false; o.extract_dates = false; o.extract_triplets = false; o.instant_index = false;
        mem.put_bytes_with_options(d.text.as_bytes(), o).expect("put");
        if commit_mid && i == n / 2 { mem.commit().expect("commit"); }
    }
    mem.commit().expect("commit");
    // delete a few frames (status != Active), then commit again
    if r.chance(1, 2) {
        let k = r.range(1, (n as u64 / 6).max(1));
        // biased to the lowest ids and the earliest timestamps: a cut-off just above them leaves a replay set
        // that is empty only because get_replay_frame_ids skips non-active frames
        let earliest = (0..n).min_by_key(|i| docs[*i].ts).unwrap();
        for j in 0..k {
            let v = match (j, r.below(4)) { (0, 0 | 1) => 0, (0, 2) => earliest, (1, 0) => 1, _ => r.below(n as u64) as usize };
            if !docs[v].deleted && mem.delete_frame(v as u64).is_ok() { docs[v].deleted = true; }
        }
        mem.commit().expect("commit");
    }
    let mem = if r.chance(1, 4) { drop(mem); Memvid::open(&path).expect("reopen") } else { mem };
    Corpus { _dir: dir, mem, docs, shared, style }
}

fn rfc3339(ts: i64) -> String {
    chrono::DateTime::<chrono::Utc>::from_timestamp(ts, 0).unwrap().format("%Y-%m-%dT%H:%M:%SZ").to_string()
}

#[derive(Clone)]
struct Req { query: String, top_k: usize, as_of_frame: Option<u64>, as_of_ts: Option<i64>, no_sketch: bool, tags: Vec<String> }

fn request(q: &str, top_k: usize, aof: Option<u64>, aot: Option<i64>, no_sketch: bool) -> SearchRequest {
    SearchRequest { query: q.to_string(), top_k, snippet_chars: 120, uri: None, scope: None, cursor: None,
        as_of_frame: aof, as_of_ts: aot, no_sketch, acl_context: None, acl_enforcement_mode: AclEnforcementMode::Audit }
}

/// query text, top_k, no_sketch (cut-offs are chosen afterwards, from what the query finds)
fn gen_query(r: &mut Rng, c: &Corpus) -> Req {
    let n = c.docs.len() as u64;
    let mut tags = vec![];
    let target = r.below(n) as usize;
    let qkind = r.below(12);
    let mut text = match qkind {
        0..=3 => { tags.push("q:own-word".into()); word(*r.pick(&c.docs[target].words)) }
        4..=7 => { tags.push("q:shared-word".into()); word(*r.pick(&c.shared)) }
        8 => { tags.push("q:two-words".into()); let d = &c.docs[target]; format!("{} {}", word(d.words[0]), word(*d.words.last().unwrap())) }
        9 => { tags.push("q:absent-word".into()); word(7900 + r.below(50)) }
        10 => { tags.push("q:or".into()); let a = *r.pick(&c.docs[target].words); let other = r.below(n) as usize; let b = *r.pick(&c.docs[other].words); format!("{} OR {}", word(a), word(b)) }
        _ => { tags.push("q:date-only".into()); String::new() }
    };
    // date range (RFC 3339 bounds, '*' = open; never both open: `date:[* TO *]` makes
    // tantivy's RangeQuery panic, which is not this property's business)
    let tss: Vec<i64> = c.docs.iter().map(|d| d.ts).collect();
    let (tmin, tmax) = (*tss.iter().min().unwrap(), *tss.iter().max().unwrap());
    if qkind == 11 || r.chance(1, 4) {
        let pick_ts = |r: &mut Rng| -> i64 { match r.below(6) { 0 => tmin - 1 - r.below(100) as i64, 1 => tmax + 1 + r.below(100) as i64, 2 | 3 => *r.pick(&tss), _ => tmin + r.below((tmax - tmin + 1) as u64) as i64 } };
        let (mut a, mut b) = (pick_ts(r), pick_ts(r));
        if a > b && !r.chance(1, 8) { std::mem::swap(&mut a, &mut b); }
        let open = r.below(8);
        let sa = if open == 0 { "*".to_string() } else { rfc3339(a) };
        let sb = if open == 1 { "*".to_string() } else { rfc3339(b) };
        if !text.is_empty() { text.push(' '); }
        text.push_str(&format!("date:[{} TO {}]", sa, sb));
        tags.push("date-range".into());
    } else { tags.push("no-date".into()); }
    let no_sketch = r.chance(1, 4);
    tags.push(if no_sketch { "no_sketch".into() } else { "sketch-on".into() });
    let top_k = match r.below(8) { 0 => 1, 1 => r.range(2, 4) as usize, 2 => 0, _ => 100 };
    Req { query: text, top_k, as_of_frame: None, as_of_ts: None, no_sketch, tags }
}

/// cut-offs below / inside / above the id and timestamp ranges, aimed at the frames the
/// query matches (u) and at the sketch candidates (cands): in a controlled fraction of
/// the requests the replay set is made disjoint from the sketch candidates on purpose.
fn gen_cutoffs(r: &mut Rng, rq: &mut Req, frames: &[(u64, i64, bool)], u: &BTreeSet<u64>, cands: &BTreeSet<u64>) {
    let n = frames.len() as u64;
    let tss: Vec<i64> = frames.iter().map(|f| f.1).collect();
    let (tmin, tmax) = (*tss.iter().min().unwrap(), *tss.iter().max().unwrap());
    let uv: Vec<u64> = u.iter().cloned().collect();
    let mode = r.below(20);
    let (aof, aot, tag) = match mode {
        0..=2 if !cands.is_empty() && *cands.iter().next().unwrap() >= 1 => {
            // every sketch candidate has an id above the cut-off
            let m = *cands.iter().next().unwrap();
            let aof = if r.chance(2, 3) { m - 1 } else { r.below(m) };
            (Some(aof), if r.chance(1, 4) { Some(tmax + r.below(9) as i64) } else { None }, "cut:frame-below-all-candidates")
        }
        3..=4 if !cands.is_empty() => {
            // every sketch candidate has a timestamp above the cut-off
            let m = cands.iter().map(|id| frames[*id as usize].1).min().unwrap();
            (if r.chance(1, 4) { Some(n + r.below(3)) } else { None }, Some(m - 1 - if r.chance(1, 3) { r.below(20) as i64 } else { 0 }), "cut:ts-below-all-candidates")
        }
        0..=13 if !uv.is_empty() => {
            // on / next to a frame the query matches
            let a = *r.pick(&uv); let b = *r.pick(&uv);
            let aof = match r.below(6) { 0 => None, 1 | 2 => Some(a), 3 => Some(a.saturating_sub(1)), 4 => Some(a + 1), _ => Some(n + r.below(3)) };
            let tb = frames[b as usize].1;
            let aot = match r.below(6) { 0 => None, 1 | 2 => Some(tb), 3 => Some(tb - 1), 4 => Some(tb + 1), _ => Some(tmax + r.below(5) as i64) };
            (aof, aot, "cut:at-matching-frame")
        }
        _ => {
            let aof = match r.below(9) { 0 | 1 => None, 2 => Some(0), 3 => Some(n + r.below(5)), 4 => Some(u64::MAX), 5 => Some(r.below(3)), _ => Some(r.below(n)) };
            let aot = match r.below(8) { 0 | 1 => None, 2 => Some(tmin - 1 - r.below(50) as i64), 3 => Some(tmax + r.below(50) as i64), 4 => Some(i64::MAX), 5 => Some(*r.pick(&tss)), _ => Some(tmin + r.below((tmax - tmin + 1) as u64) as i64) };
            (aof, aot, "cut:random")
        }
    };
    rq.as_of_frame = aof; rq.as_of_ts = aot;
    rq.tags.push(tag.into());
    rq.tags.push(match (aof, aot) { (None, None) => "asof:none", (Some(_), None) => "asof:frame", (None, Some(_)) => "asof:ts", _ => "asof:both" }.into());
}

fn hit_ids(mem: &mut Memvid, rq: SearchRequest) -> Result<(Vec<u64>, bool, usize), String> {
    match std::panic::catch_unwind(std::panic::AssertUnwindSafe(|| mem.search(rq))) {
        Ok(Ok(resp)) => Ok((resp.hits.iter().map(|h| h.frame_id).collect(), resp.next_cursor.is_some(), resp.total_hits)),
        Ok(Err(e)) => Err(format!("error: {}", e)),
        Err(_) => Err("panic".to_string()),
    }
}

struct NoEmb;
impl VecEmbedder for NoEmb {
    fn embed_query(&self, _text: &str) -> memvid_core::Result<Vec<f32>> { Ok(vec![0.0; 4]) }
    fn embedding_dimension(&self) -> usize { 4 }
}

/// `ask` (lexical mode, context only) forwards as_of_* to `search`: frame ids of its
/// retrieval hits, citations and context fragments.  OBSERVATION ONLY (the property is about
/// `search`): recorded in the tags of stream `ask`, never a violation.
fn ask_ids(mem: &mut Memvid, rq: &Req) -> Result<BTreeSet<u64>, String> {
    let a = AskRequest { question: rq.query.clone(), top_k: rq.top_k.max(1).min(8), snippet_chars: 120, uri: None, scope: None, cursor: None, start: None, end: None,
        context_only: true, mode: AskMode::Lex, as_of_frame: rq.as_of_frame, as_of_ts: rq.as_of_ts, adaptive: None, acl_context: None, acl_enforcement_mode: AclEnforcementMode::Audit };
    match std::panic::catch_unwind(std::panic::AssertUnwindSafe(|| mem.ask::<NoEmb>(a, None))) {
        Ok(Ok(resp)) => {
            let mut ids: BTreeSet<u64> = resp.retrieval.hits.iter().map(|h| h.frame_id).collect();
            ids.extend(resp.citations.iter().map(|c| c.frame_id));
            ids.extend(resp.context_fragments.iter().map(|c| c.frame_id));
            Ok(ids)
        }
        Ok(Err(e)) => Err(format!("error: {}", e)),
        Err(_) => Err("panic".to_string()),
    }
}

fn t_opt_n(v: Option<u64>) -> T { match v { Some(x) => T::some(T::N(x as u128)), None => T::none() } }
fn t_opt_z(v: Option<i64>) -> T { match v { Some(x) => T::some(T::Z(x as i128)), None => T::none() } }
fn t_ids(v: &BTreeSet<u64>) -> T { T::L(v.iter().map(|x| T::N(*x as u128)).collect()) }

fn probe() {
    let mut c = witness_corpus();
    for d in 0..c.docs.len() {
        for wd in c.docs[d].text.clone().split(' ') {
            let cands: BTreeSet<u64> = c.mem.find_sketch_candidates(wd, Some(SketchSearchOptions { hamming_threshold: 32, max_candidates: 500, min_score: 0.0 })).iter().map(|x| x.frame_id).collect();
            let u = hit_ids(&mut c.mem, request(wd, 10_000, None, None, true));
            eprintln!("doc {} word {} cands {:?} U {:?}", d, wd, cands, u);
        }
    }
    let words: Vec<String> = c.docs.iter().flat_map(|d| d.text.split(' ').map(|x| x.to_string()).collect::<Vec<_>>()).collect();
    for a in &words { for b in &words {
        if a >= b { continue; }
        let q = format!("{} OR {}", a, b);
        let cands: BTreeSet<u64> = c.mem.find_sketch_candidates(&q, Some(SketchSearchOptions { hamming_threshold: 32, max_candidates: 500, min_score: 0.0 })).iter().map(|x| x.frame_id).collect();
        if let Ok(u) = hit_ids(&mut c.mem, request(&q, 10_000, None, None, true)) {
            let us: BTreeSet<u64> = u.0.iter().cloned().collect();
            if let Some(x) = us.iter().find(|x| !cands.contains(x)) { if !cands.is_empty() && cands.iter().all(|c| c > x) { eprintln!("PAIR {:?} U {:?} cands {:?} miss {}", q, us, cands, x); } }
        }
    } }
    for q in ["date:[* TO *]", "banacok date:[* TO *]", "date:[* TO 2030-01-01]"] {
        eprintln!("query {:?}: {:?}", q, hit_ids(&mut c.mem, request(q, 10, None, None, true)));
    }
}

pub fn run(seed: u64, n: usize, w: &mut dyn std::io::Write) {
    if std::env::var("MV_C11_PROBE").is_ok() { probe(); return; }
    let mut r = Rng::new(seed ^ 0xC11);
    let debug = std::env::var("MV_DEBUG").is_ok();
    // n = number of requests; 60 per corpus (building a corpus costs seconds, a request milliseconds)
    let per = 60usize;
    let ncorp = (n + per - 1) / per;
    // fixed witness first: the corpus / request of the known finding
    let mut first = true;
    for ci in 0..ncorp {
        let t_build = std::time::Instant::now();
        let mut c = if first { first = false; witness_corpus() } else { build_corpus(&mut r) };
        if debug { eprintln!("corpus {} built in {:?} ({} docs)", ci, t_build.elapsed(), c.docs.len()); }
        let t_req = std::time::Instant::now();
        let nf = c.mem.frame_count() as u64;
        // frame table and time index, through the public API
        let mut frames: Vec<(u64, i64, bool)> = vec![];
        for id in 0..nf { let f = c.mem.frame_by_id(id).expect("frame_by_id"); frames.push((f.id, f.timestamp, f.status == FrameStatus::Active)); }
        let tl = c.mem.timeline(TimelineQuery { limit: None, since: None, until: None, reverse: false }).expect("timeline");
        let time_index: Vec<(i64, u64)> = tl.iter().map(|e| (e.timestamp, e.frame_id)).collect();
        let n_active = frames.iter().filter(|f| f.2).count();
        let has_sketches = c.mem.has_sketches();
        let nreq = if ci == 0 { 10 } else { per };
        for qi in 0..nreq {
            let mut rq = if ci == 0 { witness_request(qi) } else { gen_query(&mut r, &c) };
            // ---- query facts (hook): tokens as `search` reduces them, field terms, date range
            let facts = memvid_core::verif_hooks::query_facts(&rq.query);
            let (has_text, has_field, date_range) = match &facts {
                Ok((toks, hf, dr)) => (toks.iter().any(|t| !t.trim().is_empty()), *hf, *dr),
                Err(_) => (false, false, None),
            };
            // ---- engine oracle: same query, no as-of, no sketch, unbounded top_k
            let u = hit_ids(&mut c.mem, request(&rq.query, 10_000, None, None, true));
            // ---- sketch candidates with the options search() builds
            let cands: BTreeSet<u64> = c.mem.find_sketch_candidates(&rq.query, Some(SketchSearchOptions { hamming_threshold: 32, max_candidates: (rq.top_k * 10).max(500), min_score: 0.0 }))
                .iter().map(|x| x.frame_id).collect();
            if ci != 0 {
                let uset: BTreeSet<u64> = match &u { Ok(x) => x.0.iter().cloned().collect(), Err(_) => BTreeSet::new() };
                gen_cutoffs(&mut r, &mut rq, &frames, &uset, &cands);
            }
            let mut tags = rq.tags.clone();
            tags.push(format!("corpus:{}", c.style));
            // ---- the request, and the same request without as_of_*
            let got = hit_ids(&mut c.mem, request(&rq.query, rq.top_k, rq.as_of_frame, rq.as_of_ts, rq.no_sketch));
            let base = hit_ids(&mut c.mem, request(&rq.query, rq.top_k, None, None, rq.no_sketch));
            let (u_ids, got_ids, got_more, base_ids, base_more) = match (&u, &got, &base) {
                (Ok(u), Ok(g), Ok(b)) => (u.0.iter().cloned().collect::<BTreeSet<u64>>(), g.0.clone(), g.1, b.0.clone(), b.1),
                _ => {
                    // errors (invalid query): all three must fail alike; nothing to compare with the model
                    let same = u.is_err() && got.is_err() && base.is_err();
                    let viol = if same { None } else { Some(format!("asof-error-divergence: query {:?}: unfiltered {:?}, filtered {:?}", rq.query, u.as_ref().err(), got.as_ref().err())) };
                    tags.push("error".into());
                    emit(w, "error", &Case { input: T::S(rq.query.replace(|ch: char| !ch.is_ascii(), "?")), output: T::B(same), violation: viol, nontrivial: false, tags, key: format!("{}-{}", ci, qi) });
                    continue;
                }
            };
            let got_set: BTreeSet<u64> = got_ids.iter().cloned().collect();
            let base_set: BTreeSet<u64> = base_ids.iter().cloned().collect();
            // ---- the empty-intersection branch of the sketch stage (Coq: sketch_disjoint), recomputed from the
            // inputs (not from the hits): the sketch stage applies, its candidate set is non-empty, the filter
            // built so far (date range ∩ replay) is non-empty and disjoint from the candidates.  The code before
            // d76304f replaced the filter by the candidates there (fixed finding F-C11-1); now it drops the sketch.
            let asof_given = rq.as_of_frame.is_some() || rq.as_of_ts.is_some();
            let replay: BTreeSet<u64> = frames.iter().filter(|f| f.2 && rq.as_of_frame.map_or(true, |n| f.0 <= n) && rq.as_of_ts.map_or(true, |t| f.1 <= t)).map(|f| f.0).collect();
            let date_ids: Option<BTreeSet<u64>> = date_range.map(|(s, e)| time_index.iter().filter(|(ts, _)| s.map_or(true, |s| *ts >= s) && e.map_or(true, |e| *ts <= e)).map(|x| x.1).collect());
            let pre: Option<BTreeSet<u64>> = match (&date_ids, asof_given) {
                (Some(d), true) => Some(d.intersection(&replay).cloned().collect()),
                (Some(d), false) => Some(d.clone()),
                (None, true) => Some(replay.clone()),
                (None, false) => None,
            };
            let sketch_applies = has_sketches && has_text && !rq.no_sketch && !cands.is_empty();
            let fallback = sketch_applies && pre.as_ref().map_or(false, |p| !p.is_empty() && p.is_disjoint(&cands));
            // ---- property oracle
            let mut viol: Option<String> = None;
            let doc_limit_base = (rq.top_k.max(1)).saturating_mul(4).max(20);
            let nontrunc = !got_more && !base_more && n_active <= doc_limit_base;
            for id in &got_ids {
                let f = frames.iter().find(|f| f.0 == *id);
                let late_id = rq.as_of_frame.map_or(false, |n| *id > n);
                let late_ts = match (rq.as_of_ts, f) { (Some(t), Some(f)) => f.1 > t, (Some(_), None) => true, _ => false };
                if late_id || late_ts {
                    // no class is known for this clause: any hit from the future is a VIOLATION
                    viol = Some(format!("asof-future-hit: query {:?} as_of_frame {:?} as_of_ts {:?} no_sketch {} returned frame {} (timestamp {:?}); replay set {:?}, sketch candidates {:?}",
                        rq.query, rq.as_of_frame, rq.as_of_ts, rq.no_sketch, id, f.map(|f| f.1), replay.iter().take(12).collect::<Vec<_>>(), cands.iter().take(12).collect::<Vec<_>>()));
                    break;
                }
            }
            if viol.is_none() && nontrunc && asof_given {
                if let Some(x) = got_set.iter().find(|x| !base_set.contains(x)) {
                    // known class F-C11-2: the sketch stage of the as-of request hit its empty-intersection branch
                    // (sketch dropped, hard filters kept) and the added hit is a frame the sketch rejects
                    // (a false negative), which the request without as_of_* -- still sketch-filtered -- misses
                    let cls = if fallback && !cands.contains(x) { "sketch-miss-surfaced-by-asof" } else { "asof-adds-hit" };
                    viol = Some(format!("{}: query {:?} as_of_frame {:?} as_of_ts {:?} no_sketch {} top_k {} returned frame {} which the same request without as_of_* does not return ({:?}); sketch candidates {:?}",
                        cls, rq.query, rq.as_of_frame, rq.as_of_ts, rq.no_sketch, rq.top_k, x, base_set, cands.iter().take(12).collect::<Vec<_>>()));
                }
            }
            // ---- tags
            tags.push(if nontrunc { "regime:non-truncating".into() } else { "regime:truncating".into() });
            // why the monotonicity sentence is about the non-truncating regime: with truncation the filtered
            // request legitimately surfaces frames that the unfiltered one cut off (counted, never a violation)
            if !nontrunc && asof_given && got_set.iter().any(|x| !base_set.contains(x)) { tags.push("truncation:filtered-request-surfaces-frames-cut-off-unfiltered".into()); }
            tags.push(format!("topk:{}", match rq.top_k { 0 => "0", 1 => "1", 2..=4 => "2-4", _ => "100" }));
            if asof_given { tags.push(if replay.is_empty() { "replay:empty".into() } else if replay.len() == n_active { "replay:all".into() } else { "replay:proper".into() }); }
            if sketch_applies { tags.push("sketch:applies".into()); } else if has_sketches && has_text && !rq.no_sketch { tags.push("sketch:no-candidates".into()); }
            if fallback { tags.push(if asof_given { "sketch-dropped:asof".into() } else { "sketch-dropped:date-only".into() }); }
            if asof_given && sketch_applies && !fallback { tags.push("sketch∩replay:non-empty".replace('∩', "&")); }
            tags.push(format!("hits:{}", match got_set.len() { 0 => "0", 1 => "1", 2..=5 => "2-5", _ => "6+" }));
            if has_field && !has_text { tags.push("filters-only".into()); }
            if debug { eprintln!("c{} q{} {:?} k{} aof {:?} aot {:?} ns {} | U {:?} got {:?} base {:?} cands {:?} replay {} fallback {} viol {:?}", ci, qi, rq.query, rq.top_k, rq.as_of_frame, rq.as_of_ts, rq.no_sketch, u_ids, got_ids, base_set, cands, replay.len(), fallback, viol.as_ref().map(|v| &v[..30])); }
            // ---- Coq terms
            let input = T::Tup(vec![
                T::L(frames.iter().map(|f| T::Tup(vec![T::N(f.0 as u128), T::Z(f.1 as i128), T::B(f.2)])).collect()),
                T::some(T::L(time_index.iter().map(|(ts, id)| T::Tup(vec![T::Z(*ts as i128), T::N(*id as u128)])).collect())),
                match date_range { None => T::none(), Some((s, e)) => T::some(T::Tup(vec![t_opt_z(s), t_opt_z(e)])) },
                t_opt_n(rq.as_of_frame), t_opt_z(rq.as_of_ts),
                T::Tup(vec![T::B(has_sketches), T::B(has_text), T::B(rq.no_sketch)]),
                t_ids(&cands), t_ids(&u_ids),
            ]);
            let nontrivial = asof_given && !u_ids.is_empty();
            // ---- observation: the same cut-offs through `ask` (every 4th text request with as_of_*)
            if asof_given && has_text && !rq.query.contains("date:") && (ci == 0 || qi % 4 == 0) {
                let seen = ask_ids(&mut c.mem, &rq);
                let mut atags = vec![];
                match &seen {
                    Ok(ids) => {
                        let late = ids.iter().filter(|id| rq.as_of_frame.map_or(false, |n| **id > n) || frames.iter().find(|f| f.0 == **id).map_or(true, |f| rq.as_of_ts.map_or(false, |t| f.1 > t))).count();
                        atags.push(if late > 0 { if got_set.is_empty() { "ask:future-frames-after-empty-search".to_string() } else { "ask:future-frames".to_string() } } else if ids.is_empty() { "ask:empty".to_string() } else { "ask:all-within-cutoff".to_string() });
                        if debug && late > 0 { eprintln!("ASK c{} q{} {:?} aof {:?} aot {:?}: search hits {:?}, ask frames {:?}", ci, qi, rq.query, rq.as_of_frame, rq.as_of_ts, got_set, ids); }
                    }
                    Err(e) => { if debug { eprintln!("ASK c{} q{} {:?}: {}", ci, qi, rq.query, e); } atags.push(format!("ask:{}", &e[..e.len().min(5)])) }
                }
                let ids_t = match &seen { Ok(ids) => t_ids(ids), Err(_) => T::L(vec![]) };
                emit(w, "ask", &Case { input: T::Tup(vec![T::S(rq.query.clone()), t_opt_n(rq.as_of_frame), t_opt_z(rq.as_of_ts)]), output: ids_t, violation: None, nontrivial: false, tags: atags, key: format!("ask-{}-{}", ci, qi) });
            }
            let key = blake3::hash(format!("{:?}|{:?}|{:?}|{:?}|{}|{}|{:?}|{:?}|{:?}", frames, rq.query, rq.as_of_frame, rq.as_of_ts, rq.no_sketch, rq.top_k, cands, u_ids, date_range).as_bytes()).to_hex()[..16].to_string();
            if nontrunc {
                emit(w, "exact", &Case { input, output: T::Tup(vec![t_ids(&got_set), T::B(fallback)]), violation: viol, nontrivial, tags, key });
            } else {
                let input = T::Tup(vec![input, T::N(rq.top_k.max(1) as u128), T::L(got_ids.iter().map(|x| T::N(*x as u128)).collect())]);
                emit(w, "trunc", &Case { input, output: T::Tup(vec![T::B(true), T::N(got_set.len() as u128), T::B(fallback)]), violation: viol, nontrivial, tags, key });
            }
        }
        if debug { eprintln!("corpus {} requests in {:?}", ci, t_req.elapsed()); }
    }
}

/// The witness memory of F-C11-1 (fixed) and F-C11-2: six documents with distinct vocabularies.
fn witness_corpus() -> Corpus {
    let texts = ["babacok baducok bafecok", "bagicok bahacok bajocok", "bakucok balecok bamicok", "banacok bapocok barucok", "batacok bavocok bawicok", "baxacok bazocok babecok"];
    let dir = tempfile::tempdir().expect("tempdir");
    let path = dir.path().join("c11w.mv2");
    let mut mem = Memvid::create(&path).expect("create");
    let mut docs = vec![];
    for (i, t) in texts.iter().enumerate() {
        let mut o = PutOptions::default();
        o.timestamp = Some(TS_BASE + 10 * i as i64); o.uri = Some(format!("mv2://c11/{}", i));
        o.auto_tag = false; o.extract_dates = false; o.extract_triplets = false; o.instant_index = false;
        mem.put_bytes_with_options(t.as_bytes(), o).expect("put");
        docs.push(Doc { text: t.to_string(), ts: TS_BASE + 10 * i as i64, words: vec![], deleted: false });
    }
    mem.commit().expect("commit");
    Corpus { _dir: dir, mem, docs, shared: vec![], style: "witness" }
}

fn witness_request(i: usize) -> Req {
    let t = |s: &str| vec![format!("witness:{}", s)];
    // "batacok" occurs only in frame 4 and its sketch candidate set is {4}; "bahacok" only in frame 1, candidates {1}
    match i {
        0 => Req { query: "batacok".into(), top_k: 10, as_of_frame: Some(1), as_of_ts: None, no_sketch: false, tags: t("frame-cutoff-sketch-on") },
        1 => Req { query: "batacok".into(), top_k: 10, as_of_frame: Some(1), as_of_ts: None, no_sketch: true, tags: t("frame-cutoff-no-sketch") },
        2 => Req { query: "batacok".into(), top_k: 10, as_of_frame: None, as_of_ts: Some(TS_BASE + 15), no_sketch: false, tags: t("ts-cutoff-sketch-on") },
        3 => Req { query: "batacok".into(), top_k: 10, as_of_frame: None, as_of_ts: Some(TS_BASE + 15), no_sketch: true, tags: t("ts-cutoff-no-sketch") },
        4 => Req { query: "bahacok".into(), top_k: 10, as_of_frame: Some(1), as_of_ts: None, no_sketch: false, tags: t("word-before-cutoff") },
        5 => Req { query: "batacok".into(), top_k: 10, as_of_frame: Some(4), as_of_ts: Some(TS_BASE + 40), no_sketch: false, tags: t("cutoff-at-frame") },
        6 => Req { query: "batacok".into(), top_k: 10, as_of_frame: Some(3), as_of_ts: Some(TS_BASE + 40), no_sketch: false, tags: t("frame-cutoff-one-below") },
        7 => Req { query: "batacok date:[2023-11-14T22:13:20Z TO *]".into(), top_k: 10, as_of_frame: Some(2), as_of_ts: None, no_sketch: false, tags: t("date-range-and-frame-cutoff") },
        // F-C11-2: "babacok OR batacok" matches frames 0 and 4, its sketch candidates are {4} (frame 0 is a false negative)
        8 => Req { query: "babacok OR batacok".into(), top_k: 10, as_of_frame: Some(0), as_of_ts: None, no_sketch: false, tags: t("sketch-miss-surfaced-sketch-on") },
        _ => Req { query: "babacok OR batacok".into(), top_k: 10, as_of_frame: Some(0), as_of_ts: None, no_sketch: true, tags: t("sketch-miss-surfaced-no-sketch") },
    }
}
