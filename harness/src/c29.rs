//! C29 encrypted capsules: lock_file / unlock_file on real files, faults on the capsule.
//!
//! Streams (both evaluated by the Coq model in Corr/C29.v):
//!   lock   : (password, kdf table, AEAD table, salt, base nonce, plaintext) -> capsule
//!   unlock : (password, kdf table, AEAD table, capsule) -> Ok plaintext | Err kind
//! Files of several MiB are handed to Coq as runs of literal bytes (header, length
//! prefixes, flipped bytes) and opaque tokens (ciphertext / plaintext chunks): `Tok id off len`
//! = bytes [off, off+len) of blob `id`.  The AEAD table is filled by real AES-256-GCM
//! (crate aes-gcm) under the real Argon2id key: entry (key 1, nonce, plaintext run,
//! ciphertext run) exists iff the real cipher decrypts that record under that nonce.
//! The property oracle is independent of the model: unlock returned Ok although the
//! capsule (or the password) was modified, or the written plaintext differs from f, or a
//! failed unlock left something at the destination.
use crate::term::*;
use aes_gcm::aead::Aead;
use aes_gcm::{Aes256Gcm, KeyInit, Nonce};
use memvid_core::encryption::{lock_file, unlock_file, EncryptionError, ARGON2_ITERATIONS, ARGON2_MEMORY_KIB, ARGON2_PARALLELISM, KEY_SIZE, MV2E_HEADER_SIZE};
use std::path::Path;

const HDR: usize = MV2E_HEADER_SIZE;

#[derive(Clone, Debug, PartialEq)]
enum Piece { Lit(Vec<u8>), Tok { id: u32, off: usize, len: usize } }

#[derive(Clone, Debug, PartialEq)]
struct Rope(Vec<Piece>);

struct Blobs(Vec<Vec<u8>>);
impl Blobs {
    fn add(&mut self, b: Vec<u8>) -> u32 {
        if let Some(i) = self.0.iter().position(|x| *x == b) { return i as u32; }
        self.0.push(b); (self.0.len() - 1) as u32
    }
}

impl Piece { fn len(&self) -> usize { match self { Piece::Lit(b) => b.len(), Piece::Tok { len, .. } => *len } } }

impl Rope {
    fn len(&self) -> usize { self.0.iter().map(|p| p.len()).sum() }
    fn bytes(&self, bl: &Blobs) -> Vec<u8> {
        let mut v = Vec::with_capacity(self.len());
        for p in &self.0 { match p { Piece::Lit(b) => v.extend_from_slice(b), Piece::Tok { id, off, len } => v.extend_from_slice(&bl.0[*id as usize][*off..*off + *len]) } }
        v
    }
    fn split(&self, n: usize) -> (Rope, Rope) {
        let mut a = vec![]; let mut b = vec![]; let mut left = n;
        for p in &self.0 {
            if left == 0 { b.push(p.clone()); continue; }
            let l = p.len();
            if l <= left { a.push(p.clone()); left -= l; continue; }
            match p {
                Piece::Lit(x) => { a.push(Piece::Lit(x[..left].to_vec())); b.push(Piece::Lit(x[left..].to_vec())); }
                Piece::Tok { id, off, len } => { a.push(Piece::Tok { id: *id, off: *off, len: left }); b.push(Piece::Tok { id: *id, off: off + left, len: len - left }); }
            }
            left = 0;
        }
        (Rope(a), Rope(b))
    }
    fn cat(mut self, o: Rope) -> Rope { self.0.extend(o.0); self }
    fn slice(&self, off: usize, len: usize) -> Rope { self.split(off).1.split(len).0 }
    /// same normal form as `norm` in Corr/C29.v
    fn norm(&self) -> Rope {
        let mut out: Vec<Piece> = vec![];
        for p in &self.0 {
            if p.len() == 0 { continue; }
            match (out.last_mut(), p) {
                (Some(Piece::Lit(a)), Piece::Lit(b)) => a.extend_from_slice(b),
                (Some(Piece::Tok { id, off, len }), Piece::Tok { id: id2, off: off2, len: len2 }) if *id == *id2 && *off + *len == *off2 => *len += *len2,
                _ => out.push(p.clone()),
            }
        }
        Rope(out)
    }
    /// replace byte at pos by its materialised value xor mask (a literal)
    fn flip(&self, bl: &Blobs, pos: usize, mask: u8) -> Rope {
        let (a, r) = self.split(pos); let (x, b) = r.split(1);
        let v = x.bytes(bl)[0] ^ mask;
        a.cat(Rope(vec![Piece::Lit(vec![v])])).cat(b)
    }
    fn term(&self) -> T {
        T::L(self.norm().0.iter().map(|p| match p {
            Piece::Lit(b) => T::C("Lit", vec![T::H(b.clone())]),
            Piece::Tok { id, off, len } => T::C("Tok", vec![T::N(*id as u128), T::N(*off as u128), T::N(*len as u128)]),
        }).collect())
    }
}

fn err_kind(e: &EncryptionError) -> u128 {
    match e {
        EncryptionError::Io { .. } => 1,
        EncryptionError::InvalidMagic { .. } => 2,
        EncryptionError::UnsupportedVersion { .. } => 3,
        EncryptionError::UnsupportedKdf { .. } => 4,
        EncryptionError::UnsupportedCipher { .. } => 5,
        EncryptionError::Decryption { .. } => 6,
        EncryptionError::SizeMismatch { .. } => 7,
        EncryptionError::CorruptedDecryption => 8,
        EncryptionError::NotMv2File { .. } => 9,
        EncryptionError::KeyDerivation { .. } => 10,
        _ => 11,
    }
}

/// Argon2id oracle: same algorithm/version/parameters as the crate's constants
fn argon2_key(pw: &[u8], salt: &[u8]) -> [u8; 32] {
    let params = argon2::Params::new(ARGON2_MEMORY_KIB, ARGON2_ITERATIONS, ARGON2_PARALLELISM, Some(KEY_SIZE)).unwrap();
    let a = argon2::Argon2::new(argon2::Algorithm::Argon2id, argon2::Version::V0x13, params);
    let mut key = [0u8; 32];
    a.hash_password_into(pw, salt, &mut key).unwrap();
    key
}

fn aes_dec(key: &[u8; 32], nonce: &[u8], ct: &[u8]) -> Option<Vec<u8>> {
    let c = Aes256Gcm::new_from_slice(key).ok()?;
    c.decrypt(Nonce::from_slice(nonce), ct).ok()
}

/// candidate per-chunk nonces tried against the real cipher (the first is what the model says)
fn nonce_candidates(base: &[u8], i: u64) -> Vec<Vec<u8>> {
    let mut v = vec![];
    let mut a = base.to_vec(); a[4..].copy_from_slice(&i.to_be_bytes()); v.push(a);
    let mut a = base.to_vec(); a[4..].copy_from_slice(&i.to_le_bytes()); v.push(a);
    let mut a = base.to_vec(); a[..8].copy_from_slice(&i.to_be_bytes()); v.push(a);
    let mut a = base.to_vec(); a[4..].copy_from_slice(&(i + 1).to_be_bytes()); v.push(a);
    v.push(base.to_vec());
    v.dedup();
    v
}

/// cut a capsule body into records the way a reader of `[len u32 LE][ciphertext]` does;
/// returns (offset, len) of each ciphertext relative to the capsule start, and how it ended:
/// Some(tail_len) = fewer than 4 bytes left, None = a record is cut short
fn cut_records(caps: &[u8]) -> (Vec<(usize, usize)>, Option<usize>) {
    let mut v = vec![]; let mut p = HDR;
    loop {
        if caps.len() < p + 4 { return (v, Some(caps.len().saturating_sub(p))); }
        let l = u32::from_le_bytes(caps[p..p + 4].try_into().unwrap()) as usize;
        if caps.len() < p + 4 + l { return (v, None); }
        v.push((p + 4, l)); p += 4 + l;
    }
}

struct Capsule {
    f: Vec<u8>, pw: Vec<u8>, caps: Vec<u8>,
    frope: Rope, crope: Rope,
    recs: Vec<(usize, usize)>,
    table: Vec<(Vec<u8>, Rope, Rope)>, // nonce, plaintext run, ciphertext run (key id 1)
    blobs: Blobs,
}

fn table_term(c: &Capsule) -> T {
    T::L(c.table.iter().map(|(n, p, ct)| T::Tup(vec![T::N(1), T::H(n.clone()), p.term(), ct.term()])).collect())
}
fn kdf_term(c: &Capsule) -> T {
    if c.caps.len() < 40 { return T::L(vec![]); }
    T::L(vec![T::Tup(vec![T::H(c.pw.clone()), T::H(c.caps[8..40].to_vec()), T::N(1)])])
}

/// the known classes, decided from (original capsule, presented capsule) exactly as
/// known_trunc / known_trail / known_hdr / known_downgrade in coq/Proofs/CapsuleProofs.v
fn classify(orig: &[u8], t: &[u8]) -> &'static str {
    if t.len() < HDR { return "unclassified"; }
    let (orecs, _) = cut_records(orig);
    if t[60] != 1 {
        let body = &t[HDR..];
        if orecs.iter().any(|(o, l)| &orig[*o..*o + *l] == body) { return "stream-to-oneshot-downgrade"; }
        return "unclassified";
    }
    let (trecs, tend) = cut_records(t);
    let tail = match tend { Some(n) => n, None => return "unclassified" };
    if trecs.len() > orecs.len() { return "unclassified"; }
    for (a, b) in trecs.iter().zip(orecs.iter()) { if t[a.0..a.0 + a.1] != orig[b.0..b.0 + b.1] { return "unclassified"; } }
    if trecs.len() < orecs.len() { return "truncated-at-chunk-boundary"; }
    if tail > 0 { return "trailing-partial-length-prefix"; }
    // same records, no tail: only the header can differ
    let crit = |x: &[u8]| -> Vec<u8> { let mut v = x[0..44].to_vec(); v.push(x[60]); v };
    if t[..HDR] != orig[..HDR] && crit(t) == crit(orig) { return "unauthenticated-header-field"; }
    "unclassified"
}

fn make_capsule(dir: &Path, r: &mut Rng, size: usize, tag: usize) -> Option<Capsule> {
    let mut f = vec![0u8; size];
    // cheap filler: 8 bytes per PRNG step
    for ch in f.chunks_mut(8) { let x = r.next().to_le_bytes(); let n = ch.len(); ch.copy_from_slice(&x[..n]); }
    if size >= 4 { f[..4].copy_from_slice(b"MV2\0"); }
    let pw: Vec<u8> = { let n = r.range(0, 12) as usize; r.bytes(n) };
    let fp = dir.join(format!("f{}.mv2", tag)); let cp = dir.join(format!("c{}.mv2e", tag));
    std::fs::write(&fp, &f).unwrap();
    lock_file(&fp, Some(&cp), &pw).ok()?;
    let caps = std::fs::read(&cp).unwrap();
    let mut blobs = Blobs(vec![]);
    let fid = blobs.add(f.clone());
    let (recs, _) = cut_records(&caps);
    // the plaintext as a run: the first 4 bytes of every chunk (as the capsule's record lengths
    // delimit them: ciphertext length - 16) are literal, because validate_mv2_* looks at them
    let mut fp_pieces = vec![]; let mut at = 0usize;
    for (_, l) in &recs {
        let pl = l.saturating_sub(16).min(size - at); if pl == 0 { continue; }
        let h = 4.min(pl);
        fp_pieces.push(Piece::Lit(f[at..at + h].to_vec()));
        fp_pieces.push(Piece::Tok { id: fid, off: at + h, len: pl - h });
        at += pl;
    }
    if at < size { fp_pieces.push(Piece::Tok { id: fid, off: at, len: size - at }); }
    let frope = Rope(fp_pieces).norm();
    let mut crope = Rope(vec![Piece::Lit(caps[..HDR.min(caps.len())].to_vec())]);
    let key = argon2_key(&pw, &caps[8..40]);
    let base = caps[40..52].to_vec();
    let mut table = vec![]; let mut poff = 0usize;
    for (i, (o, l)) in recs.iter().enumerate() {
        let ct = caps[*o..*o + *l].to_vec();
        let cid = blobs.add(ct.clone());
        let crun = Rope(vec![Piece::Tok { id: cid, off: 0, len: *l }]);
        crope = crope.cat(Rope(vec![Piece::Lit(caps[*o - 4..*o].to_vec())])).cat(crun.clone());
        for n in nonce_candidates(&base, i as u64) {
            if let Some(p) = aes_dec(&key, &n, &ct) {
                let prun = if poff + p.len() <= f.len() && f[poff..poff + p.len()] == p[..] { frope.slice(poff, p.len()).norm() }
                           else { let id = blobs.add(p.clone()); Rope(vec![Piece::Tok { id, off: 0, len: p.len() }]) };
                poff += p.len();
                table.push((n, prun, crun.norm()));
                break;
            }
        }
    }
    Some(Capsule { f, pw, caps, frope, crope: crope.norm(), recs, table, blobs })
}

struct Fault { name: String, rope: Rope, pw: Vec<u8>, tags: Vec<String> }

fn faults_for(c: &Capsule, r: &mut Rng, sweep: bool) -> Vec<Fault> {
    let mut v: Vec<Fault> = vec![];
    let full = &c.crope; let n = full.len(); let bl = &c.blobs;
    let mut push = |name: String, rope: Rope, pw: &Vec<u8>, tags: &[&str]| v.push(Fault { name, rope, pw: pw.clone(), tags: tags.iter().map(|s| s.to_string()).collect() });
    push("intact".into(), full.clone(), &c.pw, &["intact"]);
    // record boundaries: start of every record and the end of the file
    let mut bounds: Vec<usize> = c.recs.iter().map(|(o, _)| o - 4).collect(); bounds.push(n);
    // truncations
    let near: Vec<i64> = if sweep { (-8..=8).collect() } else { vec![-1, 0, 1, 3, 4, 5] };
    let near: Vec<i64> = if !sweep && c.recs.len() >= 3 { vec![-1, 0, 2, 4] } else { near };
    let mut cuts: Vec<usize> = vec![];
    for b in &bounds { for d in &near { let o = *b as i64 + d; if o >= 0 && (o as usize) < n { cuts.push(o as usize); } } }
    for d in if sweep { (-8..=8).collect::<Vec<i64>>() } else { vec![-1, 0, 1, 4] } { let o = HDR as i64 + d; if o >= 0 && (o as usize) < n { cuts.push(o as usize); } }
    for _ in 0..3 { cuts.push(r.below(n as u64) as usize); }
    cuts.sort(); cuts.dedup();
    for o in cuts {
        let kind = if o < HDR { "trunc-in-header" } else if bounds.contains(&o) { "trunc-at-boundary" } else if bounds.iter().any(|b| o > *b && o < *b + 4) { "trunc-in-length-prefix" } else { "trunc-in-chunk" };
        push(format!("truncate at {}", o), full.split(o).0, &c.pw, &["truncate", kind]);
    }
    // bit flips: one per header field, per length-prefix byte of a record, ciphertext body, tag
    let fields: [(&str, usize, usize); 10] = [("magic", 0, 4), ("version", 4, 2), ("kdf", 6, 1), ("cipher", 7, 1), ("salt", 8, 32), ("nonce-prefix", 40, 4), ("nonce-counter", 44, 8), ("original-size", 52, 8), ("reserved0", 60, 1), ("reserved1-3", 61, 3)];
    for (name, off, len) in fields {
        let reps = if matches!(name, "magic" | "version" | "kdf" | "cipher") { 1 } else if sweep { 2 } else { 1 };
        for _ in 0..reps {
            let p = off + r.below(len as u64) as usize; let m = 1u8 << r.below(8);
            if p < n { push(format!("flip header.{} byte {} mask {:#x}", name, p, m), full.flip(bl, p, m), &c.pw, &["flip", &format!("flip-{}", name)]); }
        }
    }
    if !c.recs.is_empty() {
        let ri = r.below(c.recs.len() as u64) as usize; let (o, l) = c.recs[ri];
        // low bytes of the length (high bytes would make the reader allocate up to 4 GiB before failing)
        for k in 0..2 { let m = 1u8 << r.below(8); push(format!("flip length prefix of record {} byte {} mask {:#x}", ri, k, m), full.flip(bl, o - 4 + k, m), &c.pw, &["flip", "flip-length"]); }
        { let m = 1u8 << r.below(4); push(format!("flip length prefix of record {} byte 2 mask {:#x}", ri, m), full.flip(bl, o - 4 + 2, m), &c.pw, &["flip", "flip-length"]); }
        if l > 16 { let p = o + r.below((l - 16) as u64) as usize; push(format!("flip ciphertext byte {}", p), full.flip(bl, p, 1 << r.below(8)), &c.pw, &["flip", "flip-ciphertext"]); }
        let p = o + l - 16 + r.below(16) as usize; push(format!("flip tag byte {}", p), full.flip(bl, p, 1 << r.below(8)), &c.pw, &["flip", "flip-tag"]);
        let (o0, l0) = c.recs[0]; push("flip first ciphertext byte".into(), full.flip(bl, o0, 0x80), &c.pw, &["flip", "flip-ciphertext"]);
        let _ = l0;
    }
    // whole-record edits
    let rec = |i: usize| -> Rope { let (o, l) = c.recs[i]; full.slice(o - 4, l + 4) };
    let hdr = full.split(HDR.min(n)).0;
    let assemble = |order: &[usize]| -> Rope { let mut x = hdr.clone(); for i in order { x = x.cat(rec(*i)); } x };
    let k = c.recs.len();
    if k >= 2 {
        let i = r.below(k as u64 - 1) as usize;
        let mut ord: Vec<usize> = (0..k).collect(); ord.swap(i, i + 1);
        push(format!("swap records {} and {}", i, i + 1), assemble(&ord), &c.pw, &["reorder", "swap-records"]);
        let mut ord: Vec<usize> = (0..k).collect(); ord.swap(0, k - 1);
        push("swap first and last record".into(), assemble(&ord), &c.pw, &["reorder", "swap-records"]);
        let ord: Vec<usize> = (1..k).collect();
        push("drop first record".into(), assemble(&ord), &c.pw, &["reorder", "drop-record"]);
        if k >= 3 { let ord: Vec<usize> = (0..k).filter(|x| *x != 1).collect(); push("drop middle record".into(), assemble(&ord), &c.pw, &["reorder", "drop-record"]); }
        // swap two ciphertexts of equal length, keeping the length prefixes in place
        if c.recs[0].1 == c.recs[1].1 {
            let (o0, l0) = c.recs[0]; let (o1, l1) = c.recs[1];
            let x = full.split(o0).0.cat(full.slice(o1, l1)).cat(full.slice(o0 + l0, o1 - (o0 + l0))).cat(full.slice(o0, l0)).cat(full.split(o1 + l1).1);
            push("swap ciphertexts 0 and 1 in place".into(), x, &c.pw, &["reorder", "swap-ciphertexts"]);
        }
    }
    if k >= 1 {
        let mut ord: Vec<usize> = (0..k).collect(); ord.push(k - 1);
        push("duplicate last record".into(), assemble(&ord), &c.pw, &["reorder", "duplicate-record"]);
        let mut ord: Vec<usize> = (0..k).collect(); ord.insert(0, 0);
        push("duplicate first record".into(), assemble(&ord), &c.pw, &["reorder", "duplicate-record"]);
    }
    // appended bytes
    for extra in [1usize, 2, 3, 4, 5, 20] {
        let mut b = r.bytes(extra); if extra >= 4 { b[2] = 0; b[3] = 0; }   // keep a bogus length small
        push(format!("append {} bytes", extra), full.clone().cat(Rope(vec![Piece::Lit(b)])), &c.pw, &["append", if extra < 4 { "append-lt4" } else { "append-ge4" }]);
    }
    // wrong password
    { let mut p2 = c.pw.clone(); if p2.is_empty() { p2.push(1) } else { let i = r.below(p2.len() as u64) as usize; p2[i] ^= 1 << r.below(8); }
      push("wrong password".into(), full.clone(), &p2, &["password"]); }
    // format downgrade: present record j as a one-shot capsule (reserved[0] = 0, nonce counter = j, original_size = its plaintext length)
    if k >= 1 && n >= HDR {
        for j in [0usize, k - 1] {
            let (o, l) = c.recs[j];
            let mut h = c.caps[..HDR].to_vec();
            h[44..52].copy_from_slice(&(j as u64).to_be_bytes());
            h[52..60].copy_from_slice(&((l - 16) as u64).to_le_bytes());
            h[60] = 0;
            push(format!("present record {} as a one-shot capsule", j), Rope(vec![Piece::Lit(h.clone())]).cat(full.slice(o, l)), &c.pw, &["downgrade"]);
            if j == 0 { h[52] ^= 1; push("one-shot downgrade with a wrong original_size".into(), Rope(vec![Piece::Lit(h)]).cat(full.slice(o, l)), &c.pw, &["downgrade", "downgrade-size-mismatch"]); }
        }
        // reserved[0] = 0 with the body untouched (the framed stream read as one ciphertext)
        push("reserved[0] := 0".into(), full.flip(bl, 60, 1), &c.pw, &["downgrade", "flip-reserved0"]);
    }
    v
}

struct Res { out: T, viol: Option<String>, ok: bool }

fn run_fault(c: &Capsule, dir: &Path, idx: usize, ft: &Fault) -> Res {
    let t = ft.rope.bytes(&c.blobs);
    let ip = dir.join(format!("t{}.mv2e", idx)); let op = dir.join(format!("o{}.mv2", idx));
    std::fs::write(&ip, &t).unwrap();
    let _ = std::fs::remove_file(&op);
    let pw = ft.pw.clone();
    let res = std::panic::catch_unwind(std::panic::AssertUnwindSafe(|| unlock_file(&ip, Some(&op), &pw)));
    let modified = t != c.caps || ft.pw != c.pw;
    let mut viol = None; let out; let mut ok = false;
    match res {
        Err(_) => { out = T::C("Panic", vec![T::N(0)]); viol = Some(format!("panic: unlock_file panicked on '{}'", ft.name)); }
        Ok(Err(e)) => {
            out = T::C("Err", vec![T::N(err_kind(&e))]);
            if op.exists() { viol = Some(format!("failed-unlock-wrote-output: unlock_file returned {:?} on '{}' but the destination exists", e, ft.name)); }
        }
        Ok(Ok(_)) => {
            ok = true;
            let w = std::fs::read(&op).unwrap_or_default();
            let run = if w.len() <= c.f.len() && c.f[..w.len()] == w[..] { c.frope.slice(0, w.len()).norm() } else { Rope(vec![Piece::Tok { id: 999_999, off: 0, len: w.len() }]) };
            out = T::C("Ok", vec![run.term()]);
            if w != c.f {
                let cl = classify(&c.caps, &t);
                let cl = if cl == "truncated-at-chunk-boundary" || cl == "stream-to-oneshot-downgrade" { cl } else { "plaintext-differs" };
                viol = Some(format!("{}: unlock_file returned Ok on '{}' (file of {} bytes, {} records) and wrote {} bytes that differ from the original", cl, ft.name, c.f.len(), c.recs.len(), w.len()));
            } else if modified {
                let cl = if ft.pw != c.pw { "wrong-password-accepted" } else { match classify(&c.caps, &t) { "unclassified" => "modified-capsule-accepted", x => x } };
                viol = Some(format!("{}: unlock_file returned Ok (plaintext intact) on a modified capsule: '{}' (file of {} bytes, {} records)", cl, ft.name, c.f.len(), c.recs.len()));
            }
        }
    }
    let _ = std::fs::remove_file(&ip); let _ = std::fs::remove_file(&op);
    Res { out, viol, ok }
}

pub fn run(seed: u64, n: usize, w: &mut dyn std::io::Write) {
    let mut r = Rng::new(seed ^ 0xC29);
    let dir = tempfile::tempdir().unwrap();
    const MIB: usize = 1 << 20;
    // size classes; n = number of capsules
    let classes: Vec<(&str, Box<dyn Fn(&mut Rng) -> usize>)> = vec![
        ("three-chunks-short-tail", Box::new(|r| 2 * MIB + r.range(1, 40) as usize)),
        ("tiny", Box::new(|r| r.range(4, 120) as usize)),
        ("exactly-2MiB", Box::new(|_| 2 * MIB)),
        ("exactly-1MiB", Box::new(|_| MIB)),
        ("two-chunks-short-tail", Box::new(|r| MIB + r.range(1, 40) as usize)),
        ("sub-chunk", Box::new(|r| r.range(1000, 900_000) as usize)),
        ("three-chunks", Box::new(|r| 2 * MIB + r.range(1, MIB as u64 - 1) as usize)),
        ("exactly-3MiB", Box::new(|_| 3 * MIB)),
        ("magic-only", Box::new(|_| 4)),
        ("one-below-1MiB", Box::new(|_| MIB - 1)),
    ];
    // lock on files that are not .mv2 files
    for (i, (kind, body)) in [("empty", vec![]), ("three-bytes", b"MV2".to_vec()), ("wrong-magic", b"MV3\0rest of the file".to_vec()), ("magic-lowercase", b"mv2\0xxxxxxxx".to_vec())].iter().enumerate() {
        let fp = dir.path().join(format!("bad{}.mv2", i)); let cp = dir.path().join(format!("bad{}.mv2e", i));
        std::fs::write(&fp, body).unwrap();
        let res = lock_file(&fp, Some(&cp), b"pw");
        let out = match &res { Ok(_) => T::C("Ok", vec![T::L(vec![])]), Err(e) => T::C("Err", vec![T::N(err_kind(e))]) };
        let mut viol = None;
        if res.is_ok() { viol = Some(format!("lock-accepts-non-mv2: lock_file accepted a file that does not start with MV2\\0 ({})", kind)); }
        else if cp.exists() { viol = Some("failed-lock-wrote-output: lock_file failed but the destination exists".to_string()); }
        let input = T::Tup(vec![T::H(b"pw".to_vec()), T::L(vec![]), T::L(vec![]), T::H(vec![0; 32]), T::H(vec![0; 12]), Rope(vec![Piece::Lit(body.clone())]).term()]);
        emit(w, "lock", &Case { input, output: out, violation: viol, nontrivial: false, tags: vec!["not-mv2".into(), kind.to_string()], key: format!("bad{}", i) });
    }
    for ci in 0..n {
        let (cname, sz) = &classes[ci % classes.len()];
        let size = sz(&mut r);
        let c = match make_capsule(dir.path(), &mut r, size, ci) { Some(c) => c, None => { eprintln!("lock failed on a valid file of {} bytes", size);
            emit(w, "lock", &Case { input: T::L(vec![]), output: T::L(vec![]), violation: Some(format!("lock-failed: lock_file failed on a valid .mv2 file of {} bytes", size)), nontrivial: false, tags: vec![], key: format!("lf{}", ci) }); continue; } };
        // ---- lock stream: the capsule the implementation wrote vs the model's
        {
            let mut viol = None;
            if c.table.len() != c.recs.len() { viol = Some(format!("chunk-not-decryptable: {} of {} records decrypt with the real AES-256-GCM under any candidate nonce", c.table.len(), c.recs.len())); }
            let input = T::Tup(vec![T::H(c.pw.clone()), kdf_term(&c), table_term(&c), T::H(c.caps[8..40].to_vec()), T::H(c.caps[40..52].to_vec()), c.frope.term()]);
            emit(w, "lock", &Case { input, output: T::C("Ok", vec![c.crope.term()]), violation: viol, nontrivial: c.recs.len() >= 1,
                tags: vec![cname.to_string(), format!("records{}", c.recs.len())], key: blake3::hash(&c.caps).to_hex()[..16].to_string() });
        }
        // ---- unlock stream
        let sweep = ci == 0 && n > 4;   // thorough tier: every offset within +-8 of every boundary
        let faults = faults_for(&c, &mut r, sweep);
        let results: Vec<Res> = {
            let nthreads = 6usize;
            let mut slots: Vec<Option<Res>> = (0..faults.len()).map(|_| None).collect();
            let next = std::sync::atomic::AtomicUsize::new(0);
            let slots_m = std::sync::Mutex::new(&mut slots);
            std::thread::scope(|s| {
                for _ in 0..nthreads {
                    s.spawn(|| loop {
                        let i = next.fetch_add(1, std::sync::atomic::Ordering::SeqCst);
                        if i >= faults.len() { break; }
                        let res = run_fault(&c, dir.path(), ci * 10_000 + i, &faults[i]);
                        slots_m.lock().unwrap()[i] = Some(res);
                    });
                }
            });
            slots.into_iter().map(|x| x.unwrap()).collect()
        };
        for (ft, res) in faults.iter().zip(results.into_iter()) {
            let input = T::Tup(vec![T::H(ft.pw.clone()), kdf_term(&c), table_term(&c), ft.rope.term()]);
            let mut tags = ft.tags.clone(); tags.push(cname.to_string()); tags.push(if res.ok { "ok".into() } else { "err".into() });
            let key = blake3::hash(format!("{}|{}|{}", blake3::hash(&c.caps).to_hex(), ft.name, ft.pw.len()).as_bytes()).to_hex()[..16].to_string();
            emit(w, "unlock", &Case { input, output: res.out, violation: res.viol, nontrivial: ft.tags[0] != "intact" || c.recs.len() >= 2, tags, key });
        }
    }
}
