//! C42: vacuum (directly or through doctor) on real memories.
//! A history (puts of binary / text / chunked / embedded documents, payload and payload-less
//! updates, deletes, commits, reopen, optionally a log growth) is run on a real Memvid through the
//! shared driver; the state just before the vacuum (frame table with payload windows, file bytes from
//! the data start to the footer offset, data_end / cached_payload_end / footer offset / pending log
//! records) is the model's input, the table + payload bytes + data_end + pending records + verify
//! status after the vacuum its expected output.  The property oracle compares, on the implementation
//! alone: frame table before/after (every column but the window, content hash and raw bytes of active
//! frames, (0,0) windows of inactive ones, contiguity), a battery of searches + timeline + vector
//! searches before/after, reopen, Memvid::verify(deep), file and payload-region size, and that a put +
//! commit after the vacuum leaves every content intact.
use crate::store::*;
use crate::term::*;
use memvid_core::types::{Frame, FrameRole, FrameStatus, SearchRequest, TimelineQuery, VerificationStatus};
use memvid_core::Memvid;
use std::num::NonZeroU64;

fn emb_of(k: u64) -> Vec<f32> { vec![(k % 7) as f32, ((k / 7) % 7) as f32, ((k / 49) % 7) as f32, 1.0 + (k % 3) as f32] }

#[derive(Clone, Debug)]
struct FrameSnap { id: u64, status: u8, role: u8, off: u64, len: u64, meta: u64, has_text: bool, content: Result<String, String>, raw: Option<Vec<u8>>, desc: String }

fn status_n(s: FrameStatus) -> u8 { match s { FrameStatus::Active => 0, FrameStatus::Superseded => 1, FrameStatus::Deleted => 2 } }
fn role_n(r: FrameRole) -> u8 { match r { FrameRole::Document => 0, FrameRole::DocumentChunk => 1, FrameRole::ExtractedImage => 2 } }

/// every column of a frame except its payload window
fn meta_desc(f: &Frame) -> String { let mut g = f.clone(); g.payload_offset = 0; g.payload_length = 0; format!("{:?}", g) }

fn snapshot(d: &mut Driver) -> (Vec<FrameSnap>, Vec<u8>) {
    let file = std::fs::read(&d.path).unwrap_or_default();
    let n = d.mem().frame_count() as u64;
    let mut v = vec![];
    for id in 0..n {
        let f = d.mem().frame_by_id(id).expect("frame_by_id");
        let desc = meta_desc(&f);
        let meta = u64::from_le_bytes(blake3::hash(desc.as_bytes()).as_bytes()[..8].try_into().unwrap()) >> 1;
        let content = if f.status == FrameStatus::Active {
            match std::panic::catch_unwind(std::panic::AssertUnwindSafe(|| d.mem().frame_canonical_payload(id))) {
                Ok(Ok(b)) => Ok(blake3::hash(&b).to_hex()[..16].to_string()),
                Ok(Err(e)) => Err(format!("{}", e)),
                Err(_) => Err("panic".into()),
            }
        } else { Ok(String::new()) };
        let (o, l) = (f.payload_offset as usize, f.payload_length as usize);
        let raw = if o.checked_add(l).map_or(false, |e| e <= file.len()) { Some(file[o..o + l].to_vec()) } else { None };
        let has_text = f.search_text.as_ref().map_or(false, |s| !s.trim().is_empty());
        v.push(FrameSnap { id: f.id, status: status_n(f.status), role: role_n(f.role), off: f.payload_offset, len: f.payload_length, meta, has_text, content, raw, desc });
    }
    (v, file)
}

fn sreq(q: &str, no_sketch: bool) -> SearchRequest {
    SearchRequest { query: q.to_string(), top_k: 500, snippet_chars: 80, uri: None, scope: None, cursor: None, as_of_frame: None, as_of_ts: None, no_sketch, acl_context: None, acl_enforcement_mode: Default::default() }
}

/// (query name, result as a set, result in rank order)
fn battery(d: &mut Driver, embs: &[u64], uris: &[u32], tags: &[u64]) -> Vec<(String, String, String)> {
    let mut out = vec![];
    for rev in [false, true] {
        let mut q = TimelineQuery::builder().limit(NonZeroU64::new(100_000).unwrap());
        if rev { q = q.reverse(true); }
        let r = match d.mem().timeline(q.build()) {
            Ok(es) => es.iter().map(|e| format!("({} {} {:?} {:?} {:?})", e.frame_id, e.timestamp, e.uri, e.child_frames, e.preview)).collect::<Vec<_>>().join(";"),
            Err(e) => format!("error {}", e),
        };
        out.push((format!("timeline(reverse={})", rev), r.clone(), r));
    }
    let mut queries: Vec<String> = ["alpha", "bravo charlie", "delta OR echo", "\"foxtrot golf\"", "hotel", "+india -juliet", "kilo lima mike", "november", "oscar papa", "zzzznotthere"].iter().map(|s| s.to_string()).collect();
    for t in tags.iter().take(3) { queries.push(format!("doc{}", t)); }
    if let Some(u) = uris.first() { queries.push(format!("uri:{}", uri_string(*u))); }
    for (qi, q) in queries.iter().enumerate() {
        let no_sketch = qi % 2 == 0;
        match d.mem().search(sreq(q, no_sketch)) {
            Ok(resp) => {
                let mut hits: Vec<String> = resp.hits.iter().map(|h| format!("({} {} {:?} {:?} {:?} m{})", h.frame_id, h.uri, h.title, h.range, h.text, h.matches)).collect();
                let ordered = resp.hits.iter().map(|h| h.frame_id.to_string()).collect::<Vec<_>>().join(",");
                hits.sort();
                out.push((format!("search({:?}, no_sketch={})", q, no_sketch), format!("total {} engine {:?} {}", resp.total_hits, resp.engine, hits.join(";")), ordered));
            }
            Err(e) => { let s = format!("error {}", e); out.push((format!("search({:?})", q), s.clone(), s)); }
        }
    }
    for k in embs.iter().take(3) {
        let r = match d.mem().search_vec(&emb_of(*k), 500) {
            Ok(hs) => { let mut v: Vec<(u64, u32)> = hs.iter().map(|h| (h.frame_id, h.distance.to_bits())).collect(); v.sort(); format!("{:?}", v) }
            Err(e) => format!("error {}", e),
        };
        out.push((format!("search_vec(emb {})", k), r.clone(), r));
    }
    out
}

fn verify_status(path: &std::path::Path) -> (bool, String) {
    match std::panic::catch_unwind(|| Memvid::verify(path, true)) {
        Ok(Ok(rep)) => {
            let failed: Vec<String> = rep.checks.iter().filter(|c| c.status == VerificationStatus::Failed).map(|c| format!("{} ({})", c.name, c.details.clone().unwrap_or_default())).collect();
            (rep.overall_status == VerificationStatus::Passed, failed.join(", "))
        }
        Ok(Err(e)) => (false, format!("verify returned an error: {}", e)),
        Err(_) => (false, "verify panicked".into()),
    }
}

#[derive(Clone, Debug)]
struct Info { is_doc: bool, active: bool, chunked: bool }

struct Hist { d: Driver, info: Vec<Info>, uris: Vec<u32>, embs: Vec<u64>, tags: Vec<u64>, uri_counter: u32, tagset: Vec<String>, failed: Option<String>, grew: bool, shared: bool }

impl Hist {
    fn new() -> Self { Hist { d: Driver::new(), info: vec![], uris: vec![], embs: vec![], tags: vec![], uri_counter: 0, tagset: vec![], failed: None, grew: false, shared: false } }
    fn tag(&mut self, t: &str) { if !self.tagset.iter().any(|x| x == t) { self.tagset.push(t.to_string()); } }
    fn apply(&mut self, op: Op) -> bool {
        let wal_before = memvid_core::verif_hooks::wal_stats(self.d.mem()).0;
        let obs = self.d.step(&op);
        if let Some(e) = self.d.open_error.clone() { self.failed.get_or_insert(format!("open-failed: {:?}: the memory could not be opened again: {}", op, e)); return false; }
        if memvid_core::verif_hooks::wal_stats(self.d.mem()).0 > wal_before { self.grew = true; self.tag("log-growth"); }
        if !obs.ok { if matches!(op, Op::Put { .. } | Op::Commit | Op::Vacuum) { self.failed.get_or_insert(format!("op-failed: {:?} returned an error", op)); } return false; }
        match &op {
            Op::Put { kind, embed, .. } => {
                let n = obs.next_after - obs.next_before;
                while (self.info.len() as u64) < obs.next_before { self.info.push(Info { is_doc: false, active: false, chunked: false }); }
                self.info.push(Info { is_doc: true, active: true, chunked: n > 1 });
                for _ in 1..n { self.info.push(Info { is_doc: false, active: true, chunked: false }); }
                self.tags.push(self.d.last_tag);
                match kind { PayloadKind::Bin => self.tag("bin"), PayloadKind::Text => self.tag("text"), PayloadKind::Chunked => self.tag(if n > 1 { "chunked" } else { "text" }) }
                if embed.is_some() { self.tag("embedded"); }
            }
            Op::Update { target, payload, .. } => {
                let old = self.info[*target as usize].clone();
                if !old.active { self.shared = true; self.tag("two-updates-of-one-frame"); }
                self.info[*target as usize].active = false;
                self.info.push(Info { is_doc: old.is_doc, active: true, chunked: false });
                self.tag(if payload.is_some() { "update-payload" } else { "update-reuse" });
            }
            Op::Delete { target } => { self.info[*target as usize].active = false; self.tag("delete"); }
            Op::Reopen => self.tag("reopen-before"),
            _ => {}
        }
        true
    }
    fn put(&mut self, r: &mut Rng, kind: PayloadKind, size: usize, embed: bool, i: usize) -> bool {
        let uri = if r.chance(1, 2) { self.uri_counter += 1; self.uris.push(self.uri_counter); Some(self.uri_counter) } else { None };
        let e = if embed { let k = r.range(1, 300); self.embs.push(k); Some(emb_of(k)) } else { None };
        let default_opts = r.chance(1, 4) && !matches!(kind, PayloadKind::Bin);
        self.apply(Op::Put { kind, size, uri, ts: 1_700_000_000 + (i as i64) * 7 - (r.below(3) as i64) * 20, embed: e, default_opts })
    }
    fn pick(&mut self, r: &mut Rng, unchunked: bool) -> Option<u64> {
        let n = self.d.mem().frame_count() as usize;
        let c: Vec<u64> = (0..n.min(self.info.len())).filter(|i| self.info[*i].is_doc && self.info[*i].active && !(unchunked && self.info[*i].chunked)).map(|i| i as u64).collect();
        if c.is_empty() { None } else { Some(c[r.below(c.len() as u64) as usize]) }
    }
}

/// long byte strings as a concatenation of short hex literals (one literal of 100 KB overflows coqc's stack)
fn big(b: Vec<u8>) -> T { if b.len() <= 2000 { T::H(b) } else { T::C("hexcat", vec![T::L(b.chunks(2000).map(|c| T::H(c.to_vec())).collect())]) } }

/// what the model must predict: rows (id, status, off, len), file bytes [start, end of the last payload),
/// and the bytes the index rebuild left between cached_payload_end and that end (model input `ix`)
fn model_out(rows: &[FrameSnap], file: &[u8], start: u64, cpe: u64) -> (Vec<T>, Vec<u8>, Vec<u8>, u64) {
    let mut pend = start;
    for f in rows { if f.len > 0 { pend = pend.max(f.off + f.len); } }
    let out_rows = rows.iter().map(|f| T::Tup(vec![T::N(f.id as u128), T::N(f.status as u128), T::N(f.off as u128), T::N(f.len as u128)])).collect();
    let cut = |a: u64, b: u64| -> Vec<u8> { let (s, e) = ((a as usize).min(file.len()), (b as usize).min(file.len())); file[s..e.max(s)].to_vec() };
    let _ = cpe;
    let ix = cut(pend, pend + 16); // stand-in for the index image: the model writes it after the last payload
    (out_rows, cut(start, pend), ix, pend)
}

/// same digest as Corr/C42.v `digest`
fn digest(b: &[u8]) -> T {
    const M: u64 = 4294967291;
    let (mut s1, mut s2) = (0u64, 0u64);
    for (i, x) in b.iter().enumerate() { s1 = (s1 + *x as u64) % M; s2 = (s2 + (i as u64 + 1) * (*x as u64)) % M; }
    T::Tup(vec![big(b[..b.len().min(4096)].to_vec()), T::N(b.len() as u128), T::N(s1 as u128), T::N(s2 as u128)])
}

fn row_term(f: &FrameSnap) -> T { T::Tup(vec![T::N(f.id as u128), T::N(f.status as u128), T::N(f.off as u128), T::N(f.len as u128), T::N(f.role as u128), T::N(f.meta as u128), T::B(f.has_text)]) }

fn compare_tables(before: &[FrameSnap], after: &[FrameSnap], start: u64, when: &str, _overflow: bool, viol: &mut Option<String>) {
    if before.len() != after.len() { viol.get_or_insert(format!("frame-count-changed: {} the memory holds {} frames, {} before the vacuum", when, after.len(), before.len())); return; }
    let mut cursor = start;
    for (b, a) in before.iter().zip(after.iter()) {
        if a.desc != b.desc { viol.get_or_insert(format!("frame-metadata-changed: {} frame {} differs in a column other than its payload window: before {} after {}", when, b.id, &b.desc[..b.desc.len().min(300)], &a.desc[..a.desc.len().min(300)])); }
        if b.status == 0 {
            if (a.off, a.len) != (cursor, b.len) { viol.get_or_insert(format!("not-contiguous: {} active frame {} has window ({}, {}), expected ({}, {}) = running end of the previous active payloads with its old length", when, b.id, a.off, a.len, cursor, b.len)); }
            cursor += b.len;
            let tag = "content-changed";
            if a.content != b.content { viol.get_or_insert(format!("{}: {} active frame {} content {:?}, before the vacuum {:?} (window before ({}, {}), after ({}, {}))", tag, when, b.id, a.content, b.content, b.off, b.len, a.off, a.len)); }
            else if a.raw != b.raw { viol.get_or_insert(format!("{}: {} active frame {} stored bytes differ from the ones before the vacuum (window before ({}, {}), after ({}, {}))", tag, when, b.id, b.off, b.len, a.off, a.len)); }
        } else if (a.off, a.len) != (0, 0) { viol.get_or_insert(format!("inactive-window-kept: {} inactive frame {} has window ({}, {}), expected (0, 0)", when, b.id, a.off, a.len)); }
    }
}

fn compare_batteries(before: &[(String, String, String)], after: &[(String, String, String)], when: &str, _overflow: bool, viol: &mut Option<String>, order_changed: &mut bool) {
    for (b, a) in before.iter().zip(after.iter()) {
        if b.1 != a.1 {
            let tag = "query-result-changed";
            viol.get_or_insert(format!("{}: {} {} returns {} ; before the vacuum {}", tag, when, b.0, &a.1[..a.1.len().min(400)], &b.1[..b.1.len().min(400)]));
        } else if b.2 != a.2 { *order_changed = true; }
    }
}

pub fn run(seed: u64, n: usize, w: &mut dyn std::io::Write) {
    let mut r = Rng::new(seed ^ 0xC42);
    // quick tier: the log-growth profile moves ~70 KB payloads (costly literals for coqc): one history only
    // fixed regression histories first: the witness of the fixed finding F-C42-1, directly and through doctor
    for via_doctor in [false, true] { one_history(&mut r, 3, true, Some(via_doctor), w); }
    for i in 0..n { one_history(&mut r, i, n <= 30 && i != 2, None, w); }
}

fn one_history(r: &mut Rng, index: usize, no_growth: bool, script: Option<bool>, w: &mut dyn std::io::Write) {
    let profile = index % 6;
    let mut h = Hist::new();
    let via_doctor = match (script, profile) { (Some(v), _) => v, (_, 1) => true, (_, 0 | 5) => false, _ => r.chance(1, 2) };
    let nops = if script.is_some() { 0 } else { (match profile { 5 => r.range(0, 5), 3 => r.range(4, 10), _ => r.range(6, 22) }) as usize };
    let mut grow_at = if profile == 2 && !no_growth { Some(r.below(nops as u64) as usize) } else { None };
    if script.is_some() {
        // put 500 bytes; commit; update_frame(0, None) twice; commit  (frames 1 and 2 active, sharing frame 0's window)
        h.tag("scripted:F-C42-1-witness");
        h.apply(Op::Put { kind: PayloadKind::Bin, size: 500, uri: None, ts: 1_700_000_000, embed: None, default_opts: false });
        h.apply(Op::Commit);
        h.apply(Op::Update { target: 0, payload: None, uri: Some(1) });
        h.apply(Op::Update { target: 0, payload: None, uri: Some(2) });
    }
    let mut i = 0usize;
    while i < nops && h.failed.is_none() {
        if grow_at == Some(i) {
            // a record larger than the room left in the log region: the region doubles and every payload moves
            let (region, pend, _, _) = memvid_core::verif_hooks::wal_stats(h.d.mem()); let sz = ((region - pend) as usize).saturating_sub(r.range(0, 250) as usize).max(2000); h.put(r, PayloadKind::Bin, sz, false, i);
            grow_at = None; i += 1; continue;
        }
        let c = r.below(100);
        if c < 45 || h.info.is_empty() {
            let (kind, size) = match (profile, r.below(10)) {
                (4, 0..=3) => (PayloadKind::Chunked, r.range(2500, 5200) as usize),
                (_, 0) if profile != 3 => (PayloadKind::Chunked, r.range(2500, 4000) as usize),
                (_, 1..=3) => (PayloadKind::Text, r.range(20, 700) as usize),
                (_, 4) => (PayloadKind::Bin, r.range(1, 4) as usize),
                _ => (PayloadKind::Bin, r.range(5, 600) as usize),
            };
            let embed = (profile == 4 && r.chance(1, 2)) || r.chance(1, 8);
            h.put(r, kind, size, embed, i);
        } else if c < 60 {
            if let Some(t) = h.pick(r, true) {
                let payload = if r.chance(1, 2) { Some((if r.chance(1, 3) { PayloadKind::Text } else { PayloadKind::Bin }, r.range(1, 500) as usize)) } else { None };
                let uri = if r.chance(1, 4) { h.uri_counter += 1; h.uris.push(h.uri_counter); Some(h.uri_counter) } else { None };
                let twice = payload.is_none() && (profile == 3 || r.chance(1, 10));
                h.apply(Op::Update { target: t, payload, uri });
                if twice && h.failed.is_none() {
                    // second payload-less update of the same (still committed-active) frame before any commit:
                    // two active frames then share one payload window
                    h.uri_counter += 1; let u = h.uri_counter; h.uris.push(u);
                    h.apply(Op::Update { target: t, payload: None, uri: Some(u) });
                }
            } else { h.apply(Op::Commit); }
        } else if c < 75 {
            if let Some(t) = h.pick(r, false) { h.apply(Op::Delete { target: t }); } else { h.apply(Op::Commit); }
        } else if c < 93 { h.apply(Op::Commit); }
        else { h.apply(Op::Reopen); }
        i += 1;
    }
    if profile == 5 && r.chance(1, 3) {
        // delete everything that is left
        if h.failed.is_none() { h.apply(Op::Commit); }
        for t in 0..h.info.len() { if h.failed.is_none() && h.info[t].is_doc && h.info[t].active { h.apply(Op::Delete { target: t as u64 }); } }
        h.tag("all-deleted");
    }
    if h.failed.is_none() { h.apply(Op::Commit); }
    // doctor works on a fresh handle: take the "before" state from a fresh handle as well
    if h.failed.is_none() && (via_doctor || r.chance(1, 4)) { h.apply(Op::Reopen); }
    let key_src = format!("{:?}{:?}{}", h.tags, h.tagset, index);
    if let Some(v) = h.failed.clone() {
        emit(w, "setup", &Case { input: T::N(index as u128), output: T::N(0), violation: Some(v), nontrivial: false, tags: h.tagset.clone(), key: blake3::hash(key_src.as_bytes()).to_hex()[..16].to_string() });
        return;
    }

    // ---------------- state before
    let (before, file_before) = snapshot(&mut h.d);
    let (embs, uris, tags) = (h.embs.clone(), h.uris.clone(), h.tags.clone());
    let q_before = battery(&mut h.d, &embs, &uris, &tags);
    // a third of the direct runs call vacuum() on a handle that has served no read yet (lazy indexes not loaded)
    if !via_doctor && r.chance(1, 3) { h.apply(Op::Reopen); h.tag("vacuum-on-fresh-handle"); if h.failed.is_some() { return; } }
    let (data_end, cpe, _) = memvid_core::verif_hooks::data_region(h.d.mem());
    let (footer, wal_off, wal_size, _, _) = memvid_core::verif_hooks::header_fields(h.d.mem());
    let pending = memvid_core::verif_hooks::wal_stats(h.d.mem()).2;
    let stats = h.d.mem().stats().ok();
    let (lex, vec_on) = (stats.as_ref().map_or(true, |s| s.has_lex_index), stats.as_ref().map_or(false, |s| s.has_vec_index) || !embs.is_empty());
    let start = wal_off + wal_size;
    let file_len_before = file_before.len() as u64;
    let region: Vec<u8> = file_before[(start as usize).min(file_before.len())..(footer as usize).clamp(start as usize, file_before.len())].to_vec();
    let active_bytes: u64 = before.iter().filter(|f| f.status == 0).map(|f| f.len).sum();
    let overflow = start + active_bytes > cpe; // the class of the fixed finding F-C42-1 (kept as a regression tag)
    let shared_before = { let live: Vec<(u64, u64)> = before.iter().filter(|f| f.status == 0 && f.len > 0).map(|f| (f.off, f.len)).collect(); let mut l2 = live.clone(); l2.sort(); l2.dedup(); l2.len() != live.len() };
    let n_active = before.iter().filter(|f| f.status == 0).count();
    let n_inactive = before.len() - n_active;
    let reclaimable = cpe.saturating_sub(start + active_bytes);

    // ---------------- the vacuum
    let mut viol: Option<String> = None; let mut size_note: Option<String> = None; let mut size_checked = false;
    let mut order_changed = false;
    // rebuild_vec_index (bit 4) is left out: on its own, without vacuum, it already empties the vector index (doctor's defect, not vacuum's)
    let bits: u8 = if via_doctor { 8 | (r.below(4) as u8) } else { 0 };
    let mode: u128 = if !via_doctor { 0 } else if bits & 7 != 0 { 2 } else { 1 };
    let mut data_end_after = 0u64; let mut cpe_after = 0u64; let mut pending_after = 0u64; let verify_direct;
    let mut mout: Option<(Vec<T>, Vec<u8>, Vec<u8>, u64)> = None;
    if !via_doctor {
        h.tag("direct");
        let obs = h.d.step(&Op::Vacuum);
        if !obs.ok { viol.get_or_insert("vacuum-failed: vacuum() returned an error on a healthy memory".into()); }
        data_end_after = memvid_core::verif_hooks::data_region(h.d.mem()).0;
        cpe_after = memvid_core::verif_hooks::data_region(h.d.mem()).1;
        pending_after = memvid_core::verif_hooks::wal_stats(h.d.mem()).2;
        let (a, a_file) = snapshot(&mut h.d);
        compare_tables(&before, &a, start, "right after vacuum()", overflow, &mut viol);
        let q = battery(&mut h.d, &embs, &uris, &tags);
        compare_batteries(&q_before, &q, "right after vacuum()", overflow, &mut viol, &mut order_changed);
        mout = Some(model_out(&a, &a_file, start, cpe));
        // half of the histories go on in the same session: a put + commit must not disturb anything
        if r.chance(1, 2) {
            h.tag("put-after-vacuum-same-session");
            let sz = r.range(10, 300) as usize; let fresh_ok = h.put(r, PayloadKind::Bin, sz, false, 1000);
            let c_ok = h.apply(Op::Commit);
            if !(fresh_ok && c_ok) { viol.get_or_insert("put-after-vacuum-failed: a put + commit right after vacuum() failed".into()); }
            let (a2, _) = snapshot(&mut h.d);
            if a2.len() == before.len() + 1 {
                let tagname = "content-changed-by-later-put";
                for (b, a) in before.iter().zip(a2.iter()) { if b.status == 0 && a.content != b.content { viol.get_or_insert(format!("{}: after vacuum() + put + commit in one session active frame {} content {:?}, before {:?}", tagname, b.id, a.content, b.content)); } }
                let nf = &a2[before.len()];
                if nf.content.is_err() { viol.get_or_insert(format!("{}: the frame put after vacuum() cannot be read: {:?}", tagname, nf.content)); }
                for b in a2.iter().take(before.len()).filter(|f| f.status == 0 && f.len > 0) { if nf.len > 0 && nf.off < b.off + b.len && b.off < nf.off + nf.len { viol.get_or_insert(format!("{}: the frame put after vacuum() at ({}, {}) overlaps frame {} at ({}, {})", tagname, nf.off, nf.len, b.id, b.off, b.len)); } }
            } else { viol.get_or_insert(format!("frame-count-changed: after vacuum() + put + commit the memory holds {} frames, expected {}", a2.len(), before.len() + 1)); }
            // the verify-after-direct-vacuum check needs the state vacuum() left: not available on this path
            verify_direct = None;
            let m = h.d.mem.take().unwrap(); drop(m);
        } else {
            let m = h.d.mem.take().unwrap(); drop(m);
            verify_direct = Some(verify_status(&h.d.path));
        }
        match Memvid::open(&h.d.path) { Ok(m) => h.d.mem = Some(m), Err(e) => { viol.get_or_insert(format!("{}: the memory cannot be opened after vacuum(): {}", "open-failed", e)); } }
    } else {
        h.tag("doctor"); h.tag(if bits & 7 != 0 { "doctor+index-rebuild" } else { "doctor-vacuum-only" });
        h.d.last_doctor = None;
        h.d.step(&Op::Doctor(bits));
        verify_direct = None;
        let st = h.d.last_doctor.clone().unwrap_or_default();
        if st == "panic" || st.starts_with("error") || st == "Failed" { viol.get_or_insert(format!("{}: doctor{{vacuum: true, bits {}}} on a healthy closed memory ended with {}", "doctor-failed", bits, st)); }
        if let Some(e) = h.d.open_error.clone() { viol.get_or_insert(format!("{}: the memory cannot be opened after doctor: {}", "open-failed", e)); }
    }

    // ---------------- state after (fresh handle)
    let mut verify_after = (true, String::new());
    let mut file_len_after = 0u64;
    if h.d.mem.is_some() {
        let (after, file_after) = snapshot(&mut h.d);
        file_len_after = file_after.len() as u64;
        let same_session_put = h.tagset.iter().any(|t| t == "put-after-vacuum-same-session");
        let cmp: Vec<FrameSnap> = after.iter().take(before.len()).cloned().collect();
        if !same_session_put || cmp.len() < before.len() { compare_tables(&before, &after, start, "after the vacuum and a reopen", overflow, &mut viol); }
        if !same_session_put {
            let q = battery(&mut h.d, &embs, &uris, &tags);
            compare_batteries(&q_before, &q, "after the vacuum and a reopen", overflow, &mut viol, &mut order_changed);
        }
        if mout.is_none() { mout = Some(model_out(&cmp, &file_after, start, cpe)); }
        let payload_end_after = mout.as_ref().unwrap().3;
        if payload_end_after > cpe && !shared_before { viol.get_or_insert(format!("payload-region-grew: the payloads end at {} after the vacuum, at {} before", payload_end_after, cpe)); }
        // file size: an observation only (the property speaks of content, not of file length)
        if !same_session_put { let t = if file_len_after > file_len_before { "file-grew" } else if file_len_after < file_len_before { "file-shrank" } else { "file-same-size" }; h.tag(t); size_note = Some(t.to_string()); }
        size_checked = !same_session_put;
        // a put + commit on the reopened memory must leave everything readable
        if !same_session_put && r.chance(1, 2) {
            h.tag("put-after-reopen");
            let sz = r.range(10, 300) as usize; let ok = h.put(r, PayloadKind::Bin, sz, false, 1001) && h.apply(Op::Commit);
            if !ok { viol.get_or_insert("put-after-vacuum-failed: a put + commit after vacuum and reopen failed".into()); }
            let (a2, _) = snapshot(&mut h.d);
            let tagname = "content-changed-by-later-put";
            for (b, a) in before.iter().zip(a2.iter()) { if b.status == 0 && a.content != b.content { viol.get_or_insert(format!("{}: after vacuum, reopen, put + commit active frame {} content {:?}, before {:?}", tagname, b.id, a.content, b.content)); } }
            if let Some(nf) = a2.get(before.len()) { if nf.content.is_err() { viol.get_or_insert(format!("{}: the frame put after the vacuum cannot be read: {:?}", tagname, nf.content)); } }
        }
        let m = h.d.mem.take().unwrap(); drop(m);
        verify_after = verify_status(&h.d.path);
        if !verify_after.0 { viol.get_or_insert(format!("{}: Memvid::verify(deep) after the vacuum and a reopen: Failed [{}]", "verify-failed", verify_after.1)); }
    }
    // verify on the file exactly as vacuum() left it (handle closed, nothing else done)
    let mut verify_out = mode != 0;
    if let Some((ok, why)) = &verify_direct {
        verify_out = *ok;
        if !*ok {
            viol.get_or_insert(format!("verify-failed: Memvid::verify(deep) on the file as vacuum() left it (handle closed, nothing else done): Failed [{}]", why));
        }
    } else if mode == 0 { verify_out = pending_after == 0; }
    if overflow { h.tag("regression:F-C42-1(copies-exceed-old-payload-end)"); }
    if shared_before { h.tag("shared-windows"); }
    if order_changed { h.tag("rank-order-changed"); }
    if n_inactive > 0 { h.tag("has-inactive"); }
    if before.iter().any(|f| f.status == 0 && f.len == 0) { h.tag("zero-length-active"); }
    if before.is_empty() { h.tag("empty-table"); }
    if reclaimable > 0 { h.tag("reclaims-bytes"); }
    h.tagset.sort();
    h.tagset.push(format!("profile{}", profile));

    let has_model = mout.is_some();
    let (out_rows, out_bytes, ix, _) = mout.unwrap_or((vec![], vec![], vec![], start));
    let input = T::Tup(vec![
        T::N(start as u128), T::L(before.iter().map(row_term).collect()), big(region),
        T::Tup(vec![T::N(data_end as u128), T::N(cpe as u128), T::N(footer as u128)]),
        T::Tup(vec![T::B(lex), T::B(vec_on), T::N(pending as u128)]), big(ix), T::N(mode)]);
    let output = T::C("Ok", vec![T::Tup(vec![T::L(out_rows), digest(&out_bytes), T::Tup(vec![T::N(if mode == 0 { data_end_after as u128 } else { 0 }), T::N(if mode == 0 { cpe_after as u128 } else { 0 })]), T::N(if mode == 0 { pending_after as u128 } else { 0 }), T::B(verify_out)])]);
    let key = blake3::hash(input.coq().as_bytes()).to_hex()[..16].to_string();
    let nontrivial = n_active > 0 && (reclaimable > 0 || h.shared || h.grew);
    let _ = verify_after;
    emit(w, if has_model { "vac" } else { "vac-nomodel" }, &Case { input, output, violation: viol, nontrivial, tags: h.tagset.clone(), key: key.clone() });
    if size_checked {
        emit(w, "size", &Case { input: T::Tup(vec![T::N(mode), T::N(file_len_before as u128)]), output: T::N(file_len_after as u128), violation: None, nontrivial: reclaimable > 0, tags: vec![format!("{}:{}", if via_doctor { "doctor" } else { "direct" }, size_note.unwrap_or_default())], key: format!("s{}", key) });
    }
}
