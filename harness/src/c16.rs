//! C16 search pagination on real memories.
//!
//! Per corpus (one Memvid, one commit): documents of which 1-80 contain "zebra" 1-4 times
//! (far apart = one snippet slice each, or close = merged), a few that do not, a few chunked
//! ones (chunk frames with a non-zero chunk start), timestamps equal or on 2-4 levels.
//! One request with top_k = 1000 gives the one-shot stream and, per matching frame, the
//! BM25 score, chunk range and chunk text.  From those the harness builds the oracles of the
//! Coq model (engine ranking, slice tables through verif_hooks::snippet_slices, f32 combined
//! scores).  Then, for every page size 1..=10 (plus 0 and a large one), it follows
//! next_cursor to the end (`walk` stream) and issues single requests with arbitrary and
//! malformed cursors (`page` stream).  The model must predict every page exactly -- also
//! when doc_limit or the per-document snippet cap binds.
//!
//! Property oracle (independent of the model): the concatenated pages must equal the
//! one-shot stream, no (frame, range) twice, total_hits equal on every page and equal to the
//! one-shot's, the walk must end without error.  A failure is tagged by a predicate on the
//! INPUT: more matching candidates than max(20, 4*max(top_k,1)) / some document whose
//! slices under cap top_k differ from its slices under cap 1000 / neither.
use crate::term::*;
use memvid_core::types::{AclEnforcementMode, SearchRequest, SearchResponse};
use memvid_core::{Memvid, PutOptions};
use std::collections::{BTreeMap, BTreeSet};

const TERM: &str = "zebra";
const WINDOW: usize = 80;
const TAB_CAPS: usize = 6;
const BASE_TS: i64 = 1_700_000_000;

fn req(query: &str, top_k: usize, cursor: Option<String>) -> SearchRequest {
    SearchRequest { query: query.into(), top_k, snippet_chars: WINDOW, uri: None, scope: None, cursor,
        as_of_frame: None, as_of_ts: None, no_sketch: true, acl_context: None, acl_enforcement_mode: AclEnforcementMode::Audit }
}

fn filler(r: &mut Rng, n: usize, dots: bool) -> String {
    let words = ["alpha", "bravo", "charlie", "delta", "echo", "foxtrot", "golf", "hotel", "india", "juliet"];
    let mut s = String::new();
    while s.len() < n {
        s.push_str(words[r.below(words.len() as u64) as usize]);
        if dots && r.chance(1, 7) { s.push('.'); }
        s.push(' ');
    }
    s
}

struct Doc { text: String, ts: i64, matching: bool }

/// occurrences: number of TERM occurrences; gaps between them are `far` (own slice) or near (merged)
fn gen_doc(r: &mut Rng, id: usize, occ: usize, dots: bool, chunked: bool) -> String {
    let mut text = format!("doc{} ", id);
    if chunked {
        // > 2400 chars: the document is split into chunk frames; TERM in several chunks
        let mut k = 0;
        let target = 3000 + (r.below(1500) as usize);
        while text.len() < target {
            let n = 150 + r.below(500) as usize;
            text.push_str(&filler(r, n, dots));
            if k < occ || r.chance(1, 3) { text.push_str(TERM); text.push(' '); k += 1; }
        }
        return text;
    }
    let lead = r.below(4);
    if lead > 0 { let n = 30 * lead as usize + r.below(100) as usize; text.push_str(&filler(r, n, dots)); }
    for j in 0..occ {
        text.push_str(TERM); text.push(' ');
        if j + 1 < occ {
            let gap = match r.below(6) { 0 => 5 + r.below(60) as usize, 1 => 90 + r.below(30) as usize, _ => 150 + r.below(120) as usize };
            text.push_str(&filler(r, gap, dots));
        }
    }
    let tail = r.below(160) as usize;
    text.push_str(&filler(r, tail, dots));
    text
}

struct Corpus { docs: Vec<Doc>, tags: Vec<String> }

fn gen_corpus(r: &mut Rng, idx: usize) -> Corpus {
    let mut tags = vec![];
    // number of matching documents: around the doc_limit floor (20) and the 4*(k+offset) steps
    let m = match idx % 8 {
        0 => r.range(1, 8), 1 => r.range(9, 19), 2 => 20, 3 => 21, 4 => r.range(22, 30), 5 => r.range(31, 45), 6 => r.range(46, 80), _ => r.range(1, 80),
    } as usize;
    let occ_mode = r.below(3);      // 0: one occurrence each; 1: 1-2; 2: 1-4
    let ts_mode = r.below(4);       // 0,1: all equal; 2: day levels; 3: hour levels
    let dots = r.chance(1, 3);
    let with_chunked = r.chance(1, 4);
    let non_matching = r.below(8) as usize;
    tags.push(format!("m{}", match m { 0..=19 => "lt20", 20 => "eq20", 21 => "eq21", 22..=40 => "22-40", _ => "41-80" }));
    tags.push(format!("occ{}", occ_mode)); tags.push(format!("ts{}", ts_mode.max(1)));
    if with_chunked { tags.push("chunked".into()); }
    let levels = 2 + r.below(3) as i64;
    let mut docs = vec![];
    let mut order: Vec<bool> = (0..m).map(|_| true).chain((0..non_matching).map(|_| false)).collect();
    for i in (1..order.len()).rev() { let j = r.below(i as u64 + 1) as usize; order.swap(i, j); }
    let mut nchunked = 0;
    for (i, &matching) in order.iter().enumerate() {
        let ts = match ts_mode { 0 | 1 => BASE_TS, 2 => BASE_TS + (r.below(levels as u64) as i64) * 86400, _ => BASE_TS + (r.below(levels as u64) as i64) * 3600 * (1 + r.below(5) as i64) };
        let text = if matching {
            let occ = match occ_mode { 0 => 1, 1 => 1 + r.below(2) as usize, _ => 1 + r.below(4) as usize };
            let chunked = with_chunked && nchunked < 2 && r.chance(1, 6);
            if chunked { nchunked += 1; }
            gen_doc(r, i, occ, dots, chunked)
        } else {
            let n = 40 + r.below(300) as usize;
            format!("doc{} {}", i, filler(r, n, dots))
        };
        docs.push(Doc { text, ts, matching });
    }
    Corpus { docs, tags }
}

#[derive(Clone)]
struct Cand { frame: u64, score_bits: u32, cstart: usize, clen: usize, tab: Vec<Vec<(usize, usize)>>, ts: i64 }

fn t_slices(v: &[(usize, usize)]) -> T { T::L(v.iter().map(|(a, b)| T::Tup(vec![T::N(*a as u128), T::N(*b as u128)])).collect()) }
fn t_cand(c: &Cand) -> T {
    T::C("mkCand", vec![T::N(c.frame as u128), T::B(true), T::N(c.score_bits as u128), T::N(c.cstart as u128), T::N(c.clen as u128),
                        T::L(c.tab.iter().map(|s| t_slices(s)).collect()), T::Z(c.ts as i128)])
}
fn t_hits(h: &[(u64, (usize, usize))]) -> T {
    T::L(h.iter().map(|(f, (a, b))| T::Tup(vec![T::N(*f as u128), T::Tup(vec![T::N(*a as u128), T::N(*b as u128)])])).collect())
}
fn t_optn(v: Option<u128>) -> T { match v { Some(x) => T::some(T::N(x)), None => T::none() } }

#[derive(Clone, Debug, PartialEq)]
struct PageObs { hits: Vec<(u64, (usize, usize))>, total: usize, next: Option<String> }
fn obs(resp: &SearchResponse) -> PageObs {
    PageObs { hits: resp.hits.iter().map(|h| (h.frame_id, h.range)).collect(), total: resp.total_hits, next: resp.next_cursor.clone() }
}
fn t_page(p: &PageObs) -> T {
    // a next_cursor that is not a plain number would be a mismatch by construction (printed as u64::MAX)
    let next = p.next.as_ref().map(|s| s.parse::<u64>().map(|x| x as u128).unwrap_or(u128::MAX));
    T::Tup(vec![t_hits(&p.hits), T::N(p.total as u128), t_optn(next)])
}

/// the code's formula, in f32 (tantivy.rs, recency boosting); returns the bit pattern
fn combined_bits(score: f32, age: i64) -> u32 {
    let bm25_score = score;
    let age_seconds = age.max(0) as f32;
    let decay_factor = 0.00000802;
    let recency_boost = (-decay_factor * age_seconds).exp();
    let combined_score: f32 = bm25_score * 0.4 + (bm25_score * recency_boost * 0.6);
    combined_score.to_bits()
}

fn err_kind(e: &memvid_core::MemvidError) -> u128 {
    match e {
        memvid_core::MemvidError::InvalidCursor { reason } => if reason.contains("not an integer") { 1 } else if reason.contains("beyond") { 2 } else { 7 },
        _ => 9,
    }
}

fn search_caught(mem: &mut Memvid, rq: SearchRequest) -> Result<Result<SearchResponse, memvid_core::MemvidError>, ()> {
    let prev = std::panic::take_hook();
    std::panic::set_hook(Box::new(|_| {}));
    let r = std::panic::catch_unwind(std::panic::AssertUnwindSafe(|| mem.search(rq)));
    std::panic::set_hook(prev);
    r.map_err(|_| ())
}

struct Built { mem: Memvid, _dir: tempfile::TempDir, cands: Vec<Cand>, one: PageObs, table: Vec<((u32, i64), u32)> }

fn build(c: &Corpus) -> Result<Built, String> {
    let dir = tempfile::tempdir().map_err(|e| e.to_string())?;
    let path = dir.path().join("m.mv2");
    let mut mem = Memvid::create(&path).map_err(|e| e.to_string())?;
    for d in &c.docs {
        let mut o = PutOptions::default();
        o.timestamp = Some(d.ts);
        o.auto_tag = false; o.extract_dates = false; o.extract_triplets = false; o.instant_index = false;
        mem.put_bytes_with_options(d.text.as_bytes(), o).map_err(|e| format!("put: {}", e))?;
    }
    mem.commit().map_err(|e| format!("commit: {}", e))?;
    let resp = mem.search(req(TERM, 1000, None)).map_err(|e| format!("one-shot: {}", e))?;
    let one = obs(&resp);
    // per frame, in order of first appearance
    let mut cands: Vec<Cand> = vec![];
    let mut seen: BTreeMap<u64, usize> = BTreeMap::new();
    let mut observed: BTreeMap<u64, Vec<(usize, usize)>> = BTreeMap::new();
    for h in &resp.hits {
        let (cs, ce) = h.chunk_range.ok_or("hit without chunk_range")?;
        let text = h.chunk_text.clone().ok_or("hit without chunk_text")?;
        observed.entry(h.frame_id).or_default().push((h.range.0 - cs, h.range.1 - cs));
        if seen.contains_key(&h.frame_id) { continue; }
        let _ = ce;
        let frame = mem.frame_by_id(h.frame_id).map_err(|e| e.to_string())?;
        if !frame.content_dates.is_empty() { return Err("content_dates present".into()); }
        let lower = frame.search_text.as_deref().map(str::to_ascii_lowercase).unwrap_or_else(|| text.to_ascii_lowercase());
        let mut occ = vec![]; let mut start = 0usize;
        while let Some(pos) = lower[start..].find(TERM) { let a = start + pos; occ.push((a, a + TERM.len())); start = a + TERM.len(); }
        let tab: Vec<Vec<(usize, usize)>> = (1..=TAB_CAPS).map(|cap| memvid_core::verif_hooks::snippet_slices(&text, &occ, WINDOW, cap)).collect();
        seen.insert(h.frame_id, cands.len());
        cands.push(Cand { frame: h.frame_id, score_bits: h.score.unwrap_or(0.0).to_bits(), cstart: cs, clen: text.len(), tab, ts: frame.timestamp });
    }
    // self-check of the oracles: the one-shot slices are the uncapped table entry
    for c in &cands {
        let full = c.tab.last().unwrap();
        if full.len() >= TAB_CAPS { return Err(format!("frame {} has {} slices: table too short", c.frame, full.len())); }
        if observed.get(&c.frame) != Some(full) { return Err(format!("frame {}: hook slices {:?} differ from the one-shot ranges {:?}", c.frame, full, observed.get(&c.frame))); }
    }
    // engine ranking: score descending, frame id ascending (Tantivy TopDocs tie rule: doc address)
    cands.sort_by(|a, b| f32::from_bits(b.score_bits).partial_cmp(&f32::from_bits(a.score_bits)).unwrap().then(a.frame.cmp(&b.frame)));
    let tss: BTreeSet<i64> = cands.iter().map(|c| c.ts).collect();
    let mut table = vec![]; let mut seen_k = BTreeSet::new();
    for c in &cands { for m in &tss { let age = (*m - c.ts).max(0); if seen_k.insert((c.score_bits, age)) { table.push(((c.score_bits, age), combined_bits(f32::from_bits(c.score_bits), age))); } } }
    Ok(Built { mem, _dir: dir, cands, one, table })
}

fn doc_limit0(k: usize) -> usize { (k.max(1)).saturating_mul(4).max(20) }

pub fn run(seed: u64, n: usize, tier: &str, w: &mut dyn std::io::Write) {
    let mut r = Rng::new(seed ^ 0xC16);
    let fuel = 400usize;
    for ci in 0..n {
        let corpus = gen_corpus(&mut r, ci);
        let mut b = match build(&corpus) {
            Ok(b) => b,
            Err(e) => {
                emit(w, "setup", &Case { input: T::N(ci as u128), output: T::N(0), violation: Some(format!("harness-selfcheck: corpus {}: {}", ci, e)), nontrivial: false, tags: vec!["setup-failed".into()], key: format!("setup{}", ci) });
                continue;
            }
        };
        let ncand = b.cands.len();
        let t_cands = T::L(b.cands.iter().map(t_cand).collect());
        let t_table = T::L(b.table.iter().map(|((s, a), v)| T::Tup(vec![T::Tup(vec![T::N(*s as u128), T::Z(*a as i128)]), T::N(*v as u128)])).collect());
        let ckey = blake3::hash(corpus.docs.iter().map(|d| format!("{}|{}|{};", d.text, d.ts, d.matching)).collect::<String>().as_bytes()).to_hex()[..12].to_string();
        let max_slices = b.cands.iter().map(|c| c.tab.last().unwrap().len()).max().unwrap_or(0);

        // ---------------------------------------------------------------- walks
        let mut ks: Vec<usize> = (1..=10).collect();
        ks.push(0);
        ks.push(*r.pick(&[11usize, 16, 25, 50, 999]));
        if tier == "quick" && ncand > 45 { ks.retain(|k| *k != 1 || ci % 2 == 0); }
        let mut first_totals: BTreeMap<usize, usize> = BTreeMap::new();
        for &k in &ks {
            let mut pages: Vec<PageObs> = vec![]; let mut cursor: Option<String> = None; let mut end = 0u128;
            loop {
                if pages.len() >= fuel { end = 3; break; }
                match search_caught(&mut b.mem, req(TERM, k, cursor.clone())) {
                    Err(()) => { end = 2; break; }
                    Ok(Err(e)) => { end = 10 + err_kind(&e); break; }
                    Ok(Ok(resp)) => {
                        let p = obs(&resp); let nx = p.next.clone(); pages.push(p);
                        match nx { None => break, Some(c) => cursor = Some(c) }
                    }
                }
            }
            if let Some(p) = pages.first() { first_totals.insert(k, p.total); }
            // property oracle
            let paged: Vec<(u64, (usize, usize))> = pages.iter().flat_map(|p| p.hits.iter().cloned()).collect();
            let mut problems = vec![];
            if end != 0 { problems.push(format!("walk ended with code {} after {} pages", end, pages.len())); }
            if paged != b.one.hits {
                let first = paged.iter().zip(b.one.hits.iter()).position(|(a, b)| a != b).unwrap_or(paged.len().min(b.one.hits.len()));
                problems.push(format!("paged sequence ({} hits) differs from the one-shot sequence ({} hits) at position {}", paged.len(), b.one.hits.len(), first));
            }
            let distinct: BTreeSet<_> = paged.iter().collect();
            if distinct.len() != paged.len() { problems.push(format!("{} hits repeated", paged.len() - distinct.len())); }
            let missing = b.one.hits.iter().filter(|h| !distinct.contains(h)).count();
            if missing > 0 { problems.push(format!("{} one-shot hits never returned", missing)); }
            let totals: BTreeSet<usize> = pages.iter().map(|p| p.total).collect();
            if totals.len() > 1 || totals.iter().any(|t| *t != b.one.total) { problems.push(format!("total_hits takes values {:?} across pages, one-shot says {}", totals, b.one.total)); }
            if pages.iter().any(|p| p.hits.len() > k.max(1)) { problems.push("a page holds more than top_k hits".into()); }
            let limit_binds = ncand > doc_limit0(k);
            let capk = k.max(1).min(TAB_CAPS);
            let cap_binds = b.cands.iter().any(|c| c.tab[capk - 1] != *c.tab.last().unwrap());
            let viol = if problems.is_empty() { None } else {
                let what = format!("{} matching frames, page size {}, up to {} slices per frame: {}", ncand, k, max_slices, problems.join("; "));
                Some(if limit_binds { format!("more-candidates-than-first-page-doc-limit: {} > doc_limit {}; {}", ncand, doc_limit0(k), what) }
                     else if cap_binds { format!("more-snippets-than-page-size: {}", what) }
                     else { format!("pagination-broken: {}", what) })
            };
            let mut tags = corpus.tags.clone();
            tags.push(format!("k{}", if k > 10 { "big".to_string() } else { k.to_string() }));
            tags.push(format!("pages{}", match pages.len() { 0 => "0", 1 => "1", 2..=5 => "2-5", 6..=20 => "6-20", _ => "21+" }));
            tags.push(if limit_binds { "limit-binds".into() } else { "limit-free".into() });
            tags.push(if cap_binds { "cap-binds".into() } else { "cap-free".into() });
            if !limit_binds && !cap_binds { tags.push("equality-regime".into()); }
            if viol.is_some() { tags.push("property-fails".into()); }
            let input = T::Tup(vec![t_cands.clone(), t_table.clone(), T::N(k as u128), T::Nat(fuel as u64)]);
            let output = T::Tup(vec![T::L(pages.iter().map(t_page).collect()), T::N(end)]);
            emit(w, "walk", &Case { input, output, violation: viol, nontrivial: pages.len() > 1, tags, key: format!("{}-k{}", ckey, k) });
        }

        // ---------------------------------------------------------------- single requests
        let one_total = b.one.total;
        let mut reqs: Vec<(usize, Option<String>, T, &'static str)> = vec![];
        let tint = |n: u128, padded: bool| T::some(T::C("TInt", vec![T::N(n), T::B(padded)]));
        for _ in 0..6 {
            let k = *r.pick(&[0usize, 1, 2, 3, 4, 5, 7, 10, 30]);
            let t1 = *first_totals.get(&k).unwrap_or(&one_total);
            let c = match r.below(6) { 0 => t1, 1 => t1 + 1, 2 => one_total, 3 => one_total + 1, _ => r.below(one_total as u64 + 2) as usize };
            reqs.push((k, Some(c.to_string()), tint(c as u128, false), "mid"));
        }
        let k = *r.pick(&[1usize, 2, 3, 5]);
        let c = r.below(one_total as u64 + 1) as usize;
        reqs.push((k, Some(format!(" {} ", c)), tint(c as u128, true), "padded"));
        reqs.push((k, Some(format!("+{}", c)), tint(c as u128, false), "plus"));
        reqs.push((k, Some(format!("00{}", c)), tint(c as u128, false), "zeros"));
        reqs.push((k, Some(String::new()), T::some(T::C("TBlank", vec![])), "blank"));
        reqs.push((k, Some("  \t".into()), T::some(T::C("TBlank", vec![])), "blank"));
        reqs.push((k, Some(r.pick(&["abc", "-1", "1.5", "0x10", "1 2", "18446744073709551616"]).to_string()), T::some(T::C("TBad", vec![])), "bad"));
        reqs.push((k, Some((one_total + 1000).to_string()), tint(one_total as u128 + 1000, false), "beyond"));
        reqs.push((k, Some("9999999999".into()), tint(9999999999, false), "beyond"));
        reqs.push((100_000, None, T::none(), "topk-large"));
        // top_k.max(1).saturating_add(offset_hint) (saturates since /repo 9b4da04; panicked in debug builds before):
        // the model says InvalidCursor / a normal page, never a panic
        reqs.push((k, Some(u64::MAX.to_string()), tint(u64::MAX as u128, false), "hint-saturates"));
        reqs.push((usize::MAX, Some("1".into()), tint(1, false), "hint-saturates"));
        reqs.push((usize::MAX, None, T::none(), "topk-max"));
        for (k, cursor, t_cursor, kind) in reqs {
            let got = search_caught(&mut b.mem, req(TERM, k, cursor.clone()));
            let output = match &got {
                Err(()) => T::C("Panic", vec![T::N(0)]),
                Ok(Err(e)) => T::C("Err", vec![T::N(err_kind(e))]),
                Ok(Ok(resp)) => T::C("Ok", vec![t_page(&obs(resp))]),
            };
            // oracle on a single page: at most top_k hits, all hits distinct, cursor discipline
            let mut viol = None;
            if let Ok(Ok(resp)) = &got {
                let p = obs(resp);
                if p.hits.len() > k.max(1) { viol = Some("pagination-broken: a page holds more than top_k hits".to_string()); }
                if let Some(nx) = &p.next { if nx.parse::<usize>().map(|x| x >= p.total).unwrap_or(true) { viol = Some(format!("pagination-broken: next_cursor {:?} with total_hits {}", nx, p.total)); } }
            }
            if got.is_err() { viol = Some(format!("search-panics: top_k {} cursor {:?}", k, cursor)); }
            let mut tags = corpus.tags.clone(); tags.push(kind.into());
            tags.push(match &got { Err(()) => "panic".into(), Ok(Err(e)) => format!("err{}", err_kind(e)), Ok(Ok(_)) => "ok".into() });
            let input = T::Tup(vec![t_cands.clone(), t_table.clone(), T::N(k as u128), t_cursor]);
            emit(w, "page", &Case { input, output, violation: viol, nontrivial: matches!(got, Ok(Ok(_))), tags, key: format!("{}-k{}-{:?}", ckey, k, cursor) });
        }
        // a query nothing matches: empty answer, no cursor
        if let Ok(Ok(resp)) = search_caught(&mut b.mem, req("quagga", 3, None)) {
            let input = T::Tup(vec![T::L(vec![]), T::L(vec![]), T::N(3), T::none()]);
            emit(w, "page", &Case { input, output: T::C("Ok", vec![t_page(&obs(&resp))]), violation: None, nontrivial: false, tags: vec!["nomatch".into()], key: format!("{}-nomatch", ckey) });
        }
    }
}
