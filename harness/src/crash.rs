//! Process-crash enumeration (C02/C03/C04): a child process runs a history on a memory file and is
//! killed by `strace -e inject=...:signal=SIGKILL:when=K` at its K-th mutating syscall (the
//! syscall is not executed); the parent then opens the survivor and compares it with the
//! states the history allows.
use crate::store::*;
use crate::term::*;
use std::io::Write;
use std::path::{Path, PathBuf};
use std::process::Command;

pub const SYSCALLS: &str = "write,pwrite64,pwritev,writev,ftruncate,fsync,fdatasync,rename,renameat,renameat2,linkat,link,unlink,unlinkat,copy_file_range,sendfile,fallocate";

/// compact history syntax for the child: ops separated by ',':
///   pb<size>  put binary   pt<size> put text   pc<size> put chunked text
///   u<id>     update without payload   U<id>:<size> update with binary payload
///   d<id>     delete       c commit   r reopen   v vacuum   g<size> put big binary (forces growth)
///   x         exit without commit (std::process::exit, no Drop)
pub fn parse_ops(spec: &str) -> Vec<Op> {
    spec.split(',').filter(|s| !s.is_empty()).enumerate().map(|(i, t)| {
        let (h, rest) = t.split_at(1);
        let num = |s: &str| s.parse::<usize>().unwrap_or(0);
        match h {
            "p" => { let (k, n) = rest.split_at(1); let kind = match k { "t" => PayloadKind::Text, "c" => PayloadKind::Chunked, _ => PayloadKind::Bin };
                     Op::Put { kind, size: num(n), uri: Some(i as u32 + 1), ts: 1_700_000_000 + i as i64, embed: None, default_opts: false } }
            "g" => Op::Put { kind: PayloadKind::Bin, size: num(rest), uri: None, ts: 1_700_000_000 + i as i64, embed: None, default_opts: false },
            "u" => Op::Update { target: num(rest) as u64, payload: None, uri: None },
            "U" => { let (a, b) = rest.split_once(':').unwrap_or((rest, "100")); Op::Update { target: num(a) as u64, payload: Some((PayloadKind::Bin, num(b))), uri: None } }
            "d" => Op::Delete { target: num(rest) as u64 },
            "c" => Op::Commit, "r" => Op::Reopen, "v" => Op::Vacuum,
            _ => Op::Commit,
        }
    }).collect()
}

/// child: create (if `fresh`) or open the memory at `path`, run ops, append "i\n" to the ack file
/// after each completed op, then exit WITHOUT running destructors.
pub fn child(args: &[String]) {
    let path = PathBuf::from(&args[0]);
    let ackfile = &args[1];
    let spec = &args[2];
    let fresh = args.get(3).map(|s| s == "fresh").unwrap_or(true);
    let mut ack = std::fs::OpenOptions::new().create(true).append(true).open(ackfile).expect("ack");
    let mut d = if fresh { Driver::at(&path, true) } else { Driver::at(&path, false) };
    let _ = writeln!(ack, "start"); // memory created/opened
    for (i, op) in parse_ops(spec).iter().enumerate() {
        let (size_b, pend_b, _, _) = memvid_core::verif_hooks::wal_stats(d.mem());
        let obs = d.step(op);
        let (size_a, pend_a) = if d.open_error.is_none() { let s = memvid_core::verif_hooks::wal_stats(d.mem()); (s.0, s.1) } else { (size_b, pend_b) };
        // flags: g = the log region grew, a = the call ended with nothing pending (automatic checkpoint), p = records were pending before
        let _ = writeln!(ack, "{} {} {}{}{}", i, if obs.ok { "ok" } else { "err" }, if size_a != size_b { "g" } else { "-" }, if pend_a == 0 { "a" } else { "-" }, if pend_b > 0 { "p" } else { "-" });
        if d.open_error.is_some() { break; }
    }
    let _ = writeln!(ack, "end");
    std::process::exit(0);
}

pub struct KillRun { pub k: usize, pub killed: bool, pub acked: Vec<(usize, bool)>, pub started: bool, pub ended: bool }

/// run the child under strace with the K-th mutating syscall replaced by SIGKILL (k = 0: no injection,
/// returns the number of matching syscalls observed)
pub fn run_child(dir: &Path, spec: &str, k: usize, fresh: bool, watch_all: bool) -> (KillRun, usize) {
    let exe = std::env::current_exe().expect("exe");
    let path = dir.join("m.mv2");
    let ackfile = dir.join("ack.txt");
    let _ = std::fs::remove_file(&ackfile);
    let mut cmd = Command::new("strace");
    cmd.arg("-f").arg("-qq").arg("-o").arg(dir.join("trace.txt"));
    cmd.arg("-e").arg(format!("trace={}", SYSCALLS));
    if k > 0 { cmd.arg("-e").arg(format!("inject={}:signal=SIGKILL:when={}", SYSCALLS, k)); }
    if !watch_all { cmd.arg("-P").arg(&path).arg("-P").arg(dir); }
    cmd.arg(exe).arg("CRASH-child").arg(&path).arg(&ackfile).arg(spec).arg(if fresh { "fresh" } else { "open" });
    cmd.env("RUST_BACKTRACE", "0").stdout(std::process::Stdio::null()).stderr(std::process::Stdio::null());
    let status = cmd.status().expect("strace");
    let acks = std::fs::read_to_string(&ackfile).unwrap_or_default();
    let mut acked = vec![]; let mut started = false; let mut ended = false;
    for l in acks.lines() {
        if l == "start" { started = true; } else if l == "end" { ended = true; }
        else if let Some((i, r)) = l.split_once(' ') { if let Ok(i) = i.parse() { acked.push((i, r.starts_with("ok"))); } }
    }
    let trace = std::fs::read_to_string(dir.join("trace.txt")).unwrap_or_default();
    // strace counts `when=K` per thread: enumerate the main thread's syscalls (the library does its file I/O there)
    let main_pid = trace.lines().next().and_then(|l| l.split_whitespace().next()).unwrap_or("").to_string();
    let nsys = trace.lines().filter(|l| l.split_whitespace().next() == Some(main_pid.as_str()) && !l.contains("resumed>") && !l.contains("+++") && !l.contains("---")).count();
    (KillRun { k, killed: !status.success(), acked, started, ended }, nsys)
}

pub fn dummy(_w: &mut dyn std::io::Write) { let _ = T::N(0); }

// ---------------------------------------------------------------- protocol traces (strace -y)
#[derive(Clone, Debug, PartialEq)]
pub enum FsOp { OpenTmp, CopyToTmp, WriteTmp, FsyncTmp, RenameTmp, FsyncDir, WriteMem, FsyncMem, WriteOld, Ack }

/// run the child (no injection) under `strace -y` and return the per-op protocol traces:
/// element 0 = create, element i+1 = op i
pub fn protocol_traces(dir: &Path, spec: &str) -> Vec<Vec<FsOp>> {
    let exe = std::env::current_exe().expect("exe");
    let path = dir.join("m.mv2"); let ackfile = dir.join("ack.txt");
    let _ = std::fs::remove_file(&ackfile); let _ = std::fs::remove_file(&path);
    let tr = dir.join("ytrace.txt");
    let mut cmd = Command::new("strace");
    cmd.arg("-f").arg("-y").arg("-qq").arg("-s").arg("0").arg("-o").arg(&tr)
       .arg("-e").arg(format!("trace={},openat", SYSCALLS))
       .arg(exe).arg("CRASH-child").arg(&path).arg(&ackfile).arg(spec).arg("fresh")
       .env("RUST_BACKTRACE", "0").stdout(std::process::Stdio::null()).stderr(std::process::Stdio::null());
    let _ = cmd.status();
    let text = std::fs::read_to_string(&tr).unwrap_or_default();
    let d = dir.to_string_lossy().to_string();
    let mem = format!("<{}/m.mv2>", d); let memdel = format!("<{}/m.mv2 (deleted)>", d);
    let tmp_prefix = format!("<{}/.m.mv2.", d); let dirp = format!("<{}>", d); let ackp = format!("<{}/ack.txt>", d);
    let mut ops: Vec<FsOp> = vec![];
    for line in text.lines() {
        let l = match line.split_once(' ') { Some((_pid, rest)) => rest.trim_start(), None => continue };
        if l.starts_with("<...") || l.starts_with("+++") || l.starts_with("---") { continue; }
        let name = l.split('(').next().unwrap_or("");
        let first_arg = l.split('(').nth(1).unwrap_or("").split(',').next().unwrap_or("");
        let on = |p: &str| first_arg.contains(p);
        match name {
            "openat" => { if l.contains("\".m.mv2.") && l.contains("O_CREAT") { ops.push(FsOp::OpenTmp); } }
            "write" | "pwrite64" | "writev" | "pwritev" | "ftruncate" | "fallocate" => {
                if on(&ackp) { if ops.last() != Some(&FsOp::Ack) { ops.push(FsOp::Ack); } }
                else if on(&tmp_prefix) { if !(name == "ftruncate" && ops.last() == Some(&FsOp::OpenTmp)) { ops.push(FsOp::WriteTmp); } }
                else if on(&memdel) { ops.push(FsOp::WriteOld); }
                else if on(&mem) { ops.push(FsOp::WriteMem); }
            }
            "copy_file_range" | "sendfile" => {
                if l.contains(&tmp_prefix) && !l.trim_end().ends_with("= 0") && ops.last() != Some(&FsOp::CopyToTmp) { ops.push(FsOp::CopyToTmp); }
            }
            "fsync" | "fdatasync" => {
                if on(&tmp_prefix) { ops.push(FsOp::FsyncTmp); } else if on(&mem) { ops.push(FsOp::FsyncMem); } else if on(&dirp) { ops.push(FsOp::FsyncDir); }
            }
            "rename" | "renameat" | "renameat2" => { if l.contains("\".m.mv2.") && l.contains("\"m.mv2\"") { ops.push(FsOp::RenameTmp); } }
            _ => {}
        }
    }
    // split at acks
    let mut out = vec![vec![]];
    for o in ops { if o == FsOp::Ack { out.push(vec![]); } else { out.last_mut().unwrap().push(o); } }
    out
}

pub fn fsop_term(o: &FsOp, i: usize) -> T {
    match o {
        FsOp::OpenTmp => T::C("OpenTmp", vec![]), FsOp::CopyToTmp => T::C("CopyToTmp", vec![]),
        FsOp::WriteTmp => T::C("WriteTmp", vec![T::C("W", vec![T::N(i as u128)])]), FsOp::FsyncTmp => T::C("FsyncTmp", vec![]),
        FsOp::RenameTmp => T::C("RenameTmp", vec![]), FsOp::FsyncDir => T::C("FsyncDir", vec![]),
        FsOp::WriteMem | FsOp::WriteOld => T::C("WriteMem", vec![T::C("W", vec![T::N(i as u128)])]), FsOp::FsyncMem => T::C("FsyncMem", vec![]),
        FsOp::Ack => T::C("FsyncMem", vec![]),
    }
}
