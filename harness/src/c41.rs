//! C41: background enrichment worker on a shared handle (Arc<Mutex<Memvid>>).
//!
//! stream "sched": the REAL `run_worker_loop` (src/enrichment_worker.rs) driven with the four
//!   closures of `start_enrichment_worker` (same bodies: next_enrichment_task /
//!   process_enrichment_task / complete_enrichment_task / commit under the mutex), each preceded by
//!   a gate, against a foreground thread whose calls pass the same gate: a generated token plan
//!   (W = worker's next critical section, F = foreground's next call) decides who runs, so the
//!   interleaving is chosen by the generator (including a foreground drain between the worker's
//!   get and complete, a commit between get and process, stop at every position of the loop).
//!   Every critical section logs, under the mutex, what it did and what it saw; the log is the
//!   schedule replayed through Model/Enrich.v (Corr/C41.v C41_run), compared step by step and at
//!   the end (frame table, enrichment state of every frame, frames_processed, errors, stopped).
//! stream "real": the REAL `start_enrichment_worker` thread (task_delay_ms = 0) running freely
//!   against a foreground thread with random yields/sleeps around its lock acquisitions; compared:
//!   final frame table against the C01 reference model applied to the acknowledged foreground
//!   calls (C41_real_run); everything else through the property oracle.
//! Property oracle (both streams, on the implementation only): an acknowledged document missing or
//!   with other content; a frame whose enrichment_state moved without being queued or moved back;
//!   a queued, committed, Active frame still Searchable after the queue drained (class
//!   enriched-before-commit iff its task is known/implied to have run before the commit that
//!   created the frame); a task processed more than once (class drain-overlaps-worker iff a
//!   foreground drain ran between the worker's get and complete of that task); frames_processed /
//!   errors inconsistent with the tasks; a second `get` after stop; the worker not stopping.
use crate::store::{frame_term, payload_bytes, uri_string, PayloadKind};
use crate::term::*;
use memvid_core::enrichment_worker::{run_worker_loop, EnrichmentWorkerHandle, TaskResult};
use memvid_core::types::{EnrichmentState, FrameRole, FrameStatus};
use memvid_core::verif_hooks::wal_stats;
use memvid_core::{start_enrichment_worker, EnrichmentWorkerConfig, Memvid, PutOptions, SearchRequest};
use std::collections::HashMap;
use std::sync::atomic::{AtomicBool, Ordering};
use std::sync::{Arc, Condvar, Mutex};
use std::time::{Duration, Instant};

fn opt_n(v: Option<u64>) -> T { match v { Some(x) => T::some(T::N(x as u128)), None => T::none() } }
fn ok(n: u64) -> T { T::C("Ok", vec![T::N(n as u128)]) }

// ------------------------------------------------------------------ foreground bookkeeping
#[derive(Clone, Debug)]
struct PutRec { id: u64, uri: u32, queued: bool, hash: [u8; 32], chunked: bool }

struct Fg { tags: HashMap<[u8; 32], u64>, next_tag: u64, uri_counter: u32, puts: Vec<PutRec>, step: i64,
            /// last enrichment state seen per frame id (true = Enriched)
            seen: HashMap<u64, bool>, viol: Vec<String> }

impl Fg {
    fn new() -> Self { Fg { tags: HashMap::new(), next_tag: 1000, uri_counter: 0, puts: vec![], step: 0, seen: HashMap::new(), viol: vec![] } }
    fn register(&mut self, bytes: &[u8], tag: u64) -> u64 { *self.tags.entry(*blake3::hash(bytes).as_bytes()).or_insert(tag) }
}

#[derive(Clone, Debug)]
enum FOp { Put { size: usize, instant: bool, embed: bool }, Update { payload: Option<usize> }, Delete, Commit, Search, Drain, Stop }

/// what one foreground call produced: Coq `fop` term (with the oracle inputs observed), result term, the C01 (sop, sout) pair if any
struct FRes { fop: T, res: T, sop: Option<(T, T)>, drained: u64 }

fn docs(m: &Memvid) -> Vec<u64> {
    (0..m.frame_count() as u64).filter(|i| m.frame_by_id(*i).map(|f| f.role == FrameRole::Document && f.status == FrameStatus::Active && f.chunk_manifest.is_none()).unwrap_or(false)).collect()
}

fn auto_term(m: &Memvid, wal_seq_before: u64, appended: u64) -> T {
    let (_, pending, _, seq_now) = wal_stats(m);
    let grew = seq_now - wal_seq_before;
    if (grew > 0 && pending == 0) || grew > appended { T::some(T::N(grew.saturating_sub(appended) as u128)) } else { T::none() }
}

fn sout(m: &Memvid, res: T) -> T { T::Tup(vec![res, T::N(m.frame_count() as u128), T::N(m.next_frame_id() as u128)]) }

/// runs one foreground call on the locked handle
fn do_fop(m: &mut Memvid, fg: &mut Fg, r: &mut Rng, op: &FOp, stop: &dyn Fn()) -> FRes {
    fg.step += 1;
    let wal_seq_before = wal_stats(m).3;
    let next_before = m.next_frame_id();
    match op {
        FOp::Put { size, instant, embed } => {
            let fresh = fg.next_tag; fg.next_tag += 1000;
            let kind = if *size >= 2400 { PayloadKind::Chunked } else { PayloadKind::Text };
            let bytes = payload_bytes(&kind, *size, fresh);
            let tag = fg.register(&bytes, fresh);
            if let Some((_, _, chunks)) = std::str::from_utf8(&bytes).ok().and_then(|t| memvid_core::verif_hooks::plan_text_chunks(t)) {
                let mut cat = Vec::new();
                for (i, c) in chunks.iter().enumerate() { fg.register(c.as_bytes(), tag + i as u64 + 1); cat.extend_from_slice(c.as_bytes()); }
                fg.register(&cat, tag);
            }
            fg.uri_counter += 1; let uk = fg.uri_counter;
            let mut o = PutOptions::default();
            o.timestamp = Some(1_700_000_000 + fg.step); o.uri = Some(uri_string(uk));
            o.auto_tag = false; o.extract_dates = false; o.extract_triplets = false;
            o.instant_index = *instant; o.enable_embedding = *embed;
            let qlen_before = m.enrichment_queue_len();
            let rr = m.put_bytes_with_options(&bytes, o);
            let (res, acked) = match rr { Ok(s) => (ok(s), true), Err(e) => { fg.viol.push(format!("op-failed: put failed: {}", e)); (T::C("Err", vec![T::N(9)]), false) } };
            let next_after = m.next_frame_id();
            let nchunks = if acked { next_after.saturating_sub(next_before + 1) } else { 0 };
            let queued = m.enrichment_queue_len() > qlen_before;
            if queued != (*instant && *embed) { fg.viol.push(format!("queue-push: put(instant_index={}, enable_embedding={}) queued={}", instant, embed, queued)); }
            if acked { fg.puts.push(PutRec { id: next_before, uri: uk, queued, hash: *blake3::hash(&bytes).as_bytes(), chunked: nchunks > 0 }); }
            let auto = auto_term(m, wal_seq_before, 1 + nchunks);
            let fop = T::C("FPut", vec![opt_n(Some(uk as u64)), T::N(tag as u128), T::N(nchunks as u128), auto.clone(), T::B(queued)]);
            let sop = T::C("OPut", vec![opt_n(Some(uk as u64)), T::N(tag as u128), T::N(nchunks as u128), T::N(0), auto]);
            FRes { fop, res: res.clone(), sop: Some((sop, sout(m, res))), drained: 0 }
        }
        FOp::Update { payload } => {
            let cands = docs(m);
            // mostly a committed Active document; sometimes an id that is not committed yet / out of range
            let target = if !cands.is_empty() && r.chance(5, 6) { cands[r.below(cands.len() as u64) as usize] } else { m.frame_count() as u64 + r.below(2) };
            let mut newtag = None; let mut bytes = None;
            if let Some(sz) = payload {
                let fresh = fg.next_tag; fg.next_tag += 1000;
                let b = payload_bytes(&PayloadKind::Bin, *sz, fresh); let tag = fg.register(&b, fresh); newtag = Some(tag); bytes = Some(b);
            }
            let mut o = PutOptions::default();
            o.auto_tag = false; o.extract_dates = false; o.extract_triplets = false; o.instant_index = false;
            let res = match m.update_frame(target, bytes, o, None) {
                Ok(s) => ok(s),
                Err(e) => { let s = e.to_string(); T::C("Err", vec![T::N(if s.contains("not active") { 2 } else { 1 })]) }
            };
            let auto = auto_term(m, wal_seq_before, 1);
            let fop = T::C("FUpdate", vec![T::N(target as u128), opt_n(newtag), T::none(), auto.clone()]);
            let sop = T::C("OUpdate", vec![T::N(target as u128), opt_n(newtag), T::none(), auto]);
            FRes { fop, res: res.clone(), sop: Some((sop, sout(m, res))), drained: 0 }
        }
        FOp::Delete => {
            let cands = docs(m);
            // prefer queued documents (so that a task meets a deleted frame)
            let q: Vec<u64> = cands.iter().cloned().filter(|c| fg.puts.iter().any(|p| p.id == *c && p.queued)).collect();
            let target = if !q.is_empty() && r.chance(2, 3) { q[r.below(q.len() as u64) as usize] } else if !cands.is_empty() && r.chance(5, 6) { cands[r.below(cands.len() as u64) as usize] } else { m.frame_count() as u64 + r.below(2) };
            let res = match m.delete_frame(target) {
                Ok(s) => ok(s),
                Err(e) => { let s = e.to_string(); T::C("Err", vec![T::N(if s.contains("not active") { 2 } else { 1 })]) }
            };
            let auto = auto_term(m, wal_seq_before, 1);
            let fop = T::C("FDelete", vec![T::N(target as u128), auto.clone()]);
            let sop = T::C("ODelete", vec![T::N(target as u128), auto]);
            FRes { fop, res: res.clone(), sop: Some((sop, sout(m, res))), drained: 0 }
        }
        FOp::Commit => {
            let res = match m.commit() { Ok(()) => ok(0), Err(e) => { fg.viol.push(format!("op-failed: commit failed: {}", e)); T::C("Err", vec![T::N(9)]) } };
            let extra = wal_stats(m).3 - wal_seq_before;
            let fop = T::C("FCommit", vec![T::N(extra as u128)]);
            let sop = T::C("OCommit", vec![T::N(extra as u128)]);
            FRes { fop, res: res.clone(), sop: Some((sop, sout(m, res))), drained: 0 }
        }
        FOp::Search => {
            let words = ["alpha", "bravo", "charlie", "delta", "echo", "doc1000", "golf"];
            let req = SearchRequest { query: words[r.below(words.len() as u64) as usize].into(), top_k: 5, snippet_chars: 80, uri: None, scope: None, cursor: None, as_of_frame: None, as_of_ts: None, no_sketch: false, acl_context: None, acl_enforcement_mode: Default::default() };
            let fc = m.frame_count(); let nf = m.next_frame_id(); let ql = m.enrichment_queue_len();
            let _ = m.search(req);
            if m.frame_count() != fc || m.next_frame_id() != nf || m.enrichment_queue_len() != ql { fg.viol.push("search-mutates: search changed frame_count / next_frame_id / queue length".into()); }
            FRes { fop: T::C("FSearch", vec![]), res: ok(0), sop: None, drained: 0 }
        }
        FOp::Drain => {
            let n = m.process_all_enrichment() as u64;
            FRes { fop: T::C("FDrain", vec![]), res: ok(n), sop: None, drained: n }
        }
        FOp::Stop => { stop(); FRes { fop: T::C("FStop", vec![]), res: ok(0), sop: None, drained: 0 } }
    }
}

fn obs(code: u64, res: T, m: &Memvid) -> T {
    T::Tup(vec![T::N(code as u128), res, T::N(m.enrichment_queue_len() as u128), opt_n(m.next_enrichment_task().map(|t| t.frame_id)), T::N(m.frame_count() as u128), T::N(m.next_frame_id() as u128)])
}
fn fcode(op: &FOp) -> u64 { match op { FOp::Put { .. } => 10, FOp::Update { .. } => 11, FOp::Delete => 12, FOp::Commit => 13, FOp::Search => 14, FOp::Drain => 15, FOp::Stop => 16 } }

/// state monitor: a frame never goes Enriched -> Searchable; an unqueued frame is Enriched whenever seen
fn monitor(m: &Memvid, fg: &mut Fg) {
    for id in 0..m.frame_count() as u64 {
        if let Ok(f) = m.frame_by_id(id) {
            let enr = f.enrichment_state == EnrichmentState::Enriched;
            let queued = fg.puts.iter().any(|p| p.id == id && p.queued);
            if !queued && !enr { fg.viol.push(format!("unqueued-frame-state: frame {} was never queued for enrichment but is Searchable", id)); }
            if let Some(prev) = fg.seen.get(&id) { if *prev && !enr { fg.viol.push(format!("state-moved-back: frame {} went from Enriched back to Searchable", id)); } }
            fg.seen.insert(id, enr);
        }
    }
}

/// acknowledged documents are all there with their content (after everything is committed)
fn lost_frames(m: &mut Memvid, fg: &Fg) -> Vec<String> {
    let mut out = vec![];
    for p in &fg.puts {
        match m.frame_by_id(p.id) {
            Ok(f) => {
                if f.uri.as_deref() != Some(uri_string(p.uri).as_str()) { out.push(format!("acknowledged-frame-lost: put with uri {} was acknowledged for frame {}, which now carries {:?}", p.uri, p.id, f.uri)); continue; }
                if f.status == FrameStatus::Active && !p.chunked {
                    match m.frame_canonical_payload(p.id) { Ok(b) => if *blake3::hash(&b).as_bytes() != p.hash { out.push(format!("acknowledged-frame-lost: frame {} no longer has the content that was put", p.id)); }, Err(e) => out.push(format!("acknowledged-frame-lost: frame {} unreadable: {}", p.id, e)) }
                }
            }
            Err(_) => out.push(format!("acknowledged-frame-lost: put with uri {} was acknowledged for frame {}, which does not exist", p.uri, p.id)),
        }
    }
    out
}

fn table(m: &mut Memvid, fg: &Fg) -> (Vec<T>, Vec<T>) {
    let mut rows = vec![]; let mut states = vec![];
    for id in 0..m.frame_count() as u64 {
        let f = m.frame_by_id(id).expect("frame_by_id");
        let payload = m.frame_canonical_payload(id).unwrap_or_default();
        let tag = fg.tags.get(blake3::hash(&payload).as_bytes()).cloned().unwrap_or(u64::MAX / 2);
        let tag = if f.status == FrameStatus::Active { tag } else { 0 };
        states.push(T::N(if f.enrichment_state == EnrichmentState::Enriched { 1 } else { 0 }));
        rows.push(frame_term(&f, tag));
    }
    (rows, states)
}

fn gen_fop(r: &mut Rng, allow_drain: bool) -> FOp {
    let c = r.below(100);
    if c < 40 { let size = match r.below(12) { 0 => r.range(2500, 4000) as usize, _ => r.range(20, 300) as usize };
                let (instant, embed) = match r.below(8) { 0 => (false, false), 1 => (true, false), 2 => (false, true), _ => (true, true) };
                FOp::Put { size, instant, embed } }
    else if c < 62 { FOp::Commit }
    else if c < 70 { FOp::Update { payload: if r.chance(1, 2) { Some(r.range(1, 300) as usize) } else { None } } }
    else if c < 80 { FOp::Delete }
    else if c < 90 { FOp::Search }
    else if allow_drain { FOp::Drain } else { FOp::Commit }
}

// ------------------------------------------------------------------ stream "sched"
struct Gate { st: Mutex<(usize, bool)>, cv: Condvar, plan: Vec<bool> /* true = W */ }
impl Gate {
    fn enter(&self, worker: bool) {
        let mut g = self.st.lock().unwrap();
        loop {
            if g.1 || g.0 >= self.plan.len() { g.1 = true; return; }
            if self.plan[g.0] == worker { return; }
            g = self.cv.wait_timeout(g, Duration::from_millis(200)).unwrap().0;
        }
    }
    fn leave(&self) { let mut g = self.st.lock().unwrap(); if !g.1 { g.0 += 1; } self.cv.notify_all(); }
    fn free(&self) { let mut g = self.st.lock().unwrap(); g.1 = true; self.cv.notify_all(); }
}

#[derive(Clone, Debug)]
enum Kind { Get(Option<u64>), Process { t: u64, err: bool, committed: bool, active: bool }, Complete(u64), Ckpt, F(FOp, u64) }
struct Ev { item: T, obs: T, kind: Kind }

pub struct Hist { input: T, output: T, viol: Option<String>, tags: Vec<String>, nontrivial: bool }

fn qput(size: usize) -> FOp { FOp::Put { size, instant: true, embed: true } }

/// fixed first cases of stream "sched" (the corpus), then generated ones:
///  0-2  the two finding witnesses and a commit landing between get and process
///  3    stop() BEFORE run_worker_loop is entered, two committed queued documents waiting, worker offered steps, a second stop
///  4    stop() before entry on an empty memory
///  5-11 stop between every pair of worker steps (k = 0..6 worker steps before the request over two loop iterations with
///       checkpoint_interval 1: before get, after get, after process, after complete, after checkpoint, after the 2nd get, after
///       the 2nd process), further queued puts + commit AFTER the request, then a second stop
const N_FIXED: usize = 12;

fn run_sched(r: &mut Rng, profile: usize) -> Hist {
    let dir = tempfile::tempdir().expect("tempdir");
    let mem = Memvid::create(dir.path().join("m.mv2")).expect("create");
    let mv = Arc::new(Mutex::new(mem));
    let mut iv: usize = match r.below(5) { 0 => 0, 1 => 1, 2 => 2, 3 => 3, _ => 100 };
    let mut pre = false;
    // ---- foreground ops and the token plan (true = W)
    let mut fops: Vec<FOp> = vec![]; let mut plan: Vec<bool> = vec![];
    let (f, w) = (false, true);
    match profile {
        0 => { fops = vec![qput(60), FOp::Commit, FOp::Stop]; plan = vec![f, w, w, w, f, w, f, w, w]; }
        1 => { fops = vec![qput(60), FOp::Commit, FOp::Drain, FOp::Stop]; plan = vec![f, f, w, f, w, w, w, f, w]; }
        2 => { fops = vec![qput(60), FOp::Commit, qput(80), FOp::Commit, FOp::Stop]; plan = vec![f, w, f, w, w, w, f, w, f, w, w, w, w, f, w, w]; }
        3 => { pre = true; iv = 1; fops = vec![qput(60), FOp::Commit, qput(80), FOp::Commit, FOp::Stop]; plan = vec![f, f, w, w, w, w, f, f, w, w, w, f, w, w]; }
        4 => { pre = true; fops = vec![FOp::Stop]; plan = vec![w, w, f, w]; }
        5..=11 => {
            let k = profile - 5; iv = 1;
            fops = vec![qput(60), qput(70), FOp::Commit, FOp::Stop, qput(80), FOp::Commit, FOp::Stop];
            plan = vec![f, f, f]; for _ in 0..k { plan.push(w); } plan.extend([f, w, w, f, f, w, w, w, f, w, w]);
        }
        _ => {
            let nf = r.range(5, 12) as usize;
            let allow_drain = r.chance(1, 3);
            pre = r.chance(1, 8);
            // half of the puts are followed at once by a commit (no worker step in between): their tasks cannot run early
            let mut glued: Vec<bool> = vec![];
            for i in 0..nf {
                let prev_put = matches!(fops.last(), Some(FOp::Put { .. }));
                if prev_put && r.chance(1, 2) { fops.push(FOp::Commit); glued.push(true); continue; }
                fops.push(if i == 0 { qput(50) } else { gen_fop(r, allow_drain) }); glued.push(false);
            }
            // stop at a random position of the history (the foreground carries on afterwards), always again at the end
            if r.chance(1, 2) { let at = r.range(1, fops.len() as u64) as usize; fops.insert(at, FOp::Stop); glued.insert(at, false); }
            fops.push(FOp::Stop); glued.push(false);
            let style = r.below(3);
            for (i, _) in fops.iter().enumerate() {
                let nw = if glued[i] { 0 } else { match style { 0 => r.below(3), 1 => r.below(6), _ => if r.chance(1, 3) { r.range(3, 9) } else { 0 } } };
                for _ in 0..nw { plan.push(w); }
                plan.push(f);
                if i + 1 == fops.len() { for _ in 0..r.below(6) { plan.push(w); } }
            }
        }
    }
    let n_stops = fops.iter().filter(|o| matches!(o, FOp::Stop)).count();
    let gate = Arc::new(Gate { st: Mutex::new((0, false)), cv: Condvar::new(), plan });
    let log: Arc<Mutex<Vec<Ev>>> = Arc::new(Mutex::new(vec![]));
    let handle = EnrichmentWorkerHandle::new();
    // the stop flag is input state of the loop: requested here, before run_worker_loop is entered
    if pre { handle.stop(); }
    let wh = handle.clone_handle();
    let cfg = EnrichmentWorkerConfig { embedding_batch_size: 32, checkpoint_interval: iv, task_delay_ms: 0, max_task_time_ms: 5000 };
    let worker_done = Arc::new(AtomicBool::new(false));
    let th = {
        let (mv1, mv2, mv3, mv4) = (Arc::clone(&mv), Arc::clone(&mv), Arc::clone(&mv), Arc::clone(&mv));
        let (g1, g2, g3, g4) = (Arc::clone(&gate), Arc::clone(&gate), Arc::clone(&gate), Arc::clone(&gate));
        let (l1, l2, l3, l4) = (Arc::clone(&log), Arc::clone(&log), Arc::clone(&log), Arc::clone(&log));
        let wd = Arc::clone(&worker_done); let gd = Arc::clone(&gate);
        std::thread::spawn(move || {
            run_worker_loop(&wh, &cfg,
                // get_next_task (as in start_enrichment_worker)
                || { g1.enter(true); let r = { let m = mv1.lock().ok()?; let t = m.next_enrichment_task();
                        l1.lock().unwrap().push(Ev { item: T::C("SW", vec![T::N(0)]), obs: obs(if t.is_some() { 1 } else { 0 }, ok(0), &m), kind: Kind::Get(t.as_ref().map(|t| t.frame_id)) }); t };
                     g1.leave(); r },
                // process_task
                |task| { g2.enter(true); let r = { let mut m = match mv2.lock() { Ok(m) => m, Err(_) => { g2.leave(); return TaskResult { frame_id: task.frame_id, re_extracted: false, embeddings_generated: 0, elapsed_ms: 0, error: Some("Failed to acquire lock".to_string()) }; } };
                        let committed = (task.frame_id as usize) < m.frame_count();
                        let active = m.frame_by_id(task.frame_id).map(|f| f.status == FrameStatus::Active).unwrap_or(false);
                        let res = m.process_enrichment_task(task);
                        let err = res.error.is_some();
                        l2.lock().unwrap().push(Ev { item: T::C("SW", vec![T::N(0)]), obs: obs(if err { 3 } else { 2 }, ok(0), &m), kind: Kind::Process { t: task.frame_id, err, committed, active } }); res };
                     g2.leave(); r },
                // mark_complete
                |frame_id| { g3.enter(true); if let Ok(mut m) = mv3.lock() { m.complete_enrichment_task(frame_id);
                        l3.lock().unwrap().push(Ev { item: T::C("SW", vec![T::N(0)]), obs: obs(4, ok(0), &m), kind: Kind::Complete(frame_id) }); }
                     g3.leave(); },
                // checkpoint
                || { g4.enter(true); if let Ok(mut m) = mv4.lock() { let before = wal_stats(&m).3; let _ = m.commit(); let extra = wal_stats(&m).3 - before;
                        l4.lock().unwrap().push(Ev { item: T::C("SW", vec![T::N(extra as u128)]), obs: obs(5, ok(0), &m), kind: Kind::Ckpt }); }
                     g4.leave(); });
            wd.store(true, Ordering::SeqCst); gd.free();
        })
    };
    // ---- foreground
    let mut fg = Fg::new();
    let wait_drain = n_stops == 1 && !pre && r.chance(1, 2);
    for op in &fops {
        if matches!(op, FOp::Stop) && wait_drain {
            // let the worker empty the queue before it is stopped (the plan's remaining W tokens may not suffice)
            gate.enter(false);
            let hs = handle.clone_handle();
            { let mut m = mv.lock().unwrap(); let fr = do_fop(&mut m, &mut fg, r, &FOp::Commit, &|| hs.stop());
              log.lock().unwrap().push(Ev { item: T::C("SF", vec![fr.fop]), obs: obs(13, fr.res, &m), kind: Kind::F(FOp::Commit, 0) }); }
            gate.free();
            let t0 = Instant::now();
            loop { { let m = mv.lock().unwrap(); if m.enrichment_queue_len() == 0 { break; } } if t0.elapsed() > Duration::from_secs(60) { fg.viol.push("queue-not-drained: the queue did not empty within 60 s of a silent foreground".into()); break; } std::thread::sleep(Duration::from_millis(2)); }
        }
        gate.enter(false);
        let hs = handle.clone_handle();
        { let mut m = mv.lock().unwrap();
          let fr = do_fop(&mut m, &mut fg, r, op, &|| hs.stop());
          monitor(&m, &mut fg);
          log.lock().unwrap().push(Ev { item: T::C("SF", vec![fr.fop]), obs: obs(fcode(op), fr.res, &m), kind: Kind::F(op.clone(), fr.drained) }); }
        gate.leave();
    }
    gate.free();
    // the loop must return by itself now.  Whether it does is decided below by COUNTING what it did after the request; the clock
    // only bounds how long we look (a worker that keeps working is seen working; one that is merely slow is tagged inconclusive)
    let t_stop = Instant::now(); let mut timed_out = false;
    while !worker_done.load(Ordering::SeqCst) {
        if t_stop.elapsed() > Duration::from_secs(if log.lock().unwrap().iter().filter(|e| !matches!(e.kind, Kind::F(..))).count() > 2000 { 0 } else { 45 }) { timed_out = true; break; }
        std::thread::sleep(Duration::from_millis(2));
    }
    let stats = handle.stats();
    let stopped = !handle.is_running() && worker_done.load(Ordering::SeqCst);
    let mut evs: Vec<Ev> = std::mem::take(&mut *log.lock().unwrap());
    if timed_out { // end the thread whatever it is doing (a second request), do not wait for ever
        handle.stop(); let t1 = Instant::now();
        while !worker_done.load(Ordering::SeqCst) && t1.elapsed() < Duration::from_secs(10) { handle.stop(); std::thread::sleep(Duration::from_millis(5)); }
    }
    if worker_done.load(Ordering::SeqCst) { let _ = th.join(); }
    // idle gets (queue empty: the model's step is the identity) are kept at most twice in a row: a worker spinning on an
    // empty queue while the foreground waits would otherwise log thousands of them
    { let mut run = 0usize; let mut kept = vec![]; for e in evs.drain(..) { if matches!(e.kind, Kind::Get(None)) { run += 1; if run > 2 { continue; } } else { run = 0; } kept.push(e); } evs = kept; }
    // ---- canonical schedule.  The stop test is lock-free and precedes the `get` it guards: a worker blocked in front of `get`
    // when stop() ran had already passed the test.  stop() touches nothing any critical section reads, so it commutes with
    // everything: the request(s) logged before that `get` are slid to just after it (their snapshot is the get's: neither changes
    // queue length / first task / frame_count / next_frame_id).  Only the FIRST worker event after the request can be such a get.
    if let Some(si) = evs.iter().position(|e| matches!(e.kind, Kind::F(FOp::Stop, _))) {
        if let Some(wi) = (si + 1..evs.len()).find(|i| !matches!(evs[*i].kind, Kind::F(..))) {
            if matches!(evs[wi].kind, Kind::Get(_)) {
                let snap: Vec<T> = if let T::Tup(v) = &evs[wi].obs { v[2..].to_vec() } else { vec![] };
                let stops: Vec<usize> = (si..wi).filter(|i| matches!(evs[*i].kind, Kind::F(FOp::Stop, _))).collect();
                let mut moved = vec![];
                for i in stops.iter().rev() { let mut e = evs.remove(*i); if let T::Tup(v) = &mut e.obs { v.truncate(2); v.extend(snap.clone()); } moved.push(e); }
                moved.reverse();
                let at = wi + 1 - moved.len();
                for (j, e) in moved.into_iter().enumerate() { evs.insert(at + j, e); }
            }
        }
    }
    // a checkpoint with fewer than `iv` completions since the last one is the final checkpoint (code 6); only legal after a stop
    { let mut since = 0usize; let mut stop_seen = pre; let mut fixes = vec![];
      for (i, e) in evs.iter().enumerate() { match &e.kind { Kind::F(FOp::Stop, _) => stop_seen = true, Kind::Complete(_) => since += 1, Kind::Ckpt => { if since < iv { if !stop_seen { fg.viol.push("early-checkpoint: checkpoint() ran before checkpoint_interval completions and before stop".into()); } fixes.push(i); } since = 0; } _ => {} } }
      for i in fixes { if let T::Tup(v) = &mut evs[i].obs { v[0] = T::N(6); } } }
    // ---- final observation
    let (rows, states) = { let mut m = mv.lock().unwrap(); monitor(&m, &mut fg); table(&mut m, &fg) };
    let final_t = T::Tup(vec![T::L(rows), T::L(states), T::N(stats.frames_processed as u128), T::N(stats.errors as u128), T::B(stopped)]);
    // ---- property oracle on the log
    let mut viol = fg.viol.clone();
    // (stop) counted in worker steps, not in seconds: after the request (canonical position; position 0 if it preceded loop entry)
    // the worker may finish the iteration in progress -- process (only if it was holding a task), complete, one checkpoint --
    // and nothing else: no get, no second process
    let mut stop_tag = "stop_none";
    { let stop_idx: Option<usize> = if pre { Some(0) } else { evs.iter().position(|e| matches!(e.kind, Kind::F(FOp::Stop, _))) };
      if let Some(si) = stop_idx {
          let mut holding_at_stop = false; let mut processed_held = false;
          for e in &evs[..si] { match &e.kind { Kind::Get(t) => { holding_at_stop = t.is_some(); processed_held = false; } Kind::Process { .. } => processed_held = true, Kind::Complete(_) => { holding_at_stop = false; } _ => {} } }
          let after: Vec<&Ev> = evs[si..].iter().filter(|e| !matches!(e.kind, Kind::F(..))).collect();
          let gets = after.iter().filter(|e| matches!(e.kind, Kind::Get(_))).count();
          let procs = after.iter().filter(|e| matches!(e.kind, Kind::Process { .. })).count();
          let ckpts = after.iter().filter(|e| matches!(e.kind, Kind::Ckpt)).count();
          let allowed_procs = if holding_at_stop && !processed_held { 1 } else { 0 };
          stop_tag = if pre { "stop_before_entry" } else if !holding_at_stop { "stop_at_loop_top" } else if !processed_held { "stop_after_get" } else { "stop_after_process" };
          if pre && !after.is_empty() { viol.push(format!("work-after-stop: stop() was requested before run_worker_loop was entered, yet the loop ran {} critical sections ({} gets, {} frames processed, {} checkpoints) instead of returning", after.len(), gets, procs, ckpts)); }
          else if gets > 0 || procs > allowed_procs || ckpts > 1 || after.len() > 3 { viol.push(format!("work-after-stop: after stop() the worker ran {} critical sections: {} gets, {} frames processed ({} allowed: it was {}holding a task), {} checkpoints", after.len(), gets, procs, allowed_procs, if holding_at_stop { "" } else { "not " }, ckpts)); }
          else if timed_out { stop_tag = "inconclusive_stop_timeout"; }
      } }
    let mut counts: HashMap<u64, u64> = HashMap::new(); let mut early: Vec<u64> = vec![]; let mut gone: Vec<u64> = vec![]; let mut found: Vec<u64> = vec![];
    let mut holding: Option<u64> = None; let mut overlapped: Vec<u64> = vec![]; let mut nproc_w = 0u64; let mut nerr_w = 0u64; let mut drained_any = false;
    for e in &evs { match &e.kind {
        Kind::Get(t) => holding = *t,
        Kind::Process { t, err, committed, active } => { *counts.entry(*t).or_insert(0) += 1; nproc_w += 1; if *err { nerr_w += 1; if !*committed { early.push(*t); } else if !*active { gone.push(*t); } else { viol.push(format!("process-error: task {} failed although its frame is committed and Active", t)); } } else { found.push(*t); } }
        Kind::Complete(_) => holding = None,
        Kind::F(FOp::Drain, n) => { if *n > 0 { drained_any = true; if let Some(t) = holding { overlapped.push(t); } } }
        _ => {} } }
    if !timed_out && (stats.frames_processed != nproc_w || stats.errors != nerr_w) { viol.push(format!("worker-counters: stats() reports {} processed / {} errors, the closures ran {} / {}", stats.frames_processed, stats.errors, nproc_w, nerr_w)); }
    { let mut m = mv.lock().unwrap();
      let qlen = m.enrichment_queue_len();
      for p in fg.puts.iter().filter(|p| p.queued) {
          let by_worker = counts.get(&p.id).cloned().unwrap_or(0);
          if by_worker > 1 { viol.push(format!("processed-twice: the worker processed task {} {} times", p.id, by_worker)); }
          if let Ok(f) = m.frame_by_id(p.id) {
              if qlen == 0 && f.status == FrameStatus::Active && f.enrichment_state != EnrichmentState::Enriched {
                  if early.contains(&p.id) { viol.push(format!("enriched-before-commit: frame {} was queued by its put, the worker ran its task before the put was committed (\"Frame not found\", task dropped); the queue is empty and the frame is committed, Active and still Searchable", p.id)); }
                  else if !drained_any { viol.push(format!("queued-frame-not-enriched: frame {} is committed, Active, queued, the queue is empty, no task ran early, yet it is Searchable", p.id)); }
              }
          }
      }
      // a drain between the worker's get and complete of task t: t is processed by both
      for t in &overlapped { if counts.get(t).cloned().unwrap_or(0) >= 1 { viol.push(format!("drain-overlaps-worker: process_all_enrichment ran between the worker's get and complete of task {}: process_enrichment_task ran on it twice (foreground and worker)", t)); } }
      if wal_stats(&m).1 == 0 { viol.extend(lost_frames(&mut m, &fg)); }
    }
    let known = ["enriched-before-commit", "drain-overlaps-worker"];
    let v = viol.iter().find(|v| !known.iter().any(|k| v.starts_with(k))).cloned().or_else(|| viol.first().cloned());
    let mut tags: Vec<String> = vec![format!("iv{}", iv), if profile < N_FIXED { format!("fixed{}", profile) } else { "generated".into() }, stop_tag.into()];
    if n_stops + (pre as usize) > 1 { tags.push("stop_twice".into()); }
    if fops.iter().position(|o| matches!(o, FOp::Stop)).map(|i| i + 1 < fops.len()).unwrap_or(false) || (pre && fops.len() > 1) { tags.push("foreground_continues_after_stop".into()); }
    if !early.is_empty() { tags.push("task_before_commit".into()); }
    if !gone.is_empty() { tags.push("task_on_deleted_frame".into()); }
    if !found.is_empty() { tags.push("task_enriched".into()); }
    if !overlapped.is_empty() { tags.push("drain_between_get_and_complete".into()); }
    if drained_any { tags.push("foreground_drain".into()); }
    if evs.iter().any(|e| matches!(e.kind, Kind::Ckpt)) { tags.push("worker_checkpoint".into()); }
    if wait_drain { tags.push("drained_before_stop".into()); }
    let nw = evs.iter().filter(|e| !matches!(e.kind, Kind::F(..))).count();
    // the trailing SW is the loop exit (stop seen with nothing to checkpoint, or already exited): no closure runs, so it is not
    // observed; the runner drops the model's observation of it (Corr/C41.v C41_run)
    let input = T::Tup(vec![T::N(iv as u128), T::B(pre), T::L(evs.iter().map(|e| e.item.clone()).chain(std::iter::once(T::C("SW", vec![T::N(0)]))).collect())]);
    let output = T::Tup(vec![T::L(evs.iter().map(|e| e.obs.clone()).collect()), final_t]);
    let queued_any = fg.puts.iter().any(|p| p.queued);
    Hist { input, output, viol: v, tags, nontrivial: (nproc_w > 0 && nw >= 3) || (pre && queued_any) }
}

// ------------------------------------------------------------------ stream "real"
/// variant 0: start_enrichment_worker followed IMMEDIATELY by stop() (the request races with loop entry: it may land before the
///            loop's first instruction), then queued puts + commits;  variant 1: drain, stop, more queued puts + commits, stop again;
/// others:    free-running history, drain, stop.
fn run_real(r: &mut Rng, variant: usize) -> Hist {
    let dir = tempfile::tempdir().expect("tempdir");
    let mem = Memvid::create(dir.path().join("m.mv2")).expect("create");
    let mv = Arc::new(Mutex::new(mem));
    let iv: usize = match r.below(4) { 0 => 1, 1 => 2, 2 => 3, _ => 100 };
    let cfg = EnrichmentWorkerConfig { embedding_batch_size: 32, checkpoint_interval: iv, task_delay_ms: 0, max_task_time_ms: 5000 };
    let h = start_enrichment_worker(Arc::clone(&mv), Some(cfg));
    // frames_processed when the (first) stop was requested
    let mut at_stop: Option<u64> = None;
    if variant == 0 { h.stop(); at_stop = Some(h.stats().frames_processed); }
    let mut fg = Fg::new();
    let mut hist: Vec<T> = vec![];
    let nf = r.range(5, 11) as usize;
    let mut i = 0;
    while i < nf {
        match r.below(4) { 0 => std::thread::yield_now(), 1 => std::thread::sleep(Duration::from_micros(r.range(50, 3000))), 2 => std::thread::sleep(Duration::from_millis(r.range(5, 40))), _ => {} }
        let mut m = mv.lock().unwrap();
        // one to three calls under one lock acquisition (put+commit in one section can never be enriched early)
        let group = 1 + r.below(3) as usize;
        for _ in 0..group {
            if i >= nf { break; }
            let op = if i == 0 || (variant == 0 && (i == 2 || i == 3)) { qput(50 + i) } else { gen_fop(r, false) };
            let fr = do_fop(&mut m, &mut fg, r, &op, &|| {});
            if let Some((sop, so)) = fr.sop { hist.push(T::Tup(vec![sop, so])); }
            monitor(&m, &mut fg);
            i += 1;
        }
    }
    { let mut m = mv.lock().unwrap(); let fr = do_fop(&mut m, &mut fg, r, &FOp::Commit, &|| {}); if let Some((sop, so)) = fr.sop { hist.push(T::Tup(vec![sop, so])); } }
    let mut drained = false;
    if variant != 0 {
        let t0 = Instant::now();
        loop { { let m = mv.lock().unwrap(); monitor(&m, &mut fg); if m.enrichment_queue_len() == 0 { drained = true; break; } } if t0.elapsed() > Duration::from_secs(60) { fg.viol.push("queue-not-drained: the queue did not empty within 60 s of a silent foreground".into()); break; } std::thread::sleep(Duration::from_millis(3)); }
        // the last complete / checkpoint may still be in flight: frames_processed is already final once the queue is empty
        h.stop(); at_stop = Some(h.stats().frames_processed);
    }
    let nq_at_stop = fg.puts.iter().filter(|p| p.queued).count() as u64;
    if variant == 1 {
        // the foreground carries on after the request: three more queued documents, each committed; then a second request
        for k in 0..3 { std::thread::sleep(Duration::from_millis(r.range(1, 20)));
            let mut m = mv.lock().unwrap();
            for op in [qput(40 + k), FOp::Commit] { let fr = do_fop(&mut m, &mut fg, r, &op, &|| {}); if let Some((sop, so)) = fr.sop { hist.push(T::Tup(vec![sop, so])); } monitor(&m, &mut fg); } }
        h.stop();
    }
    // wait for the thread to leave the loop.  What decides is the COUNT of frames processed after the request (the iteration in
    // progress may finish: at most one); the clock only bounds how long we look, and on its own makes the case 'inconclusive'
    let t1 = Instant::now(); let mut timed_out = false;
    let work_after = |h: &memvid_core::EnrichmentHandle| h.stats().frames_processed.saturating_sub(at_stop.unwrap_or(0));
    std::thread::sleep(Duration::from_millis(30));
    while h.is_running() { if work_after(&h) > 1 || t1.elapsed() > Duration::from_secs(45) { timed_out = true; break; } std::thread::sleep(Duration::from_millis(2)); }
    let stop_ms = t1.elapsed().as_millis();
    let after = work_after(&h);
    let stats = if timed_out { let st = h.stats(); h.stop(); std::thread::sleep(Duration::from_millis(200)); if !h.is_running() { let _ = h.stop_and_wait(); } st } else { h.stop_and_wait() };
    let (rows, nq, unenriched_active, unenriched_gone, lost) = {
        let mut m = mv.lock().unwrap();
        let fr = do_fop(&mut m, &mut fg, r, &FOp::Commit, &|| {}); if let Some((sop, so)) = fr.sop { hist.push(T::Tup(vec![sop, so])); }
        monitor(&m, &mut fg);
        let lost = lost_frames(&mut m, &fg);
        let (rows, _) = table(&mut m, &fg);
        let mut ua = vec![]; let mut ug = vec![];
        for p in fg.puts.iter().filter(|p| p.queued).take(nq_at_stop as usize) { if let Ok(f) = m.frame_by_id(p.id) { if f.enrichment_state != EnrichmentState::Enriched { if f.status == FrameStatus::Active { ua.push(p.id); } else { ug.push(p.id); } } } }
        (rows, nq_at_stop, ua, ug, lost)
    };
    let mut viol = fg.viol.clone(); viol.extend(lost);
    let mut stop_tag = match variant { 0 => "stop_right_after_start", 1 => "stop_twice", _ => "stop_after_drain" }.to_string();
    if after > 1 { viol.push(format!("work-after-stop: the worker processed {} frames after stop() was requested (at most the one in progress may finish){}", after, if variant == 0 { "; the request was made right after start_enrichment_worker returned" } else { "" })); }
    else if timed_out { stop_tag = "inconclusive_stop_timeout".into(); }
    if drained && !timed_out {
        // exactly once (no foreground drain in this stream): one process call per queued put
        if stats.frames_processed != nq { viol.push(format!("processed-count: {} puts were queued, the worker processed {} tasks", nq, stats.frames_processed)); }
        // every error is a task whose frame was not there / not Active; those are exactly the un-enriched queued frames
        let (a, g) = (unenriched_active.len() as u64, unenriched_gone.len() as u64);
        if !(a <= stats.errors && stats.errors <= a + g) && stats.frames_processed == nq { viol.push(format!("error-count: {} errors, but {} Active and {} inactive queued frames are not Enriched", stats.errors, a, g)); }
        if a > 0 {
            if a <= stats.errors && stats.errors <= a + g && stats.frames_processed == nq {
                viol.push(format!("enriched-before-commit: frames {:?} were queued by their puts and are committed, Active and still Searchable with the queue empty; the worker processed every task exactly once and reported {} \"not found\" errors: their tasks ran before the commit and were dropped", unenriched_active, stats.errors));
            } else { viol.push(format!("queued-frame-not-enriched: frames {:?} are committed, Active, queued and Searchable with the queue empty ({} processed, {} errors, {} queued)", unenriched_active, stats.frames_processed, stats.errors, nq)); }
        }
    }
    let (a, g) = (unenriched_active.len() as u64, unenriched_gone.len() as u64);
    let known = ["enriched-before-commit", "drain-overlaps-worker"];
    let v = viol.iter().find(|v| !known.iter().any(|k| v.starts_with(k))).cloned().or_else(|| viol.first().cloned());
    let mut tags = vec![format!("iv{}", iv), stop_tag, format!("stop_ms_{}", if stop_ms < 100 { "lt100" } else if stop_ms < 1000 { "lt1000" } else { "ge1000" })];
    if drained && a > 0 { tags.push("task_before_commit".into()); }
    if drained && g > 0 { tags.push("task_on_deleted_frame".into()); }
    if stats.frames_processed > stats.errors { tags.push("task_enriched".into()); }
    if variant == 0 { tags.push(if stats.frames_processed == 0 { "immediate_stop_nothing_processed".into() } else { "immediate_stop_one_in_flight".into() }); }
    Hist { input: T::L(hist), output: T::L(rows), viol: v, tags, nontrivial: stats.frames_processed > 0 || variant == 0 }
}

pub fn run(seed: u64, n: usize, _tier: &str, w: &mut dyn std::io::Write) {
    let mut master = Rng::new(seed ^ 0xC41);
    let n_sched = (n * 3 + 3) / 4; let n_real = n - n_sched.min(n);
    let mut jobs: Vec<(bool, usize, u64)> = vec![];
    for i in 0..n_sched { jobs.push((true, i, master.next())); }
    for i in 0..n_real { jobs.push((false, i, master.next())); }
    let results: Vec<Mutex<Option<Hist>>> = jobs.iter().map(|_| Mutex::new(None)).collect();
    let next = std::sync::atomic::AtomicUsize::new(0);
    let workers = std::env::var("C41_THREADS").ok().and_then(|v| v.parse().ok()).unwrap_or(4usize).max(1);
    std::thread::scope(|sc| {
        for _ in 0..workers.min(jobs.len().max(1)) {
            sc.spawn(|| loop {
                let k = next.fetch_add(1, Ordering::SeqCst);
                if k >= jobs.len() { break; }
                let (sched, i, s) = jobs[k];
                let mut r = Rng(s);
                let h = if sched { run_sched(&mut r, i) } else { run_real(&mut r, i) };
                *results[k].lock().unwrap() = Some(h);
            });
        }
    });
    for (k, cell) in results.into_iter().enumerate() {
        let h = cell.into_inner().unwrap().expect("history");
        let key = blake3::hash(h.input.coq().as_bytes()).to_hex()[..16].to_string();
        // a history whose observation window was closed by the wall clock (machine load) before the
        // worker finished has a truncated event list: the property oracle still applies to what was
        // seen, but the recorded schedule is not the whole schedule, so it is not run through the model
        let truncated = h.tags.iter().any(|t| t == "inconclusive_stop_timeout");
        let stream = match (jobs[k].0, truncated) { (true, false) => "sched", (false, false) => "real", (true, true) => "sched_truncated", (false, true) => "real_truncated" };
        emit(w, stream, &Case { input: h.input, output: h.output, violation: h.viol, nontrivial: h.nontrivial, tags: h.tags, key });
    }
}
