//! C08: deleted and superseded frames disappear from every read path.
//! Histories on a real Memvid (embedded and plain puts, chunked documents, updates with and
//! without payload / options / embedding, deletes, commits, reopen, crash+replay), then EVERY
//! read API; compared with the model of the index sets (Model/Reads.v) and checked against the
//! harness's own reference table ("some read API returned an id that is not live").
use crate::store::{frame_term, uri_string, Driver};
use crate::term::*;
use memvid_core::types::{AskMode, AskRequest, DocMetadata, Frame, FrameRole, FrameStatus, SearchRequest, TimelineQuery};
use memvid_core::{AdaptiveConfig, PutOptions, VecEmbedder};
use std::collections::{BTreeMap, BTreeSet};
use std::num::NonZeroU64;

const COMMON: &str = "zzcommon";
const DIM: usize = 4;

/// purely alphabetic word unique to content number k (letters the stemmer leaves alone)
fn uw(k: u64) -> String {
    let al = b"bcfhjkmpqvwxz";
    let mut s = String::from("zq");
    let mut v = k;
    for _ in 0..5 { s.push(al[(v % 13) as usize] as char); v /= 13; }
    s
}

fn emb_of(k: u64) -> Vec<f32> {
    // distinct, well separated, exactly representable
    vec![(k % 7) as f32, ((k / 7) % 7) as f32, ((k / 49) % 7) as f32, 1.0 + (k % 3) as f32]
}

#[derive(Clone, Debug)]
enum Payload { Bin(usize), Text(usize), Chunked(usize) }

fn payload_bytes(p: &Payload, k: u64) -> Vec<u8> {
    let mut r = Rng::new(k.wrapping_mul(7919) ^ 0xC08);
    let words = ["alpha", "bravo", "charlie", "delta", "echo", "foxtrot", "golf", "hotel", "india", "juliet", "kilo", "lima"];
    match p {
        Payload::Bin(n) => { let mut v = vec![0xFFu8, 0xFE]; while v.len() < (*n).max(2) { v.push(r.next() as u8); } v }
        Payload::Text(n) | Payload::Chunked(n) => {
            let mut s = String::new();
            while s.len() < *n {
                s.push_str(&uw(k)); s.push(' '); s.push_str(COMMON);
                for _ in 0..r.range(3, 7) { s.push(' '); s.push_str(words[r.below(words.len() as u64) as usize]); }
                s.push_str(". ");
                if r.chance(1, 6) { s.push('\n'); }
            }
            s.into_bytes()
        }
    }
}

/// the ten option fields an update may set (None / empty = leave unset)
#[derive(Clone, Debug, Default)]
struct Fields { ts: Option<i64>, track: Option<u64>, kind: Option<u64>, uri: Option<u32>, title: Option<u64>, meta: Option<u64>, stext: Option<u64>, tags: Vec<u64>, labels: Vec<u64>, extra: Vec<u64> }

fn put_options(f: &Fields, instant: bool, default_opts: bool) -> PutOptions {
    let mut o = PutOptions::default();
    o.timestamp = f.ts;
    o.track = f.track.map(|k| format!("trk{}", k));
    o.kind = f.kind.map(|k| format!("knd{}", k));
    o.uri = f.uri.map(uri_string);
    o.title = f.title.map(|k| format!("ttl{}", k));
    o.metadata = f.meta.map(|k| { let mut m = DocMetadata::default(); m.caption = Some(format!("cap{}", k)); m });
    o.search_text = f.stext.map(|k| format!("stx{} {} {}", k, COMMON, uw(900_000 + k)));
    o.tags = f.tags.iter().map(|k| format!("tag{}", k)).collect();
    o.labels = f.labels.iter().map(|k| format!("lbl{}", k)).collect();
    o.extra_metadata = f.extra.iter().map(|k| (format!("xk{}", k), format!("xv{}", k))).collect();
    if !default_opts { o.auto_tag = false; o.extract_dates = false; o.extract_triplets = false; }
    o.instant_index = instant;
    o
}

fn enc_str(prefix: &str, s: &str) -> u64 {
    if let Some(r) = s.strip_prefix(prefix) { if let Ok(k) = r.parse::<u64>() { return k; } }
    1_000_000_000 + u32::from_le_bytes(blake3::hash(s.as_bytes()).as_bytes()[..4].try_into().unwrap()) as u64
}
fn stx_of(s: &Option<String>) -> Option<u64> {
    match s {
        None => None,
        Some(t) => { for w in t.split_whitespace() { if let Some(r) = w.strip_prefix("stx") { if let Ok(k) = r.parse::<u64>() { return Some(k); } } } Some(0) }
    }
}
fn opt_n(v: Option<u64>) -> T { match v { Some(x) => T::some(T::N(x as u128)), None => T::none() } }
fn list_n(v: &[u64]) -> T { T::L(v.iter().map(|x| T::N(*x as u128)).collect()) }

/// observed fields of a frame, encoded as the model's `fields` record (uri apart: it lives in the frame)
fn fields_term_of_frame(f: &Frame) -> T {
    T::C("mkFields", vec![
        T::some(T::N(f.timestamp as u128)),
        opt_n(f.track.as_ref().map(|s| enc_str("trk", s))),
        opt_n(f.kind.as_ref().map(|s| enc_str("knd", s))),
        T::none(),
        opt_n(f.title.as_ref().map(|s| enc_str("ttl", s))),
        opt_n(f.metadata.as_ref().map(|m| match &m.caption { Some(c) => enc_str("cap", c), None => 2_000_000_000 })),
        opt_n(stx_of(&f.search_text)),
        list_n(&f.tags.iter().map(|s| enc_str("tag", s)).collect::<Vec<_>>()),
        list_n(&f.labels.iter().map(|s| enc_str("lbl", s)).collect::<Vec<_>>()),
        list_n(&f.extra_metadata.keys().map(|s| enc_str("xk", s)).collect::<Vec<_>>()),
    ])
}
fn fields_term_of_opts(f: &Fields) -> T {
    T::C("mkFields", vec![opt_n(f.ts.map(|t| t as u64)), opt_n(f.track), opt_n(f.kind), opt_n(f.uri.map(|u| u as u64)), opt_n(f.title), opt_n(f.meta), opt_n(f.stext), list_n(&f.tags), list_n(&f.labels), list_n(&f.extra)])
}
fn empty_fields_term() -> T { T::C("mkFields", vec![T::none(), T::none(), T::none(), T::none(), T::none(), T::none(), T::none(), T::L(vec![]), T::L(vec![]), T::L(vec![])]) }

#[derive(Clone, Debug)]
enum Op {
    Put { payload: Payload, fields: Fields, embed: bool, instant: bool, default_opts: bool },
    Update { target: u64, payload: Option<usize>, fields: Fields, embed: bool, instant: bool },
    Delete { target: u64 },
    Commit, Reopen, Crash,
}

/// the harness's own reference table (acknowledged calls only; intended semantics)
#[derive(Clone, Debug)]
struct RefFrame { status: u8, role: u8, parent: Option<u64>, chunked: bool, uri: String, superseded_by: Option<u64>, supersedes: Option<u64>, word: Option<u64>, emb: Option<u64> }

struct StubEmbedder(Vec<f32>);
impl VecEmbedder for StubEmbedder {
    fn embed_query(&self, _t: &str) -> memvid_core::Result<Vec<f32>> { Ok(self.0.clone()) }
    fn embedding_dimension(&self) -> usize { DIM }
}

fn auto_oracle(d: &mut Driver, wal_seq_before: u64, appended: u64) -> T {
    let (_, pending, _, seq_now) = memvid_core::verif_hooks::wal_stats(d.mem());
    let grew = seq_now - wal_seq_before;
    if grew > 0 && pending == 0 { T::some(T::N((grew.saturating_sub(appended)) as u128)) }
    else if grew > appended { T::some(T::N((grew - appended) as u128)) }
    else { T::none() }
}

struct ReadStats { hits: usize, apis: BTreeSet<&'static str>, orphan: Option<String> }

/// is `id` allowed to be served, given the table `tab` (statuses as of the last commit)?
fn classify(tab: &[RefFrame], id: u64) -> Option<String> {
    let Some(f) = tab.get(id as usize) else { return None }; // ids not in the committed table are C10's business
    if f.status != 0 { return Some(format!("inactive-served: frame {} (status {}) was returned", id, f.status)); }
    if f.role == 1 { if let Some(p) = f.parent { if let Some(pf) = tab.get(p as usize) { if pf.status != 0 {
        return Some(format!("orphan-chunk-served: chunk frame {} of document {} (status {}: {}) was returned", id, p, pf.status, if pf.status == 2 { "deleted" } else { "superseded" }));
    } } } }
    None
}

fn note(viol: &mut Option<String>, api: &str, at: &str, tab: &[RefFrame], ids: &[u64], st: &mut ReadStats, apiname: &'static str) {
    st.hits += ids.len(); if !ids.is_empty() { st.apis.insert(apiname); }
    for id in ids {
        if let Some(c) = classify(tab, *id) {
            let (tag, rest) = c.split_once(": ").unwrap();
            let msg = format!("{}: {} by {} {}", tag, rest, api, at);
            // the known class is kept apart so that it never hides a different violation of the same history
            if tag == "orphan-chunk-served" { st.orphan.get_or_insert(msg); } else { viol.get_or_insert(msg); }
        }
    }
}

fn sreq(q: &str, top_k: usize, no_sketch: bool) -> SearchRequest {
    SearchRequest { query: q.to_string(), top_k, snippet_chars: 80, uri: None, scope: None, cursor: None, as_of_frame: None, as_of_ts: None, no_sketch, acl_context: None, acl_enforcement_mode: Default::default() }
}
fn areq(q: &str, mode: AskMode, adaptive: Option<AdaptiveConfig>) -> AskRequest {
    AskRequest { question: q.to_string(), top_k: 8, snippet_chars: 80, uri: None, scope: None, cursor: None, start: None, end: None, context_only: true, mode, as_of_frame: None, as_of_ts: None, adaptive, acl_context: None, acl_enforcement_mode: Default::default() }
}

/// every read API; returns the observation term (index sets + uri lookups) for the model
fn read_all(d: &mut Driver, tab: &[RefFrame], uris: &BTreeSet<u32>, at: &str, viol: &mut Option<String>, st: &mut ReadStats, r: &mut Rng, quiescent: bool) -> T {
    let dbg = std::env::var("MV_DEBUG").is_ok();
    // ---- timeline, both directions, with child frames
    let mut tix: Vec<u64> = vec![];
    for rev in [false, true] {
        let mut q = TimelineQuery::builder().limit(NonZeroU64::new(100_000).unwrap());
        if rev { q = q.reverse(true); }
        match d.mem().timeline(q.build()) {
            Ok(es) => {
                let ids: Vec<u64> = es.iter().map(|e| e.frame_id).collect();
                let kids: Vec<u64> = es.iter().flat_map(|e| e.child_frames.clone()).collect();
                note(viol, "timeline", at, tab, &ids, st, "timeline");
                note(viol, "timeline child_frames", at, tab, &kids, st, "timeline");
                if !rev { tix = ids; }
            }
            Err(e) => { viol.get_or_insert(format!("read-failed: timeline {} failed: {}", at, e)); }
        }
    }
    tix.sort(); tix.dedup();
    // ---- vector searches at the frames' own embeddings
    let mut vecs: Vec<u64> = vec![];
    let embs: BTreeSet<u64> = tab.iter().filter_map(|f| f.emb).collect();
    let mut some_emb: Option<Vec<f32>> = None;
    let pick: Vec<u64> = { let v: Vec<u64> = embs.iter().cloned().collect(); let mut p: Vec<u64> = tab.iter().filter(|f| f.status != 0).filter_map(|f| f.emb).collect(); for _ in 0..3 { if !v.is_empty() { p.push(v[r.below(v.len() as u64) as usize]); } } p.sort(); p.dedup(); p.truncate(6); p };
    for (qi, k) in pick.iter().enumerate() {
        let q = emb_of(*k); some_emb = Some(q.clone());
        match d.mem().search_vec(&q, 100_000) {
            Ok(hs) => { let ids: Vec<u64> = hs.iter().map(|h| h.frame_id).collect(); note(viol, "search_vec", at, tab, &ids, st, "search_vec"); if qi == 0 { vecs = ids; } }
            Err(e) => { if dbg { eprintln!("search_vec err {}", e); } }
        }
        if let Ok(resp) = d.mem().vec_search_with_embedding("q", &q, 50, 80, None) { let ids: Vec<u64> = resp.hits.iter().map(|h| h.frame_id).collect(); note(viol, "vec_search_with_embedding", at, tab, &ids, st, "vec_search_with_embedding"); }
        let cfg = if qi % 2 == 0 { AdaptiveConfig::default() } else { let mut c = AdaptiveConfig::default(); c.enabled = false; c };
        if let Ok(res) = d.mem().search_adaptive("q", &q, cfg, 80, None) { let ids: Vec<u64> = res.results.iter().map(|h| h.frame_id).collect(); note(viol, "search_adaptive", at, tab, &ids, st, "search_adaptive"); }
    }
    if pick.is_empty() {
        // nothing embedded yet: the index must be empty or disabled
        if let Ok(hs) = d.mem().search_vec(&emb_of(1), 100_000) { vecs = hs.iter().map(|h| h.frame_id).collect(); note(viol, "search_vec", at, tab, &vecs.clone(), st, "search_vec"); }
    }
    vecs.sort(); vecs.dedup();
    // ---- lexical: the common word (enumerates the engine's text documents), then words of single frames
    let mut lex: Vec<u64> = vec![];
    match d.mem().search(sreq(COMMON, 5000, true)) {
        Ok(resp) => { lex = resp.hits.iter().map(|h| h.frame_id).collect(); note(viol, "search(common word)", at, tab, &lex.clone(), st, "search"); }
        Err(e) => { if dbg { eprintln!("search err {}", e); } if quiescent && !tab.is_empty() { viol.get_or_insert(format!("read-failed: search {} failed: {}", at, e)); } }
    }
    lex.sort(); lex.dedup();
    let mut words: Vec<u64> = tab.iter().filter(|f| f.status != 0 || f.supersedes.is_some()).filter_map(|f| f.word).collect();
    let allw: Vec<u64> = tab.iter().filter_map(|f| f.word).collect();
    for _ in 0..3 { if !allw.is_empty() { words.push(allw[r.below(allw.len() as u64) as usize]); } }
    words.sort(); words.dedup();
    if words.len() > 10 { let keep = r.below(words.len() as u64 - 9) as usize; words = words[keep..keep + 10].to_vec(); }
    for (wi, w) in words.iter().enumerate() {
        let q = uw(*w);
        if let Ok(resp) = d.mem().search(sreq(&q, 50, wi % 2 == 0)) { let ids: Vec<u64> = resp.hits.iter().map(|h| h.frame_id).collect(); note(viol, "search(unique word)", at, tab, &ids, st, "search"); }
        if wi < 4 {
            // ask, retrieval only (context_only, no embedder = no model needed), lexical mode
            match d.mem().ask::<StubEmbedder>(areq(&q, AskMode::Lex, None), None) {
                Ok(a) => { let mut ids: Vec<u64> = a.retrieval.hits.iter().map(|h| h.frame_id).collect(); ids.extend(a.context_fragments.iter().map(|c| c.frame_id)); ids.extend(a.citations.iter().map(|c| c.frame_id)); note(viol, "ask(lex)", at, tab, &ids, st, "ask"); }
                Err(e) => { if dbg { eprintln!("ask err {}", e); } }
            }
            // ask with a stub embedder (returns a stored embedding): exercises its vector retrieval and fusion
            if let Some(e) = some_emb.clone() {
                let ad = if wi % 2 == 0 { None } else { Some(AdaptiveConfig::default()) };
                let emb = StubEmbedder(e);
                if let Ok(a) = d.mem().ask(areq(&q, AskMode::Hybrid, ad), Some(&emb)) { let mut ids: Vec<u64> = a.retrieval.hits.iter().map(|h| h.frame_id).collect(); ids.extend(a.context_fragments.iter().map(|c| c.frame_id)); note(viol, "ask(hybrid, stub embedder)", at, tab, &ids, st, "ask"); }
            }
        }
    }
    // a question no document answers: ask falls back to the timeline (+ child frames)
    if let Ok(a) = d.mem().ask::<StubEmbedder>(areq("qqvvxx", AskMode::Lex, None), None) { let ids: Vec<u64> = a.retrieval.hits.iter().map(|h| h.frame_id).collect(); note(viol, "ask(timeline fallback)", at, tab, &ids, st, "ask"); }
    // field-only query
    if let Some(u) = uris.iter().next() { if let Ok(resp) = d.mem().search(sreq(&format!("uri:{}", uri_string(*u)), 50, true)) { let ids: Vec<u64> = resp.hits.iter().map(|h| h.frame_id).collect(); note(viol, "search(uri: field query)", at, tab, &ids, st, "search"); } }
    // ---- frame_by_uri: last active frame with the uri, else last of any status
    let mut ulook = vec![];
    let mut all_uris: Vec<(Option<u32>, String)> = uris.iter().map(|k| (Some(*k), uri_string(*k))).collect();
    all_uris.push((Some(9_999), uri_string(9_999))); // never used
    for f in tab.iter().filter(|f| f.status != 0).take(3) { all_uris.push((None, f.uri.clone())); }
    for (k, u) in all_uris {
        let got = d.mem().frame_by_uri(&u).ok().map(|f| f.id);
        let act = tab.iter().enumerate().rev().find(|(_, f)| f.uri == u && f.status == 0).map(|(i, _)| i as u64);
        let any = tab.iter().enumerate().rev().find(|(_, f)| f.uri == u).map(|(i, _)| i as u64);
        let want = act.or(any);
        if quiescent && got != want { viol.get_or_insert(format!("frame-by-uri: frame_by_uri({}) {} returned {:?}, the newest active version (else newest of any status) is {:?}", u, at, got, want)); }
        if let Some(k) = k { ulook.push(T::Tup(vec![T::N(k as u128), opt_n(got)])); }
        st.hits += 1;
    }
    T::Tup(vec![list_n(&tix), list_n(&vecs), list_n(&lex), T::L(ulook)])
}

pub struct History { pub ops: Vec<T>, pub outs: Vec<T>, pub reads: Vec<T>, pub rows: T, pub violation: Option<String>, pub tags: Vec<String>, pub nontrivial: bool }

fn gen_fields(r: &mut Rng, uri_counter: &mut u32, ts: i64, dense: bool) -> Fields {
    let mut f = Fields::default();
    let p = if dense { 2 } else { 4 };
    if r.chance(1, p) { f.ts = Some(ts); }
    if r.chance(1, p) { f.track = Some(r.range(1, 4)); }
    if r.chance(1, p) { f.kind = Some(r.range(1, 4)); }
    if r.chance(1, p) { *uri_counter += 1; f.uri = Some(if r.chance(1, 2) && *uri_counter > 1 { r.range(1, *uri_counter as u64 - 1) as u32 } else { *uri_counter }); }
    if r.chance(1, p) { f.title = Some(r.range(1, 9)); }
    if r.chance(1, p) { f.meta = Some(r.range(1, 9)); }
    if r.chance(1, p + 2) { f.stext = Some(r.range(1, 99)); }
    if r.chance(1, p) { f.tags = (0..r.range(1, 2)).map(|_| r.range(1, 9)).collect(); f.tags.dedup(); }
    if r.chance(1, p) { f.labels = vec![r.range(1, 9)]; }
    if r.chance(1, p) { f.extra = vec![r.range(1, 9)]; }
    f
}

pub fn run_history(r: &mut Rng, nops: usize, profile: u64) -> History {
    let t_all = std::time::Instant::now(); let mut t_reads = std::time::Duration::ZERO; let mut n_reads = 0;
    let dbg = std::env::var("MV_DEBUG").is_ok();
    let mut d = Driver::new();
    let mut reference: Vec<RefFrame> = vec![];        // acknowledged
    let mut committed: Vec<RefFrame> = vec![];        // as of the last commit
    let mut uris: BTreeSet<u32> = BTreeSet::new();
    let mut ops_t: Vec<T> = vec![]; let mut outs: Vec<T> = vec![]; let mut reads: Vec<T> = vec![];
    let mut viol: Option<String> = None; let mut tags: BTreeSet<String> = BTreeSet::new();
    let mut st = ReadStats { hits: 0, apis: BTreeSet::new(), orphan: None };
    let mut uri_counter = 0u32; let mut content = 0u64;
    // slots to fill once the frames exist: (index in ops_t, frame id created, is_put)
    let mut slots: Vec<(usize, u64, bool)> = vec![];
    // pending update checks: (new id, old id, requested fields)
    let mut upd_checks: Vec<(u64, u64, Fields, bool)> = vec![];
    let mut committed_mut = 0; let mut chunk_hit = false;
    for i in 0..nops {
        let n_committed = d.mem().frame_count() as u64;
        let c = r.below(100);
        let docs: Vec<u64> = (0..n_committed.min(committed.len() as u64)).filter(|j| committed[*j as usize].role == 0).collect();
        let pick_doc = |r: &mut Rng, want_chunked: bool| -> u64 {
            if r.chance(1, 10) || docs.is_empty() { return n_committed + r.below(2); }
            let pool: Vec<u64> = docs.iter().cloned().filter(|j| !want_chunked || committed[*j as usize].chunked).collect();
            let pool = if pool.is_empty() { docs.clone() } else { pool };
            pool[r.below(pool.len() as u64) as usize]
        };
        let op = if i + 1 == nops { Op::Commit }
        else if c < 42 || n_committed == 0 && c < 75 {
            let payload = match r.below(10) { 0 => Payload::Bin(r.range(2, 300) as usize), 1 | 2 if profile != 1 => Payload::Chunked(r.range(2500, 5200) as usize), 3 if profile == 2 => Payload::Chunked(r.range(2500, 4000) as usize), _ => Payload::Text(r.range(40, 600) as usize) };
            let mut fields = gen_fields(r, &mut uri_counter, 1_700_000_000 + i as i64, false);
            fields.ts = Some(1_700_000_000 + (i as i64) * if r.chance(1, 5) { 0 } else { 1 });
            fields.stext = None;
            let embed = match profile { 0 => false, _ => r.chance(1, 2) };
            Op::Put { payload, fields, embed, instant: r.chance(1, 14), default_opts: r.chance(1, 12) }
        } else if c < 60 && n_committed > 0 {
            let wc = profile == 2 && r.chance(1, 2); let target = pick_doc(r, wc);
            let payload = if r.chance(1, 2) { Some(r.range(40, 600) as usize) } else { None };
            let dense = r.chance(1, 3); Op::Update { target, payload, fields: gen_fields(r, &mut uri_counter, 1_600_000_000 + i as i64, dense), embed: profile != 0 && r.chance(1, 4), instant: r.chance(1, 20) }
        } else if c < 74 && n_committed > 0 { let wc = profile == 2 && r.chance(1, 2); Op::Delete { target: pick_doc(r, wc) } }
        else if c < 86 { Op::Commit } else if c < 93 { Op::Reopen } else if c < 97 { Op::Crash } else { Op::Delete { target: n_committed } };
        if dbg { eprintln!("op {} {:?}", i, op); }

        let t_op = std::time::Instant::now();
        let wal_seq_before = memvid_core::verif_hooks::wal_stats(d.mem()).3;
        let next_before = d.mem().next_frame_id();
        let mut ok = true; let mut seq = 0u64; let mut errk = 0u128;
        let op_term;
        match &op {
            Op::Put { payload, fields, embed, instant, default_opts } => {
                content += 1; let k = content;
                let bytes = payload_bytes(payload, k);
                let opts = put_options(fields, *instant, *default_opts);
                let res = if *embed { d.mem().put_with_embedding_and_options(&bytes, emb_of(k), opts) } else { d.mem().put_bytes_with_options(&bytes, opts) };
                match res { Ok(s) => seq = s, Err(e) => { ok = false; errk = 9; viol.get_or_insert(format!("op-failed: op {} put failed: {}", i, e)); } }
                let next_after = d.mem().next_frame_id();
                let nch = if ok { next_after - next_before - 1 } else { 0 };
                let auto = auto_oracle(&mut d, wal_seq_before, 1 + nch);
                if ok {
                    let id = reference.len() as u64;
                    if let Some(u) = fields.uri { uris.insert(u); }
                    let is_text = !matches!(payload, Payload::Bin(_));
                    reference.push(RefFrame { status: 0, role: 0, parent: None, chunked: nch > 0, uri: fields.uri.map(uri_string).unwrap_or(format!("mv2://frames/{}", id)), superseded_by: None, supersedes: None, word: if is_text { Some(k) } else { None }, emb: if *embed { Some(k) } else { None } });
                    for j in 0..nch { let cid = reference.len() as u64; reference.push(RefFrame { status: 0, role: 1, parent: Some(id), chunked: false, uri: fields.uri.map(|u| format!("{}#page-{}", uri_string(u), j + 1)).unwrap_or(format!("mv2://frames/{}", cid)), superseded_by: None, supersedes: None, word: Some(k), emb: None }); }
                    if nch > 0 { tags.insert("chunked-put".into()); }
                    if *embed { tags.insert("embedded-put".into()); }
                    if *instant { tags.insert("instant-index".into()); }
                    slots.push((ops_t.len(), id, true));
                }
                // RPut uk tag nchunks auto fields(observed, filled later) text emb instant
                op_term = T::C("RPut", vec![opt_n(fields.uri.map(|u| u as u64)), T::N(k as u128 * 1000), T::N(nch as u128), auto, empty_fields_term(), T::B(false), opt_n(if *embed { Some(k) } else { None }), T::B(*instant)]);
            }
            Op::Update { target, payload, fields, embed, instant } => {
                let mut k = 0;
                let bytes = payload.map(|n| { content += 1; k = content; payload_bytes(&Payload::Text(n), k) });
                let opts = put_options(fields, *instant, false);
                let e = if *embed { content += 1; Some(content) } else { None };
                match d.mem().update_frame(*target, bytes, opts, e.map(emb_of)) {
                    Ok(s) => seq = s,
                    Err(er) => { ok = false; let s = er.to_string(); errk = if s.contains("not active") { 2 } else if s.contains("not found") || s.contains("Frame") { 1 } else { 9 }; if errk == 9 || dbg { eprintln!("update failed: {}", s); } if errk == 9 { viol.get_or_insert(format!("op-failed: op {} update_frame({}) failed: {}", i, target, s)); errk = 1; } }
                }
                let auto = auto_oracle(&mut d, wal_seq_before, 1);
                if ok {
                    let id = reference.len() as u64;
                    let old = reference[*target as usize].clone();
                    if let Some(u) = fields.uri { uris.insert(u); }
                    // carried embedding: the reference frame keeps the old embedding unless a new one is given (only if the old one was indexed)
                    let emb = e.or(committed.get(*target as usize).and_then(|f| f.emb));
                    reference.push(RefFrame { status: 0, role: old.role, parent: None, chunked: false, uri: fields.uri.map(uri_string).unwrap_or(old.uri.clone()), superseded_by: None, supersedes: Some(*target), word: if payload.is_some() && fields.stext.is_none() { old.word } else { old.word }, emb });
                    reference[*target as usize].status = 1; reference[*target as usize].superseded_by = Some(id);
                    tags.insert(if payload.is_some() { "update-payload".into() } else { "update-reuse".into() });
                    if old.chunked { tags.insert("update-of-chunked".into()); }
                    upd_checks.push((id, *target, fields.clone(), payload.is_some()));
                    slots.push((ops_t.len(), id, false));
                }
                // RUpdate target newtag auto fields(requested) text(observed later) emb instant
                op_term = T::C("RUpdate", vec![T::N(*target as u128), opt_n(if payload.is_some() { Some(k * 1000) } else { None }), auto, fields_term_of_opts(fields), T::B(false), opt_n(e), T::B(*instant)]);
            }
            Op::Delete { target } => {
                match d.mem().delete_frame(*target) { Ok(s) => seq = s, Err(er) => { ok = false; let s = er.to_string(); errk = if s.contains("not active") { 2 } else { 1 }; } }
                let auto = auto_oracle(&mut d, wal_seq_before, 1);
                if ok { let old = &mut reference[*target as usize]; old.status = 2; old.superseded_by = None; tags.insert("delete".into()); if old.chunked { tags.insert("delete-of-chunked".into()); } }
                op_term = T::C("RDelete", vec![T::N(*target as u128), auto]);
            }
            Op::Commit => {
                if let Err(e) = d.mem().commit() { ok = false; errk = 9; viol.get_or_insert(format!("op-failed: op {} commit failed: {}", i, e)); }
                let extra = memvid_core::verif_hooks::wal_stats(d.mem()).3 - wal_seq_before;
                op_term = T::C("RCommit", vec![T::N(extra as u128)]);
            }
            Op::Reopen | Op::Crash => {
                let m = d.mem.take().unwrap();
                if matches!(op, Op::Crash) { memvid_core::verif_hooks::drop_without_commit(m); tags.insert("crash-replay".into()); } else { drop(m); tags.insert("reopen".into()); }
                match memvid_core::Memvid::open(&d.path) {
                    Ok(m) => { let extra = memvid_core::verif_hooks::wal_stats(&m).3 - wal_seq_before; d.mem = Some(m); op_term = T::C(if matches!(op, Op::Crash) { "RCrash" } else { "RReopen" }, vec![T::N(extra as u128)]); }
                    Err(e) => { viol.get_or_insert(format!("open-failed: op {} {:?}: {}", i, op, e)); ops_t.push(T::C("RCommit", vec![T::N(0)])); outs.push(T::Tup(vec![T::C("Err", vec![T::N(8)]), T::N(0), T::N(0)])); break; }
                }
            }
        }
        if std::env::var("MV_TIMING").is_ok() { eprintln!("  op {:?} took {:?}", match &op { Op::Put { instant, default_opts, embed, .. } => format!("put instant={} default={} embed={}", instant, default_opts, embed), Op::Update { .. } => "update".into(), Op::Delete { .. } => "delete".into(), o => format!("{:?}", o) }, t_op.elapsed()); }
        let next_after = d.mem().next_frame_id();
        let fc = d.mem().frame_count() as u64;
        let res = if !ok { T::C("Err", vec![T::N(errk)]) } else { match op { Op::Put { .. } | Op::Update { .. } | Op::Delete { .. } => T::C("Ok", vec![T::N(seq as u128)]), _ => T::C("Ok", vec![T::N(0)]) } };
        ops_t.push(op_term); outs.push(T::Tup(vec![res, T::N(fc as u128), T::N(next_after as u128)]));

        let pending = memvid_core::verif_hooks::wal_stats(d.mem()).1;
        let quiescent = pending == 0 && fc as usize == reference.len();
        if quiescent {
            if committed.len() != reference.len() || committed.iter().zip(reference.iter()).any(|(a, b)| a.status != b.status) { committed_mut += 1; }
            committed = reference.clone();
            // status / supersession links of the real table against the reference
            for (kf, rf) in reference.iter().enumerate() {
                let f = d.mem().frame_by_id(kf as u64).expect("frame_by_id");
                let stt = match f.status { FrameStatus::Active => 0, FrameStatus::Superseded => 1, FrameStatus::Deleted => 2 };
                if stt != rf.status { viol.get_or_insert(format!("status-mismatch: after op {} frame {} has status {}, acknowledged calls give {}", i, kf, stt, rf.status)); }
                if f.superseded_by != rf.superseded_by || f.supersedes != rf.supersedes { viol.get_or_insert(format!("supersession-link: after op {} frame {} has supersedes/superseded_by {:?}/{:?}, acknowledged calls give {:?}/{:?}", i, kf, f.supersedes, f.superseded_by, rf.supersedes, rf.superseded_by)); }
            }
            // inheritance, checked on the real frames (independent of the model)
            for (newid, oldid, fl, has_payload) in upd_checks.drain(..) {
                let n = d.mem().frame_by_id(newid).expect("new"); let o = d.mem().frame_by_id(oldid).expect("old");
                let mut bad: Vec<String> = vec![];
                let want_ts = fl.ts.unwrap_or(o.timestamp); if n.timestamp != want_ts { bad.push(format!("timestamp {} want {}", n.timestamp, want_ts)); }
                let w = fl.track.map(|k| format!("trk{}", k)).or(o.track.clone()); if n.track != w { bad.push(format!("track {:?} want {:?}", n.track, w)); }
                let w = fl.kind.map(|k| format!("knd{}", k)).or(o.kind.clone()); if n.kind != w { bad.push(format!("kind {:?} want {:?}", n.kind, w)); }
                let w = fl.uri.map(uri_string).or(o.uri.clone()); if n.uri != w { bad.push(format!("uri {:?} want {:?}", n.uri, w)); }
                let w = fl.title.map(|k| format!("ttl{}", k)).or(o.title.clone()); if n.title != w { bad.push(format!("title {:?} want {:?}", n.title, w)); }
                let w: Vec<String> = if fl.tags.is_empty() { o.tags.clone() } else { fl.tags.iter().map(|k| format!("tag{}", k)).collect() }; if n.tags != w { bad.push(format!("tags {:?} want {:?}", n.tags, w)); }
                let w: Vec<String> = if fl.labels.is_empty() { o.labels.clone() } else { fl.labels.iter().map(|k| format!("lbl{}", k)).collect() }; if n.labels != w { bad.push(format!("labels {:?} want {:?}", n.labels, w)); }
                let w: BTreeMap<String, String> = if fl.extra.is_empty() { o.extra_metadata.clone() } else { fl.extra.iter().map(|k| (format!("xk{}", k), format!("xv{}", k))).collect() }; if n.extra_metadata != w { bad.push(format!("extra_metadata {:?} want {:?}", n.extra_metadata, w)); }
                match fl.meta { Some(k) => { if n.metadata.as_ref().and_then(|m| m.caption.clone()) != Some(format!("cap{}", k)) { bad.push(format!("metadata {:?} want caption cap{}", n.metadata, k)); } }
                                None => { if o.metadata.is_some() && n.metadata != o.metadata { bad.push(format!("metadata {:?} want {:?}", n.metadata, o.metadata)); } } }
                match fl.stext { Some(k) => { if stx_of(&n.search_text) != Some(k) { bad.push(format!("search_text {:?} want stx{}", n.search_text, k)); } }
                                 None => { if let Some(ot) = &o.search_text { let base = ot.split("\ntitle: ").next().unwrap_or(ot).split("\nuri: ").next().unwrap_or(ot).trim().to_string(); if !n.search_text.as_deref().unwrap_or("").starts_with(&base) { bad.push(format!("search_text does not start with the old one: {:?} / old {:?}", n.search_text.as_deref().map(|s| &s[..s.len().min(60)]), &base[..base.len().min(60)])); } } } }
                let _ = has_payload;
                if !bad.is_empty() { viol.get_or_insert(format!("inheritance: update of frame {} -> {}: {}", oldid, newid, bad.join("; "))); }
            }
        }
        // ---- reads: at every quiescent point (model-compared) and sometimes in between (oracle only)
        let is_boundary = matches!(op, Op::Commit | Op::Reopen | Op::Crash);
        if quiescent && (is_boundary || r.chance(1, 2)) {
            let at = format!("after op {} ({})", i, match op { Op::Commit => "commit", Op::Reopen => "reopen", Op::Crash => "crash+replay", _ => "automatic checkpoint" });
            let t0 = std::time::Instant::now(); let obs = read_all(&mut d, &committed.clone(), &uris, &at, &mut viol, &mut st, r, true); t_reads += t0.elapsed(); n_reads += 1;
            { let mut ks: Vec<u64> = uris.iter().map(|k| *k as u64).collect(); ks.push(9_999); ops_t.push(T::C("RRead", vec![list_n(&ks)])); } outs.push(T::Tup(vec![T::C("Ok", vec![T::N(0)]), T::N(fc as u128), T::N(next_after as u128)]));
            reads.push(obs);
        } else if !quiescent && r.chance(1, 3) {
            let at = format!("after op {} (uncommitted changes pending)", i);
            let t0 = std::time::Instant::now(); let _ = read_all(&mut d, &committed.clone(), &uris, &at, &mut viol, &mut st, r, false); t_reads += t0.elapsed(); n_reads += 1;
            tags.insert("read-while-pending".into());
        }
        if st.orphan.is_some() { chunk_hit = true; }
    }
    if std::env::var("MV_TIMING").is_ok() { eprintln!("history: {} ops, total {:?}, reads {:?} in {} read points", nops, t_all.elapsed(), t_reads, n_reads); }
    // ---- fill the oracle slots (observed attributes of the frames created) and build the rows
    let (_, frames) = d.table();
    for (idx, fid, is_put) in slots {
        let Some(f) = frames.get(fid as usize) else { continue };
        let text = f.search_text.as_deref().is_some_and(|s| s.contains(COMMON));
        if let T::C(_, args) = &mut ops_t[idx] {
            if is_put { args[4] = fields_term_of_frame(f); args[5] = T::B(text); } else { args[4] = T::B(text); }
        }
    }
    let rows: Vec<T> = frames.iter().map(|f| {
        let ft = if f.role == FrameRole::Document { fields_term_of_frame(f) } else { empty_fields_term() };
        T::Tup(vec![frame_term(f, 0), ft])
    }).collect();
    if chunk_hit { tags.insert("orphan-chunk-served".into()); }
    for a in &st.apis { tags.insert(format!("hits:{}", a)); }
    tags.insert(format!("profile{}", profile));
    let nontrivial = committed_mut > 0 && reference.iter().any(|f| f.status != 0) && st.apis.len() >= 3;
    let viol = viol.or(st.orphan.clone());
    History { ops: ops_t, outs, reads, rows: T::L(rows), violation: viol, tags: tags.into_iter().collect(), nontrivial }
}

pub fn run(seed: u64, n: usize, w: &mut dyn std::io::Write) {
    // every random choice derives from ONE generator: it draws one sub-seed per history; the histories
    // (independent memories in their own temp dirs) then run on a few threads because commits are slow
    let mut r = Rng::new(seed ^ 0xC08);
    let plans: Vec<(u64, usize, u64)> = (0..n).map(|i| {
        // profile 0: no embeddings; 1: embeddings, no chunked documents; 2: embeddings + chunked documents aimed at
        let profile = (i % 3) as u64;
        let nops = r.range(8, 30) as usize;
        (r.next(), nops, profile)
    }).collect();
    let workers = 6usize;
    let mut results: Vec<Option<History>> = (0..n).map(|_| None).collect();
    for batch in (0..n).collect::<Vec<_>>().chunks(workers) {
        let handles: Vec<(usize, std::thread::JoinHandle<History>)> = batch.iter().map(|&i| {
            let (sd, nops, profile) = plans[i];
            (i, std::thread::spawn(move || { let mut hr = Rng(sd); run_history(&mut hr, nops, profile) }))
        }).collect();
        for (i, h) in handles { results[i] = Some(h.join().expect("history thread panicked")); }
    }
    for h in results.into_iter().flatten() {
        let input = T::L(h.ops.clone());
        let output = T::Tup(vec![T::L(h.outs.clone()), T::L(h.reads.clone()), h.rows.clone()]);
        let key = blake3::hash(input.coq().as_bytes()).to_hex()[..16].to_string();
        emit(w, "hist", &Case { input, output, violation: h.violation, nontrivial: h.nontrivial, tags: h.tags, key });
    }
}
