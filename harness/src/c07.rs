//! C07 content fidelity: histories of commit batches on a real memory (shared Driver for
//! create / reopen / exit-without-commit), every frame read back through
//! frame_canonical_payload, blob_reader (read to end) and frame_text_by_id, the stored window
//! read from the file itself, compared (a) by the property oracle with what was put and
//! (b) with the byte-level model Model/Content.v replayed on the same batches.
use crate::store::Driver;
use crate::term::*;
use memvid_core::types::{CanonicalEncoding, Frame, FrameRole, FrameStatus};
use memvid_core::{normalize_text, Memvid, PutManyOpts, PutOptions};
use std::collections::HashMap;
use std::io::Read;

// ------------------------------------------------------------------ payloads
fn prose(r: &mut Rng, chars: usize, multibyte: bool, newlines: bool) -> String {
    let words = ["alpha", "bravo", "charlie", "delta", "echo", "foxtrot", "golf", "hotel", "india", "juliet", "kilo", "lima", "zürich", "naïve", "日本語", "Ωmega"];
    let lim = if multibyte { words.len() } else { 12 };
    let mut s = String::new();
    let mut n = 0usize;
    while n < chars {
        let wd = words[r.below(lim as u64) as usize];
        s.push_str(wd); n += wd.chars().count();
        if r.chance(1, 8) { s.push('.'); n += 1; }
        if newlines && r.chance(1, 25) { s.push('\n'); } else { s.push(' '); }
        n += 1;
    }
    s
}
/// ASCII words and single spaces, exactly `len` characters, unchanged by the normalizer
fn exact_text(r: &mut Rng, len: usize, terms: bool) -> String {
    let mut s = String::new();
    while s.len() < len {
        let l = r.range(1, 9);
        for _ in 0..l { s.push((b'a' + r.below(26) as u8) as char); }
        if terms && r.chance(1, 10) { s.push('.'); }
        s.push(' ');
    }
    s.truncate(len);
    if s.ends_with(' ') { s.pop(); s.push('x'); }
    s
}
fn structured_text(r: &mut Rng) -> String {
    let mut blocks = vec![];
    let mut total = 0;
    while total < 2600 {
        let b = match r.below(3) {
            0 => { let rows = r.range(3, 30); let mut l = vec!["| name | value |".to_string(), "|---|---|".to_string()]; for i in 0..rows { l.push(format!("| k{} | {} |", i, r.below(100000))); } l.join("\n") }
            1 => { let n = r.range(2, 20); let mut l = vec!["```rust".to_string()]; for i in 0..n { l.push(format!("let v{} = {};", i, r.below(1000))); } l.push("```".to_string()); l.join("\n") }
            _ => { let k_ = r.range(100, 600) as usize; let mut p = prose(r, k_, false, false); p.replace_range(0..1, "T"); p }
        };
        total += b.chars().count() + 2;
        blocks.push(b);
    }
    blocks.join("\n\n")
}

// ---- multi-byte text whose CHARACTER count and BYTE count fall on different sides of the put path's size thresholds ----
/// chunking threshold of the put path, in characters of the normalized text (the harness's own copy)
const CHUNK_MIN_CHARS_REF: usize = 2400;
#[derive(Clone, Copy, Debug, PartialEq)]
enum Mix { Two, Three, Four, Mixed }
fn alphabet(m: Mix) -> Vec<char> {
    // all stable under NFKC, none whitespace / control / combining
    let two: Vec<char> = "абвгдежзиклмнопрстуфхцчшщыэюяλμπσω".chars().collect();
    let three: Vec<char> = "日本語文字漢中国東京大阪山川田水火木金土天地人心".chars().collect();
    let four: Vec<char> = "𠀀𠀁𠀂𠀃😀😁🚀🌍𝄞".chars().collect();
    match m { Mix::Two => two, Mix::Three => three, Mix::Four => four,
              Mix::Mixed => { let mut v = two; v.extend(three); v.extend(four); v.extend("abcdefgh".chars()); v } }
}
/// already-normalized text (single spaces, single newlines, no leading/trailing whitespace) of exactly `chars` characters
fn mb_norm_chars(r: &mut Rng, chars: usize, m: Mix) -> String {
    let al = alphabet(m);
    let mut v: Vec<char> = Vec::with_capacity(chars);
    while v.len() < chars {
        let l = r.range(1, 7) as usize;
        for _ in 0..l { v.push(*r.pick(&al)); }
        match r.below(12) { 0 => v.push(','), 1 => v.push('.'), 2 => v.push('。'), _ => {} }
        v.push(if r.chance(1, 14) { '\n' } else { ' ' });
    }
    v.truncate(chars);
    if v.last().map_or(false, |c| c.is_whitespace()) { let n = v.len(); v[n - 1] = al[0]; }
    if chars >= 2 && v[chars - 2].is_whitespace() && chars >= 3 && v[chars - 3].is_whitespace() { v[chars - 2] = al[0]; }
    v.into_iter().collect()
}
/// already-normalized text of exactly `bytes` bytes: multi-byte words first, ASCII letters up to the exact byte count
fn mb_norm_bytes(r: &mut Rng, bytes: usize, m: Mix) -> String {
    let al = alphabet(m);
    let mut s = String::new();
    let wide = bytes * (r.range(40, 80) as usize) / 100;
    while s.len() + 8 < wide { let l = r.range(1, 6); for _ in 0..l { s.push(*r.pick(&al)); } s.push(if r.chance(1, 14) { '\n' } else { ' ' }); }
    while s.len() < bytes { if s.len() + 1 < bytes && r.chance(1, 7) && !s.ends_with(' ') && !s.ends_with('\n') { s.push(' '); } else { s.push((b'a' + r.below(26) as u8) as char); } }
    s
}
/// a text that normalizes to `norm` but is not byte-equal to it: CRLF, tabs, double / ideographic spaces, blank lines,
/// spaces before a newline, full-width punctuation and letters, leading / trailing whitespace
fn denormalize(r: &mut Rng, norm: &str) -> String {
    let mut s = String::new();
    if r.chance(1, 3) { s.push_str(*r.pick(&[" ", "\n", "\t", "\r\n"])); }
    for ch in norm.chars() {
        match ch {
            ' ' => s.push_str(match r.below(8) { 0 => "  ", 1 => "\t", 2 => " \t", 3 => "\u{3000}", 4 => "\u{A0}", _ => " " }),
            '\n' => s.push_str(match r.below(6) { 0 => "\r\n", 1 => "\n\n", 2 => " \n", 3 => "\n\n\n", 4 => "\r", _ => "\n" }),
            ',' if r.chance(1, 2) => s.push('，'),
            '.' if r.chance(1, 3) => s.push('．'),
            'a'..='z' if r.chance(1, 9) => s.push(char::from_u32(0xFF41 + (ch as u32 - 'a' as u32)).unwrap()),
            c => s.push(c),
        }
    }
    s.push_str(*r.pick(&["\n", "\r\n", " ", "\n\n", "\t\n"]));
    if normalize_text(&s, usize::MAX).map(|n| n.text).as_deref() == Some(norm) { s } else { format!("{}\n", norm) }
}
fn mb_payload(r: &mut Rng, chars: Option<usize>, bytes: Option<usize>, m: Mix, denorm: bool) -> (Vec<u8>, String) {
    let norm = match (chars, bytes) { (Some(c), _) => mb_norm_chars(r, c, m), (_, Some(b)) => mb_norm_bytes(r, b, m), _ => unreachable!() };
    let text = if denorm { denormalize(r, &norm) } else { norm.clone() };
    let tag = format!("mb-{:?}-{}{}-{}", m, match (chars, bytes) { (Some(c), _) => format!("{}chars", c), (_, Some(b)) => format!("{}bytes", b), _ => String::new() },
                      if norm.len() >= CHUNK_MIN_CHARS_REF && norm.chars().count() < CHUNK_MIN_CHARS_REF { "-bytes>=2400>chars" } else { "" }, if denorm { "denorm" } else { "norm" });
    (text.into_bytes(), tag)
}

fn gen_payload(r: &mut Rng) -> (Vec<u8>, String) {
    // multi-byte band: below the chunking threshold in characters, at or above it in bytes (and the thresholds themselves)
    if r.chance(1, 5) {
        let m = *r.pick(&[Mix::Two, Mix::Three, Mix::Four, Mix::Mixed]);
        let d = r.chance(1, 2);
        return match r.below(4) {
            0 => { let c = *r.pick(&[1200usize, 1201, 2399, 2400, 2401]); mb_payload(r, Some(c), None, m, d) }
            1 => { let c = r.range(1201, 2399) as usize; mb_payload(r, Some(c), None, m, d) }
            2 => { let b = *r.pick(&[2399usize, 2400, 2401]); mb_payload(r, None, Some(b), m, d) }
            _ => { let c = r.range(600, 1200) as usize; mb_payload(r, Some(c), None, if m == Mix::Two { Mix::Three } else { m }, d) }
        };
    }
    match r.below(22) {
        0 => (vec![], "empty".into()),
        1 => { let n = r.range(1, 8) as usize; (r.bytes(n), "tiny-random".into()) }
        2 => { let n = r.range(1, 8) as usize; (vec![0u8; n], "tiny-zero".into()) }
        3 => { let n = r.range(1, 8) as usize; ((0..n).map(|_| b'a' + r.below(26) as u8).collect(), "tiny-ascii".into()) }
        4 => { let n = r.range(9, 5000) as usize; (vec![0u8; n], "zero-filled".into()) }
        5 | 6 => { let n = r.range(9, 6000) as usize; let mut b = r.bytes(n); b[0] = 0xFF; (b, "random-binary".into()) }
        7 => { let n = r.range(20, 2300) as usize; let mut b = prose(r, n, false, true).into_bytes(); let i = r.below(b.len() as u64) as usize; b[i] = 0xFF; (b, "non-utf8-short".into()) }
        8 => { let n = r.range(2500, 5000) as usize; let mut b = prose(r, n, false, true).into_bytes(); let i = r.below(b.len() as u64) as usize; b[i] = 0xC0; (b, "non-utf8-long-texty".into()) }
        9 => { let n = r.range(1, 6000) as usize; (vec![b'a'; n], "compressible".into()) }
        10 => { let n = *r.pick(&[2399usize, 2400, 2401]); { let t_ = r.chance(1, 2); (exact_text(r, n, t_).into_bytes(), format!("utf8-{}", n)) } }
        11 => { let n = *r.pick(&[2399usize, 2400, 2401]); let mut s = exact_text(r, n - 1, true); s.insert(n / 2, 'é'); (s.into_bytes(), format!("utf8-mb-{}", n)) }
        12 | 13 => { let n = r.range(2402, 9000) as usize; { let a_ = r.chance(1, 2); let b_ = r.chance(1, 2); (prose(r, n, a_, b_).into_bytes(), "utf8-large".into()) } }
        14 => { let n = r.range(1, 2300) as usize; { let a_ = r.chance(1, 2); (prose(r, n, a_, true).into_bytes(), "utf8-small".into()) } }
        15 => (structured_text(r).into_bytes(), "utf8-structured".into()),
        16 => { let n = r.range(1, 40) as usize; ((0..n).map(|_| *r.pick(b" \n\t")).collect(), "whitespace".into()) }
        17 => { let n = r.range(10, 300) as usize; ((0..n).map(|_| if r.chance(1, 2) { r.below(9) as u8 } else { b'a' + r.below(26) as u8 }).collect(), "control-heavy".into()) }
        18 => { // text that normalizes differently: tabs, CRLF, double spaces, NBSP, control chars
            let n = r.range(2450, 4000) as usize; let mut s = prose(r, n, false, true); s = s.replace("alpha ", "alpha\t \r\n").replace("golf ", "golf\u{A0}\u{1} "); (s.into_bytes(), "utf8-unnormalized".into()) }
        19 => { // sentence end followed by an unbroken token longer than a chunk + slack: single-space chunk
            let a = r.range(300, 1150) as usize; let b = r.range(1440, 2600) as usize;
            (format!("{}. {}", exact_text(r, a, false), "x".repeat(b)).into_bytes(), "blank-chunk".into()) }
        20 => { // log growth: control-heavy bytes (no text is extracted from them, so the case stays small); else mid-size random binary
            if r.chance(1, 3) { let n = r.range(20000, 60000) as usize; let mut b: Vec<u8> = (0..n).map(|_| (r.next() as u8) & 0x1F).collect(); b[0] = 0xFF; (b, "big-binary".into()) }
            else { let n = r.range(2400, 9000) as usize; let mut b = r.bytes(n); b[0] = 0xFF; (b, "random-binary".into()) } }
        _ => { let n = r.range(1, 200) as usize; let mut b = prose(r, n, true, false).into_bytes(); b.insert(b.len() / 2, 0); (b, "utf8-with-nul".into()) }
    }
}

#[derive(Clone, Copy, Debug, PartialEq)]
enum OptClass { Default, Plain, AutoOffInstant, PlainUri, AutoOffInstantUri, DefaultBudget0, PlainSearchText }
fn make_opts(c: OptClass, k: u32) -> PutOptions {
    let mut o = PutOptions::default();
    o.timestamp = Some(1_700_000_000 + k as i64);
    match c {
        OptClass::Default => {}
        OptClass::Plain => { o.auto_tag = false; o.extract_dates = false; o.extract_triplets = false; o.instant_index = false; }
        OptClass::AutoOffInstant => { o.auto_tag = false; }
        OptClass::PlainUri => { o.auto_tag = false; o.extract_dates = false; o.extract_triplets = false; o.instant_index = false; o.uri = Some(format!("mv2://c07/{}", k)); }
        OptClass::AutoOffInstantUri => { o.auto_tag = false; o.uri = Some(format!("mv2://c07/{}", k)); }
        OptClass::DefaultBudget0 => { o.extraction_budget_ms = 0; }
        OptClass::PlainSearchText => { o.auto_tag = false; o.extract_dates = false; o.extract_triplets = false; o.instant_index = false; o.search_text = Some(format!("caller text {}", k)); }
    }
    o
}

fn mime_is_text(mime: &str) -> bool {
    let m = mime.split(';').next().unwrap_or(mime).trim().to_ascii_lowercase();
    m.starts_with("text/") || ["application/json", "application/xml", "application/javascript", "application/xhtml+xml", "application/rss+xml", "application/rtf", "application/toml", "application/yaml", "application/x-yaml", "application/x-toml"].contains(&m.as_str())
}

// ------------------------------------------------------------------ reference table kept by the harness
#[derive(Clone, Debug)]
enum RefKind {
    Whole,
    /// text split into chunks; raw = the plan came from the payload itself (UTF-8), so nothing is stored in the parent
    Parent { chunks: Vec<String>, structured: bool, raw: bool },
    Chunk { text: String },
    Reuse { src: u64 },
}
#[derive(Clone, Debug)]
struct RefFrame { payload: Vec<u8>, kind: RefKind, level: i32, supersedes: Option<u64>, extracted: bool }

#[derive(Clone, Debug)]
enum OpSpec {
    Put { payload: Vec<u8>, class: OptClass, sup: Option<u64>, tag: String },
    Reuse { target: u64 },
    Delete { target: u64 },
}

struct Planned {
    seq: u64,
    spec: OpSpec,
    level: i32,
    first_id: u64,          // frame id the first insert of this op will get
    nframes: u64,
    raw_plan: Option<Vec<String>>,
    below_but_chunked: bool,
    extracted_plan: Option<Vec<String>>,
    structured: bool,
    pred_parent_no_stext: bool,
    pred_chunk_no_stext: Vec<bool>,
    pred_mime: Option<bool>,
}

fn extraction_text(payload: &[u8], o: &PutOptions, mime: Option<&str>, uri: Option<&str>) -> Option<String> {
    let budgeted = o.instant_index && o.extraction_budget_ms > 0;
    if budgeted {
        let b = memvid_core::extract_budgeted::ExtractionBudget::with_ms(o.extraction_budget_ms);
        match memvid_core::extract_budgeted::extract_with_budget(payload, mime, uri, b) { Ok(x) if !x.text.is_empty() => Some(x.text), _ => None }
    } else {
        match std::str::from_utf8(payload) { Ok(t) if !payload[..payload.len().min(8192)].contains(&0) && !t.trim().is_empty() => Some(t.to_string()), _ => None }
    }
}

fn blank(s: &str) -> bool { normalize_text(s, 32_768).map_or(true, |n| n.text.trim().is_empty()) }

// ------------------------------------------------------------------ one history
struct Tables { z: Vec<(i32, Vec<u8>, Vec<u8>)>, h: HashMap<Vec<u8>, Vec<u8>>, u: Vec<Vec<u8>>, s: Vec<(u64, Vec<u8>)> }
impl Tables {
    fn digest(&mut self, b: &[u8]) -> Vec<u8> { let d = blake3::hash(b).as_bytes().to_vec(); self.h.insert(b.to_vec(), d.clone()); d }
    fn utf8(&mut self, b: &[u8]) { if std::str::from_utf8(b).is_ok() && !self.u.iter().any(|x| x == b) { self.u.push(b.to_vec()); } }
    fn summary(&mut self, n: u64) { if !self.s.iter().any(|x| x.0 == n) { self.s.push((n, format!("<binary payload: {} bytes>", n).into_bytes())); } }
    fn zstd(&mut self, level: i32, p: &[u8], s: &[u8]) { if !self.z.iter().any(|x| x.0 == level && x.1 == p) { self.z.push((level, p.to_vec(), s.to_vec())); } }
}

// every byte string longer than 48 bytes is bound once per case (`let bN := hex "..." in`) and referred to by name: payloads
// occur in the op, the zstd / BLAKE3 / UTF-8 tables and (as search text) in the entry metadata
thread_local! { static POOL: std::cell::RefCell<(Vec<Vec<u8>>, HashMap<Vec<u8>, usize>)> = std::cell::RefCell::new((vec![], HashMap::new())); }
fn pool_reset() { POOL.with(|p| { let mut p = p.borrow_mut(); p.0.clear(); p.1.clear(); }); }
/// literal; long ones are split so that no string literal exceeds 2 KiB
fn lit(b: &[u8]) -> T { if b.len() <= 2048 { T::H(b.to_vec()) } else { T::C("app", vec![T::H(b[..2048].to_vec()), lit(&b[2048..])]) } }
fn bh(b: &[u8]) -> T {
    if b.len() <= 48 { return T::H(b.to_vec()); }
    let i = POOL.with(|p| { let mut p = p.borrow_mut(); if let Some(i) = p.1.get(b) { *i } else { let i = p.0.len(); p.0.push(b.to_vec()); p.1.insert(b.to_vec(), i); i } });
    T::C(Box::leak(format!("b{}", i).into_boxed_str()), vec![])
}
/// wraps the case input: let b0 := ... in let b1 := ... in id (input)
fn pool_wrap(input: T) -> T {
    let prefix = POOL.with(|p| { let p = p.borrow(); let mut s = String::new(); for (i, b) in p.0.iter().enumerate() { s.push_str(&format!("let b{} : bytes := {} in ", i, lit(b).coq())); } s.push_str("id"); s });
    T::C(Box::leak(prefix.into_boxed_str()), vec![input])
}
fn opt_n(v: Option<u64>) -> T { match v { Some(x) => T::some(T::N(x as u128)), None => T::none() } }
fn opt_h(v: &Option<Vec<u8>>) -> T { match v { Some(x) => T::some(bh(x)), None => T::none() } }
fn opt_b(v: Option<bool>) -> T { match v { Some(x) => T::some(T::B(x)), None => T::none() } }
fn ok(t: T) -> T { T::C("Ok", vec![t]) }
fn err(k: u128) -> T { T::C("Err", vec![T::N(k)]) }

fn err_kind(e: &str) -> u128 {
    let table = [("exceeds maximum", 1), ("wal region overflow", 2), ("overlaps wal", 3), ("range overflow", 4), ("past data region", 5), ("past file length", 6),
                 ("failed to decode", 8), ("chunk canonical length", 13), ("canonical length mismatch", 9), ("missing chunk manifest", 10), ("missing children", 11), ("manifest length mismatch", 12)];
    for (s, k) in table { if e.contains(s) { return k; } }
    if e.contains("fill whole buffer") || e.contains("UnexpectedEof") { 7 } else { 99 }
}

fn frame_meta(f: &Frame) -> (Option<Vec<u8>>, Option<bool>) {
    (f.search_text.as_ref().map(|s| s.as_bytes().to_vec()), f.metadata.as_ref().and_then(|m| m.mime.as_ref()).map(|m| mime_is_text(m)))
}
fn meta_term(m: &(Option<Vec<u8>>, Option<bool>)) -> T { T::Tup(vec![opt_h(&m.0), opt_b(m.1)]) }

struct Hist { input: T, output: T, viol: Option<String>, tags: Vec<String>, nontrivial: bool }

#[derive(Clone, Copy, PartialEq, Debug)]
enum EndKind { Commit, CrashReplay }

/// reads every frame of the live handle: model rows + property oracle against the reference table
fn observe(d: &mut Driver, reference: &[RefFrame], tb: &mut Tables, viol: &mut Option<String>, when: &str, tags: &mut Vec<String>, known2: &mut bool) -> (Vec<T>, Vec<Frame>) {
    let n = d.mem().frame_count() as u64;
    let file = std::fs::read(&d.path).unwrap_or_default();
    let mut rows = vec![]; let mut frames = vec![];
    let mut canon_all: Vec<Option<Vec<u8>>> = vec![];
    for id in 0..n {
        let f = d.mem().frame_by_id(id).expect("frame_by_id");
        let canon = d.mem().frame_canonical_payload(id);
        let blob = match d.mem().blob_reader(id) { Ok(mut b) => { let l = b.len(); let mut v = Vec::new(); match b.read_to_end(&mut v) { Ok(_) => Ok((l, v)), Err(e) => Err(e.to_string()) } } Err(e) => Err(e.to_string()) };
        let text = d.mem().frame_text_by_id(id);
        let window: Vec<u8> = { let a = f.payload_offset as usize; let b = a.saturating_add(f.payload_length as usize); if b <= file.len() { file[a..b].to_vec() } else { vec![] } };
        tb.digest(&window);
        let canon_t = match &canon { Ok(b) => { tb.utf8(b); tb.summary(b.len() as u64); ok(T::Tup(vec![T::N(b.len() as u128), T::H(tb.digest(b))])) } Err(e) => err(err_kind(&e.to_string())) };
        let blob_t = match &blob { Ok((l, v)) => ok(T::Tup(vec![T::B(f.canonical_encoding == CanonicalEncoding::Plain), T::N(*l as u128), T::H(tb.digest(v))])), Err(e) => err(err_kind(e)) };
        let text_t = match &text { Ok(s) => ok(T::H(tb.digest(s.as_bytes()))), Err(e) => err(err_kind(&e.to_string())) };
        tb.summary(f.canonical_length.unwrap_or(f.payload_length));
        let role = match f.role { FrameRole::Document => 0, FrameRole::DocumentChunk => 1, FrameRole::ExtractedImage => 2 };
        let status = match f.status { FrameStatus::Active => 0, FrameStatus::Superseded => 1, FrameStatus::Deleted => 2 };
        rows.push(T::Tup(vec![
            T::Tup(vec![T::N(f.payload_offset as u128), T::N(f.payload_length as u128), T::H(f.checksum.to_vec()), T::B(f.canonical_encoding == CanonicalEncoding::Zstd), opt_n(f.canonical_length),
                        T::N(role), opt_n(f.chunk_manifest.as_ref().map(|m| m.chunks.len() as u64)), opt_n(f.parent_id), opt_n(f.chunk_index.map(|x| x as u64)), T::N(status)]),
            T::Tup(vec![canon_t, blob_t, text_t])]));
        // ---------------- property oracle ----------------
        if let Some(rf) = reference.get(id as usize) {
            let set = |v: &mut Option<String>, s: String| { if v.is_none() { *v = Some(s); } };
            if f.payload_length > 0 && blake3::hash(&window).as_bytes() != &f.checksum { set(viol, format!("checksum-mismatch: {} frame {}: checksum differs from BLAKE3 of the stored window [{}, +{})", when, id, f.payload_offset, f.payload_length)); }
            match &rf.kind {
                RefKind::Whole | RefKind::Reuse { .. } => {
                    let p = &rf.payload;
                    let has_manifest = f.chunk_manifest.is_some();
                    match &canon {
                        Ok(b) if b == p => {}
                        Ok(b) => {
                            if has_manifest && std::str::from_utf8(p).is_err() { *known2 = true; set(viol, format!("binary-parent-chunked: {} frame {}: non-UTF-8 payload of {} bytes stored whole, but frame_canonical_payload returns the {} bytes of its extracted-text chunks", when, id, p.len(), b.len())); }
                            else { set(viol, format!("canonical-mismatch: {} frame {}: put {} bytes, frame_canonical_payload returned {} different bytes", when, id, p.len(), b.len())); }
                        }
                        Err(e) => set(viol, format!("canonical-read-error: {} frame {}: {}", when, id, e)),
                    }
                    match &blob {
                        Ok((l, v)) if v == p && *l == p.len() as u64 => {}
                        Ok((l, v)) => set(viol, format!("blob-mismatch: {} frame {}: put {} bytes, blob reader len {} returned {} bytes{}", when, id, p.len(), l, v.len(), if v == p { "" } else { " (different)" })),
                        Err(e) => set(viol, format!("blob-read-error: {} frame {}: {}", when, id, e)),
                    }
                    if f.canonical_length != Some(p.len() as u64) { set(viol, format!("canonical-length-wrong: {} frame {}: canonical_length {:?} for a payload of {} bytes", when, id, f.canonical_length, p.len())); }
                    if let RefKind::Reuse { src } = &rf.kind {
                        if let Some(s) = frames.get(*src as usize) { let s: &Frame = s; if s.payload_offset != f.payload_offset || s.payload_length != f.payload_length || s.checksum != f.checksum { set(viol, format!("reuse-not-shared: {} frame {} does not share offset/length/checksum with frame {}", when, id, src)); } }
                    }
                }
                RefKind::Chunk { text } => {
                    if canon.as_ref().ok().map(|b| b.as_slice()) != Some(text.as_bytes()) { set(viol, format!("chunk-mismatch: {} chunk frame {}: canonical payload differs from the planned chunk text", when, id)); }
                    if blob.as_ref().ok().map(|x| x.1.as_slice()) != Some(text.as_bytes()) { set(viol, format!("blob-mismatch: {} chunk frame {}: blob reader differs from the planned chunk text", when, id)); }
                }
                RefKind::Parent { .. } => {}
            }
        }
        canon_all.push(canon.ok());
        frames.push(f);
    }
    // chunked documents: parent canonical = concatenation of its chunk frames in chunk_index order
    for (id, rf) in reference.iter().enumerate() {
        if let RefKind::Parent { chunks, structured, raw } = &rf.kind {
            if id >= frames.len() { continue; }
            let set = |v: &mut Option<String>, s: String| { if v.is_none() { *v = Some(s); } };
            let mut kids: Vec<&Frame> = frames.iter().filter(|c| c.parent_id == Some(id as u64) && c.role == FrameRole::DocumentChunk).collect();
            kids.sort_by_key(|c| (c.chunk_index.unwrap_or(u32::MAX), c.id));
            let mut cat = Vec::new(); let mut all = true;
            for k in &kids { match &canon_all[k.id as usize] { Some(b) => cat.extend_from_slice(b), None => all = false } }
            if kids.len() != chunks.len() { set(viol, format!("chunk-count: {} document {} has {} chunk frames, {} were planned", when, id, kids.len(), chunks.len())); }
            if !*raw { continue; } // parent stores the binary payload: checked as Whole below through known class 2
            if frames[id].status == FrameStatus::Active && all {
                match &canon_all[id] {
                    Some(b) if *b == cat => {}
                    Some(b) => set(viol, format!("chunk-concat-mismatch: {} document {}: canonical payload ({} bytes) differs from the concatenation of its chunk frames ({} bytes)", when, id, b.len(), cat.len())),
                    None => set(viol, format!("canonical-read-error: {} chunked document {} cannot be read", when, id)),
                }
                if !*structured {
                    let norm = std::str::from_utf8(&rf.payload).ok().and_then(|t| normalize_text(t, usize::MAX)).map(|n| n.text).unwrap_or_default();
                    if cat != norm.as_bytes() { set(viol, format!("chunk-text-lost: {} document {}: concatenated chunks ({} bytes) differ from the normalized text ({} bytes)", when, id, cat.len(), norm.len())); }
                }
                if let Ok(mut b) = d.mem().blob_reader(id as u64) { let mut v = Vec::new(); let _ = b.read_to_end(&mut v); if v.is_empty() { tags.push("obs:blob-reader-of-chunked-parent-is-empty".into()); } }
            }
        }
    }
    (rows, frames)
}

fn run_history(r: &mut Rng, script: Option<Vec<(Vec<OpSpec>, Option<i32>, EndKind, bool)>>, nbatches: usize) -> Hist {
    pool_reset();
    let mut d = Driver::new();
    let mut tb = Tables { z: vec![], h: HashMap::new(), u: vec![], s: vec![] };
    let mut reference: Vec<RefFrame> = vec![];
    let mut viol: Option<String> = None; let mut tags: Vec<String> = vec![];
    let mut batches_t: Vec<T> = vec![]; let mut outs_t: Vec<T> = vec![];
    let (_, wal_off0, wal_size0, _, _) = memvid_core::verif_hooks::header_fields(d.mem());
    let mut wal_size_prev = wal_size0;
    let mut k = 0u32; let mut nontrivial = false; let mut known2 = false;
    let total = script.as_ref().map_or(nbatches, |s| s.len());
    'outer: for bi in 0..total {
        // ---------- decide the batch ----------
        let (specs, level, end, reopen_after) = match &script {
            Some(s) => s[bi].clone(),
            None => {
                let nops = r.range(1, 4) as usize;
                let mut v = vec![];
                for _ in 0..nops {
                    let docs: Vec<u64> = (0..reference.len() as u64).filter(|i| matches!(reference[*i as usize].kind, RefKind::Whole) && !reference[*i as usize].extracted).collect();
                    let c = r.below(100);
                    if c < 78 || docs.is_empty() {
                        let (p, tag) = gen_payload(r);
                        let class = match r.below(14) { 0..=4 => OptClass::Default, 5..=7 => OptClass::Plain, 8 => OptClass::AutoOffInstant, 9 => OptClass::PlainUri, 10 => OptClass::AutoOffInstantUri, 11 => OptClass::DefaultBudget0, 12 => OptClass::PlainSearchText, _ => OptClass::AutoOffInstant };
                        let sup = if r.chance(1, 8) && !docs.is_empty() { Some(*r.pick(&docs)) } else { None };
                        v.push(OpSpec::Put { payload: p, class, sup, tag });
                    } else if c < 90 { v.push(OpSpec::Reuse { target: *r.pick(&docs) }); }
                    else { v.push(OpSpec::Delete { target: *r.pick(&docs) }); }
                }
                let level = if r.chance(1, 4) { Some(*r.pick(&[0i32, 0, 1, 3, 9])) } else { None };
                let end = if r.chance(1, 5) { EndKind::CrashReplay } else { EndKind::Commit };
                (v, level, end, r.chance(1, 3))
            }
        };
        if let Some(l) = level { let mut o = PutManyOpts::default(); o.compression_level = l; o.disable_auto_checkpoint = true; d.mem().begin_batch(o).expect("begin_batch"); tags.push(format!("level{}", l)); }
        let lvl = level.unwrap_or(3);
        // ---------- run the ops ----------
        let mut planned: Vec<Planned> = vec![];
        let mut next_id = reference.len() as u64;
        let mut used: Vec<u64> = vec![];
        for spec in specs {
            k += 1;
            match &spec {
                OpSpec::Put { payload, class, sup, tag } => {
                    if let Some(t) = sup { if used.contains(t) || reference.get(*t as usize).map_or(true, |x| !matches!(x.kind, RefKind::Whole) || x.extracted) { continue; } if !matches!(d.mem().frame_by_id(*t).map(|f| f.status), Ok(FrameStatus::Active)) { continue; } used.push(*t); }
                    let o = make_opts(*class, k);
                    tags.push(format!("payload:{}", tag)); tags.push(format!("opts:{:?}", class)); if sup.is_some() { tags.push("update-with-payload".into()); }
                    let utf8 = std::str::from_utf8(payload).ok();
                    let raw_plan = utf8.and_then(|t| memvid_core::verif_hooks::plan_text_chunks(t)).map(|p| p.2);
                    // the property's "UTF-8 text below the chunking threshold is stored whole", decided by the harness itself:
                    // fewer than 2400 CHARACTERS of normalized text => no chunk plan, reads must return exactly P
                    let norm_chars = utf8.and_then(|t| normalize_text(t, usize::MAX)).map(|n| n.text.chars().count());
                    let below_but_chunked = utf8.is_some() && norm_chars.map_or(true, |c| c < CHUNK_MIN_CHARS_REF) && raw_plan.is_some();
                    if below_but_chunked {
                        viol.get_or_insert(format!("chunked-below-threshold: UTF-8 text of {} bytes whose normalized form has {:?} characters (< {}) got a chunk plan of {} chunks: it must be stored whole", payload.len(), norm_chars, CHUNK_MIN_CHARS_REF, raw_plan.as_ref().map_or(0, |p| p.len())));
                    }
                    if utf8.is_some() && payload.len() >= CHUNK_MIN_CHARS_REF && norm_chars.map_or(true, |c| c < CHUNK_MIN_CHARS_REF) { tags.push("band:bytes>=2400>chars".into()); nontrivial = true; }
                    let budgeted = o.instant_index && o.extraction_budget_ms > 0;
                    // update_frame inherits uri / metadata / search text of the existing frame; the extractor still runs when
                    // auto_tag is on or the existing frame has no metadata (need_metadata)
                    let (ext_text, inherits) = match sup {
                        Some(t) => {
                            let ex = d.mem().frame_by_id(*t).expect("existing");
                            let mime = ex.metadata.as_ref().and_then(|m| m.mime.clone());
                            let runs = o.auto_tag || ex.metadata.is_none() || ex.search_text.as_ref().map_or(true, |x| x.trim().is_empty());
                            (if runs { extraction_text(payload, &o, mime.as_deref(), ex.uri.as_deref()) } else { None }, true)
                        }
                        None => (extraction_text(payload, &o, None, o.uri.as_deref()), false),
                    };
                    let extracted_plan = if raw_plan.is_none() { ext_text.as_ref().and_then(|t| memvid_core::verif_hooks::plan_text_chunks(t)).map(|p| p.2) } else { None };
                    let structured = utf8.and_then(|t| normalize_text(t, usize::MAX)).map_or(false, |n| memvid_core::structure::detect_structure(&n.text).has_structure());
                    let plan = raw_plan.clone().or(extracted_plan.clone());
                    let stored_nonempty = !(payload.is_empty() && lvl == 0) && raw_plan.is_none();
                    let pred_parent = !inherits && !o.auto_tag && budgeted && o.uri.is_none() && o.search_text.is_none() && plan.is_none() && ext_text.as_ref().map_or(true, |t| blank(t)) && stored_nonempty;
                    let pred_chunks: Vec<bool> = plan.as_ref().map_or(vec![], |p| p.iter().map(|c| blank(c)).collect());
                    let pred_mime = if budgeted || inherits { None } else { Some(utf8.is_some() && !payload[..payload.len().min(8192)].contains(&0)) };
                    let res = match sup { Some(t) => d.mem().update_frame(*t, Some(payload.clone()), o, None), None => d.mem().put_bytes_with_options(payload, o) };
                    match res {
                        Ok(seq) => {
                            let nframes = 1 + plan.as_ref().map_or(0, |p| p.len() as u64);
                            planned.push(Planned { seq, spec: spec.clone(), level: lvl, first_id: next_id, nframes, raw_plan, below_but_chunked, extracted_plan, structured, pred_parent_no_stext: pred_parent, pred_chunk_no_stext: pred_chunks, pred_mime });
                            next_id += nframes;
                        }
                        Err(e) => { viol.get_or_insert(format!("put-failed: put of {} bytes ({}) returned {}", payload.len(), tag, e)); break 'outer; }
                    }
                }
                OpSpec::Reuse { target } => {
                    if used.contains(target) || reference.get(*target as usize).map_or(true, |x| !matches!(x.kind, RefKind::Whole) || x.extracted) { continue; }
                    if !matches!(d.mem().frame_by_id(*target).map(|f| f.status), Ok(FrameStatus::Active)) { continue; }
                    used.push(*target);
                    let mut o = PutOptions::default(); o.auto_tag = false; o.extract_dates = false; o.extract_triplets = false; o.instant_index = false;
                    match d.mem().update_frame(*target, None, o, None) {
                        Ok(seq) => { tags.push("update-reusing-payload".into()); planned.push(Planned { seq, spec: spec.clone(), level: lvl, first_id: next_id, nframes: 1, raw_plan: None, below_but_chunked: false, extracted_plan: None, structured: false, pred_parent_no_stext: false, pred_chunk_no_stext: vec![], pred_mime: None }); next_id += 1; }
                        Err(e) => { viol.get_or_insert(format!("update-failed: payload-reusing update of frame {} returned {}", target, e)); break 'outer; }
                    }
                }
                OpSpec::Delete { target } => {
                    if used.contains(target) { continue; }
                    if !matches!(d.mem().frame_by_id(*target).map(|f| f.status), Ok(FrameStatus::Active)) { continue; }
                    used.push(*target);
                    if d.mem().delete_frame(*target).is_ok() { tags.push("delete".into()); planned.push(Planned { seq: 0, spec: spec.clone(), level: lvl, first_id: next_id, nframes: 0, raw_plan: None, below_but_chunked: false, extracted_plan: None, structured: false, pred_parent_no_stext: false, pred_chunk_no_stext: vec![], pred_mime: None }); }
                }
            }
        }
        if level.is_some() { d.mem().end_batch().expect("end_batch"); }
        if planned.is_empty() { continue; }
        // an automatic checkpoint inside a put would split the batch: give up on this history's remainder (not the object here)
        // (an automatic checkpoint in the middle of the batch shows as committed frames beyond the reference table)
        let pending = memvid_core::verif_hooks::wal_stats(d.mem()).1;
        if pending == 0 || d.mem().frame_count() as usize != reference.len() { tags.push("auto-checkpoint-split".into()); break; }
        // ---------- commit (or exit without commit + reopen, which replays) ----------
        let wal_size_before = memvid_core::verif_hooks::header_fields(d.mem()).2;
        let mut data_end_before = memvid_core::verif_hooks::data_region(d.mem()).0;
        let in_class1 = planned.iter().any(|p| p.pred_parent_no_stext || p.pred_chunk_no_stext.iter().any(|x| *x));
        let end = if in_class1 { EndKind::Commit } else { end };
        let commit_res: Result<(), String> = match end {
            EndKind::Commit => d.mem().commit().map_err(|e| e.to_string()),
            EndKind::CrashReplay => {
                tags.push("exit-without-commit+replay".into());
                // the next open recomputes data_end (lifecycle.rs compute_data_end): the maximum of the persisted footer offset and the ends of payloads / index segments, all of which lie below the footer
                data_end_before = data_end_before.max(memvid_core::verif_hooks::header_fields(d.mem()).0);
                let m = d.mem.take().unwrap();
                memvid_core::verif_hooks::drop_without_commit(m);
                match Memvid::open(&d.path) { Ok(m) => { d.mem = Some(m); if memvid_core::verif_hooks::wal_stats(d.mem()).1 > 0 { d.mem().commit().map_err(|e| e.to_string()) } else { Ok(()) } } Err(e) => Err(format!("open: {}", e)) }
            }
        };
        // ---------- model input for the batch ----------
        let failed = commit_res.is_err();
        let (wal_size_after, frames_now): (u64, Vec<Frame>) = if failed || d.mem.is_none() { (wal_size_before, vec![]) } else {
            let ws = memvid_core::verif_hooks::header_fields(d.mem()).2;
            let n = d.mem().frame_count() as u64; (ws, (0..n).map(|i| d.mem().frame_by_id(i).unwrap()).collect())
        };
        let file = if failed { vec![] } else { std::fs::read(&d.path).unwrap_or_default() };
        let window = |f: &Frame| -> Vec<u8> { let a = f.payload_offset as usize; let b = a + f.payload_length as usize; if b <= file.len() { file[a..b].to_vec() } else { vec![] } };
        let mut ops_t = vec![];
        let mut new_refs: Vec<RefFrame> = vec![];
        for p in &planned {
            let meta_for = |idx: u64, pred_none: bool, pred_mime: Option<bool>| -> (Option<Vec<u8>>, Option<bool>) {
                match frames_now.get(idx as usize) { Some(f) if !failed => frame_meta(f), _ => (if pred_none { None } else { Some(b"?".to_vec()) }, pred_mime) }
            };
            match &p.spec {
                OpSpec::Put { payload, sup, .. } => {
                    tb.utf8(payload); tb.digest(payload);
                    let pm = meta_for(p.first_id, p.pred_parent_no_stext, p.pred_mime);
                    let plan = p.raw_plan.clone().or(p.extracted_plan.clone());
                    let chunk_terms: Vec<T> = plan.as_ref().map_or(vec![], |cs| cs.iter().enumerate().map(|(i, c)| {
                        let cb = c.as_bytes(); tb.utf8(cb); tb.digest(cb);
                        let stored = match frames_now.get((p.first_id + 1 + i as u64) as usize) { Some(f) if !failed => window(f), _ => { let mut s = vec![0x28, 0xB5, 0x2F, 0xFD]; s.extend_from_slice(cb); s } };
                        tb.zstd(3, cb, &stored); tb.digest(&stored);
                        let cm = meta_for(p.first_id + 1 + i as u64, *p.pred_chunk_no_stext.get(i).unwrap_or(&false), p.pred_mime.map(|_| true));
                        T::Tup(vec![bh(cb), meta_term(&cm)])
                    }).collect());
                    let whole_stored = |tb: &mut Tables| {
                        if std::str::from_utf8(payload).is_ok() && p.level != 0 {
                            let stored = match frames_now.get(p.first_id as usize) { Some(f) if !failed => window(f), _ => { let mut s = vec![0x28, 0xB5, 0x2F, 0xFD]; s.extend_from_slice(payload); s } };
                            tb.zstd(p.level, payload, &stored); tb.digest(&stored);
                        }
                    };
                    if p.raw_plan.is_some() {
                        ops_t.push(T::Tup(vec![T::N(p.seq as u128), T::C("CPutChunked", vec![T::L(chunk_terms), meta_term(&pm), opt_n(*sup)])]));
                        // a text the harness expects whole keeps the whole-payload obligations (reads == P) even though the implementation chunked it
                        if p.below_but_chunked { new_refs.push(RefFrame { payload: payload.clone(), kind: RefKind::Whole, level: p.level, supersedes: *sup, extracted: true }); }
                        else { new_refs.push(RefFrame { payload: payload.clone(), kind: RefKind::Parent { chunks: plan.clone().unwrap(), structured: p.structured, raw: true }, level: p.level, supersedes: *sup, extracted: false }); }
                        for c in plan.as_ref().unwrap() { new_refs.push(RefFrame { payload: c.as_bytes().to_vec(), kind: RefKind::Chunk { text: c.clone() }, level: 3, supersedes: None, extracted: false }); }
                    } else if p.extracted_plan.is_some() {
                        whole_stored(&mut tb);
                        ops_t.push(T::Tup(vec![T::N(p.seq as u128), T::C("CPutExtracted", vec![T::Z(p.level as i128), bh(payload), T::L(chunk_terms), meta_term(&pm), opt_n(*sup)])]));
                        new_refs.push(RefFrame { payload: payload.clone(), kind: RefKind::Whole, level: p.level, supersedes: *sup, extracted: true });
                        for c in plan.as_ref().unwrap() { new_refs.push(RefFrame { payload: c.as_bytes().to_vec(), kind: RefKind::Chunk { text: c.clone() }, level: 3, supersedes: None, extracted: false }); }
                        tags.push("binary-with-extracted-chunks".into());
                    } else {
                        whole_stored(&mut tb);
                        ops_t.push(T::Tup(vec![T::N(p.seq as u128), T::C("CPutWhole", vec![T::Z(p.level as i128), bh(payload), meta_term(&pm), opt_n(*sup)])]));
                        new_refs.push(RefFrame { payload: payload.clone(), kind: RefKind::Whole, level: p.level, supersedes: *sup, extracted: false });
                    }
                }
                OpSpec::Reuse { target } => {
                    let pm = meta_for(p.first_id, false, None);
                    ops_t.push(T::Tup(vec![T::N(p.seq as u128), T::C("CReuse", vec![T::N(*target as u128), meta_term(&pm)])]));
                    new_refs.push(RefFrame { payload: reference[*target as usize].payload.clone(), kind: RefKind::Reuse { src: *target }, level: reference[*target as usize].level, supersedes: Some(*target), extracted: false });
                }
                OpSpec::Delete { target } => { ops_t.push(T::Tup(vec![T::N(0), T::C("CDelete", vec![T::N(*target as u128)])])); }
            }
        }
        let g1 = wal_size_before - wal_size_prev; let g2 = wal_size_after - wal_size_before;
        if g1 > 0 || g2 > 0 { tags.push("log-growth".into()); nontrivial = true; }
        batches_t.push(T::Tup(vec![T::N(g1 as u128), T::N(data_end_before as u128), T::B(true), T::L(ops_t), T::N(g2 as u128)]));
        wal_size_prev = wal_size_after;
        // ---------- outcome ----------
        match commit_res {
            Err(e) => {
                let kind = err_kind(&e);
                outs_t.push(err(kind));
                let what = planned.iter().find(|p| p.pred_parent_no_stext).map(|p| match &p.spec { OpSpec::Put { payload, class, tag, .. } => format!("; the batch holds a put of {} bytes ({}) with {:?} options whose log entry has no search text", payload.len(), tag, class), _ => String::new() })
                    .unwrap_or_else(|| if in_class1 { "; a planned chunk is a single whitespace character, its log entry has no search text".to_string() } else { String::new() });
                viol.get_or_insert(format!("commit-failed: commit returned '{}'{}", e, what));
                { let m = d.mem.take().unwrap(); memvid_core::verif_hooks::drop_without_commit(m); if Memvid::open(&d.path).is_err() { tags.push("obs:unopenable-after-failed-commit".into()); } }
                nontrivial = true;
                break 'outer;
            }
            Ok(()) => {
                if in_class1 { tags.push("entry-without-search-text-read-during-apply".into()); nontrivial = true; }
                reference.extend(new_refs);
                for p in &planned { match &p.spec { OpSpec::Reuse { target } | OpSpec::Put { sup: Some(target), .. } => { let _ = target; } _ => {} } }
                if reference.len() as u64 != d.mem().frame_count() as u64 { viol.get_or_insert(format!("frame-count: {} frames after the commit, {} expected", d.mem().frame_count(), reference.len())); outs_t.push(err(98)); break 'outer; }
                let (rows, frames_before) = observe(&mut d, &reference, &mut tb, &mut viol, &format!("after batch {} ({:?})", bi, end), &mut tags, &mut known2);
                outs_t.push(ok(T::L(rows)));
                if planned.iter().any(|p| p.nframes > 1) { nontrivial = true; }
                if reference.iter().any(|x| matches!(x.kind, RefKind::Whole)) { nontrivial = true; }
                if reopen_after {
                    tags.push("reopen".into());
                    let m = d.mem.take().unwrap(); drop(m);
                    match Memvid::open(&d.path) {
                        Ok(m) => { d.mem = Some(m); }
                        Err(e) => { viol.get_or_insert(format!("open-failed: reopen after batch {} failed: {}", bi, e)); break 'outer; }
                    }
                    let mut t2 = Tables { z: vec![], h: HashMap::new(), u: vec![], s: vec![] };
                    let (_, frames_after) = observe(&mut d, &reference, &mut t2, &mut viol, &format!("after reopen following batch {}", bi), &mut tags, &mut known2);
                    for (a, b) in frames_before.iter().zip(frames_after.iter()) {
                        if a.payload_offset != b.payload_offset || a.payload_length != b.payload_length || a.checksum != b.checksum || a.canonical_length != b.canonical_length || a.canonical_encoding != b.canonical_encoding {
                            viol.get_or_insert(format!("reopen-changed-frame: frame {} payload fields differ after reopen", a.id));
                        }
                    }
                    let ws = memvid_core::verif_hooks::header_fields(d.mem()).2;
                    if ws != wal_size_prev { tags.push("log-growth-on-open".into()); break 'outer; }
                }
            }
        }
    }
    let _ = known2;
    let mut h: Vec<(Vec<u8>, Vec<u8>)> = tb.h.into_iter().collect(); h.sort();
    let tables = T::Tup(vec![
        T::L(tb.z.iter().map(|(l, p, s)| T::Tup(vec![T::Z(*l as i128), bh(p), bh(s)])).collect()),
        T::L(h.into_iter().map(|(k, v)| T::Tup(vec![bh(&k), T::H(v)])).collect()),
        T::L(tb.u.iter().map(|b| bh(b)).collect()),
        T::L(tb.s.iter().map(|(n, s)| T::Tup(vec![T::N(*n as u128), T::H(s.clone())])).collect()),
    ]);
    tags.sort(); tags.dedup();
    Hist { input: pool_wrap(T::Tup(vec![T::N(wal_off0 as u128), T::N(wal_size0 as u128), tables, T::L(batches_t)])), output: T::L(outs_t), viol, tags, nontrivial }
}

fn put(payload: Vec<u8>, class: OptClass, tag: &str) -> OpSpec { OpSpec::Put { payload, class, sup: None, tag: tag.to_string() } }

pub fn run(seed: u64, n: usize, w: &mut dyn std::io::Write) {
    let mut r = Rng::new(seed ^ 0xC07);
    let mut fixed: Vec<Vec<(Vec<OpSpec>, Option<i32>, EndKind, bool)>> = vec![];
    // tiny payloads, every option class that does not fail
    fixed.push(vec![
        (vec![put(vec![], OptClass::Default, "empty"), put(vec![0xFF], OptClass::Default, "1b"), put(vec![0xFF, 0xFE, 0, 1], OptClass::Default, "4b"), put(vec![0; 8], OptClass::Plain, "zero8")], None, EndKind::Commit, true),
        (vec![put(vec![], OptClass::Plain, "empty"), put(vec![0x41], OptClass::AutoOffInstantUri, "1b-ascii"), put(vec![0; 3], OptClass::DefaultBudget0, "zero3"), put(vec![], OptClass::PlainSearchText, "empty")], None, EndKind::CrashReplay, false),
        (vec![put(vec![], OptClass::Plain, "empty-level0"), put(b"abc".to_vec(), OptClass::Default, "text-level0")], Some(0), EndKind::Commit, true),
    ]);
    // the chunking threshold
    fixed.push(vec![
        (vec![put(exact_text(&mut r, 2399, false).into_bytes(), OptClass::Default, "utf8-2399"), put(exact_text(&mut r, 2400, false).into_bytes(), OptClass::Default, "utf8-2400"), put(exact_text(&mut r, 2401, true).into_bytes(), OptClass::Plain, "utf8-2401")], None, EndKind::Commit, true),
        (vec![put(exact_text(&mut r, 2400, true).into_bytes(), OptClass::Plain, "utf8-2400-level0")], Some(0), EndKind::Commit, false),
    ]);
    // witnesses of the known findings
    fixed.push(vec![(vec![put(b"first good document".to_vec(), OptClass::Default, "utf8-small")], None, EndKind::Commit, false),
                    (vec![put(vec![0u8; 8], OptClass::AutoOffInstant, "tiny-zero")], None, EndKind::Commit, false)]);
    fixed.push(vec![(vec![put(format!("{}. {}", exact_text(&mut r, 1100, false), "x".repeat(1600)).into_bytes(), OptClass::Default, "blank-chunk")], None, EndKind::Commit, false)]);
    fixed.push(vec![(vec![put({ let mut b = prose(&mut r, 3000, false, false).into_bytes(); b[1500] = 0xFF; b }, OptClass::Default, "non-utf8-long-texty")], None, EndKind::Commit, true)]);
    // multi-byte text around every size threshold: characters in {1200,1201,2399,2400,2401} with >= 2400 bytes, and bytes in
    // {2399,2400,2401} with fewer characters; 2-, 3-, 4-byte code points, pure and mixed with ASCII; normalized and not
    for (m, classes) in [(Mix::Three, [OptClass::Default, OptClass::Plain]), (Mix::Four, [OptClass::Plain, OptClass::Default]), (Mix::Mixed, [OptClass::Default, OptClass::AutoOffInstant])] {
        let mut b1 = vec![]; let mut b2 = vec![];
        for (i, c) in [1200usize, 1201, 2399, 2399].iter().enumerate() { let (p, t) = mb_payload(&mut r, Some(*c), None, m, i % 2 == 1); b1.push(put(p, classes[i % 2], &t)); }
        for (i, c) in [2400usize, 2401].iter().enumerate() { let (p, t) = mb_payload(&mut r, Some(*c), None, m, i % 2 == 0); b2.push(put(p, classes[i % 2], &t)); }
        fixed.push(vec![(b1, None, EndKind::Commit, false), (b2, None, EndKind::Commit, true)]);
    }
    {
        let mut b1 = vec![]; let mut b2 = vec![];
        for (i, c) in [2399usize, 2399, 2400, 2401].iter().enumerate() { let (p, t) = mb_payload(&mut r, Some(*c), None, Mix::Two, i % 2 == 1); b1.push(put(p, if i % 2 == 0 { OptClass::Default } else { OptClass::Plain }, &t)); }
        for (i, b) in [2399usize, 2400, 2401, 2400].iter().enumerate() { let (p, t) = mb_payload(&mut r, None, Some(*b), if i == 3 { Mix::Four } else { Mix::Three }, i % 2 == 1); b2.push(put(p, if i % 2 == 0 { OptClass::Plain } else { OptClass::Default }, &t)); }
        fixed.push(vec![(b1, None, EndKind::Commit, false), (b2, Some(0), EndKind::CrashReplay, true)]);
    }
    let nfixed = fixed.len();
    for i in 0..n.max(nfixed) {
        let h = if i < nfixed { let mut h = run_history(&mut r, Some(fixed[i].clone()), 0); h.tags.push("fixed".into()); h } else { let nb = r.range(1, 4) as usize; run_history(&mut r, None, nb) };
        let key = blake3::hash(h.input.coq().as_bytes()).to_hex()[..16].to_string();
        emit(w, "hist", &Case { input: h.input, output: h.output, violation: h.viol, nontrivial: h.nontrivial, tags: h.tags, key });
    }
}

