//! C37 adaptive cut-off: find_adaptive_cutoff (five strategies) and normalize_scores,
//! compared with the Coq model on u32 bit patterns.
//!
//! Streams
//!   cutoff        finite, NaN-free scores + config -> Ok (cut-off index, trigger code) | Panic
//!   normalize     finite, NaN-free scores -> normalized scores (bit patterns; -0 printed as +0, see below)
//!   cutoff_nf     same runner as `cutoff`, but the scores / parameters contain NaN and +-inf
//!   normalize_nf  same runner as `normalize`, inputs contain NaN and +-inf (NaN outputs printed as 0x7FC00000)
//!
//! Canonicalisation: only in the *outputs* of normalize: (1) every NaN is printed as 0x7FC00000 (the
//! payload of an arithmetic NaN is platform specific), (2) -0 is printed as +0, because `f32::max`
//! / `f32::min` may return either zero for (+0, -0) (documented as unspecified), which decides the
//! sign of a zero difference `s - min_score` and nothing else.  Cut-off indices never depend on
//! the sign of a zero (no division by zero is reachable: every divisor is > EPSILON or n-1 >= 2).
use crate::term::*;
use memvid_core::types::{find_adaptive_cutoff, normalize_scores, AdaptiveConfig, CutoffStrategy};

const MAXF: f32 = f32::MAX;

fn trigger_code(s: &str) -> u128 {
    match s {
        "no_results" => 0,
        "min_results" => 1,
        "absolute_threshold" => 2,
        "no_cutoff" => 3,
        "too_few_points" => 5,
        "flat_curve" => 6,
        "elbow_detection" => 7,
        "no_significant_elbow" => 8,
        "absolute_min" => 9,
        "relative_threshold" => 10,
        _ if s.starts_with("score_cliff(") => 4,
        _ => 99,
    }
}

fn canon_out(x: f32) -> u128 {
    if x.is_nan() { 0x7FC0_0000 } else if x == 0.0 { 0 } else { x.to_bits() as u128 }
}

fn unit(r: &mut Rng) -> f32 { (r.below(1 << 24) as f32) / ((1u32 << 24) as f32) }

/// a finite, non-NaN "interesting" float
fn special(r: &mut Rng) -> f32 {
    match r.below(16) {
        0 => 0.0,
        1 => -0.0,
        2 => f32::EPSILON,
        3 => f32::from_bits(f32::EPSILON.to_bits() - 1),
        4 => f32::from_bits(f32::EPSILON.to_bits() + 1),
        5 => f32::MIN_POSITIVE,
        6 => f32::from_bits(1 + r.below(0x7FFFFF) as u32),            // subnormal
        7 => -f32::from_bits(1 + r.below(0x7FFFFF) as u32),
        8 => MAXF,
        9 => -MAXF,
        10 => f32::from_bits(0x7F00_0000 + r.below(0x7FFFFF) as u32), // >= 2^127
        11 => -f32::from_bits(0x7F00_0000 + r.below(0x7FFFFF) as u32),
        12 => 1.0,
        13 => 0.5,
        14 => 0.05,
        _ => f32::from_bits((r.next() as u32) % 0x7F80_0000) * if r.chance(1, 2) { -1.0 } else { 1.0 }, // any finite
    }
}

fn gen_scores(r: &mut Rng, tags: &mut Vec<String>) -> Vec<f32> {
    let n = match r.below(20) { 0 => 0, 1 => 1, 2 => 2, 3 => 3, 4..=12 => r.range(4, 12) as usize, 13..=17 => r.range(13, 30) as usize, _ => r.range(31, 60) as usize };
    let style = r.below(13);
    let mut v: Vec<f32> = Vec::with_capacity(n);
    let name;
    match style {
        0 | 1 => { name = "unit"; for _ in 0..n { v.push(unit(r)); } }
        2 => { name = "bm25"; for _ in 0..n { v.push(unit(r) * 30.0); } }
        3 => { // geometric decay with occasional cliffs
            name = "decay";
            let mut x = 0.5 + unit(r) * 20.0;
            for _ in 0..n { v.push(x); x *= if r.chance(1, 5) { 0.3 + unit(r) * 0.3 } else { 0.85 + unit(r) * 0.15 }; }
        }
        4 => { // few distinct values on a dyadic grid: exact ties with thresholds
            name = "grid";
            let k = r.range(1, 5);
            let scale = *r.pick(&[1.0f32, 1.0, 2.0, 8.0]);
            let neg = r.chance(1, 4);
            for _ in 0..n { let g = r.below(k + 1) as f32 / k as f32 * scale; v.push(if neg { g - scale * 0.5 } else { g }); }
        }
        5 => { // clustered: range around / below EPSILON
            name = "cluster";
            let base = *r.pick(&[0.0f32, 0.5, 1.0, 1.0, 1e-3, 100.0]);
            let step = *r.pick(&[f32::EPSILON, f32::EPSILON / 2.0, f32::EPSILON / 4.0, f32::EPSILON * 2.0, 1e-6, 0.0]);
            let levels = if r.chance(1, 2) { 2 } else { 3 };   // two levels: range == step exactly (the `range < EPSILON` edge)
            for _ in 0..n { v.push(base + step * r.below(levels) as f32); }
        }
        6 => { name = "negative"; for _ in 0..n { v.push(unit(r) * 4.0 - if r.chance(1, 2) { 4.0 } else { 2.0 }); } }
        7 => { name = "special"; for _ in 0..n { v.push(special(r)); } }
        8 => { // huge magnitudes, mixed signs: max - min may overflow
            name = "huge";
            let mixed = r.chance(2, 3);
            for _ in 0..n {
                let m = f32::from_bits(0x7E80_0000 + r.below(0x00FF_FFFF) as u32); // 2^126 .. MAX
                v.push(if mixed && r.chance(1, 2) { -m } else { m });
            }
        }
        9 => { name = "tiny"; for _ in 0..n { let m = f32::from_bits(r.below(0x0100_0000) as u32); v.push(if r.chance(1, 3) { -m } else { m }); } }
        10 => { // elbow curve: plateau then drop
            name = "elbow";
            let k = if n > 0 { r.below(n as u64) as usize } else { 0 };
            let hi = 0.7 + unit(r) * 0.3; let lo = unit(r) * 0.5;
            for i in 0..n { let j = unit(r) * 0.05; v.push(if i < k { hi - j - 0.01 * i as f32 } else { lo - j * 0.5 - 0.005 * i as f32 }); }
        }
        11 => { // collinear points: every distance to the chord is rounding noise (elbow strategy edge)
            name = "linear";
            let hi = if r.chance(1, 2) { 1.0 } else { 0.2 + unit(r) * 10.0 };
            let step = if r.chance(1, 3) { 0.0 } else if r.chance(1, 2) { 1.0 / 64.0 } else { unit(r) * 0.1 };
            for i in 0..n { v.push(hi - step * i as f32); }
        }
        _ => { name = "anybits"; for _ in 0..n { v.push(f32::from_bits((r.next() as u32) % 0x7F80_0000) * if r.chance(1, 2) { -1.0 } else { 1.0 }); } }
    }
    tags.push(format!("style_{}", name));
    // realistic order: descending (search results), sometimes left unsorted, sometimes with one swap
    match r.below(10) {
        0..=5 => { v.sort_by(|a, b| b.partial_cmp(a).unwrap()); tags.push("sorted_desc".into()); }
        6 => { v.sort_by(|a, b| b.partial_cmp(a).unwrap()); if v.len() >= 2 { let i = r.below(v.len() as u64 - 1) as usize; v.swap(i, i + 1); } tags.push("one_swap".into()); }
        7 => { v.sort_by(|a, b| a.partial_cmp(b).unwrap()); tags.push("sorted_asc".into()); }
        _ => tags.push("unsorted".into()),
    }
    tags.push(format!("n_{}", match v.len() { 0 => "0", 1 => "1", 2 => "2", 3 => "3", 4..=12 => "4-12", 13..=30 => "13-30", _ => "31-60" }));
    v
}

/// a parameter value: sensible, exactly equal to a value the code compares with, or out of range
fn gen_param(r: &mut Rng, pool: &[f32]) -> f32 {
    match r.below(14) {
        0..=3 => unit(r),
        4 | 5 if !pool.is_empty() => *r.pick(pool),
        6 => *r.pick(&[0.0f32, -0.0, 1.0, 0.5, 0.25, 0.3, 0.4, 0.05]),
        7 => -unit(r),
        8 => 1.0 + unit(r) * 3.0,
        9 => special(r),
        10 if !pool.is_empty() => { let p = *r.pick(pool); let b = p.to_bits(); if p.is_finite() && b & 0x7FFF_FFFF != 0 && b & 0x7FFF_FFFF < 0x7F7F_FFFF { f32::from_bits(if r.chance(1, 2) { b + 1 } else { b - 1 }) } else { p } }
        _ => unit(r),
    }
}

fn strategy_of(k: u64, p: [f32; 3]) -> CutoffStrategy {
    match k {
        0 => CutoffStrategy::AbsoluteThreshold { min_score: p[0] },
        1 => CutoffStrategy::RelativeThreshold { min_ratio: p[0] },
        2 => CutoffStrategy::ScoreCliff { max_drop_ratio: p[0] },
        3 => CutoffStrategy::Elbow { sensitivity: p[0] },
        _ => CutoffStrategy::Combined { relative_threshold: p[0], max_drop_ratio: p[1], absolute_min: p[2] },
    }
}

/// independent computation of "max - min overflows" for finite inputs (no f32::max / fold)
fn range_overflows(scores: &[f32]) -> bool {
    if scores.is_empty() || scores.iter().any(|s| !s.is_finite()) { return false; }
    let mut hi = scores[0]; let mut lo = scores[0];
    for &s in scores { if s > hi { hi = s; } if s < lo { lo = s; } }
    (hi - lo).is_infinite()
}

struct CutCase { scores: Vec<f32>, mr: usize, norm: bool, k: u64, p: [f32; 3] }

fn run_cutoff(c: &CutCase, finite_stream: bool, mut tags: Vec<String>, w: &mut dyn std::io::Write, stream: &str) {
    let cfg = AdaptiveConfig { enabled: true, max_results: 100, min_results: c.mr, strategy: strategy_of(c.k, c.p), normalize_scores: c.norm };
    let scores = c.scores.clone();
    let cfg2 = cfg.clone();
    let got = std::panic::catch_unwind(move || find_adaptive_cutoff(&scores, &cfg2));
    let n = c.scores.len();
    let mut viol: Option<String> = None;
    let out = match &got {
        Err(_) => { viol = Some("panic: find_adaptive_cutoff panicked".into()); T::C("Panic", vec![T::N(0)]) }
        Ok((cut, label)) => {
            let code = trigger_code(label);
            if code == 99 { viol = Some(format!("label: unknown trigger label {:?}", label)); }
            // ---- property oracle (independent of the model) ----
            let lo = c.mr.min(n);
            if !(lo <= *cut && *cut <= n) {
                viol = Some(format!("cutoff-bounds: cut-off {} outside [min(min_results,n)={}, n={}]", cut, lo, n));
            } else if (c.k == 0 || c.k == 1) && n > c.mr {
                // threshold clauses on the scores the strategy sees
                let nz = if c.norm { normalize_scores(&c.scores) } else { c.scores.clone() };
                let thr = if c.k == 0 { c.p[0] } else { nz[0] * c.p[0] };
                let ovf = c.norm && range_overflows(&c.scores);
                for i in c.mr..*cut {
                    let ok = if finite_stream { nz[i] >= thr } else { !(nz[i] < thr) };
                    if !ok && viol.is_none() {
                        viol = Some(if ovf { format!("range-overflow: max - min overflows to +inf, normalized scores contain NaN; kept result {} (score {:e}) is not >= threshold {:e}", i, nz[i], thr) }
                                    else { format!("threshold-kept: kept result {} beyond min_results={} has score {:e} < threshold {:e}", i, c.mr, nz[i], thr) });
                    }
                }
                if *cut < n && !(nz[*cut] < thr) && viol.is_none() {
                    viol = Some(format!("threshold-cut: result at the cut-off {} has score {:e} not below threshold {:e}", cut, nz[*cut], thr));
                }
                if code != 2 && code != 3 { viol = Some(format!("label: threshold strategy reported trigger {:?}", label)); }
                if (code == 3) != (*cut == n) && viol.is_none() { viol = Some(format!("label: trigger {:?} with cut-off {} of {}", label, cut, n)); }
            }
            tags.push(format!("trig_{}", code));
            tags.push(if *cut == n { "cut_all".into() } else if *cut == lo { "cut_at_min".into() } else { "cut_inside".into() });
            T::C("Ok", vec![T::Tup(vec![T::N(*cut as u128), T::N(code)])])
        }
    };
    tags.push(format!("strat_{}", c.k));
    tags.push(if c.norm { "norm_on".into() } else { "norm_off".into() });
    tags.push(if c.mr == 0 { "mr_0".into() } else if c.mr < n { "mr_lt_n".into() } else if c.mr == n { "mr_eq_n".into() } else { "mr_gt_n".into() });
    let input = T::Tup(vec![
        T::L(c.scores.iter().map(|s| T::N(s.to_bits() as u128)).collect()),
        T::Tup(vec![T::N(c.mr as u128), T::B(c.norm), T::N(c.k as u128), T::N(c.p[0].to_bits() as u128), T::N(c.p[1].to_bits() as u128), T::N(c.p[2].to_bits() as u128)]),
    ]);
    let key = blake3::hash(input.coq().as_bytes()).to_hex()[..16].to_string();
    emit(w, stream, &Case { input, output: out, violation: viol, nontrivial: n > c.mr, tags, key });
}

fn run_normalize(scores: &[f32], finite_stream: bool, mut tags: Vec<String>, w: &mut dyn std::io::Write, stream: &str) {
    let s2 = scores.to_vec();
    let got = std::panic::catch_unwind(move || normalize_scores(&s2));
    let mut viol = None;
    let mut nontrivial = false;
    let out = match &got {
        Err(_) => { viol = Some("panic: normalize_scores panicked".into()); T::L(vec![]) }
        Ok(nz) => {
            if nz.len() != scores.len() { viol = Some(format!("normalize-length: {} scores in, {} out", scores.len(), nz.len())); }
            else if finite_stream {
                // property: every output in [0,1], every maximal score mapped to exactly 1.0
                let ovf = range_overflows(scores);
                let mut bad: Option<String> = None;
                for (i, y) in nz.iter().enumerate() {
                    if !(*y >= 0.0 && *y <= 1.0) { bad = Some(format!("normalized[{}] = {:e} is outside [0,1]", i, y)); break; }
                }
                if bad.is_none() {
                    for i in 0..scores.len() {
                        if scores.iter().all(|s| *s <= scores[i]) && nz[i] != 1.0 { bad = Some(format!("maximum score at {} maps to {:e}, not 1", i, nz[i])); break; }
                    }
                }
                if let Some(b) = bad {
                    viol = Some(if ovf { format!("range-overflow: max - min overflows to +inf: {}", b) } else { format!("normalize-bounds: {}", b) });
                }
                tags.push(if ovf { "range_overflow".into() } else { "range_finite".into() });
                nontrivial = nz.iter().any(|y| *y != 1.0);
                tags.push(if nontrivial { "scaled".into() } else { "all_one".into() });
            }
            T::L(nz.iter().map(|y| T::N(canon_out(*y))).collect())
        }
    };
    let input = T::L(scores.iter().map(|s| T::N(s.to_bits() as u128)).collect());
    let key = blake3::hash(input.coq().as_bytes()).to_hex()[..16].to_string();
    emit(w, stream, &Case { input, output: out, violation: viol, nontrivial, tags, key });
}

fn nonfinite(r: &mut Rng) -> f32 {
    match r.below(6) {
        0 | 1 => f32::NAN,
        2 => f32::from_bits(0xFFC0_0001),
        3 => f32::INFINITY,
        4 => f32::NEG_INFINITY,
        _ => f32::from_bits(0x7F80_0001 + r.below(0x7F_FFFE) as u32),
    }
}

pub fn run(seed: u64, n: usize, w: &mut dyn std::io::Write) {
    let mut r = Rng::new(seed ^ 0xC37);

    // ---- fixed witnesses first (known finding F-C37-1 and the edges around it) ----
    run_normalize(&[3e38, -3e38], true, vec!["witness".into()], w, "normalize");
    run_normalize(&[MAXF, 0.0, -MAXF], true, vec!["witness".into()], w, "normalize");
    run_normalize(&[MAXF, 0.0], true, vec!["witness".into()], w, "normalize");                 // range = MAX: finite, fine
    run_normalize(&[1.7014118e38, -1.7014118e38], true, vec!["witness".into()], w, "normalize"); // 2^127 - (-2^127) = 2^128: overflow
    run_normalize(&[1.7014117e38, -1.7014117e38], true, vec!["witness".into()], w, "normalize"); // just below: finite
    run_cutoff(&CutCase { scores: vec![3e38, 1.0, -3e38], mr: 1, norm: true, k: 0, p: [0.5, 0.0, 0.0] }, true, vec!["witness".into()], w, "cutoff");
    // range exactly EPSILON (scaled) and one ulp below it (all 1.0)
    run_normalize(&[1.0 + f32::EPSILON, 1.0], true, vec!["eps_edge".into()], w, "normalize");
    run_normalize(&[f32::EPSILON, 0.0, -0.0], true, vec!["eps_edge".into()], w, "normalize");
    run_normalize(&[f32::from_bits(f32::EPSILON.to_bits() - 1), 0.0], true, vec!["eps_edge".into()], w, "normalize");
    run_normalize(&[0.5, 0.5 + f32::EPSILON / 2.0], true, vec!["eps_edge".into()], w, "normalize");
    run_cutoff(&CutCase { scores: vec![1.0 + f32::EPSILON, 1.0, 1.0], mr: 1, norm: true, k: 0, p: [0.5, 0.0, 0.0] }, true, vec!["eps_edge".into()], w, "cutoff");
    // collinear scores, negative sensitivity: the rounding residue at the LAST point (excluded by `min_results..n-1`)
    // would be the largest adjusted distance -- pins the upper loop bound of find_elbow_cutoff
    for (bits, mr) in [(&[1097640589u32, 1095433622, 1093226657, 1091019688, 1087106406, 1082692473][..], 0usize),
                       (&[1065352193, 1063411495, 1061470797, 1059530099, 1057589401, 1054332799][..], 1),
                       (&[1096499567, 1094306306, 1092113045, 1089320528, 1084934007][..], 1),
                       (&[1098367197, 1096946223, 1095525249, 1094104277, 1092683302, 1091262328, 1089163668, 1086321721][..], 1)] {
        run_cutoff(&CutCase { scores: bits.iter().map(|b| f32::from_bits(*b)).collect(), mr, norm: false, k: 3, p: [-0.5, 0.0, 0.0] }, true, vec!["elbow_last_point".into()], w, "cutoff");
    }
    // documented examples of the crate's own tests
    run_cutoff(&CutCase { scores: vec![0.95, 0.88, 0.75, 0.60, 0.45, 0.30, 0.15], mr: 1, norm: true, k: 0, p: [0.5, 0.0, 0.0] }, true, vec!["doc".into()], w, "cutoff");
    run_cutoff(&CutCase { scores: vec![1.0, 0.95, 0.9, 0.85, 0.8, 0.3, 0.25, 0.2], mr: 1, norm: true, k: 2, p: [0.4, 0.0, 0.0] }, true, vec!["doc".into()], w, "cutoff");
    run_cutoff(&CutCase { scores: vec![1.0, 0.95, 0.90, 0.85, 0.80, 0.50, 0.48, 0.46, 0.44, 0.42], mr: 1, norm: true, k: 3, p: [1.0, 0.0, 0.0] }, true, vec!["doc".into()], w, "cutoff");
    run_cutoff(&CutCase { scores: vec![0.92, 0.89, 0.87, 0.85, 0.84, 0.82, 0.80, 0.79, 0.78, 0.76, 0.75, 0.74, 0.45, 0.40, 0.35, 0.30, 0.25], mr: 1, norm: true, k: 4, p: [0.5, 0.35, 0.4] }, true, vec!["doc".into()], w, "cutoff");

    // ---- cutoff: finite NaN-free scores, all five strategies ----
    for _ in 0..n {
        let mut tags = vec![];
        let scores = gen_scores(&mut r, &mut tags);
        let len = scores.len();
        let norm = r.chance(1, 2);
        let linear = tags.iter().any(|t| t == "style_linear");
        let k = if linear && r.chance(1, 2) { 3 } else { r.below(5) };
        // values the code compares parameters with: the (normalized) scores themselves
        let pool: Vec<f32> = if r.chance(2, 3) { if norm { normalize_scores(&scores) } else { scores.clone() } } else { vec![] };
        let pool: Vec<f32> = pool.into_iter().filter(|x| x.is_finite()).collect();
        let mut p = [gen_param(&mut r, &pool), gen_param(&mut r, &[]), gen_param(&mut r, &pool)];
        if k == 3 { p[0] = match r.below(9) { 0 | 1 => 0.0, 2 => -unit(&mut r) * 2.0, 3 | 4 => 1.0, 5 => unit(&mut r) * 5.0, 6 => special(&mut r), _ => unit(&mut r) * 2.0 }; }
        if k == 3 && linear && r.chance(2, 3) { p[0] = if r.chance(1, 2) { 0.0 } else { -unit(&mut r) }; }   // threshold 0.05*s <= 0: the noisiest point wins
        if (k == 1 || k == 4) && r.chance(1, 3) { p[0] = *r.pick(&[1.0f32, 0.5, 0.25, 0.75, 2.0, 0.0, -1.0]); }
        if k == 4 && r.chance(1, 2) { p[2] = if r.chance(1, 2) { 0.0 } else { -1.0 }; }   // let the later checks of the combined loop be reached
        if k == 4 && r.chance(1, 3) { p[0] = 0.0; }
        if (k == 2 || k == 4) && len >= 2 && r.chance(1, 3) {
            // max_drop_ratio exactly equal to (or one ulp from) the drop ratio of an adjacent pair the strategy sees
            let seen = if norm { normalize_scores(&scores) } else { scores.clone() };
            let i = 1 + r.below(len as u64 - 1) as usize;
            let d = (seen[i - 1] - seen[i]) / seen[i - 1];
            if d.is_finite() {
                let b = d.to_bits();
                let d2 = match r.below(4) { 0 if b & 0x7FFF_FFFF != 0 => f32::from_bits(b - 1), 1 if b & 0x7FFF_FFFF < 0x7F7F_FFFF => f32::from_bits(b + 1), _ => d };
                if k == 2 { p[0] = d2; } else { p[1] = d2; }
                tags.push("drop_tie".into());
            }
        }
        let mr = match r.below(12) { 0 => 0, 1..=3 => 1, 4..=8 => r.below(len as u64) as usize, 9 => len.saturating_sub(1), 10 => len + r.below(3) as usize, _ => if r.chance(1, 4) { usize::MAX } else { r.below(4) as usize } };
        run_cutoff(&CutCase { scores, mr, norm, k, p }, true, tags, w, "cutoff");
    }

    // ---- normalize: finite NaN-free scores ----
    for _ in 0..(n / 3).max(8) {
        let mut tags = vec![];
        let scores = gen_scores(&mut r, &mut tags);
        run_normalize(&scores, true, tags, w, "normalize");
    }

    // ---- clearly-labelled non-finite streams: NaN / +-inf among scores or parameters ----
    for _ in 0..(n / 5).max(8) {
        let mut tags = vec![];
        let mut scores = gen_scores(&mut r, &mut tags);
        let len = scores.len();
        let hits = if len == 0 { 0 } else { r.range(0, 3.min(len as u64)) };
        for _ in 0..hits { let i = r.below(len as u64) as usize; scores[i] = nonfinite(&mut r); }
        if r.chance(1, 10) { for s in scores.iter_mut() { *s = f32::NAN; } }
        let k = r.below(5);
        let mut p = [gen_param(&mut r, &[]), gen_param(&mut r, &[]), gen_param(&mut r, &[])];
        if hits == 0 || r.chance(1, 3) { let i = r.below(3) as usize; p[i] = nonfinite(&mut r); }
        let mr = r.below(len as u64 + 2) as usize;
        tags.push("nonfinite".into());
        run_cutoff(&CutCase { scores, mr, norm: r.chance(1, 2), k, p }, false, tags, w, "cutoff_nf");
    }
    for _ in 0..(n / 8).max(8) {
        let mut tags = vec![];
        let mut scores = gen_scores(&mut r, &mut tags);
        let len = scores.len();
        if len > 0 { for _ in 0..r.range(1, 3) { let i = r.below(len as u64) as usize; scores[i] = nonfinite(&mut r); } }
        if r.chance(1, 10) { for s in scores.iter_mut() { *s = f32::NAN; } }
        tags.push("nonfinite".into());
        run_normalize(&scores, false, tags, w, "normalize_nf");
    }
}
