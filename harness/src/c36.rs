//! C36 PII masking: memvid_core::pii::{mask_pii, contains_pii} against the Coq model.
//!
//! The seven patterns are private statics of src/pii.rs.  The harness does not re-declare
//! them: it loads the strings the translator extracted from the source for this very run
//! (coq/Gen/pii_patterns.json, written next to Gen/PiiPatterns.v), compiles them with the
//! regex crate, and (a) compares per-pattern is_match / find_iter spans with the model's,
//! (b) re-runs the seven passes itself with provenance marks to decide the known class of a
//! violation.  If that reconstruction does not reproduce mask_pii's output the class is not
//! granted.  mask_pii / contains_pii themselves are only called through the public API.
use crate::term::*;
use memvid_core::pii::{contains_pii, mask_pii};
use regex::Regex;

struct Pats {
    sorted: Vec<(String, Regex)>,          // by name: index used by the `spans` stream
    mask: Vec<(Regex, String)>,            // replace_all order with tokens
    probes: (Regex, Regex, Regex),         // \d \s \w of the regex crate
    asts: Vec<Node>,                       // parsed by the translator, same order as `sorted`
}

fn load() -> Pats {
    let mut cands = vec![std::path::PathBuf::from("../coq/Gen/pii_patterns.json")];
    if let Ok(exe) = std::env::current_exe() {
        if let Some(root) = exe.ancestors().nth(4) { cands.push(root.join("coq/Gen/pii_patterns.json")); }
    }
    let txt = cands.iter().find_map(|p| std::fs::read_to_string(p).ok())
        .expect("coq/Gen/pii_patterns.json (written by tools/translate_pii.py) not found");
    let v: serde_json::Value = serde_json::from_str(&txt).expect("pii_patterns.json");
    let pm = v["patterns"].as_object().expect("patterns");
    let mut names: Vec<String> = pm.keys().cloned().collect();
    names.sort();
    let get = |n: &str| Regex::new(pm[n].as_str().unwrap()).expect("pattern compiles");
    let sorted = names.iter().map(|n| (n.clone(), get(n))).collect();
    let mask = v["mask"].as_array().unwrap().iter()
        .map(|e| (get(e[0].as_str().unwrap()), e[1].as_str().unwrap().to_string())).collect();
    let asts = names.iter().map(|n| { let mut id = 0; Node::from_json(&v["ast"][n.as_str()], &mut id) }).collect();
    Pats { sorted, mask, asts, probes: (Regex::new(r"^\d$").unwrap(), Regex::new(r"^\s$").unwrap(), Regex::new(r"^\w$").unwrap()) }
}

fn catch<R>(f: impl FnOnce() -> R + std::panic::UnwindSafe) -> Option<R> {
    let prev = std::panic::take_hook();
    std::panic::set_hook(Box::new(|_| {}));
    let r = std::panic::catch_unwind(f).ok();
    std::panic::set_hook(prev);
    r
}

// ------------------------------------------------------------------ generator
const ALNUM: &[u8] = b"abcdefghijklmnopqrstuvwxyzABCDEFGHIJKLMNOPQRSTUVWXYZ0123456789";
const TOKENS: &[&str] = &["[EMAIL]", "[SSN]", "[CREDIT_CARD]", "[PHONE]", "[IP_ADDRESS]", "[API_KEY]", "[TOKEN]"];

fn digits(r: &mut Rng, n: usize) -> String {
    (0..n).map(|_| (b'0' + r.below(10) as u8) as char).collect()
}
fn from_set(r: &mut Rng, set: &[u8], n: usize) -> String {
    (0..n).map(|_| *r.pick(set) as char).collect()
}

fn digit_fragment(r: &mut Rng, tags: &mut Vec<String>) -> String {
    let sep = |r: &mut Rng| -> &'static str { *r.pick(&["-", "-", ".", " ", " ", "", "", "(", ")", "+", "\t", ") ", "--"]) };
    match r.below(14) {
        0 => { tags.push("ssn".into()); let s = *r.pick(&["-", " ", "", "."]); format!("{}{}{}{}{}", digits(r, 3), s, digits(r, 2), s, digits(r, 4)) }
        1 => { tags.push("phone".into()); format!("({}) {}-{}", digits(r, 3), digits(r, 3), digits(r, 4)) }
        2 => { tags.push("phone".into()); let s = *r.pick(&["-", ".", " ", ""]); format!("{}{}{}{}{}{}", r.pick(&["+1-", "1-", "1 ", "+1", "1", "", "+", "+2-"]), digits(r, 3), s, digits(r, 3), s, digits(r, 4)) }
        3 => { tags.push("phone7".into()); format!("{}{}{}", digits(r, 3), r.pick(&["-", ".", " ", "", "--"]), digits(r, 4)) }
        4 => { tags.push("cc16".into()); let s = *r.pick(&["-", " ", "", "."]); format!("{}{}{}{}{}{}{}", digits(r, 4), s, digits(r, 4), s, digits(r, 4), s, digits(r, 4)) }
        5 => { tags.push("amex".into()); let s = *r.pick(&["-", " ", ""]); format!("{}{}{}{}{}", digits(r, 4), s, digits(r, 6), s, digits(r, 5)) }
        6 | 7 => { let n = r.range(3, 20) as usize; tags.push(format!("run{}", n)); digits(r, n) }
        8 => { // the known-finding family: long runs, and a 7-digit phone glued to a 10-digit one
            tags.push("longrun".into());
            match r.below(3) { 0 => { let n_ = r.range(17, 25) as usize; digits(r, n_) }, 1 => format!("{}-{}{}", digits(r, 3), digits(r, 4), digits(r, 10)), _ => format!("{}{}", digits(r, 9), digits(r, 10)) }
        }
        _ => { // random grouping of a run
            tags.push("groups".into());
            let groups = r.range(2, 5);
            let mut s = String::new();
            if r.chance(1, 4) { s.push_str(*r.pick(&["+", "(", "+1", "1-"])); }
            for g in 0..groups {
                if g > 0 { s.push_str(sep(r)); }
                let n_ = *r.pick(&[1usize, 2, 3, 3, 3, 4, 4, 4, 5, 6, 10]); s.push_str(&digits(r, n_));
            }
            s
        }
    }
}

fn email_fragment(r: &mut Rng, tags: &mut Vec<String>) -> String {
    tags.push("email".into());
    let local_set = b"abcxyzABZ019._%+-";
    let local = match r.below(5) { 0 => String::new(), 1 => { let set_ = b".+-%_"; let n_ = r.range(1, 3) as usize; from_set(r, set_, n_) }, _ => { let set_ = local_set; let n_ = r.range(1, 10) as usize; from_set(r, set_, n_) } };
    let dom = match r.below(6) { 0 => String::new(), 1 => { let set_ = b"a-."; let n_ = r.range(1, 5) as usize; from_set(r, set_, n_) }, _ => { let n = r.range(1, 3); (0..n).map(|_| { let set_ = b"abcdXYZ019-"; let n_ = r.range(1, 6) as usize; from_set(r, set_, n_) }).collect::<Vec<_>>().join(".") } };
    let tld = match r.below(8) { 0 => "c".to_string(), 1 => "c0m".to_string(), 2 => "a|b".to_string(), 3 => "||".to_string(), 4 => "COM".to_string(), 5 => { let set_ = b"abcXYZ|"; let n_ = r.range(1, 5) as usize; from_set(r, set_, n_) }, 6 => "co.uk".to_string(), _ => "com".to_string() };
    let at = if r.chance(1, 12) { "@@" } else if r.chance(1, 15) { "" } else { "@" };
    let dot = if r.chance(1, 10) { "" } else { "." };
    let tail = *r.pick(&["", "", "", "x", "9", "_", ".", "-"]);
    format!("{}{}{}{}{}{}", local, at, dom, dot, tld, tail)
}

fn ip_fragment(r: &mut Rng, tags: &mut Vec<String>) -> String {
    tags.push("ip".into());
    let octs = ["0", "1", "9", "10", "99", "100", "127", "168", "192", "199", "200", "249", "250", "255", "256", "260", "299", "300", "999", "01", "001", "0001", "00", "1234", "25", "2"];
    let n = *r.pick(&[3usize, 4, 4, 4, 4, 5, 6]);
    let sep = if r.chance(1, 10) { *r.pick(&["..", " .", ",", "-"]) } else { "." };
    (0..n).map(|_| r.pick(&octs).to_string()).collect::<Vec<_>>().join(sep)
}

fn flip_case(r: &mut Rng, s: &str, num: u64, den: u64) -> String {
    s.chars().map(|c| if r.chance(num, den) { if c.is_ascii_lowercase() { c.to_ascii_uppercase() } else { c.to_ascii_lowercase() } } else { c }).collect()
}

fn key_fragment(r: &mut Rng, tags: &mut Vec<String>) -> String {
    tags.push("key".into());
    let body_set: &[u8] = if r.chance(1, 6) { b"abcXYZ019_-" } else { ALNUM };
    let mut s = match r.below(7) {
        0 => format!("sk_live_{}", { let set_ = body_set; let n_ = r.range(20, 30) as usize; from_set(r, set_, n_) }),
        1 => format!("pk_test_{}", { let set_ = body_set; let n_ = r.range(20, 30) as usize; from_set(r, set_, n_) }),
        2 => format!("{}{}", r.pick(&["ghp_", "gho_", "ghx_"]), { let set_ = body_set; let n_ = r.range(34, 38) as usize; from_set(r, set_, n_) }),
        3 => format!("AKIA{}", { let set_ = if r.chance(1, 3) { ALNUM } else { b"ABCXYZ0189" }; let n_ = r.range(14, 18) as usize; from_set(r, set_, n_) }),
        _ => {
            let name = *r.pick(&["api_key", "api-key", "apikey", "API_KEY", "api key", "xapi_key", "api__key"]);
            let eq = *r.pick(&["=", ":", "= ", ": ", "=  ", " = ", "==", ""]);
            let q = *r.pick(&["", "", "'", "\""]);
            let q2 = if r.chance(1, 5) { "" } else { q };
            format!("{}{}{}{}{}", name, eq, q, { let set_ = b"abcdefXYZ0123456789_-"; let n_ = r.range(17, 26) as usize; from_set(r, set_, n_) }, q2)
        }
    };
    if r.chance(1, 4) { s = flip_case(r, &s, 1, 3); }
    if r.chance(1, 12) { s = s.replacen('k', "\u{212A}", 1); }          // KELVIN SIGN folds to k under (?i)
    if r.chance(1, 12) { s = s.replacen('s', "\u{17F}", 1); }           // LONG S folds to s under (?i)
    if r.chance(1, 8) { s = format!("{}{}", r.pick(&["x", "_", "9"]), s); }   // kills the leading \b
    s
}

fn token_fragment(r: &mut Rng, tags: &mut Vec<String>) -> String {
    tags.push("token".into());
    let set = b"abcdefghXYZ0123456789_-";
    let a = r.range(37, 46) as usize; let b = r.range(4, 9) as usize; let c = r.range(4, 9) as usize;
    let d = if r.chance(1, 8) { ".." } else { "." };
    format!("{}{}{}.{}", from_set(r, set, a), d, from_set(r, set, b), from_set(r, set, c))
}

fn filler(r: &mut Rng, tags: &mut Vec<String>) -> String {
    match r.below(12) {
        0 => { tags.push("nonascii".into()); r.pick(&["\u{e9}", "\u{2014}", "\u{4e2d}", "\u{663}\u{664}\u{665}", "\u{a0}", "\u{2003}", "\u{200d}", "\u{ff11}\u{ff12}\u{ff13}", "\u{3b2}"]).to_string() }
        1 => { tags.push("tokenlit".into()); r.pick(TOKENS).to_string() }
        _ => r.pick(&["call", "me", "at", "SSN:", "Card", "x", "Server", "key", "ext", "No", "#", "$", "id", "v1", "The", "year"]).to_string(),
    }
}

fn gen_text(r: &mut Rng) -> (String, Vec<String>) {
    let mut tags = vec![];
    let n = match r.below(10) { 0 => 0, 1..=3 => 1, 4..=6 => r.range(2, 3), _ => r.range(4, 7) };
    let mut s = String::new();
    for i in 0..n {
        if i > 0 { s.push_str(*r.pick(&[" ", " ", " ", "", "", ",", ", ", "-", ".", ". ", "\n", ":", "/", "(", ")", "+", "_", "@", "="])); }
        let f = match r.below(16) {
            0..=5 => digit_fragment(r, &mut tags),
            6..=7 => email_fragment(r, &mut tags),
            8..=9 => ip_fragment(r, &mut tags),
            10..=11 => key_fragment(r, &mut tags),
            12 => token_fragment(r, &mut tags),
            _ => filler(r, &mut tags),
        };
        if s.chars().count() + f.chars().count() > 170 { break; }
        s.push_str(&f);
    }
    (s, tags)
}

// ------------------------------------------------------------------ sampling from the pattern ASTs
/// the translator's AST (coq/Gen/pii_patterns.json "ast"), seq/alt chains flattened; every
/// alternation gets a number so that each of its branches can be forced
#[derive(Clone, Debug)]
enum Node {
    Eps,
    Wb,
    Cls { neg: bool, ranges: Vec<(u32, u32)>, d: bool, s: bool, w: bool },
    Seq(Vec<Node>),
    Alt(usize, Vec<Node>),
    Rep(Box<Node>, usize, Option<usize>),
}

impl Node {
    fn from_json(v: &serde_json::Value, next_alt: &mut usize) -> Node {
        let a = v.as_array().expect("ast node");
        match a[0].as_str().expect("ast tag") {
            "eps" => Node::Eps,
            "wb" => Node::Wb,
            "cls" => Node::Cls {
                neg: a[1].as_bool().unwrap(),
                ranges: a[2].as_array().unwrap().iter().map(|r| (r[0].as_u64().unwrap() as u32, r[1].as_u64().unwrap() as u32)).collect(),
                d: a[3].as_bool().unwrap(), s: a[4].as_bool().unwrap(), w: a[5].as_bool().unwrap() },
            "seq" => {
                let mut items = vec![]; let mut cur = v;
                loop {
                    let c = cur.as_array().unwrap();
                    if c[0].as_str() == Some("seq") { items.push(Node::from_json(&c[1], next_alt)); cur = &c[2]; } else { items.push(Node::from_json(cur, next_alt)); break; }
                }
                Node::Seq(items)
            }
            "alt" => {
                let id = *next_alt; *next_alt += 1;
                let mut items = vec![]; let mut cur = v;
                loop {
                    let c = cur.as_array().unwrap();
                    if c[0].as_str() == Some("alt") { items.push(Node::from_json(&c[1], next_alt)); cur = &c[2]; } else { items.push(Node::from_json(cur, next_alt)); break; }
                }
                Node::Alt(id, items)
            }
            "rep" => Node::Rep(Box::new(Node::from_json(&a[1], next_alt)), a[2].as_u64().unwrap() as usize, a[3].as_u64().map(|e| e as usize)),
            t => panic!("unknown ast tag {}", t),
        }
    }
    /// (alternation number, number of branches) of every alternation
    fn alts(&self, out: &mut Vec<(usize, usize)>) {
        match self {
            Node::Seq(v) => for x in v { x.alts(out) },
            Node::Alt(id, v) => { out.push((*id, v.len())); for x in v { x.alts(out) } }
            Node::Rep(b, _, _) => b.alts(out),
            _ => {}
        }
    }
    /// has L(self), with alternation `force.0` restricted to branch `force.1`, a string without
    /// any character satisfying `bad` (\b ignored)
    fn can_avoid(&self, force: Option<(usize, usize)>, bad: &dyn Fn(char) -> bool) -> bool {
        match self {
            Node::Eps | Node::Wb => true,
            Node::Cls { .. } => class_choices(self).iter().any(|(_, cs)| cs.iter().any(|c| !bad(*c))),
            Node::Seq(v) => v.iter().all(|x| x.can_avoid(force, bad)),
            Node::Alt(id, v) => match force { Some((f, b)) if f == *id => v[b].can_avoid(force, bad), _ => v.iter().any(|x| x.can_avoid(force, bad)) },
            Node::Rep(b, lo, _) => *lo == 0 || b.can_avoid(force, bad),
        }
    }
}

#[derive(Clone, Copy, Debug, PartialEq)]
enum Kind { Letter, Digit, Other }

/// the sub-ranges of a class as (kind, candidate characters): ASCII letters, ASCII digits, and
/// every other member on its own (each punctuation alternative, '_', space, the two non-ASCII
/// case-folding partners)
fn class_choices(n: &Node) -> Vec<(Kind, Vec<char>)> {
    let (neg, ranges, d, s, w) = match n { Node::Cls { neg, ranges, d, s, w } => (*neg, ranges, *d, *s, *w), _ => return vec![] };
    let member = |c: char| -> bool {
        let u = c as u32;
        let m = ranges.iter().any(|(lo, hi)| *lo <= u && u <= *hi) || (d && c.is_ascii_digit()) || (s && (c == ' ' || ('\t'..='\r').contains(&c)))
            || (w && (c.is_ascii_alphanumeric() || c == '_'));
        m != neg
    };
    let mut letters = vec![]; let mut digits = vec![]; let mut out = vec![];
    let pool: Vec<char> = (0x20u32..0x7f).chain([0x09, 0x0a, 0x17f, 0x212a]).filter_map(char::from_u32).collect();
    for c in pool {
        if !member(c) { continue; }
        if c.is_ascii_alphabetic() { letters.push(c) } else if c.is_ascii_digit() { digits.push(c) } else { out.push((Kind::Other, vec![c])) }
    }
    if !letters.is_empty() { out.insert(0, (Kind::Letter, letters)); }
    if !digits.is_empty() { out.insert(0, (Kind::Digit, digits)); }
    if neg && out.len() > 12 { out.truncate(12); }      // a negated class: a dozen representatives
    out
}

#[derive(Clone, Copy, Debug, PartialEq)]
enum Pref { Letters, Digits, Other(usize), Mixed }
#[derive(Clone, Copy, Debug, PartialEq)]
enum Reps { Min, MinPlus1, Max, Rand }
#[derive(Clone, Copy, Debug)]
struct Policy { pref: Pref, reps: Reps, force: Option<(usize, usize)> }

fn pick_char(r: &mut Rng, n: &Node, pref: Pref) -> Option<char> {
    let ch = class_choices(n);
    if ch.is_empty() { return None; }
    let of = |k: Kind| ch.iter().find(|(kk, _)| *kk == k).map(|(_, v)| v.clone());
    let others: Vec<char> = ch.iter().filter(|(k, _)| *k == Kind::Other).map(|(_, v)| v[0]).collect();
    let not_at: Vec<char> = others.iter().copied().filter(|c| *c != '@').collect();
    let set: Vec<char> = match pref {
        // fall back to whatever keeps the string free of digits and '@' as long as possible
        Pref::Letters => of(Kind::Letter).or(if not_at.is_empty() { None } else { Some(not_at.clone()) }).or(if others.is_empty() { None } else { Some(others.clone()) }).or(of(Kind::Digit)).unwrap(),
        Pref::Digits => of(Kind::Digit).or(of(Kind::Letter)).or(if others.is_empty() { None } else { Some(others.clone()) }).unwrap(),
        Pref::Other(k) => if others.is_empty() { of(Kind::Letter).or(of(Kind::Digit)).unwrap() }
                          else if r.chance(2, 3) { vec![others[k % others.len()]] } else { of(Kind::Letter).or(of(Kind::Digit)).unwrap_or(vec![others[k % others.len()]]) },
        Pref::Mixed => { let i = r.below(ch.len() as u64) as usize; ch[i].1.clone() }
    };
    Some(*r.pick(&set))
}

/// one string of L(n) (up to the \b conditions, which depend on the carrier), chosen by the policy
fn sample(r: &mut Rng, n: &Node, pol: &Policy, out: &mut String) {
    match n {
        Node::Eps | Node::Wb => {}
        Node::Cls { .. } => { if let Some(c) = pick_char(r, n, pol.pref) { out.push(c) } }
        Node::Seq(v) => for x in v { sample(r, x, pol, out) },
        Node::Alt(id, v) => {
            let b = match pol.force { Some((f, b)) if f == *id => b, _ => r.below(v.len() as u64) as usize };
            sample(r, &v[b], pol, out)
        }
        Node::Rep(b, lo, ext) => {
            let cnt = match (pol.reps, ext) {
                (Reps::Min, _) => *lo,
                (Reps::MinPlus1, Some(0)) => *lo,
                (Reps::MinPlus1, _) => *lo + 1,
                (Reps::Max, Some(e)) => *lo + *e,
                (Reps::Max, None) => *lo + 3,
                (Reps::Rand, Some(e)) => *lo + r.below(*e as u64 + 1) as usize,
                (Reps::Rand, None) => *lo + r.below(5) as usize,
            };
            for _ in 0..cnt { sample(r, b, pol, out) }
        }
    }
}

/// carrier texts; kinds 0..=3 contain no digit and no '@', 0 and 1 only letters and spaces
const CARRIERS: usize = 10;
fn carrier(kind: usize, m: &str) -> (String, &'static str) {
    match kind {
        0 => (m.to_string(), "bare"),
        1 => (format!("export the key {} then stop", m), "letters-spaces"),
        2 => (format!("note: ({}); ok!", m), "punct-nodigit"),
        3 => (format!("see {}", m), "at-end"),
        4 => (format!("{} was seen", m), "at-start"),
        5 => (format!("id 42 {} v7 2024", m), "other-digits"),
        6 => (format!("x{}", m), "word-before"),
        7 => (format!("{}x", m), "word-after"),
        8 => (format!("a_{}_b", m), "underscores-around"),
        _ => (format!("={}.", m), "punct-around"),
    }
}

fn has_digit_or_at(s: &str) -> bool { s.chars().any(|c| c.is_ascii_digit() || c == '@') }

/// The corpus: for every pattern and every branch of every alternation, letters-preferring and
/// digits-preferring samples with minimum and minimum+1 repetition counts in digit-free and
/// '@'-free carriers; every "other" member of the classes (each punctuation alternative);
/// every carrier kind; ordered pairs of patterns.  Returns (text, tags, sampled pattern indices).
fn corpus(p: &Pats, r: &mut Rng) -> Vec<(String, Vec<String>, Vec<usize>)> {
    let mut out: Vec<(String, Vec<String>, Vec<usize>)> = vec![];
    let np = p.sorted.len();
    let bad = |c: char| c.is_ascii_digit() || c == '@';
    let mut gaps: Vec<String> = vec![];
    for pi in 0..np {
        let name = p.sorted[pi].0.trim_end_matches("_REGEX").to_string();
        let ast = &p.asts[pi];
        let mut alts = vec![]; ast.alts(&mut alts);
        let mut forces: Vec<Option<(usize, usize)>> = vec![];
        if alts.is_empty() { forces.push(None); }
        for (id, nb) in &alts { for b in 0..*nb { forces.push(Some((*id, b))); } }
        // A. every branch x {letters, digits} x {min, min+1} x {bare, letters-and-spaces carrier}
        for force in &forces {
            let bname = match force { None => "b-".to_string(), Some((id, b)) => format!("alt{}b{}", id, b) };
            for pref in [Pref::Letters, Pref::Digits] {
                let mut hit = false; let mut hit_free = false;
                for reps in [Reps::Min, Reps::MinPlus1] {
                    for ck in [0usize, 1] {
                        let mut m = String::new();
                        sample(r, ast, &Policy { pref, reps, force: *force }, &mut m);
                        let (x, cname) = carrier(ck, &m);
                        let is = p.sorted[pi].1.is_match(&x);
                        hit |= is; hit_free |= is && !has_digit_or_at(&x);
                        out.push((x, vec!["A".into(), format!("{}:{}:{:?}:{:?}", name, bname, pref, reps), cname.into(), (if is { "hit" } else { "nohit" }).into()], vec![pi]));
                    }
                }
                if !hit { gaps.push(format!("{} {} {:?}: no sample matched", name, bname, pref)); }
                if pref == Pref::Letters && ast.can_avoid(*force, &bad) && !hit_free { gaps.push(format!("{} {}: no digit-free '@'-free match", name, bname)); }
            }
        }
        // B. every "other" member of the widest class (each punctuation alternative), and mixed
        let mut nother = 0usize;
        fn widest(n: &Node, best: &mut usize) {
            match n {
                Node::Cls { .. } => { let k = class_choices(n).iter().filter(|(k, _)| *k == Kind::Other).count(); if k > *best && k <= 12 { *best = k } }
                Node::Seq(v) | Node::Alt(_, v) => for x in v { widest(x, best) },
                Node::Rep(b, _, _) => widest(b, best),
                _ => {}
            }
        }
        widest(ast, &mut nother);
        let mut prefs: Vec<Pref> = (0..nother).map(Pref::Other).collect();
        prefs.push(Pref::Mixed); prefs.push(Pref::Mixed);
        for pref in prefs {
            for reps in [Reps::Min, Reps::MinPlus1, Reps::Rand] {
                let mut m = String::new();
                sample(r, ast, &Policy { pref, reps, force: None }, &mut m);
                let (x, cname) = carrier(r.below(CARRIERS as u64) as usize, &m);
                let is = p.sorted[pi].1.is_match(&x);
                out.push((x, vec!["B".into(), format!("{}:{:?}", name, pref).replace(|c: char| c.is_ascii_digit(), "k"), cname.into(), (if is { "hit" } else { "nohit" }).into()], vec![pi]));
            }
        }
        // C. every carrier kind, letters-preferring minimum sample and a random one, maximum counts once
        for ck in 0..CARRIERS {
            for (pref, reps) in [(Pref::Letters, Reps::Min), (Pref::Mixed, Reps::Rand), (Pref::Digits, Reps::Max)] {
                if reps == Reps::Max && ck > 1 { continue; }
                let mut m = String::new();
                sample(r, ast, &Policy { pref, reps, force: None }, &mut m);
                let (x, cname) = carrier(ck, &m);
                let is = p.sorted[pi].1.is_match(&x);
                out.push((x, vec!["C".into(), name.clone(), cname.into(), (if is { "hit" } else { "nohit" }).into()], vec![pi]));
            }
        }
    }
    // D. ordered pairs of patterns, letters-preferring, glued or separated, in digit-free carriers
    for a in 0..np { for b in 0..np {
        for j in 0..2 {
            let mut ma = String::new(); let mut mb = String::new();
            let pa = Policy { pref: if j == 0 { Pref::Letters } else { Pref::Mixed }, reps: if j == 0 { Reps::Min } else { Reps::Rand }, force: None };
            sample(r, &p.asts[a], &pa, &mut ma); sample(r, &p.asts[b], &pa, &mut mb);
            let joiner = *r.pick(&[" ", " ", "", ",", "-", ".", " and ", "/"]);
            let (x, cname) = carrier(*r.pick(&[0usize, 1, 1, 2, 3, 4]), &format!("{}{}{}", ma, joiner, mb));
            if x.chars().count() > 200 { continue; }
            out.push((x, vec!["D".into(), "pair".into(), cname.into(), format!("join{:?}", joiner)], vec![a, b]));
        }
    }}
    // coverage the corpus promises; a gap is a generator defect and is made visible
    for g in &gaps { eprintln!("C36 corpus coverage gap: {}", g); }
    if !gaps.is_empty() { out.push((String::new(), vec![format!("COVERAGE-GAP({})", gaps.len())], vec![])); }
    out
}

// ------------------------------------------------------------------ the harness's own passes
/// the seven replace_all passes with provenance: (char, pass number that inserted it, 0 = input)
fn marked_passes(p: &Pats, x: &str) -> Vec<(char, usize)> {
    let mut cur: Vec<(char, usize)> = x.chars().map(|c| (c, 0)).collect();
    for (j, (re, tok)) in p.mask.iter().enumerate() {
        let s: String = cur.iter().map(|t| t.0).collect();
        let b2c = byte_to_char(&s);
        let mut out = Vec::with_capacity(cur.len());
        let mut last = 0usize;
        for m in re.find_iter(&s) {
            out.extend_from_slice(&cur[b2c[last]..b2c[m.start()]]);
            out.extend(tok.chars().map(|c| (c, j + 1)));
            last = m.end();
        }
        out.extend_from_slice(&cur[b2c[last]..]);
        cur = out;
    }
    cur
}

/// byte offset -> char offset (defined at char boundaries and at len)
fn byte_to_char(s: &str) -> Vec<usize> {
    let mut v = vec![0usize; s.len() + 1];
    let mut k = 0;
    for (i, ch) in s.char_indices() { v[i] = k; for d in 1..ch.len_utf8() { v[i + d] = k; } k += 1; }
    v[s.len()] = k;
    v
}

/// known class "token-boundary-rematch": in the marked final text, pattern number i (1..)
/// has a match starting at some position whose window (char before, match, char after)
/// holds a char inserted by pass i or later
fn known_class(p: &Pats, fm: &[(char, usize)]) -> Option<String> {
    let s: String = fm.iter().map(|t| t.0).collect();
    let b2c = byte_to_char(&s);
    for (j, (re, _)) in p.mask.iter().enumerate() {
        let i = j + 1;
        let mut at = 0usize;
        loop {
            let m = match re.find_at(&s, at) { Some(m) => m, None => break };
            // the leftmost match from `at`: it is the priority match at its own start
            let (a, b) = (b2c[m.start()], b2c[m.end()]);
            let lo = a.saturating_sub(1);
            let hi = (b + 1).min(fm.len());
            if fm[lo..hi].iter().any(|t| t.1 >= i) {
                return Some(format!("pattern of pass {} matches {:?} at {}..{} next to text inserted by pass {}", i, &s[m.start()..m.end()], a, b,
                                    fm[lo..hi].iter().map(|t| t.1).max().unwrap()));
            }
            // next start position (one char further than this match's start)
            match s[m.start()..].chars().next() { Some(ch) => at = m.start() + ch.len_utf8(), None => break }
            if at > s.len() { break; }
        }
    }
    None
}

fn uctable(p: &Pats, texts: &[&str]) -> T {
    let mut seen = std::collections::BTreeSet::new();
    for t in texts { for ch in t.chars() { if (ch as u32) >= 128 { seen.insert(ch); } } }
    T::L(seen.into_iter().map(|ch| {
        let s = ch.to_string();
        T::Tup(vec![T::N(ch as u128), T::Tup(vec![T::B(p.probes.0.is_match(&s)), T::B(p.probes.1.is_match(&s)), T::B(p.probes.2.is_match(&s))])])
    }).collect())
}

fn cps(s: &str) -> T { T::C("u8", vec![T::H(s.as_bytes().to_vec())]) }

/// one text through the implementation, the property oracle and both streams
fn one(p: &Pats, w: &mut dyn std::io::Write, stream: &str, x: String, mut tags: Vec<String>, span_idxs: Vec<usize>) {
    let res = catch({ let x = x.clone(); move || {
        let c0 = contains_pii(&x);
        let y = mask_pii(&x);
        let c1 = contains_pii(&y);
        let y2 = mask_pii(&y);
        (c0, y, c1, y2)
    }});
    let input = T::Tup(vec![uctable(p, &[&x]), T::H(x.as_bytes().to_vec())]);
    let key = blake3::hash(x.as_bytes()).to_hex()[..16].to_string();
    let (c0, y, c1, y2) = match res {
        Some(t) => t,
        None => {
            emit(w, stream, &Case { input, output: T::C("Panic", vec![T::N(0)]), violation: Some("panic: mask_pii / contains_pii panicked".into()), nontrivial: true, tags, key });
            return;
        }
    };
    let idem = y2 == y;
    // the harness's own marked run decides the class; granted only if it reproduces mask_pii
    let fm = marked_passes(p, &x);
    let rebuilt: String = fm.iter().map(|t| t.0).collect();
    let kc = known_class(p, &fm);
    let mut viol = None;
    if c1 || !idem {
        let what = format!("mask_pii({:?}) = {:?}: contains_pii still {} and masking again gives {:?}", x, y, c1, y2);
        viol = Some(match (&kc, rebuilt == y) {
            (Some(why), true) => format!("token-boundary-rematch: {} ({})", what, why),
            _ => format!("residual-pii: {}", what),
        });
    } else if !c0 && y != x {
        viol = Some(format!("clean-text-changed: contains_pii({:?}) is false but mask_pii returned {:?}", x, y));
    }
    for t in TOKENS { if y.contains(t) && !x.contains(t) { tags.push(format!("masked{}", t)); } }
    tags.push(if c0 { "detected".into() } else { "clean".into() });
    if kc.is_some() { tags.push("knownclass".into()); }
    if y == x && c0 { tags.push("detected-but-unchanged".into()); }
    let output = T::Tup(vec![T::B(c0), cps(&y), T::B(c1), T::B(idem), T::B(kc.is_some())]);
    emit(w, stream, &Case { input, output, violation: viol, nontrivial: c0 || y != x, tags, key: key.clone() });

    // per-pattern is_match and find_iter spans
    for idx in span_idxs {
        let (name, re) = &p.sorted[idx];
        let b2c = byte_to_char(&x);
        let spans: Vec<T> = re.find_iter(&x).map(|m| T::Tup(vec![T::N(b2c[m.start()] as u128), T::N(b2c[m.end()] as u128)])).collect();
        let nsp = spans.len();
        let out = T::Tup(vec![T::B(re.is_match(&x)), T::L(spans)]);
        let inp = T::Tup(vec![uctable(p, &[&x]), T::N(idx as u128), T::H(x.as_bytes().to_vec())]);
        emit(w, "spans", &Case { input: inp, output: out, violation: None, nontrivial: nsp > 0,
                                 tags: vec![name.clone(), format!("spans{}", nsp.min(3)), stream.to_string()], key: format!("{}-{}", key, idx) });
    }
}

fn matching(p: &Pats, x: &str) -> Vec<usize> { (0..p.sorted.len()).filter(|i| p.sorted[*i].1.is_match(x)).collect() }

pub fn run(seed: u64, n: usize, w: &mut dyn std::io::Write) {
    let p = load();
    let mut r = Rng::new(seed ^ 0xC36);
    // 1. fixed witnesses (the listed known finding is re-run every time): every pattern's spans
    let fixed = ["1234567890123456789", "123-45671234567890", "Contact john@example.com at 555-123-4567. SSN: 123-45-6789",
                 "", "Invoice #12345 for $100.00", "Meeting on 2024-01-15", "[SSN][PHONE] [EMAIL]", "123456789[PHONE]",
                 "export api_key=abcdefghijklmnopqrstuvwxyz"];
    for x in fixed { one(&p, w, "mask", x.to_string(), vec!["fixed".to_string()], (0..p.sorted.len()).collect()); }
    // 2. the corpus sampled from the pattern ASTs (same size whatever n is): spans of the sampled
    //    pattern(s) and of every pattern that matches
    let mut rc = Rng::new(seed ^ 0xC36_C0);
    for (x, tags, pats) in corpus(&p, &mut rc) {
        let mut idxs = matching(&p, &x);
        for q in pats { if !idxs.contains(&q) { idxs.push(q); } }
        one(&p, w, "corpus", x, tags, idxs);
    }
    // 3. generated texts: spans of every pattern that matches plus, on every third text, a random one
    for k in 0..n {
        let (x, tags) = gen_text(&mut r);
        let mut idxs = matching(&p, &x);
        if k % 3 == 0 { let e = r.below(p.sorted.len() as u64) as usize; if !idxs.contains(&e) { idxs.push(e); } }
        one(&p, w, "mask", x, tags, idxs);
    }
}
