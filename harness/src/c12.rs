//! C12 ACL enforcement: bare decision through the hook (`decide`), serde_json hand model
//! (`json`), ACL stage of search / vector search end to end (`apply`), and the property
//! oracle over search, vector search, adaptive search and ask (`e2e`, oracle only).
use crate::term::*;
use memvid_core::types::{
    AclContext, AclEnforcementMode, AdaptiveConfig, AskMode, AskRequest, SearchRequest, VecEmbedder,
    ACL_READ_GROUPS_KEY, ACL_READ_PRINCIPALS_KEY, ACL_READ_ROLES_KEY, ACL_TENANT_ID_KEY, ACL_VISIBILITY_KEY,
};
use memvid_core::{Memvid, PutOptions};
use std::collections::{BTreeMap, BTreeSet};

// ------------------------------------------------------------------ terms
/// a string as a Coq `str` (list of code points): `(asc "...")` when printable ASCII, else the list
fn tstr(s: &str) -> T {
    if s.chars().all(|c| (' '..='~').contains(&c)) { T::C("asc", vec![T::S(s.to_string())]) }
    else { T::L(s.chars().map(|c| T::N(c as u128)).collect()) }
}
fn topt_str(s: &Option<String>) -> T { match s { None => T::none(), Some(x) => T::some(tstr(x)) } }
fn tmeta(m: &BTreeMap<String, String>) -> T { T::L(m.iter().map(|(k, v)| T::Tup(vec![tstr(k), tstr(v)])).collect()) }
fn tctx(c: &AclContext) -> T {
    T::Tup(vec![topt_str(&c.tenant_id), topt_str(&c.subject_id),
                T::L(c.roles.iter().map(|s| tstr(s)).collect()), T::L(c.group_ids.iter().map(|s| tstr(s)).collect())])
}
fn digest(s: &str) -> String { blake3::hash(s.as_bytes()).to_hex()[..16].to_string() }

// ------------------------------------------------------------------ the property oracle
// Written from the property text, not from acl.rs: a frame is readable by a caller iff its
// ACL metadata is well formed (tenant and visibility present and non-blank, visibility one of
// public/restricted, every allow-list present is a JSON array of non-blank strings), it is in
// the caller's tenant, and it is public or one of the caller's principal/roles/groups is on
// the matching allow-list.  Values compare after trimming, optional JSON-string unwrapping
// (legacy bindings) and ASCII case folding.
fn o_norm(v: Option<&str>) -> Option<String> {
    let t = v?.trim();
    if t.is_empty() { return None; }
    let u = match serde_json::from_str::<serde_json::Value>(t) {
        Ok(serde_json::Value::String(s)) => s.trim().to_string(),
        _ => t.to_string(),
    };
    if u.is_empty() { None } else { Some(u.chars().map(|c| if c.is_ascii_uppercase() { c.to_ascii_lowercase() } else { c }).collect()) }
}
fn o_list(m: &BTreeMap<String, String>, key: &str) -> Result<BTreeSet<String>, ()> {
    let Some(raw) = m.get(key) else { return Ok(BTreeSet::new()) };
    let v: serde_json::Value = serde_json::from_str(raw).map_err(|_| ())?;
    let arr = v.as_array().ok_or(())?;
    let mut out = BTreeSet::new();
    for e in arr {
        let s = e.as_str().ok_or(())?;
        out.insert(o_norm(Some(s)).ok_or(())?);
    }
    Ok(out)
}
#[derive(Clone, Copy, PartialEq, Eq, Debug)]
enum Verdict { Allow, OtherTenant, Restricted, BadMetadata }
/// None = the caller has no usable tenant
fn oracle(m: &BTreeMap<String, String>, c: &AclContext) -> Option<Verdict> {
    let ct = o_norm(c.tenant_id.as_deref())?;
    let Some(ft) = o_norm(m.get(ACL_TENANT_ID_KEY).map(|s| s.as_str())) else { return Some(Verdict::BadMetadata) };
    let public = match o_norm(m.get(ACL_VISIBILITY_KEY).map(|s| s.as_str())).as_deref() {
        Some("public") => true, Some("restricted") => false, _ => return Some(Verdict::BadMetadata) };
    let (Ok(roles), Ok(groups), Ok(principals)) = (o_list(m, ACL_READ_ROLES_KEY), o_list(m, ACL_READ_GROUPS_KEY), o_list(m, ACL_READ_PRINCIPALS_KEY))
        else { return Some(Verdict::BadMetadata) };
    if ft != ct { return Some(Verdict::OtherTenant); }
    if public { return Some(Verdict::Allow); }
    let subj = c.subject_id.as_deref().and_then(|s| o_norm(Some(s)));
    let ok = subj.map_or(false, |s| principals.contains(&s))
        || c.roles.iter().filter_map(|r| o_norm(Some(r))).any(|r| roles.contains(&r))
        || c.group_ids.iter().filter_map(|g| o_norm(Some(g))).any(|g| groups.contains(&g));
    Some(if ok { Verdict::Allow } else { Verdict::Restricted })
}

// ------------------------------------------------------------------ generators
const TENANTS: &[&str] = &["tenant-a", "tenant-b", "acme", "t1", "zeta[1]", "zeta{1}"];
const PRINCIPALS: &[&str] = &["user-1", "user-2", "alice", "bob", "zoe@x", "zoe`x"];
const ROLES: &[&str] = &["admin", "analyst", "viewer", "wizard"];
const GROUPS: &[&str] = &["eng", "ops", "sales", "biz"];
// Unicode White_Space members and near misses (not White_Space: 1c-1f, 200b, 2060, feff, 180e, 08)
const WS: &[char] = &[' ', '\t', '\n', '\r', '\u{b}', '\u{c}', '\u{85}', '\u{a0}', '\u{1680}', '\u{2000}', '\u{2003}', '\u{200a}', '\u{2028}', '\u{2029}', '\u{202f}', '\u{205f}', '\u{3000}'];
const NEAR_WS: &[char] = &['\u{1c}', '\u{1f}', '\u{8}', '\u{200b}', '\u{2060}', '\u{feff}', '\u{180e}', '\u{7f}', '\u{0}'];

fn mixcase(r: &mut Rng, s: &str) -> String {
    s.chars().map(|c| if r.chance(1, 2) { c.to_ascii_uppercase() } else { c }).collect()
}
fn pad(r: &mut Rng, s: &str) -> String {
    let mut o = String::new();
    for _ in 0..r.below(3) { o.push(*r.pick(WS)); }
    o.push_str(s);
    for _ in 0..r.below(3) { o.push(*r.pick(WS)); }
    o
}
fn json_escape_fancy(r: &mut Rng, s: &str) -> String {
    // a JSON string literal for s using random escape forms
    let mut o = String::from("\"");
    for c in s.chars() {
        match r.below(6) {
            0 => { let mut b = [0u16; 2]; for u in c.encode_utf16(&mut b) { o.push_str(&if r.chance(1, 2) { format!("\\u{:04x}", u) } else { format!("\\u{:04X}", u) }); } }
            _ => match c { '"' => o.push_str("\\\""), '\\' => o.push_str("\\\\"), '\n' => o.push_str("\\n"), '\t' => o.push_str("\\t"), '/' if r.chance(1, 2) => o.push_str("\\/"), c if (c as u32) < 0x20 => o.push_str(&format!("\\u{:04x}", c as u32)), c => o.push(c) },
        }
    }
    o.push('"');
    o
}
/// a scalar value meant to denote `s`: level 0 = canonical, 1 = a form that still denotes `s`
/// (case, padding, JSON-quoting as legacy bindings emit), 2 = any form including broken ones
fn scalar_l(r: &mut Rng, s: &str, level: u64, tags: &mut Vec<String>) -> String {
    let k = match level { 0 => 0, 1 => r.below(9), _ => r.below(16) };
    match k {
        0 | 1 => s.to_string(),
        2 => { tags.push("upper".into()); s.to_ascii_uppercase() }
        3 => { tags.push("mixcase".into()); mixcase(r, s) }
        4 => { tags.push("padded".into()); pad(r, s) }
        5 => { tags.push("jsonquoted".into()); serde_json::to_string(s).unwrap() }
        6 => { tags.push("jsonquoted-inner-ws".into()); let mc = mixcase(r, s); let inner = pad(r, &mc); let q = json_escape_fancy(r, &inner); pad(r, &q) }
        7 => { tags.push("jsonquoted-escapes".into()); json_escape_fancy(r, s) }
        8 => { tags.push("padded-quoted".into()); let inner = pad(r, s); pad(r, &serde_json::to_string(&inner).unwrap()) }
        9 => { tags.push("double-quoted".into()); serde_json::to_string(&serde_json::to_string(s).unwrap()).unwrap() }
        10 => { tags.push("near-ws".into()); let c = *r.pick(NEAR_WS); if r.chance(1, 2) { format!("{}{}", c, s) } else { format!("{}{}", s, c) } }
        11 => { tags.push("broken-quote".into()); match r.below(5) { 0 => format!("\"{}", s), 1 => format!("{}\"", s), 2 => format!("\"{}\" x", s), 3 => format!("\"{}\\q\"", s), _ => format!("\"{}\t\"", s) } }
        12 => { tags.push("nonascii".into()); match r.below(4) { 0 => format!("{}\u{c9}", s), 1 => format!("\u{212a}{}", s), 2 => format!("\"{}\\ud83d\\ude00\"", s), _ => format!("\"{}\\ud83d\"", s) } }
        13 => { tags.push("other-value".into()); format!("{}x", s) }
        14 => { tags.push("inner-ws".into()); let k = s.len() / 2; format!("{} {}", &s[..k], &s[k..]) }
        _ => { tags.push("blank".into()); blank(r) }
    }
}
fn scalar(r: &mut Rng, s: &str, tags: &mut Vec<String>) -> String { let l = match r.below(5) { 0 | 1 => 0, 2 | 3 => 1, _ => 2 }; scalar_l(r, s, l, tags) }
fn blank(r: &mut Rng) -> String {
    match r.below(7) { 0 => String::new(), 1 => " ".into(), 2 => "\t\n".into(), 3 => "\"\"".into(), 4 => "\"  \"".into(), 5 => "\u{a0}\u{3000}".into(), _ => " \"\\t\" ".into() }
}
/// value for an allow-list key holding `members`
fn list_value(r: &mut Rng, members: &[String], level: u64, tags: &mut Vec<String>) -> String {
    let ms: Vec<String> = members.iter().map(|m| scalar_l(r, m, level, tags)).collect();
    let good = serde_json::to_string(&ms).unwrap();
    let k = match level { 0 => 0, 1 => r.below(14), _ => 11 + r.below(13) };
    match k {
        0..=11 => good,
        12 => { tags.push("list-spaced".into()); let parts: Vec<String> = ms.iter().map(|m| serde_json::to_string(m).unwrap()).collect(); format!(" [ {} ]\n", parts.join(" ,\t")) }
        20 => { tags.push("list-csv".into()); members.join(",") }
        14 => { tags.push("list-trailing-comma".into()); good.replacen(']', ",]", 1) }
        15 => { tags.push("list-empty-member".into()); let mut v = ms.clone(); v.insert(r.below(v.len() as u64 + 1) as usize, blank(r)); serde_json::to_string(&v).unwrap() }
        16 => { tags.push("list-nonstring-member".into()); match r.below(4) { 0 => "[null]".into(), 1 => "[1]".into(), 2 => format!("[{}]", good), _ => "[true,\"a\"]".into() } }
        17 => { tags.push("list-not-array".into()); match r.below(5) { 0 => "null".into(), 1 => "{}".into(), 2 => serde_json::to_string(&members.join(",")).unwrap(), 3 => "[".into(), _ => String::new() } }
        18 => { tags.push("list-trailing-garbage".into()); match r.below(3) { 0 => format!("{}x", good), 1 => format!("{}\u{a0}", good), _ => format!("{}]", good) } }
        19 => { tags.push("list-missing-comma".into()); good.replace(",", " ") }
        13 => { tags.push("list-empty".into()); if r.chance(1, 2) { "[]".into() } else { "[ ]".into() } }
        21 => { tags.push("list-single-quotes".into()); good.replace('"', "'") }
        22 => { tags.push("list-unquoted".into()); format!("[{}]", members.join(",")) }
        _ => { tags.push("list-leading-nbsp".into()); format!("\u{a0}{}", good) }
    }
}

fn subset(r: &mut Rng, pool: &[&str], max: u64) -> Vec<String> {
    let n = r.below(max + 1);
    (0..n).map(|_| r.pick(pool).to_string()).collect()
}

fn gen_meta(r: &mut Rng, tenant: &str, tags: &mut Vec<String>) -> BTreeMap<String, String> {
    let mut m = BTreeMap::new();
    // per-value level: mostly canonical / benign, so that every decision class is well populated
    let chaos = r.below(10);
    let mut lvl = |r: &mut Rng| -> u64 { match chaos { 0..=2 => 0, 3..=6 => r.below(2), 7..=8 => if r.chance(1, 4) { 2 } else { r.below(2) }, _ => r.below(3) } };
    let l = lvl(r); m.insert(ACL_TENANT_ID_KEY.to_string(), scalar_l(r, tenant, l, tags));
    let vis = if r.chance(1, 4) { "public" } else { "restricted" };
    let l = lvl(r); m.insert(ACL_VISIBILITY_KEY.to_string(), scalar_l(r, vis, l, tags));
    if r.chance(4, 5) { let v = subset(r, ROLES, 2); let l = lvl(r); m.insert(ACL_READ_ROLES_KEY.to_string(), list_value(r, &v, l, tags)); }
    if r.chance(4, 5) { let v = subset(r, GROUPS, 2); let l = lvl(r); m.insert(ACL_READ_GROUPS_KEY.to_string(), list_value(r, &v, l, tags)); }
    if r.chance(4, 5) { let v = subset(r, PRINCIPALS, 2); let l = lvl(r); m.insert(ACL_READ_PRINCIPALS_KEY.to_string(), list_value(r, &v, l, tags)); }
    // structural mutations
    let nmut = match r.below(10) { 0..=6 => 0, 7..=8 => 1, _ => 2 };
    for _ in 0..nmut {
        let key = *r.pick(&[ACL_TENANT_ID_KEY, ACL_VISIBILITY_KEY, ACL_READ_ROLES_KEY, ACL_READ_GROUPS_KEY, ACL_READ_PRINCIPALS_KEY]);
        match r.below(6) {
            0 => { tags.push(format!("drop:{}", key)); m.remove(key); }
            1 => { tags.push(format!("blank:{}", key)); m.insert(key.to_string(), blank(r)); }
            2 => { tags.push("unknown-visibility".into()); let v = *r.pick(&["private", "publi", "restricted!", "public restricted", "internal", "true", "\"public\"\"", "restricted\u{200b}"]); m.insert(ACL_VISIBILITY_KEY.to_string(), v.to_string()); }
            3 => { tags.push(format!("near-key:{}", key)); if let Some(v) = m.remove(key) { let k2 = match r.below(3) { 0 => key.to_ascii_uppercase(), 1 => format!("{} ", key), _ => key.replace("acl_", "acl") }; m.insert(k2, v); } }
            4 => { tags.push("extra-keys".into()); m.insert("acl_resource_id".into(), "res-1".into()); m.insert("acl_policy_version".into(), "1".into()); m.insert("zz".into(), "[\"admin\"]".into()); }
            _ => { tags.push(format!("scalar-in-list-key:{}", key)); if key != ACL_TENANT_ID_KEY && key != ACL_VISIBILITY_KEY { m.insert(key.to_string(), r.pick(ROLES).to_string()); } else { m.insert(key.to_string(), "[\"tenant-a\"]".into()); } }
        }
    }
    if r.chance(1, 40) { tags.push("empty-map".into()); m.clear(); }
    m
}

fn gen_ctx(r: &mut Rng, tenant: &str, tags: &mut Vec<String>) -> AclContext {
    let mut t = vec![];
    let tenant_id = match r.below(12) { 0 => None, 1 => Some(blank(r)), _ => Some(scalar(r, tenant, &mut t)) };
    let subject_id = match r.below(8) { 0 => None, 1 => Some(blank(r)), _ => { let x = *r.pick(PRINCIPALS); Some(scalar(r, x, &mut t)) } };
    let roles = subset(r, ROLES, 3).iter().map(|s| if r.chance(1, 8) { blank(r) } else { scalar(r, s, &mut t) }).collect();
    let group_ids = subset(r, GROUPS, 3).iter().map(|s| if r.chance(1, 8) { blank(r) } else { scalar(r, s, &mut t) }).collect();
    for x in t { tags.push(format!("ctx-{}", x)); }
    AclContext { tenant_id, subject_id, roles, group_ids }
}

// ------------------------------------------------------------------ stream `decide`
fn t_decision(d: Option<(bool, bool, bool)>) -> T {
    match d { None => T::none(), Some((a, c, m)) => T::some(T::Tup(vec![T::B(a), T::B(c), T::B(m)])) }
}

fn run_decide(r: &mut Rng, n: usize, w: &mut dyn std::io::Write) {
    for i in 0..n {
        let mut tags = vec![];
        let (m, c) = if i < WITNESSES.len() { tags.push("fixed".into()); WITNESSES[i]() } else { { let a = *r.pick(TENANTS); let b = if r.chance(3, 4) { a } else { *r.pick(TENANTS) }; (gen_meta(r, a, &mut tags), gen_ctx(r, b, &mut tags)) } };
        let got = std::panic::catch_unwind(|| memvid_core::verif_hooks::acl_decide(&m, &c));
        let input = T::Tup(vec![tmeta(&m), tctx(&c)]);
        let key = digest(&format!("{:?}{:?}", m, c));
        let want = oracle(&m, &c);
        let (output, viol, class) = match got {
            Err(_) => (T::C("Panic", vec![T::N(0)]), Some("acl-panic: acl_decide panicked".to_string()), "panic"),
            Ok(d) => {
                let mut viol = None;
                match (d, want) {
                    (Some((true, _, _)), Some(v)) if v != Verdict::Allow =>
                        viol = Some(format!("acl-leak-decision: frame allowed although the property denies it ({:?}); metadata {:?} context {:?}", v, m, c)),
                    (Some(_), None) => viol = Some(format!("acl-no-tenant-decided: a context without a usable tenant produced a decision; context {:?}", c)),
                    _ => {}
                }
                let class = match (d, want) {
                    (None, _) => "no-tenant",
                    (Some((true, _, _)), _) => "allow",
                    (Some((_, true, _)), _) => "deny-cross-tenant",
                    (Some((_, _, true)), _) => "deny-missing",
                    _ => "deny-restricted",
                };
                (t_decision(d), viol, class)
            }
        };
        tags.push(class.to_string());
        if let Some(v) = want { tags.push(format!("oracle-{:?}", v)); }
        emit(w, "decide", &Case { input, output, violation: viol, nontrivial: want.is_some() && !m.is_empty(), tags, key });
    }
}

fn bm(kv: &[(&str, &str)]) -> BTreeMap<String, String> { kv.iter().map(|(k, v)| (k.to_string(), v.to_string())).collect() }
fn cx(t: Option<&str>, s: Option<&str>, roles: &[&str], groups: &[&str]) -> AclContext {
    AclContext { tenant_id: t.map(String::from), subject_id: s.map(String::from), roles: roles.iter().map(|s| s.to_string()).collect(), group_ids: groups.iter().map(|s| s.to_string()).collect() }
}
/// fixed cases run first on every seed: one per branch of the decision
const WITNESSES: &[fn() -> (BTreeMap<String, String>, AclContext)] = &[
    || (bm(&[("acl_tenant_id", "tenant-a"), ("acl_visibility", "public")]), cx(Some("tenant-a"), None, &[], &[])),
    || (bm(&[("acl_tenant_id", "tenant-a"), ("acl_visibility", "public")]), cx(Some("tenant-b"), None, &[], &[])),
    || (bm(&[("acl_tenant_id", "tenant-a"), ("acl_visibility", "restricted"), ("acl_read_roles", "[\"admin\"]")]), cx(Some("tenant-a"), Some("bob"), &["viewer"], &["eng"])),
    || (bm(&[("acl_tenant_id", "tenant-a"), ("acl_visibility", "restricted"), ("acl_read_roles", "[\"admin\"]")]), cx(Some("TENANT-A"), Some("bob"), &["Admin "], &[])),
    || (bm(&[("acl_tenant_id", "tenant-a"), ("acl_visibility", "restricted"), ("acl_read_groups", "[\"eng\"]")]), cx(Some("tenant-a"), None, &[], &["ops", "eng"])),
    || (bm(&[("acl_tenant_id", "tenant-a"), ("acl_visibility", "restricted"), ("acl_read_principals", "[\"alice\"]")]), cx(Some("tenant-a"), Some("alice"), &[], &[])),
    || (bm(&[("acl_tenant_id", "tenant-a"), ("acl_visibility", "\"restricted\""), ("acl_read_principals", "[\"\\\"alice\\\"\"]")]), cx(Some("\"tenant-a\""), Some("alice"), &[], &[])),
    || (bm(&[("acl_tenant_id", "tenant-a"), ("acl_visibility", "restricted"), ("acl_read_groups", "eng,ops")]), cx(Some("tenant-a"), None, &[], &["eng"])),
    || (bm(&[("acl_tenant_id", "tenant-a"), ("acl_visibility", "restricted"), ("acl_read_groups", "[\"eng\",\"\"]")]), cx(Some("tenant-a"), None, &[], &["eng"])),
    || (bm(&[("acl_visibility", "public")]), cx(Some("tenant-a"), None, &[], &[])),
    || (bm(&[("acl_tenant_id", "tenant-a")]), cx(Some("tenant-a"), None, &[], &[])),
    || (bm(&[("acl_tenant_id", "tenant-a"), ("acl_visibility", "private")]), cx(Some("tenant-a"), None, &[], &[])),
    || (bm(&[]), cx(Some("tenant-a"), None, &[], &[])),
    || (bm(&[("acl_tenant_id", "tenant-a"), ("acl_visibility", "public")]), cx(None, Some("alice"), &["admin"], &[])),
    || (bm(&[("acl_tenant_id", "tenant-a"), ("acl_visibility", "public")]), cx(Some("  "), Some("alice"), &["admin"], &[])),
    || (bm(&[("acl_tenant_id", " "), ("acl_visibility", "public")]), cx(Some("tenant-a"), None, &[], &[])),
    || (bm(&[("acl_tenant_id", "tenant-a"), ("acl_visibility", "restricted"), ("acl_read_roles", "[\"admin\"]")]), cx(Some("tenant-a"), Some(""), &["", "admin"], &[])),
    // ASCII case folding touches A-Z only: '[' vs '{', '@' vs '`' stay different, 'Z' folds
    || (bm(&[("acl_tenant_id", "ORG[1]"), ("acl_visibility", "public")]), cx(Some("org{1}"), None, &[], &[])),
    || (bm(&[("acl_tenant_id", "A@B"), ("acl_visibility", "public")]), cx(Some("a`b"), None, &[], &[])),
    || (bm(&[("acl_tenant_id", "ZETA-Az"), ("acl_visibility", "PUBLIC")]), cx(Some("zeta-aZ"), None, &[], &[])),
    || (bm(&[("acl_tenant_id", "t"), ("acl_visibility", "restricted"), ("acl_read_principals", "[\"ZOE@X\"]")]), cx(Some("T"), Some("zoe`x"), &[], &[])),
    // Unicode White_Space boundaries: U+0085 and U+3000 trim, U+200B and U+001F do not
    || (bm(&[("acl_tenant_id", "\u{85}t1\u{3000}"), ("acl_visibility", "public")]), cx(Some("t1"), None, &[], &[])),
    || (bm(&[("acl_tenant_id", "\u{200b}t1"), ("acl_visibility", "public")]), cx(Some("t1"), None, &[], &[])),
    || (bm(&[("acl_tenant_id", "t1\u{1f}"), ("acl_visibility", "public")]), cx(Some("t1"), None, &[], &[])),
];

// ------------------------------------------------------------------ stream `json`
fn run_json(r: &mut Rng, n: usize, w: &mut dyn std::io::Write) {
    let atoms: &[&str] = &["\"", "\\", "\\\"", "\\\\", "\\/", "\\n", "\\t", "\\b", "\\f", "\\r", "\\u0041", "\\u00e9", "\\u00E9", "\\ud83d\\ude00", "\\ud83d", "\\ude00", "\\ud83d\\u0041", "\\ud83dx", "\\u12", "\\u12G4", "\\q", "\\",
        "[", "]", ",", " ", "\t", "\n", "\r", "\u{a0}", "a", "B", "admin", "eng", "\u{e9}", "\u{1f600}", "\u{1}", "\u{1f}", "\u{7f}", "\u{c}", "\\udc00", "\\u00ff", "\\uabcF", "\\u001f", ",", "\",\"", "null", "1", "{", "}", ":", "'", "\u{2028}"];
    // fixed boundary inputs first: escapes, surrogates, control characters, whitespace, array punctuation
    const FIXED: &[&str] = &["\"\u{1f}\"", "\"\u{1e}\"", "\" \"", "\"\u{7f}\"", "\"\\u001f\"", "\"\\udc00\"", "\"\\udfff\"", "\"\\ude00x\"", "\"\\udbff\\udfff\"", "\"\\ud800\\udc00\"",
        "\"\\ud800\\ud800\"", "\"\\ud800\\u0041\"", "\"\\ud800\"", "\"\\ud800\\n\"", "\"\\ud800\\\"", "\"\\uD83D\\uDE00\"", "\"\\ud7ff\"", "\"\\ue000\"", "\"\\uffff\"", "\"\\u0000\"",
        "\"\\u00ff\"", "\"\\u00FF\"", "\"\\uabcf\"", "\"\\uABCF\"", "\"\\u00fg\"", "\"\\u00Fg\"", "\"\\u00f`\"", "\"\\u00@f\"", "\"\\u009:\"", "\"\\u00/9\"", "\"\\u12\"", "\"\\u123\"", "\"\\u 041\"",
        "\"a\"\u{c}", "\u{c}\"a\"", "\"a\"\u{b}", "\"a\" ", " \t\n\r\"a\" \t\n\r", "\"a\"\u{a0}", "\"a\"\u{2028}", "\"a\"x", "\"a\"\"", "\"a\" \"b\"",
        "\"\\/\"", "\"/\"", "\"\\b\\f\\n\\r\\t\"", "\"\\a\"", "\"\\B\"", "\"\\\\\"", "\"\\\"\"", "\"\"", "\"", "", " ", "\"a\tb\"", "\"a\nb\"", "\"\u{e9}\u{1f600}\"",
        "[]", "[ ]", " [ \"a\" ] ", "[\"a\" \"b\"]", "[\"a\"\"b\"]", "[\"a\",,\"b\"]", "[,\"a\"]", "[\"a\",]", "[\"a\", ]", "[\"a\"", "[\"a\",", "[", "]", "[]]", "[] x", "[]\u{c}", "\u{c}[]",
        "[[\"a\"]]", "[null]", "[1]", "[\"a\",1]", "null", "\"a\"]", "[\"\\u0041\",\"\\u00e9\"]", "[\"a\"\u{c},\"b\"]", "[\"a\"\n,\r\"b\"\t]", "[\"a\";\"b\"]", "[\"a\":\"b\"]", "{\"a\":\"b\"}", "['a']"];
    for i in 0..(n + FIXED.len()) {
        let mut tags = vec![];
        let s: String = if i < FIXED.len() { tags.push("fixed".into()); FIXED[i].to_string() } else { match r.below(4) {
            0 => { tags.push("literal".into()); let mut t = vec![]; let x = *r.pick(ROLES); let inner = scalar(r, x, &mut t); let q = json_escape_fancy(r, &inner); if r.chance(1, 4) { pad(r, &q) } else { let mut o = String::new(); for _ in 0..r.below(3) { o.push(*r.pick(&[' ', '\n', '\t', '\r'])); } o.push_str(&q); for _ in 0..r.below(3) { o.push(*r.pick(&[' ', '\n', '\t', '\r'])); } o } }
            1 => { tags.push("array".into()); let ms = subset(r, ROLES, 3); let l = r.below(3); list_value(r, &ms, l, &mut tags) }
            _ => { tags.push("soup".into()); let k = r.below(9); let mut s = String::new(); let quote = r.chance(1, 2); let good = r.chance(1, 2); if r.chance(5, 6) { s.push(if quote { '"' } else { '[' }); } for _ in 0..k { let a = *r.pick(atoms); if good && quote && (a == "\"" || a == "\\" || a.starts_with("\\u") && a != "\\u0041" && a != "\\ud83d\\ude00" || a == "\\q" || a.chars().any(|c| (c as u32) < 0x20)) { s.push_str("\\u00e9"); } else { s.push_str(a); } } if r.chance(5, 6) { s.push(if quote { '"' } else { ']' }); } s }
        } };
        let a = serde_json::from_str::<String>(&s).ok();
        let b = serde_json::from_str::<Vec<String>>(&s).ok();
        tags.push(format!("string-{}", if a.is_some() { "ok" } else { "err" }));
        tags.push(format!("array-{}", if b.is_some() { "ok" } else { "err" }));
        let out = T::Tup(vec![topt_str(&a), match &b { None => T::none(), Some(v) => T::some(T::L(v.iter().map(|x| tstr(x)).collect())) }]);
        emit(w, "json", &Case { input: tstr(&s), output: out, violation: None, nontrivial: a.is_some() || b.is_some(), tags, key: digest(&s) });
    }
}

// ------------------------------------------------------------------ end to end
struct Emb;
impl VecEmbedder for Emb {
    fn embed_query(&self, text: &str) -> memvid_core::Result<Vec<f32>> { Ok(embed(text)) }
    fn embedding_dimension(&self) -> usize { 4 }
}
fn embed(text: &str) -> Vec<f32> {
    let h = blake3::hash(text.as_bytes());
    let b = h.as_bytes();
    (0..4).map(|i| (b[i] % 7) as f32 + 1.0).collect()
}

struct Corpus {
    _dir: tempfile::TempDir,
    mem: Memvid,
    metas: BTreeMap<u64, BTreeMap<String, String>>, // frame id -> stored extra_metadata
    markers: BTreeMap<u64, String>,
    has_vec: bool,
}

const T0: i64 = 1_700_000_000;

/// frames = (uri, text, marker, metadata), stored in order with timestamps T0 + 1000 * i
fn store_corpus(frames: &[(String, String, String, BTreeMap<String, String>)], with_vec: bool) -> Corpus {
    let dir = tempfile::tempdir().expect("tempdir");
    let path = dir.path().join("c12.mv2");
    let mut mem = Memvid::create(&path).expect("create");
    mem.enable_lex().expect("lex");
    if with_vec { mem.enable_vec().expect("vec"); }
    let mut want: BTreeMap<String, String> = BTreeMap::new();
    for (i, (uri, text, marker, meta)) in frames.iter().enumerate() {
        let opts = PutOptions { uri: Some(uri.clone()), title: Some(format!("Doc {}", i)), search_text: Some(text.clone()), timestamp: Some(T0 + 1000 * i as i64),
            extra_metadata: meta.clone(), auto_tag: false, extract_dates: false, extract_triplets: false, ..Default::default() };
        if with_vec { mem.put_with_embedding_and_options(text.as_bytes(), embed(text), opts).expect("put"); }
        else { mem.put_bytes_with_options(text.as_bytes(), opts).expect("put"); }
        want.insert(uri.clone(), marker.clone());
    }
    mem.commit().expect("commit");
    let mut metas = BTreeMap::new();
    let mut markers = BTreeMap::new();
    for id in 0..mem.frame_count() as u64 {
        if let Ok(f) = mem.frame_by_id(id) {
            metas.insert(id, f.extra_metadata.clone());
            if let Some(u) = &f.uri { if let Some(mk) = want.get(u) { markers.insert(id, mk.clone()); } }
        }
    }
    Corpus { _dir: dir, mem, metas, markers, has_vec: with_vec }
}

fn build_corpus(r: &mut Rng, nframes: usize, with_vec: bool) -> Corpus {
    let salt = r.below(1000);
    let mut frames = vec![];
    for i in 0..nframes {
        let mut tg = vec![];
        // two thirds well-formed frames of the two main tenants, the rest from the full generator
        let meta = if r.chance(2, 3) {
            let mut m = BTreeMap::new();
            m.insert(ACL_TENANT_ID_KEY.to_string(), r.pick(&TENANTS[..2]).to_string());
            m.insert(ACL_VISIBILITY_KEY.to_string(), if r.chance(1, 3) { "public".into() } else { "restricted".to_string() });
            m.insert(ACL_READ_ROLES_KEY.to_string(), serde_json::to_string(&subset(r, ROLES, 1)).unwrap());
            m.insert(ACL_READ_GROUPS_KEY.to_string(), serde_json::to_string(&subset(r, GROUPS, 1)).unwrap());
            m.insert(ACL_READ_PRINCIPALS_KEY.to_string(), serde_json::to_string(&subset(r, PRINCIPALS, 1)).unwrap());
            m
        } else { let a = *r.pick(&TENANTS[..3]); gen_meta(r, a, &mut tg) };
        let marker = format!("zq{}m{}x", i, salt);
        let topic = *r.pick(&["beta", "gamma", "delta"]);
        let text = format!("alpha {} report {} about the {} budget", topic, marker, r.pick(&["quarterly", "annual", "team"]));
        // one frame in five is a user correction (ask promotes those to the top of its hit list)
        let uri = if r.chance(1, 5) { format!("mv2://correction/c{}", i) } else { format!("mv2://c12/doc{}", i) };
        frames.push((uri, text, marker, meta));
    }
    store_corpus(&frames, with_vec)
}

/// The fixed memory that runs first on every seed: both tenants, public and restricted by role /
/// principal / group, unknown visibility, no ACL metadata, a non-JSON list, and corrections of both
/// tenants.  Every frame matches "alpha" and "budget".
fn fixed_corpus() -> Corpus {
    let f = |i: usize, uri: &str, extra: &str, kv: &[(&str, &str)]| (uri.to_string(), format!("alpha budget report zfix{}x {}", i, extra), format!("zfix{}x", i), bm(kv));
    let frames = vec![
        f(0, "mv2://acme/plan", "quarterly beta", &[("acl_tenant_id", "tenant-a"), ("acl_visibility", "public")]),
        f(1, "mv2://globex/pricing", "annual beta", &[("acl_tenant_id", "tenant-b"), ("acl_visibility", "public")]),
        f(2, "mv2://acme/admin", "team gamma", &[("acl_tenant_id", "tenant-a"), ("acl_visibility", "restricted"), ("acl_read_roles", "[\"admin\"]")]),
        f(3, "mv2://acme/alice", "team gamma", &[("acl_tenant_id", "Tenant-A"), ("acl_visibility", "\"restricted\""), ("acl_read_principals", "[\"alice\"]")]),
        f(4, "mv2://acme/ops", "annual delta", &[("acl_tenant_id", "tenant-a"), ("acl_visibility", "restricted"), ("acl_read_groups", "[\"ops\"]")]),
        f(5, "mv2://acme/private", "quarterly delta", &[("acl_tenant_id", "tenant-a"), ("acl_visibility", "private")]),
        f(6, "mv2://legacy/noacl", "quarterly beta", &[]),
        f(7, "mv2://correction/acme-1", "corrected quarterly", &[("acl_tenant_id", "tenant-a"), ("acl_visibility", "public")]),
        f(8, "mv2://correction/globex-1", "corrected annual", &[("acl_tenant_id", "tenant-b"), ("acl_visibility", "restricted"), ("acl_read_roles", "[\"admin\"]")]),
        f(9, "mv2://acme/csv", "team beta", &[("acl_tenant_id", "tenant-a"), ("acl_visibility", "restricted"), ("acl_read_groups", "eng,ops")]),
        f(10, "mv2://globex/ops", "team delta", &[("acl_tenant_id", "tenant-b"), ("acl_visibility", "restricted"), ("acl_read_groups", "[\"ops\"]")]),
        f(11, "mv2://acme/late", "annual gamma", &[("acl_tenant_id", " tenant-a "), ("acl_visibility", "PUBLIC")]),
    ];
    store_corpus(&frames, true)
}

#[derive(Clone, Debug)]
enum Req { Search { query: String, top_k: usize }, Vec { top_k: usize }, Adaptive { enabled: bool, max_results: usize }, Ask { question: String, mode: AskMode, context_only: bool, adaptive: bool, top_k: usize, range: Option<(i64, i64)> } }

/// what a response refers to: hits (rank, frame id), further frame ids (citations, fragments), texts
#[derive(Clone, Debug, PartialEq)]
struct Seen { hits: Vec<(usize, u64)>, other_ids: Vec<u64>, texts: Vec<String>, total: usize,
              cits: Vec<(usize, u64)>, frags: Vec<(usize, u64)> } // ask only: citations (index, frame), context fragments (rank, frame)

fn call(c: &mut Corpus, req: &Req, ctx: Option<&AclContext>, mode: AclEnforcementMode) -> Result<Result<Seen, String>, ()> {
    let c_has_vec = c.has_vec;
    let mem = &mut c.mem;
    let res = std::panic::catch_unwind(std::panic::AssertUnwindSafe(|| -> Result<Seen, String> {
        match req {
            Req::Search { query, top_k } => {
                let resp = mem.search(SearchRequest { query: query.clone(), top_k: *top_k, snippet_chars: 120, uri: None, scope: None, cursor: None,
                    as_of_frame: None, as_of_ts: None, no_sketch: false, acl_context: ctx.cloned(), acl_enforcement_mode: mode }).map_err(|e| e.to_string())?;
                let mut texts = vec![resp.context.clone()];
                for h in &resp.hits { texts.push(h.text.clone()); if let Some(t) = &h.chunk_text { texts.push(t.clone()); } }
                Ok(Seen { hits: resp.hits.iter().map(|h| (h.rank, h.frame_id)).collect(), other_ids: vec![], texts, total: resp.total_hits, cits: vec![], frags: vec![] })
            }
            Req::Vec { top_k } => {
                let resp = mem.vec_search_with_embedding_acl("alpha", &embed("alpha beta"), *top_k, 120, None, ctx, mode).map_err(|e| e.to_string())?;
                let mut texts = vec![resp.context.clone()];
                for h in &resp.hits { texts.push(h.text.clone()); }
                Ok(Seen { hits: resp.hits.iter().map(|h| (h.rank, h.frame_id)).collect(), other_ids: vec![], texts, total: resp.total_hits, cits: vec![], frags: vec![] })
            }
            Req::Adaptive { enabled, max_results } => {
                let cfg = AdaptiveConfig { enabled: *enabled, max_results: *max_results, ..Default::default() };
                let resp = mem.search_adaptive_acl("alpha", &embed("alpha gamma"), cfg, 120, None, ctx, mode).map_err(|e| e.to_string())?;
                let texts = resp.results.iter().map(|h| h.text.clone()).collect();
                Ok(Seen { hits: resp.results.iter().map(|h| (h.rank, h.frame_id)).collect(), other_ids: vec![], texts, total: resp.stats.returned, cits: vec![], frags: vec![] })
            }
            Req::Ask { question, mode: amode, context_only, adaptive, top_k, range } => {
                let rq = AskRequest { question: question.clone(), top_k: *top_k, snippet_chars: 120, uri: None, scope: None, cursor: None, start: range.map(|x| x.0), end: range.map(|x| x.1),
                    context_only: *context_only, mode: *amode, as_of_frame: None, as_of_ts: None,
                    adaptive: if *adaptive { Some(AdaptiveConfig::default()) } else { None }, acl_context: ctx.cloned(), acl_enforcement_mode: mode };
                let resp = if *amode == AskMode::Lex || !c_has_vec { mem.ask::<Emb>(rq, None) } else { mem.ask(rq, Some(&Emb)) }.map_err(|e| e.to_string())?;
                let mut texts = vec![resp.retrieval.context.clone()];
                if let Some(a) = &resp.answer { texts.push(a.clone()); }
                for h in &resp.retrieval.hits { texts.push(h.text.clone()); if let Some(t) = &h.chunk_text { texts.push(t.clone()); } }
                for f in &resp.context_fragments { texts.push(f.text.clone()); }
                let mut other: Vec<u64> = resp.citations.iter().map(|x| x.frame_id).collect();
                other.extend(resp.context_fragments.iter().map(|f| f.frame_id));
                Ok(Seen { hits: resp.retrieval.hits.iter().map(|h| (h.rank, h.frame_id)).collect(), other_ids: other, texts, total: resp.retrieval.total_hits,
                    cits: resp.citations.iter().map(|x| (x.index, x.frame_id)).collect(), frags: resp.context_fragments.iter().map(|f| (f.rank, f.frame_id)).collect() })
            }
        }
    }));
    res.map_err(|_| ())
}

fn err_kind(e: &str) -> u128 {
    if e.contains("acl_context is required") { 1 } else if e.contains("acl_context.tenant_id is required") { 2 } else { 99 }
}

fn e2e_contexts(r: &mut Rng) -> Vec<(Option<AclContext>, &'static str)> {
    let mut v: Vec<(Option<AclContext>, &'static str)> = vec![
        (None, "ctx-none"),
        (Some(cx(Some("tenant-a"), Some("alice"), &["admin"], &["eng"])), "ctx-a-full"),
        (Some(cx(Some("Tenant-B "), Some("user-1"), &["Viewer"], &[])), "ctx-b-mixedcase"),
        (Some(cx(Some("tenant-a"), None, &[], &[])), "ctx-a-bare"),
        (Some(cx(Some("nobody"), Some("alice"), &["admin", "analyst", "viewer"], &["eng", "ops", "sales"])), "ctx-unknown-tenant"),
        (Some(cx(None, Some("alice"), &["admin"], &["eng"])), "ctx-no-tenant"),
        (Some(cx(Some(" \t"), Some("alice"), &["admin"], &["eng"])), "ctx-blank-tenant"),
        (Some(cx(Some("\"\""), None, &[], &[])), "ctx-quoted-empty-tenant"),
    ];
    for _ in 0..3 { let mut t = vec![]; let a = *r.pick(&TENANTS[..2]); v.push((Some(gen_ctx(r, a, &mut t)), "ctx-random")); }
    v
}

fn ask(question: &str, mode: AskMode) -> Req { Req::Ask { question: question.into(), mode, context_only: false, adaptive: false, top_k: 4, range: None } }

/// every retrieval entry point that takes an acl_context (grep acl_context / apply_acl_to_search_hits in
/// /repo/src: Memvid::search, Memvid::ask, vec_search_with_embedding_acl, search_adaptive_acl; audit(),
/// graph_search::hybrid_search, replay and the lib.rs helpers pass None/Audit and take no context), and for
/// ask every retrieval path: plain, zero-hit timeline fallback, analytical (timeline replaces the candidates),
/// aggregation, recency, update, corrections, time range, Lex / Sem / Hybrid, adaptive, context_only
fn requests(with_vec: bool) -> Vec<Req> {
    let mut reqs = vec![
        // analytical questions first (seeded change C12-1: the final ACL pass of ask skipped for them)
        ask("compare the alpha budget over time", AskMode::Lex),
        ask("alpha report vs beta report", AskMode::Hybrid),
        Req::Ask { question: "history of the alpha budget: any changes".into(), mode: AskMode::Lex, context_only: true, adaptive: false, top_k: 2, range: None },
        ask("compare nosuchtermzz over time", AskMode::Lex),
        Req::Search { query: "alpha".into(), top_k: 20 }, Req::Search { query: "alpha".into(), top_k: 3 },
        Req::Search { query: "beta OR gamma".into(), top_k: 20 },
        Req::Search { query: "alpha AND date:[2031-01-01 TO 2030-01-01]".into(), top_k: 20 },
        Req::Search { query: "uri:mv2://correction/* AND (alpha OR budget)".into(), top_k: 10 },
        Req::Search { query: "nosuchtermzz".into(), top_k: 20 },
        Req::Vec { top_k: 20 }, Req::Vec { top_k: 3 }, Req::Vec { top_k: 0 },
        Req::Adaptive { enabled: true, max_results: 20 }, Req::Adaptive { enabled: false, max_results: 4 }, Req::Adaptive { enabled: true, max_results: 0 },
        ask("alpha beta report", AskMode::Lex),
        ask("what is the alpha budget", AskMode::Hybrid),
        Req::Ask { question: "alpha gamma".into(), mode: AskMode::Hybrid, context_only: true, adaptive: true, top_k: 4, range: None },
        ask("nosuchtermzz", AskMode::Lex),
        Req::Ask { question: "how many alpha reports are there in total".into(), mode: AskMode::Lex, context_only: false, adaptive: false, top_k: 2, range: None },
        ask("what is the latest alpha budget right now", AskMode::Hybrid),
        ask("has the alpha budget changed, is it still annual", AskMode::Lex),
        ask("alpha budget", AskMode::Sem),
        ask("corrected alpha budget", AskMode::Lex),
        Req::Ask { question: "alpha report".into(), mode: AskMode::Lex, context_only: false, adaptive: false, top_k: 4, range: Some((T0 + 2500, T0 + 7500)) },
        Req::Ask { question: "compare alpha budget versus beta".into(), mode: AskMode::Lex, context_only: false, adaptive: false, top_k: 3, range: Some((T0, T0 + 6500)) },
    ];
    if !with_vec { reqs.retain(|q| !matches!(q, Req::Ask { mode: AskMode::Hybrid | AskMode::Sem, .. })); }
    reqs
}

fn fixed_contexts() -> Vec<(Option<AclContext>, &'static str)> {
    vec![
        (None, "ctx-none"),
        (Some(cx(Some("tenant-a"), Some("alice"), &["admin"], &["eng"])), "ctx-a-full"),
        (Some(cx(Some("Tenant-B "), Some("user-1"), &["Viewer"], &[])), "ctx-b-mixedcase"),
        (Some(cx(Some("tenant-a"), None, &[], &[])), "ctx-a-bare"),
        (Some(cx(Some("tenant-a"), Some("bob"), &[], &["OPS"])), "ctx-a-ops"),
        (Some(cx(Some("nobody"), Some("alice"), &["admin", "analyst", "viewer"], &["eng", "ops", "sales"])), "ctx-unknown-tenant"),
        (Some(cx(None, Some("alice"), &["admin"], &["eng"])), "ctx-no-tenant"),
        (Some(cx(Some(" \t"), Some("alice"), &["admin"], &["eng"])), "ctx-blank-tenant"),
        (Some(cx(Some("\"\""), None, &[], &[])), "ctx-quoted-empty-tenant"),
    ]
}

fn run_e2e(r: &mut Rng, ncorpora: usize, nframes: usize, w: &mut dyn std::io::Write) {
    // the fixed memory first
    let mut c = fixed_corpus();
    exercise(&mut c, "fixed", &requests(true), &fixed_contexts(), w);
    for ci in 0..ncorpora {
        // the last corpus has lex + vec enabled but no embeddings: vector search short-circuits
        let with_vec = !(ncorpora > 1 && ci == ncorpora - 1);
        let mut c = build_corpus(r, nframes, with_vec);
        if !with_vec { c.mem.enable_vec().ok(); c.mem.commit().ok(); }
        let ctxs = e2e_contexts(r);
        exercise(&mut c, &format!("{}", ci), &requests(with_vec), &ctxs, w);
    }
}

fn t_pairs(v: &[(usize, u64)]) -> T { T::L(v.iter().map(|h| T::Tup(vec![T::N(h.0 as u128), T::N(h.1 as u128)])).collect()) }

fn exercise(c: &mut Corpus, ci: &str, reqs: &[Req], ctxs: &[(Option<AclContext>, &'static str)], w: &mut dyn std::io::Write) {
    let with_vec = c.has_vec;
    let all_frames_t = T::L(c.metas.iter().map(|(id, m)| T::Tup(vec![T::N(*id as u128), tmeta(m)])).collect());
    {
        for req in reqs {
            let mut fin: Vec<(T, T)> = vec![]; let mut fin_nontrivial = false;

            let base = call(c, req, None, AclEnforcementMode::Audit);
            let mut batch: Vec<(T, T)> = vec![]; let mut batch_tags: Vec<String> = vec![]; let mut batch_nontrivial = false;
            for (ctx, ctag) in ctxs {
                for mode in [AclEnforcementMode::Audit, AclEnforcementMode::Enforce] {
                    if ctx.is_none() && mode == AclEnforcementMode::Audit { continue; }
                    let enforce = mode == AclEnforcementMode::Enforce;
                    let got = call(c, req, ctx.as_ref(), mode);
                    let kind = match req { Req::Search { .. } => "search", Req::Vec { .. } => "vec", Req::Adaptive { .. } => "adaptive", Req::Ask { .. } => "ask" };
                    let mut tags = vec![kind.to_string(), ctag.to_string(), if enforce { "enforce".into() } else { "audit".to_string() }];
                    if ci == "fixed" { tags.push("fixed-corpus".into()); }
                    if let Req::Ask { question, mode: am, context_only, adaptive, range, .. } = req {
                        let q = question.to_ascii_lowercase();
                        tags.push(format!("ask-{}", if ["compare", "over time", "vs ", "history of", "any changes", "versus"].iter().any(|p| q.contains(p)) { "analytical" }
                            else if q.contains("how many") { "aggregation" } else if q.contains("latest") { "recency" } else if q.contains("changed") { "update" }
                            else if q.contains("correct") { "correction" } else if q.contains("nosuchterm") { "zero-hit" } else { "plain" }));
                        tags.push(format!("ask-{:?}", am).to_lowercase());
                        if *context_only { tags.push("ask-context-only".into()); }
                        if *adaptive { tags.push("ask-adaptive".into()); }
                        if range.is_some() { tags.push("ask-time-range".into()); }
                    }
                    if !with_vec { tags.push("no-embeddings".into()); }
                    let usable = ctx.as_ref().map_or(false, |x| o_norm(x.tenant_id.as_deref()).is_some());
                    let mut viol: Option<String> = None;
                    let mut nontrivial = false;
                    match (&got, &base) {
                        (Err(()), _) => viol = Some(format!("acl-panic: {:?} panicked", req)),
                        (Ok(Ok(seen)), _) if enforce => {
                            if !usable {
                                // Enforce without a tenant must be an error
                                let early = seen.hits.is_empty() && matches!(&base, Ok(Ok(b)) if b.hits.is_empty());
                                let cls = if early { "enforce-no-tenant-empty-ok" } else { "enforce-no-tenant-ok" };
                                viol = Some(format!("{}: {:?} with Enforce and no usable tenant ({}) returned Ok with {} hits instead of an error", cls, req, ctag, seen.hits.len()));
                                tags.push("enforce-no-tenant-ok".into());
                            } else {
                                let cx_ = ctx.as_ref().unwrap();
                                let mut denied_seen = vec![];
                                for id in seen.hits.iter().map(|h| h.1).chain(seen.other_ids.iter().copied()) {
                                    let v = c.metas.get(&id).map(|m| oracle(m, cx_).unwrap()).unwrap_or(Verdict::BadMetadata);
                                    if v != Verdict::Allow { denied_seen.push((id, v)); }
                                }
                                for (id, mk) in &c.markers {
                                    let v = oracle(&c.metas[id], cx_).unwrap();
                                    if v != Verdict::Allow && seen.texts.iter().any(|t| t.contains(mk.as_str())) { denied_seen.push((*id, v)); }
                                }
                                if !denied_seen.is_empty() {
                                    viol = Some(format!("acl-leak: {:?} under Enforce for {:?} refers to denied frames {:?}", req, cx_, denied_seen));
                                }
                                let ranks_ok = seen.hits.iter().enumerate().all(|(i, h)| h.0 == i + 1);
                                if viol.is_none() && !ranks_ok { tags.push("ranks-not-1..n".into()); }
                                if let Ok(Ok(b)) = &base {
                                    let ndenied = b.hits.iter().filter(|h| c.metas.get(&h.1).map(|m| oracle(m, cx_).unwrap()) != Some(Verdict::Allow)).count();
                                    nontrivial = ndenied > 0;
                                    tags.push(format!("base-denied-{}", ndenied.min(5)));
                                }
                            }
                        }
                        (Ok(Err(e)), _) if enforce => {
                            if !usable { tags.push("enforce-no-tenant-err".into()); nontrivial = err_kind(e) != 99; if err_kind(e) == 99 { tags.push("other-error".into()); } }
                            else if !matches!(&base, Ok(Err(_))) { tags.push("error-with-tenant".into()); }
                        }
                        (Ok(g), Ok(b)) => {
                            // Audit: same as no ACL context
                            nontrivial = matches!(b, Ok(s) if !s.hits.is_empty());
                            // ask fuses candidate lists through a HashMap (RRF): equal fused scores come out in an
                            // unspecified order even for two identical requests, so for ask the comparison is on the
                            // set of frames referred to (hits, citations, fragments) and the total, not on the order
                            let same = if matches!(req, Req::Ask { .. }) {
                                match (g, b) {
                                    (Ok(x), Ok(y)) => { let ids = |s: &Seen| { let mut v: Vec<u64> = s.hits.iter().map(|h| h.1).collect(); v.sort(); let mut o = s.other_ids.clone(); o.sort(); (v, o, s.total) }; ids(x) == ids(y) }
                                    (Err(x), Err(y)) => x == y,
                                    _ => false,
                                }
                            } else { g == b };
                            if !same { viol = Some(format!("audit-differs: {:?} under Audit with {} differs from the same request without ACL context: {:?} vs {:?}", req, ctag, g.as_ref().map(|s| &s.hits), b.as_ref().map(|s| &s.hits))); }
                        }
                        (Ok(_), Err(())) => {}
                    }
                    let key = digest(&format!("{}{:?}{:?}{:?}{:?}", ci, req, ctx, mode, c.metas));
                    // model comparison for the two call sites whose ACL stage is a pure filter of the no-ACL result
                    let modelled = matches!(req, Req::Search { .. } | Req::Vec { .. }) && matches!(&base, Ok(Ok(_))) && got.is_ok();
                    if modelled {
                        let b = match &base { Ok(Ok(b)) => b, _ => unreachable!() };
                        // the early exits never reach the ACL stage: the model's apply stage is not what ran
                        let early = b.hits.is_empty() && matches!(&got, Ok(Ok(_))) && enforce && !usable;
                        if !early {
                            let output = match got.as_ref().unwrap() {
                                Ok(s) => T::C("Ok", vec![T::L(s.hits.iter().map(|h| T::Tup(vec![T::N(h.0 as u128), T::N(h.1 as u128)])).collect())]),
                                Err(e) => T::C("Err", vec![T::N(err_kind(e))]),
                            };
                            batch.push((T::Tup(vec![match ctx { None => T::none(), Some(x) => T::some(tctx(x)) }, T::B(enforce)]), output));
                            batch_nontrivial |= nontrivial;
                            for t in &tags { if !batch_tags.contains(t) { batch_tags.push(t.clone()); } }
                            tags.push("modelled".into());
                        }
                    }
                    // `final` stream: whatever path produced the response, the last step of every entry point is the ACL
                    // stage, so the response must be a fixed point of the model's last step (hits unchanged by filtering
                    // and re-ranking; citations / fragments derived from exactly those hits)
                    if let Ok(Ok(sn)) = &got {
                        if !(enforce && !usable) {
                            let cit_mode: u128 = match req { Req::Ask { context_only: true, .. } => 1, Req::Ask { .. } => 2, _ => 0 };
                            fin.push((T::Tup(vec![match ctx { None => T::none(), Some(x) => T::some(tctx(x)) }, T::B(enforce), T::N(cit_mode), t_pairs(&sn.hits)]),
                                      T::C("Ok", vec![T::Tup(vec![t_pairs(&sn.hits), t_pairs(&sn.cits), t_pairs(&sn.frags)])])));
                            fin_nontrivial |= enforce && !sn.hits.is_empty();
                        }
                    }
                    let input = T::S(format!("{:?} ctx={} mode={:?}", req, ctag, mode).replace('"', "'"));
                    let output = T::S(match &got { Ok(Ok(s)) => format!("Ok hits={:?} other={:?}", s.hits, s.other_ids), Ok(Err(e)) => format!("Err {}", e.replace('"', "'")), Err(()) => "Panic".into() });
                    emit(w, "e2e", &Case { input, output, violation: viol, nontrivial, tags, key });
                }
            }
            if let (false, Ok(Ok(b))) = (batch.is_empty(), &base) {
                // one `apply` case = one request on one memory under every (context, mode): the frames the
                // request can return, its hits without ACL, and the list of (context, mode) -> result
                let ids: BTreeSet<u64> = b.hits.iter().map(|h| h.1).collect();
                let frames_t = T::L(c.metas.iter().filter(|(id, _)| ids.contains(id)).map(|(id, m)| T::Tup(vec![T::N(*id as u128), tmeta(m)])).collect());
                let input = T::Tup(vec![frames_t, T::L(b.hits.iter().map(|h| T::Tup(vec![T::N(h.0 as u128), T::N(h.1 as u128)])).collect()),
                    T::L(batch.iter().map(|x| x.0.clone()).collect())]);
                let output = T::L(batch.iter().map(|x| x.1.clone()).collect());
                batch_tags.push(format!("calls-{}", batch.len()));
                let key = digest(&format!("{}{:?}{:?}", ci, req, c.metas));
                emit(w, "apply", &Case { input, output, violation: None, nontrivial: batch_nontrivial, tags: batch_tags, key });
            }
            if !fin.is_empty() {
                let kind = match req { Req::Search { .. } => "search", Req::Vec { .. } => "vec", Req::Adaptive { .. } => "adaptive", Req::Ask { .. } => "ask" };
                let mut tags = vec![kind.to_string(), format!("calls-{}", fin.len())];
                if ci == "fixed" { tags.push("fixed-corpus".into()); }
                let input = T::Tup(vec![all_frames_t.clone(), T::L(fin.iter().map(|x| x.0.clone()).collect())]);
                let output = T::L(fin.iter().map(|x| x.1.clone()).collect());
                let key = digest(&format!("final{}{:?}{:?}", ci, req, c.metas));
                emit(w, "final", &Case { input, output, violation: None, nontrivial: fin_nontrivial, tags, key });
            }
        }
    }
}

pub fn run(seed: u64, n: usize, w: &mut dyn std::io::Write) {
    let mut r = Rng::new(seed ^ 0xC12);
    run_decide(&mut r, n, w);
    run_json(&mut r, (n / 3).max(50), w);
    // the fixed memory, then n/600 generated ones (quick n=2400 -> 4 of 9 frames); thorough scales up
    let ncorpora = (n / 600).clamp(2, 60);
    let nframes = if n > 5000 { 24 } else { 9 };
    run_e2e(&mut r, ncorpora, nframes, w);
}
