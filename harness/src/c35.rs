//! C35 snippet slices: `lex::compute_snippet_slices` through `verif_hooks::snippet_slices`.
use crate::term::*;
use memvid_core::verif_hooks::snippet_slices;
use std::panic::{catch_unwind, AssertUnwindSafe};

const WORDS: &[&str] = &["alpha", "beta", "gamma", "delta", "memory", "frame", "index", "token", "a", "of", "zebra", "snippet", "x"];
const MB: &[&str] = &["é", "ü", "ß", "中", "文", "日本", "😀", "🚀", "e\u{301}", "\u{a0}", "\u{2028}", "Ω", "ñ"];
const STOPS: &[&str] = &[".", "!", "?", "\n", ". ", "! ", "? ", ".\n", "...", "?!", ".  ", ". \t", ".\r\n", ". \u{c}", ".\u{b}", ".\u{a0}"];
const WS: &[&str] = &[" ", " ", " ", "  ", "\t", "\r\n", " \u{c} ", "   "];

/// 0 prose, 1 no stops at all, 2 dense stops/newlines, 3 mostly multi-byte, 4 tiny, 5 whitespace-heavy after stops
fn pk(r: &mut Rng, v: &[&'static str]) -> &'static str { v[r.below(v.len() as u64) as usize] }

fn gen_text(r: &mut Rng, style: u64) -> String {
    let target = match style {
        4 => r.below(6) as usize,
        _ => match r.below(10) { 0 => r.below(12) as usize, 1..=5 => r.range(12, 120) as usize, 6..=8 => r.range(120, 260) as usize, _ => r.range(260, 400) as usize },
    };
    let mut s = String::new();
    while s.len() < target {
        let k = r.below(100);
        match style {
            1 => {
                if k < 55 { s.push_str(pk(r, WORDS)); } else if k < 75 { s.push_str(pk(r, MB)); } else { s.push_str(pk(r, &WS[..5])); }
            }
            2 => {
                if k < 35 { s.push_str(pk(r, WORDS)); } else if k < 50 { s.push_str(pk(r, MB)); } else if k < 85 { s.push_str(pk(r, STOPS)); } else { s.push_str(pk(r, WS)); }
            }
            3 => {
                if k < 15 { s.push_str(pk(r, WORDS)); } else if k < 75 { s.push_str(pk(r, MB)); } else if k < 85 { s.push_str(pk(r, STOPS)); } else { s.push_str(pk(r, WS)); }
            }
            4 => {
                if k < 30 { s.push_str(pk(r, &["a", "b", "x"])); } else if k < 55 { s.push_str(pk(r, MB)); } else if k < 80 { s.push_str(pk(r, STOPS)); } else { s.push(' '); }
            }
            5 => {
                if k < 35 { s.push_str(pk(r, WORDS)); } else if k < 45 { s.push_str(pk(r, MB)); } else if k < 65 { s.push_str(pk(r, STOPS)); } else { s.push_str(pk(r, WS)); }
            }
            _ => {
                if k < 50 { s.push_str(pk(r, WORDS)); } else if k < 60 { s.push_str(pk(r, MB)); } else if k < 70 { s.push_str(pk(r, STOPS)); } else { s.push_str(pk(r, WS)); }
            }
        }
    }
    if style == 4 { while s.len() > 5 { s.pop(); } }
    s
}

/// the `while let Some(pos) = hay[start..].find(needle)` loop of collect_token_occurrences / compute_matches
fn find_all(hay: &str, needle: &str) -> Vec<(usize, usize)> {
    let mut v = vec![];
    if needle.is_empty() { return v; }
    let mut start = 0usize;
    while let Some(pos) = hay[start..].find(needle) {
        let absolute = start + pos;
        let end = absolute + needle.len();
        v.push((absolute, end));
        start = end;
    }
    v
}

fn char_starts(s: &str) -> Vec<usize> { s.char_indices().map(|(i, _)| i).chain(std::iter::once(s.len())).collect() }

/// realistic occurrences: 1-3 needles taken from the text itself (at char boundaries), all their matches
fn occs_realistic(r: &mut Rng, text: &str, tags: &mut Vec<String>) -> Vec<(usize, usize)> {
    let cs = char_starts(text);
    let mut v = vec![];
    if cs.len() < 2 { return v; }
    let nn = r.range(1, 3);
    for _ in 0..nn {
        let needle: String = if r.chance(1, 2) { r.pick(WORDS).to_string() } else {
            let i = r.below(cs.len() as u64 - 1) as usize;
            let j = (i + 1 + r.below(4) as usize).min(cs.len() - 1);
            text[cs[i]..cs[j]].to_string()
        };
        v.extend(find_all(text, needle.trim()));
    }
    match r.below(4) {
        0 => { v.sort_by_key(|(s, _)| *s); tags.push("occ=sorted_by_start".into()); }          // lex.rs compute_matches
        _ => { v.sort_unstable(); v.dedup(); tags.push("occ=sorted_dedup".into()); }             // collect_token_occurrences
    }
    if v.len() > 14 { let keep = r.range(1, 14) as usize; let off = r.below((v.len() - keep) as u64 + 1) as usize; v = v[off..off + keep].to_vec(); }
    v
}

fn weird_offset(r: &mut Rng, len: usize, huge: bool) -> usize {
    match if huge { r.below(16) } else { [0u64, 1, 2, 3, 7, 8, 9, 10, 11][r.below(9) as usize] } {
        0 => 0,
        1 => len,
        2 => len + 1,
        3 => len + r.below(50) as usize,
        4 => usize::MAX,
        5 => usize::MAX - r.below(4) as usize,
        6 => (1usize << 63) + r.below(3) as usize - 1,
        7 => r.below(4) as usize,
        _ => r.below(len as u64 + 1) as usize,
    }
}

fn occs_malformed(r: &mut Rng, text: &str, tags: &mut Vec<String>) -> Vec<(usize, usize)> {
    let n = r.range(1, 8);
    let len = text.len();
    let mut v = vec![];
    let huge = r.chance(1, 3);
    for _ in 0..n {
        let a = weird_offset(r, len, huge);
        let b = match r.below(4) { 0 => weird_offset(r, len, huge), 1 => a, _ => a.saturating_add(r.below(12) as usize) };
        v.push((a, b));
    }
    if r.chance(1, 4) && !v.is_empty() { let d = v[r.below(v.len() as u64) as usize]; v.push(d); }
    if r.chance(1, 3) { v.sort_unstable(); }
    tags.push("occ=malformed".into());
    v
}

/// stop-free text, in-bounds sorted occurrences whose raw windows sit at distance 18..22 of the previous end:
/// exercises `snippet_start <= last.1 + 20` on both sides of equality, and `snippet_end <= snippet_start`
fn occs_gap(r: &mut Rng, text: &str, window: usize, tags: &mut Vec<String>) -> Vec<(usize, usize)> {
    let len = text.len();
    let h = window / 2;
    let mut v = vec![];
    let mut pos = r.below(10) as usize;
    for _ in 0..r.range(2, 6) {
        let s = pos + h;
        let e = s + r.below(5) as usize;
        if e > len { break; }
        v.push((s, e));
        // previous raw end = e + h ; next raw start = s' - h ; want s' - h - (e + h) in 18..=22
        pos = e + h + 18 + r.below(5) as usize;
    }
    tags.push("occ=gap20".into());
    v
}

const WINDOWS: &[usize] = &[0, 0, 1, 1, 2, 3, 7, 7, 20, 41, 80, 80, 160, 400, 1_000_000, usize::MAX, usize::MAX - 1];
const MAXES: &[usize] = &[0, 1, 1, 2, 3, 3, 5, 100, usize::MAX];

fn is_known_class(text: &str, occs: &[(usize, usize)], window: usize, max: usize) -> bool {
    !text.is_empty() && (max == 0 || window == 0 || occs.iter().any(|(_, e)| e.checked_add(window / 2).is_none()))
}

/// The property, clause by clause, on what the implementation returned. Returns all failing clauses as
/// (class tag, text); the class tag is narrow: it names the argument class when the failure is the one
/// that class is known to cause, a generic tag otherwise.
fn oracle(text: &str, occs: &[(usize, usize)], window: usize, max: usize, got: &Result<Vec<(usize, usize)>, ()>) -> Vec<(String, String)> {
    let mut f = vec![];
    match got {
        Err(()) => {
            if occs.iter().any(|(_, e)| e.checked_add(window / 2).is_none()) && !text.is_empty() {
                f.push(("end-overflow".to_string(), format!("compute_snippet_slices panics (debug build): an occurrence end + window/2 exceeds usize::MAX (window {})", window)));
            } else {
                f.push(("panic".to_string(), "compute_snippet_slices panicked although no end + window/2 overflows".to_string()));
            }
        }
        Ok(sl) => {
            if sl.len() > max {
                if max == 0 && !text.is_empty() { f.push(("max-zero".to_string(), format!("max_snippets = 0 but {} slice(s) returned", sl.len()))); }
                else { f.push(("count-exceeds-max".to_string(), format!("{} slices returned, maximum {}", sl.len(), max))); }
            }
            for (i, &(a, b)) in sl.iter().enumerate() {
                if b > text.len() || a > text.len() { f.push(("out-of-bounds".to_string(), format!("slice {} = ({}, {}) outside text of {} bytes", i, a, b, text.len()))); continue; }
                if !text.is_char_boundary(a) || !text.is_char_boundary(b) { f.push(("not-char-boundary".to_string(), format!("slice {} = ({}, {}) not on char boundaries", i, a, b))); continue; }
                if a >= b {
                    if window == 0 && a == b { f.push(("window-zero".to_string(), format!("window = 0: empty slice ({}, {})", a, b))); }
                    else { f.push(("empty-slice".to_string(), format!("slice {} = ({}, {}) is empty or reversed (window {})", i, a, b, window))); }
                }
                let t2 = text.to_string();
                let ok = catch_unwind(AssertUnwindSafe(|| { let s = &t2[a..b]; s.len() })).is_ok();
                if !ok { f.push(("slice-panics".to_string(), format!("&text[{}..{}] panics", a, b))); }
            }
            for w in sl.windows(2) {
                let (p, q) = (w[0], w[1]);
                if !(p.0 < q.0 && p.1 <= q.0) { f.push(("not-increasing".to_string(), format!("slices {:?} and {:?} overlap or are out of order", p, q))); }
            }
        }
    }
    f
}

fn emit_case(w: &mut dyn std::io::Write, text: &str, occs: &[(usize, usize)], window: usize, max: usize, mut tags: Vec<String>) {
    let got: Result<Vec<(usize, usize)>, ()> = catch_unwind(AssertUnwindSafe(|| snippet_slices(text, occs, window, max))).map_err(|_| ());
    let fails = oracle(text, occs, window, max, &got);
    let known_tags = ["max-zero", "window-zero", "end-overflow"];
    // an unexpected failure is reported before a known one
    let viol = fails.iter().find(|(c, _)| !known_tags.contains(&c.as_str())).or(fails.first()).map(|(c, t)| format!("{}: {}", c, t));
    let out_r = match &got {
        Err(()) => T::C("Panic", vec![T::N(0)]),
        Ok(sl) => T::C("Ok", vec![T::L(sl.iter().map(|&(a, b)| T::Tup(vec![T::N(a as u128), T::N(b as u128)])).collect())]),
    };
    let output = T::Tup(vec![out_r, T::B(fails.is_empty()), T::B(is_known_class(text, occs, window, max))]);
    let input = T::Tup(vec![
        T::H(text.as_bytes().to_vec()),
        T::L(occs.iter().map(|&(a, b)| T::Tup(vec![T::N(a as u128), T::N(b as u128)])).collect()),
        T::N(window as u128), T::N(max as u128)]);
    tags.push(format!("window={}", match window { 0 => "0".to_string(), 1..=3 => "1-3".into(), 4..=79 => "4-79".into(), 80..=400 => "80-400".into(), _ => "huge".into() }));
    tags.push(format!("max={}", match max { 0 => "0".to_string(), 1 => "1".into(), 2..=5 => "2-5".into(), _ => "big".into() }));
    tags.push(format!("len={}", match text.len() { 0 => "0".to_string(), 1..=11 => "1-11".into(), 12..=119 => "12-119".into(), _ => "120+".into() }));
    tags.push(format!("multibyte={}", text.len() != text.chars().count()));
    tags.push(format!("nocc={}", occs.len().min(6)));
    tags.push(match &got { Err(()) => "res=panic".to_string(), Ok(sl) => format!("res={}", sl.len().min(4)) });
    if is_known_class(text, occs, window, max) { tags.push("known_class".into()); }
    let nontrivial = !text.is_empty() && !occs.is_empty();
    let key = blake3::hash(input.coq().as_bytes()).to_hex()[..16].to_string();
    emit(w, "slices", &Case { input, output, violation: viol, nontrivial, tags, key });
}

pub fn run(seed: u64, n: usize, w: &mut dyn std::io::Write) {
    std::panic::set_hook(Box::new(|_| {}));
    let mut r = Rng::new(seed ^ 0xC35);

    // fixed edge cases first (the witnesses of the Coq refutations and their neighbours)
    let um = usize::MAX;
    let fixed: Vec<(&str, Vec<(usize, usize)>, usize, usize)> = vec![
        ("", vec![], 80, 3), ("", vec![(0, 5)], 0, 0), ("", vec![(0, um)], um, 0),
        ("a", vec![], 0, 1), ("a", vec![], 1, 0), ("a", vec![], 1, 1), ("ab", vec![(0, 1)], 2, 0),
        ("a", vec![(0, um)], 2, 1), ("a", vec![(0, um)], 1, 1), ("a", vec![(0, um - 1)], 2, 1), ("a", vec![(0, um - 1)], 3, 1), ("a", vec![(0, 1), (0, um)], 2, 1), ("a", vec![(0, 1), (0, um)], 2, 2),
        (".  ", vec![(1, 2)], 0, 1), (".  ", vec![(1, 2)], 1, 1), ("é", vec![(1, 1)], 0, 1), ("é", vec![(1, 1)], 1, 3), ("aé", vec![(2, 2)], 0, 1),
        ("hello world. this is a test! more", vec![(6, 11), (6, 11), (0, 5)], 7, 3),
        ("xxxxxxxxxxxxxxxxxxxxxxxxxxxxxxxxxxxxxxxxxxxxxxxxxxxxxxxxxxxx", vec![(50, 52), (3, 5), (28, 30)], 2, 3),
        ("xxxxxxxxxxxxxxxxxxxxxxxxxxxxxxxxxxxxxxxxxxxxxxxxxxxxxxxxxxxx", vec![(1, 2), (22, 23)], 0, 3),
        ("xxxxxxxxxxxxxxxxxxxxxxxxxxxxxxxxxxxxxxxxxxxxxxxxxxxxxxxxxxxx", vec![(1, 2), (23, 24)], 0, 3),
        ("日本語。中文.\n\n  x", vec![(4, 5), (10, 14)], 3, 2),
    ];
    for (t, o, win, mx) in fixed { emit_case(w, t, &o, win, mx, vec!["fixed".into()]); }

    for i in 0..n {
        let style = match r.below(12) { 0..=3 => 0, 4..=5 => 1, 6..=7 => 2, 8 => 3, 9 => 4, _ => 5 };
        let mut tags = vec![format!("style={}", style)];
        let mut window = *r.pick(WINDOWS);
        if r.chance(2, 5) { window = r.below(60) as usize; }
        let mut max = *r.pick(MAXES);
        let kind = r.below(20);
        let (text, occs) = match kind {
            0 => { let t = gen_text(&mut r, style); tags.push("occ=none".into()); (t, vec![]) }
            1..=8 => { let t = gen_text(&mut r, style); let o = occs_realistic(&mut r, &t, &mut tags); (t, o) }
            9..=10 => { // call-site like arguments
                let t = gen_text(&mut r, style); let o = occs_realistic(&mut r, &t, &mut tags);
                window = *r.pick(&[80usize, 80, 160, 200, 81]); max = *r.pick(&[1usize, 3, 3, 10]); tags.push("callsite".into()); (t, o)
            }
            11..=13 => { let t = gen_text(&mut r, style); let o = occs_malformed(&mut r, &t, &mut tags); (t, o) }
            14..=15 => { // long text, small window, several slices expected
                let mut t = gen_text(&mut r, style);
                for _ in 0..6 { if t.len() >= 160 { break; } let st = if style == 4 { 0 } else { style }; t.push_str(&gen_text(&mut r, st)); }
                while t.len() > 400 { t.pop(); }
                window = r.below(24) as usize; if max < 2 { max = *r.pick(&[2usize, 3, 5, 100]); }
                let o = occs_realistic(&mut r, &t, &mut tags); tags.push("spread".into()); (t, o)
            }
            _ => {
                let mut t = gen_text(&mut r, 1);
                for _ in 0..6 { if t.len() >= 150 { break; } t.push_str(&gen_text(&mut r, 1)); }
                while t.len() > 400 { t.pop(); }
                if window > 12 { window = *r.pick(&[0usize, 1, 2, 3, 4, 7, 10]); }
                if max < 2 && r.chance(3, 4) { max = *r.pick(&[2usize, 3, 5]); }
                let o = occs_gap(&mut r, &t, window, &mut tags); (t, o)
            }
        };
        // sometimes force the overflow edge exactly: last end + window/2 = 2^64 - 1 or 2^64
        let mut occs = occs;
        if i % 23 == 7 && !occs.is_empty() {
            window = *r.pick(&[2usize, 3, 80, usize::MAX]);
            let h = window / 2;
            let e = (usize::MAX - h) + if r.chance(1, 2) { 1 } else { 0 };   // h >= 1 so no overflow here
            let k = r.below(occs.len() as u64) as usize;
            occs[k].1 = e;
            tags.push("overflow_edge".into());
        }
        emit_case(w, &text, &occs, window, max, tags);
    }

    // str::find loop of collect_token_occurrences / compute_matches against the model's token_occurrences
    for _ in 0..(n / 6).max(10) {
        let style = r.below(6);
        let hay = gen_text(&mut r, style);
        let cs = char_starts(&hay);
        let needle: String = if cs.len() < 2 || r.chance(1, 3) { r.pick(&["a", "aa", "alpha", ".", " ", "é", "zz", "xx", ""]).to_string() } else {
            let i = r.below(cs.len() as u64 - 1) as usize;
            let j = (i + 1 + r.below(3) as usize).min(cs.len() - 1);
            hay[cs[i]..cs[j]].to_string()
        };
        let v = find_all(&hay, &needle);
        let mut viol = None;
        for &(a, b) in &v {
            if !(a < b && b <= hay.len() && &hay[a..b] == needle) { viol = Some(format!("find-range: occurrence ({}, {}) is not a match inside the haystack", a, b)); }
        }
        let input = T::Tup(vec![T::H(hay.as_bytes().to_vec()), T::H(needle.as_bytes().to_vec())]);
        let output = T::L(v.iter().map(|&(a, b)| T::Tup(vec![T::N(a as u128), T::N(b as u128)])).collect());
        let key = blake3::hash(input.coq().as_bytes()).to_hex()[..16].to_string();
        emit(w, "find", &Case { input, output, violation: viol, nontrivial: !v.is_empty(), tags: vec![format!("nmatch={}", v.len().min(5))], key });
    }
    // end to end through the public call site LexIndex::search -> build_snippets(content, occurrences, 160, 3)
    // -> &content[start..end] (implementation oracle only; no model counterpart for the index)
    for _ in 0..(n / 12).max(10) {
        let ndocs = r.range(1, 3);
        let mut docs: Vec<String> = vec![];
        for _ in 0..ndocs { let style = *r.pick(&[0u64, 2, 3, 5]); let mut t = gen_text(&mut r, style); if r.chance(1, 4) { for _ in 0..4 { let st = *r.pick(&[0u64, 2, 3]); t.push_str(&gen_text(&mut r, st)); } } docs.push(t); }
        let q: String = if r.chance(2, 3) { r.pick(WORDS).to_string() } else { format!("{} {}", r.pick(WORDS), r.pick(WORDS)) };
        let docs2 = docs.clone(); let q2 = q.clone();
        let res = catch_unwind(AssertUnwindSafe(move || {
            let mut b = memvid_core::LexIndexBuilder::new();
            for (i, d) in docs2.iter().enumerate() { b.add_document(i as u64, &format!("mv2://d/{}", i), None, d, &std::collections::HashMap::new()); }
            let art = b.finish().map_err(|e| e.to_string())?;
            let idx = memvid_core::LexIndex::decode(&art.bytes).map_err(|e| e.to_string())?;
            Ok::<_, String>(idx.search(&q2, 10).into_iter().map(|h| (h.frame_id, h.match_count, h.snippets)).collect::<Vec<_>>())
        }));
        let mut viol = None; let mut nhits = 0usize;
        match &res {
            Err(_) => viol = Some("callsite-panic: LexIndex::search panicked (snippet slicing)".to_string()),
            Ok(Err(e)) => viol = Some(format!("callsite-error: index build/decode failed: {}", e)),
            Ok(Ok(hits)) => {
                nhits = hits.len();
                for (fid, mc, snips) in hits {
                    let flat = docs[*fid as usize].replace('\n', " ");
                    if *mc >= 1 && (snips.is_empty() || snips.len() > 3) { viol = Some(format!("callsite-count: {} snippets for a hit with {} matches (maximum 3)", snips.len(), mc)); }
                    for sn in snips {
                        if sn.is_empty() { viol = Some("callsite-empty: empty snippet from LexIndex::search".to_string()); }
                        if !flat.contains(sn.as_str()) { viol = Some("callsite-substring: snippet is not a slice of the document".to_string()); }
                    }
                }
            }
        }
        let input = T::Tup(vec![T::L(docs.iter().map(|d| T::H(d.as_bytes().to_vec())).collect()), T::H(q.as_bytes().to_vec())]);
        let output = match &res { Ok(Ok(hits)) => T::L(hits.iter().map(|(f, m, sn)| T::Tup(vec![T::N(*f as u128), T::N(*m as u128), T::N(sn.len() as u128)])).collect()), _ => T::C("Panic", vec![T::N(0)]) };
        let key = blake3::hash(input.coq().as_bytes()).to_hex()[..16].to_string();
        emit(w, "lexsearch", &Case { input, output, violation: viol, nontrivial: nhits > 0, tags: vec![format!("hits={}", nhits.min(3))], key });
    }
}
