//! C39 sketch term filter (no false negatives) and sketch track write/read round trip.
use crate::term::*;
use memvid_core::error::MemvidError;
use memvid_core::types::sketch_track::*;
use std::io::{Cursor, Seek, SeekFrom};
use std::panic::{catch_unwind, AssertUnwindSafe};

fn panic_t() -> T { T::C("Panic", vec![T::N(0)]) }
fn ok_t(t: T) -> T { T::C("Ok", vec![t]) }
fn err_t(k: u128) -> T { T::C("Err", vec![T::N(k)]) }
fn key_of(parts: &[&[u8]]) -> String {
    let mut h = blake3::Hasher::new();
    for p in parts { h.update(&(p.len() as u64).to_le_bytes()); h.update(p); }
    h.finalize().to_hex()[..16].to_string()
}

// ---------------------------------------------------------------- term filter
fn gen_hash(r: &mut Rng, m: u64) -> u64 {
    match r.below(10) {
        0 => 0,
        1 => u64::MAX,
        2 => r.below(65536),                                   // h >> 16 == 0
        3 => r.below(1 << 32),                                 // h >> 32 == 0
        4 => { // lanes next to multiples of the bit count
            let lane = |r: &mut Rng| -> u64 { if m == 0 { r.below(65536) } else { (m * r.below(5) + [0, 1, m - 1][r.below(3) as usize]) & 0xFFFF } };
            lane(r) | (lane(r) << 16) | (lane(r) << 32) | (r.below(65536) << 48)
        }
        5 => 1u64 << r.below(64),
        _ => r.next(),
    }
}

fn filter_stream(r: &mut Rng, n: usize, w: &mut dyn std::io::Write) {
    for _ in 0..n {
        let size: usize = match r.below(16) {
            0 => 0,
            1 => *r.pick(&[1usize, 2, 3, 5, 7]),
            2 => r.range(1, 100) as usize,
            3..=6 => 16,
            7..=10 => 32,
            _ => 64,
        };
        let m = (size * 8) as u64;
        let nh = match r.below(10) { 0 => 0, 1..=3 => r.range(1, 3), 4..=8 => r.range(3, 12), _ => r.range(12, 40) } as usize;
        let hashes: Vec<u64> = (0..nh).map(|_| gen_hash(r, m)).collect();
        let mut probes: Vec<u64> = hashes.clone();
        for _ in 0..r.range(1, 6) {
            let p = if !hashes.is_empty() && r.chance(1, 2) { *r.pick(&hashes) ^ (1u64 << r.below(64)) } else { gen_hash(r, m) };
            probes.push(p);
        }
        let built = catch_unwind(AssertUnwindSafe(|| build_term_filter(&hashes, size)));
        let mut viol = None;
        let (out_b, out_p) = match &built {
            Err(_) => {
                if size > 0 { viol = Some(format!("filter-build-panic: build_term_filter panicked with size {}", size)); }
                (panic_t(), vec![])
            }
            Ok(f) => {
                let mut res = vec![];
                for (k, p) in probes.iter().enumerate() {
                    let c = catch_unwind(AssertUnwindSafe(|| term_filter_maybe_contains(f, *p)));
                    match c {
                        Ok(b) => {
                            if k < hashes.len() && !b && viol.is_none() {
                                viol = Some(format!("filter-false-negative: hash {} was added to a {}-byte filter but term_filter_maybe_contains says absent", p, size));
                            }
                            res.push(ok_t(T::B(b)));
                        }
                        Err(_) => {
                            if size > 0 && viol.is_none() { viol = Some(format!("filter-contains-panic: term_filter_maybe_contains panicked on a {}-byte filter", size)); }
                            res.push(panic_t());
                        }
                    }
                }
                if f.len() != size && viol.is_none() { viol = Some(format!("filter-size: asked for {} bytes, got {}", size, f.len())); }
                (ok_t(T::H(f.clone())), res)
            }
        };
        let input = T::Tup(vec![T::L(hashes.iter().map(|h| T::N(*h as u128)).collect()), T::N(size as u128), T::L(probes.iter().map(|h| T::N(*h as u128)).collect())]);
        let output = T::Tup(vec![out_b, T::L(out_p)]);
        let tags = vec![format!("size{}", match size { 0 => "0".to_string(), 16 | 32 | 64 => size.to_string(), _ => "odd".to_string() }), format!("nh{}", match nh { 0 => "0", 1..=3 => "1-3", 4..=12 => "4-12", _ => "13+" })];
        let hb: Vec<u8> = hashes.iter().flat_map(|h| h.to_le_bytes()).collect();
        emit(w, "filter", &Case { input, output, violation: viol, nontrivial: size > 0 && nh > 0, tags, key: key_of(&[&hb, &size.to_le_bytes()]) });
    }
    // term_filter_maybe_contains on arbitrary filters
    for _ in 0..(n / 3).max(8) {
        let len = match r.below(8) { 0 => 0, 1 => r.range(1, 70) as usize, 2 | 3 => 16, 4 | 5 => 32, _ => 64 };
        let style = r.below(4);
        let f: Vec<u8> = (0..len).map(|_| match style { 0 => r.next() as u8, 1 => (r.next() & r.next() & r.next()) as u8, 2 => 0xFF, _ => if r.chance(1, 6) { 1u8 << r.below(8) } else { 0 } }).collect();
        let h = gen_hash(r, (len * 8) as u64);
        let c = catch_unwind(AssertUnwindSafe(|| term_filter_maybe_contains(&f, h)));
        let out = match c { Ok(b) => ok_t(T::B(b)), Err(_) => panic_t() };
        emit(w, "contains", &Case { input: T::Tup(vec![T::H(f.clone()), T::N(h as u128)]), output: out, violation: None, nontrivial: len > 0,
            tags: vec![format!("len{}", if len == 0 { "0" } else { "pos" }), format!("style{}", style)], key: key_of(&[&f, &h.to_le_bytes()]) });
    }
}

// ---------------------------------------------------------------- texts
// The tokenizer keeps a piece iff its UTF-8 BYTE length is >= 2 (after NFKC + to_lowercase), so the
// alphabet has tokens on both sides of that threshold for which char count and byte count disagree.
const WORDS: &[&str] = &[
    "alpha", "beta", "gamma", "delta", "rust", "memory", "video", "frame", "index", "search", "Query", "SKETCH", "Filter", "bloom",
    // 1 char / 1 byte: dropped
    "x", "I", "a", "7",
    // 2 chars / 2 bytes
    "ab", "ZZ", "42", "v2", "a1",
    // 1 char / 2 bytes: kept
    "\u{e0}", "\u{e9}", "\u{df}", "\u{436}", "\u{3b1}", "\u{5d0}", "\u{f1}", "\u{c9}",
    // 1 char / 3 bytes: kept
    "\u{65e5}", "\u{e01}", "\u{8a9e}", "\u{3042}", "\u{20ac}",
    // 1 char / 4 bytes: kept (no NFKC mapping)
    "\u{10348}", "\u{20000}", "\u{10437}", "\u{1040f}",
    // 2 chars / 3, 4, 6, 8 bytes
    "\u{e9}a", "\u{e0}\u{e9}", "\u{65e5}\u{672c}", "\u{10348}\u{20000}", "a\u{e0}",
    // NFKC changes the length: ligature (1 char -> 2), full-width (3 bytes -> 1), fraction, squared units, roman numeral,
    // mathematical alphanumerics (4 bytes -> 1), decomposed accents (2 chars -> 1 char / 2 bytes)
    "\u{fb01}", "\u{fb01}ne", "\u{ff21}", "\u{ff21}\u{ff22}", "\u{bd}", "\u{338f}", "\u{2167}", "\u{1d4b3}", "\u{1d7d9}", "e\u{301}", "a\u{300}", "e\u{301}cole", "\u{132}",
    // lower-casing changes the length: capital sharp s (3 bytes -> 2), dotted capital I (-> i + combining dot, the
    // dot is a separator), final sigma, Kelvin sign
    "\u{1e9e}", "\u{130}", "\u{130}stanbul", "stra\u{df}e", "STRA\u{1e9e}E", "\u{39f}\u{394}\u{39f}\u{3a3}", "\u{212a}", "\u{3a3}",
    "2024", "r2d2", "caf\u{e9}", "na\u{ef}ve", "\u{65e5}\u{672c}\u{8a9e}", "\u{3b1}\u{3b2}\u{3b3}", "\u{5d0}\u{5d1}", "\u{1f600}", "o\u{2019}neil", "snake_case", "kebab-case", "dot.ted",
];
const SEPS: &[&str] = &[" ", " ", " ", " ", "  ", ", ", ". ", "\n", "\t", "-", "_", "/", "!", "; ", ",", ";", "?", "(", ")", "\"", "'",
    "\u{3000}", "\u{2014}", "\u{a0}", "\u{2003}", "\u{2028}", "\u{200b}", "\u{b7}", "\u{bf}", "\u{60c}", "\u{3001}", "\u{1f600}"];
const MB_CHARS: &[char] = &['\u{e0}', '\u{e9}', '\u{df}', '\u{436}', '\u{3b1}', '\u{65e5}', '\u{672c}', '\u{e01}', '\u{10348}', '\u{20000}', '\u{10437}', 'a', 'z', '7', '\u{1e9e}', '\u{ff21}', '\u{fb01}'];

/// texts run first on every seed: each token shape alone, between ASCII tokens, repeated, with punctuation and
/// non-ASCII white space around it
const CORPUS: &[&str] = &[
    "a", "x y z", "I", "7",
    "\u{e0}", "\u{e9}", "\u{df}", "\u{436}", "\u{c9}",
    "\u{65e5}", "\u{e01}", "\u{3042}",
    "\u{10348}", "\u{20000}", "\u{1040f}",
    "ab", "a1", "\u{e9}a", "\u{e0}\u{e9}", "\u{65e5}\u{672c}", "\u{10348}\u{20000}",
    "alpha \u{e0} beta", "the \u{e9} of it", "foo \u{65e5} bar", "x \u{e0} y", "rust \u{10348} memory \u{20000} video", "alpha \u{df} beta \u{436} gamma \u{e01} delta",
    "\u{e0} \u{e0} \u{e0} \u{e0}", "\u{e0}, \u{e0}; \u{e0}! \u{e9} \u{e9}", "\u{65e5} \u{65e5} \u{65e5} alpha alpha \u{65e5}", "\u{e9} \u{e9} a a a \u{e9}\u{e9}",
    "\u{fb01}", "\u{ff21}", "\u{ff21}\u{ff22}", "\u{bd}", "\u{338f}", "\u{2167}", "\u{1d4b3}", "\u{1d4b3}\u{1d4b4}", "e\u{301}", "a\u{300} e\u{301}", "\u{132}",
    "\u{1e9e}", "\u{130}", "\u{130}stanbul", "STRA\u{1e9e}E stra\u{df}e", "\u{39f}\u{394}\u{39f}\u{3a3}", "\u{212a}", "\u{3a3}",
    "\u{e0},\u{e9};\u{df}", "\u{e0}\u{a0}\u{e9}", "\u{e0}\u{2003}\u{e9}\u{3000}\u{df}", "\u{e0}\u{2028}\u{e9}", "\u{e0}\u{200b}\u{e9}", "\u{bf}\u{e0}?", "\u{e0}_\u{e9}", "(\u{e0})", "\u{e0}\u{60c}\u{e9}\u{3001}\u{65e5}", "\u{e0}\u{1f600}\u{e9}",
    "", " ", "?!", "a b c", "- _ -",
];

fn gen_text(r: &mut Rng) -> String {
    let target = match r.below(40) {
        0 => 0,
        1..=3 => r.range(1, 3),
        4..=16 => r.range(3, 12),
        17..=26 => r.range(12, 48),
        27..=31 => r.range(48, 52),          // around the SHORT_TEXT threshold (50)
        32..=36 => r.range(52, 130),
        37 | 38 => r.range(130, 320),
        _ => r.range(2545, 2580),            // around the length-hint cap (255 buckets of 10)
    } as usize;
    let vocab_n = if target > 400 { r.range(3, 12) } else { match r.below(4) { 0 => r.range(1, 4), 1 => r.range(4, 12), _ => WORDS.len() as u64 } } as usize;
    let vocab: Vec<String> = (0..vocab_n).map(|_| {
        match r.below(6) {
            0 | 1 => { // synthetic ASCII word, so that vocabularies differ between texts
                let l = r.range(1, 9) as usize;
                (0..l).map(|_| *r.pick(b"abcdefghijklmnopqrstuvwxyzABCDEFXYZ0123456789") as char).collect()
            }
            2 => { // synthetic word of 1-3 characters of 1-4 bytes each
                let l = r.range(1, 3) as usize;
                (0..l).map(|_| *r.pick(MB_CHARS)).collect()
            }
            _ => r.pick(WORDS).to_string(),
        }
    }).collect();
    let mut s = String::new();
    if r.chance(1, 8) { s.push_str(*r.pick(SEPS)); }
    for i in 0..target {
        if i > 0 { s.push_str(*r.pick(SEPS)); }
        // skewed choice: the first vocabulary words repeat often (term frequency 1, 2, 3, 4, more)
        let k = (r.below(vocab.len() as u64).min(r.below(vocab.len() as u64))) as usize;
        s.push_str(&vocab[k]);
    }
    if target == 0 && r.chance(1, 2) { s.push_str(*r.pick(&["", " ", "?!", "a b c", "- _ -", "x"])); }
    s
}

fn variant_n(v: SketchVariant) -> u128 { match v { SketchVariant::Small => 0, SketchVariant::Medium => 1, SketchVariant::Large => 2 } }
fn gen_variant(r: &mut Rng) -> SketchVariant { *r.pick(&[SketchVariant::Small, SketchVariant::Medium, SketchVariant::Large]) }

fn entry_t(e: &SketchEntry) -> T {
    T::Tup(vec![T::N(e.frame_id as u128), T::N(e.simhash as u128), T::H(e.term_filter.clone()),
                T::L(e.top_terms.iter().map(|t| T::N(*t as u128)).collect()),
                T::N(e.term_weight_sum as u128), T::N(e.flags.bits() as u128), T::N(e.length_hint as u128)])
}

/// tag for a token by (characters, bytes): which side of the byte-length threshold, and whether the two counts differ
fn shape_tag(t: &str) -> String {
    let c = t.chars().count(); let b = t.len();
    format!("tok-{}c{}b", if c >= 3 { "3+".to_string() } else { c.to_string() }, if b >= 5 { "5+".to_string() } else { b.to_string() })
}

/// the property, checked on the implementation alone: EVERY token the implementation's own tokenizer emits for
/// the text is reported as possibly present by the entry generate_sketch made for that text
fn no_false_negative(text: &str, e: &SketchEntry, variant: SketchVariant) -> Option<String> {
    for t in tokenize_for_sketch(text) {
        let h = hash_token(&t);
        let c = catch_unwind(AssertUnwindSafe(|| term_filter_maybe_contains(&e.term_filter, h)));
        if !matches!(c, Ok(true)) {
            return Some(format!("sketch-false-negative: token {:?} ({} chars, {} bytes) of text {:?} is reported absent ({:?}) by the text's own {:?} term filter",
                t, t.chars().count(), t.len(), text.chars().take(60).collect::<String>(), c.ok(), variant));
        }
        // the way the filter is consulted by find_candidates: the token as a one-token query must overlap
        let q = QuerySketch::from_query(&t, variant);
        if q.token_count == 1 && !e.term_filter_maybe_overlaps(&q.term_filter) {
            return Some(format!("sketch-false-negative: one-token query {:?} does not overlap the term filter of text {:?}", t, text.chars().take(60).collect::<String>()));
        }
    }
    None
}

fn sketch_case(w: &mut dyn std::io::Write, text: &str, variant: SketchVariant, fid: u64, extra: &[&str]) {
    let tokens = tokenize_for_sketch(text);
    let mut distinct: Vec<&String> = vec![];
    for t in &tokens { if !distinct.contains(&t) { distinct.push(t); } }
    let table: Vec<(Vec<u8>, u64)> = distinct.iter().map(|t| (t.as_bytes().to_vec(), hash_token(t))).collect();
    let weights = compute_token_weights(&tokens, None);
    let got = catch_unwind(AssertUnwindSafe(|| generate_sketch(fid, text, variant, None)));
    let mut viol = None;
    let out_e = match &got {
        Err(_) => { viol = Some("sketch-panic: generate_sketch panicked".to_string()); panic_t() }
        Ok(e) => {
            viol = no_false_negative(text, e, variant);
            if e.frame_id != fid && viol.is_none() { viol = Some("sketch-frame-id: generate_sketch returned another frame id".to_string()); }
            ok_t(entry_t(e))
        }
    };
    let input = T::Tup(vec![T::N(fid as u128), T::N(variant_n(variant)),
        T::L(tokens.iter().map(|t| T::H(t.as_bytes().to_vec())).collect()),
        T::L(table.iter().map(|(k, h)| T::Tup(vec![T::H(k.clone()), T::N(*h as u128)])).collect())]);
    let output = T::Tup(vec![T::L(weights.iter().map(|(h, wt)| T::Tup(vec![T::N(*h as u128), T::Z(*wt as i128)])).collect()), out_e]);
    let nt = tokens.len();
    let mut tags = vec![format!("{:?}", variant), format!("tokens{}", match nt { 0 => "0", 1..=9 => "1-9", 10..=48 => "10-48", 49..=51 => "49-51", 52..=400 => "52-400", _ => "2500+" }),
                        format!("distinct{}", match distinct.len() { 0 => "0", 1..=3 => "1-3", 4..=6 => "4-6", _ => "7+" })];
    if !text.is_ascii() { tags.push("unicode".into()); }
    if nt > distinct.len() + 2 { tags.push("repeats".into()); }
    let mut shapes: Vec<String> = distinct.iter().map(|t| shape_tag(t)).collect();
    shapes.sort(); shapes.dedup();
    tags.extend(shapes);
    if distinct.iter().any(|t| t.chars().count() == 1) { tags.push(if distinct.len() == 1 { "single-char-token-alone".into() } else { "single-char-token-among-others".into() }); }
    tags.extend(extra.iter().map(|s| s.to_string()));
    emit(w, "sketch", &Case { input, output, violation: viol, nontrivial: nt > 0, tags, key: key_of(&[text.as_bytes(), &[variant_n(variant) as u8], &fid.to_le_bytes()]) });
}

fn sketch_stream(r: &mut Rng, n: usize, w: &mut dyn std::io::Write) {
    for text in CORPUS {
        for v in [SketchVariant::Small, SketchVariant::Medium, SketchVariant::Large] { sketch_case(w, text, v, 5, &["corpus"]); }
    }
    for _ in 0..n {
        let text = gen_text(r);
        let variant = gen_variant(r);
        let fid = match r.below(6) { 0 => 0, 1 => u64::MAX, 2 => r.next(), _ => r.below(1000) };
        sketch_case(w, &text, variant, fid, &[]);
    }
}

/// tokenize_for_sketch against the model's split + byte-length rule; NFKC and to_lowercase (oracles in the model)
/// are applied here with the same crate, is_alphanumeric is supplied as the table of alphanumeric code points
fn tok_case(w: &mut dyn std::io::Write, text: &str, extra: &[&str]) {
    use unicode_normalization::UnicodeNormalization;
    let norm: String = text.nfkc().collect::<String>().to_lowercase();
    let cps: Vec<u32> = norm.chars().map(|c| c as u32).collect();
    let mut alnum: Vec<u32> = norm.chars().filter(|c| c.is_alphanumeric()).map(|c| c as u32).collect();
    alnum.sort(); alnum.dedup();
    let toks = tokenize_for_sketch(text);
    // what the property relies on: a token is never empty / one byte, and is made of alphanumeric characters only
    let mut viol = None;
    if let Some(t) = toks.iter().find(|t| t.len() < 2 || !t.chars().all(|c| c.is_alphanumeric())) { viol = Some(format!("tokenizer-shape: token {:?} is shorter than 2 bytes or not alphanumeric", t)); }
    let mut tags: Vec<String> = toks.iter().map(|t| shape_tag(t)).collect();
    tags.sort(); tags.dedup();
    if norm != text { tags.push("normalisation-changes-text".into()); }
    if norm.chars().count() != text.chars().count() { tags.push("normalisation-changes-length".into()); }
    tags.extend(extra.iter().map(|s| s.to_string()));
    let input = T::Tup(vec![T::L(cps.iter().map(|c| T::N(*c as u128)).collect()), T::L(alnum.iter().map(|c| T::N(*c as u128)).collect())]);
    let output = T::L(toks.iter().map(|t| T::L(t.chars().map(|c| T::N(c as u32 as u128)).collect())).collect());
    emit(w, "tok", &Case { input, output, violation: viol, nontrivial: !cps.is_empty(), tags, key: key_of(&[text.as_bytes()]) });
}

fn tok_stream(r: &mut Rng, n: usize, w: &mut dyn std::io::Write) {
    for text in CORPUS { tok_case(w, text, &["corpus"]); }
    for wd in WORDS { tok_case(w, wd, &["word"]); }
    let mut k = 0;
    while k < n {
        let text = gen_text(r);
        if text.len() > 2500 { continue; }
        tok_case(w, &text, &[]);
        k += 1;
    }
}

/// generate_sketch with an idf map; idf values are chosen so that the f32 weight formula is exact
fn idf_stream(r: &mut Rng, n: usize, w: &mut dyn std::io::Write) {
    use std::collections::HashMap;
    const WEIGHT_BOUND: i32 = 715_827_882; // six such weights fit the u32 sum
    for _ in 0..n {
        let text = gen_text(r);
        let variant = gen_variant(r);
        let fid = r.below(1000);
        let tokens = tokenize_for_sketch(&text);
        let mut distinct: Vec<&String> = vec![];
        for t in &tokens { if !distinct.contains(&t) { distinct.push(t); } }
        let table: Vec<(Vec<u8>, u64)> = distinct.iter().map(|t| (t.as_bytes().to_vec(), hash_token(t))).collect();
        let profile = r.below(4); // 0 small idf values, 1 large sums (cap 65535), 2 near the u32 overflow, 3 mixed
        let mut idf: HashMap<String, f32> = HashMap::new();
        let mut idf_tbl: Vec<(Vec<u8>, (u64, u64))> = vec![];
        for t in &distinct {
            if r.chance(1, 4) { continue; } // not in the map: idf 1.0
            let (num, den): (u64, u64) = match (profile, r.below(8)) {
                (0, k) => [(1, 1), (2, 1), (3, 1), (7, 1), (1, 2), (1, 4), (5, 2), (1, 8)][k as usize],
                (1, k) => [(50000, 1), (1000, 1), (219, 1), (109, 1), (218, 1), (33, 1), (1 << 10, 1), (37, 4)][k as usize],
                (2, k) => [(1 << 22, 1), (1 << 22, 1), (1 << 21, 1), (1 << 23, 1), (1 << 20, 1), (1_000_000_000_000, 1), (1 << 30, 1), (1, 1)][k as usize],
                (_, k) => [(0, 1), (1, 16), (1, 8), (3, 1), (1 << 16, 1), (1 << 22, 1), (1_000_000_000_000, 1), (9, 4)][k as usize],
            };
            idf.insert((*t).clone(), (num as f64 / den as f64) as f32);
            idf_tbl.push((t.as_bytes().to_vec(), (num, den)));
        }
        let weights = compute_token_weights(&tokens, Some(&idf));
        let in_bound = weights.iter().all(|(_, wt)| *wt <= WEIGHT_BOUND);
        let got = catch_unwind(AssertUnwindSafe(|| generate_sketch(fid, &text, variant, Some(&idf))));
        let mut viol = None;
        let mut tags = vec![format!("{:?}", variant), format!("profile{}", profile), if in_bound { "weights-in-bound".to_string() } else { "weights-huge".to_string() }];
        let out_e = match &got {
            Err(_) => {
                if in_bound { viol = Some("sketch-panic: generate_sketch panicked although every weight is at most 715827882".to_string()); }
                tags.push("panic".into());
                panic_t()
            }
            Ok(e) => {
                for t in &distinct {
                    if !matches!(catch_unwind(AssertUnwindSafe(|| term_filter_maybe_contains(&e.term_filter, hash_token(t)))), Ok(true)) {
                        viol = Some(format!("sketch-false-negative: token {:?} of the text is reported absent by the text's own {:?} term filter (idf map given)", t, variant));
                        break;
                    }
                }
                if e.term_weight_sum == u16::MAX { tags.push("wsum-capped".into()); }
                ok_t(entry_t(e))
            }
        };
        let input = T::Tup(vec![T::N(fid as u128), T::N(variant_n(variant)),
            T::L(tokens.iter().map(|t| T::H(t.as_bytes().to_vec())).collect()),
            T::L(table.iter().map(|(k, h)| T::Tup(vec![T::H(k.clone()), T::N(*h as u128)])).collect()),
            T::L(idf_tbl.iter().map(|(k, (a, b))| T::Tup(vec![T::H(k.clone()), T::Tup(vec![T::N(*a as u128), T::N(*b as u128)])])).collect())]);
        let output = T::Tup(vec![T::L(weights.iter().map(|(h, wt)| T::Tup(vec![T::N(*h as u128), T::Z(*wt as i128)])).collect()), out_e]);
        let idb: Vec<u8> = idf_tbl.iter().flat_map(|(k, (a, b))| { let mut v = k.clone(); v.extend(a.to_le_bytes()); v.extend(b.to_le_bytes()); v }).collect();
        emit(w, "idf", &Case { input, output, violation: viol, nontrivial: !tokens.is_empty() && !idf_tbl.is_empty(), tags, key: key_of(&[text.as_bytes(), &[variant_n(variant) as u8], &idb]) });
    }
}

// ---------------------------------------------------------------- tracks
fn disk_shape(v: SketchVariant) -> (usize, usize) { match v { SketchVariant::Small => (16, 2), _ => (32, 4) } }

fn gen_entry(r: &mut Rng, fid: u64, tv: SketchVariant, style: u64) -> SketchEntry {
    let (fl, tl) = disk_shape(tv);
    let edge16 = |r: &mut Rng| -> u16 { match r.below(5) { 0 => 0, 1 => u16::MAX, _ => r.next() as u16 } };
    match style {
        // what the library itself produces for this track's variant
        0 => generate_sketch(fid, &gen_text(r), tv, None),
        // produced for another variant than the track's
        1 => generate_sketch(fid, &gen_text(r), gen_variant(r), None),
        // hand-built, exactly the on-disk shape of the track's variant
        2 => {
            let small = tv == SketchVariant::Small;
            SketchEntry { frame_id: fid, simhash: if r.chance(1, 5) { u64::MAX } else { r.next() }, term_filter: r.bytes(fl),
                top_terms: (0..tl).map(|_| if r.chance(1, 6) { u32::MAX } else { r.next() as u32 }).collect(),
                term_weight_sum: if small { 0 } else { edge16(r) }, flags: SketchFlags::from_bits(if small { 7 } else { edge16(r) }),
                length_hint: if small { 0 } else { edge16(r) } }
        }
        // on-disk shape, but Small with fields the Small layout has no room for
        3 => SketchEntry { frame_id: fid, simhash: r.next(), term_filter: r.bytes(fl), top_terms: (0..tl).map(|_| r.next() as u32).collect(),
                term_weight_sum: if r.chance(1, 2) { 0 } else { edge16(r) }, flags: SketchFlags::from_bits(if r.chance(1, 2) { 7 } else { edge16(r) }),
                length_hint: if r.chance(1, 2) { 0 } else { edge16(r) } },
        // odd vector lengths
        _ => {
            let fl2 = *r.pick(&[0usize, 5, 15, 16, 17, 31, 32, 33, 64, 70]);
            let tl2 = *r.pick(&[0usize, 1, 2, 3, 4, 5, 6, 8]);
            SketchEntry { frame_id: fid, simhash: r.next(), term_filter: r.bytes(fl2), top_terms: (0..tl2).map(|_| r.next() as u32).collect(),
                term_weight_sum: edge16(r), flags: SketchFlags::from_bits(edge16(r)), length_hint: edge16(r) }
        }
    }
}

fn gen_ids(r: &mut Rng, n: usize) -> (Vec<u64>, &'static str) {
    match r.below(20) {
        0..=10 => ((0..n as u64).collect(), "ids-dense"),
        11 => { // dense with a repeated insert of an existing id (the entry is replaced in place)
            let mut v: Vec<u64> = (0..n as u64).collect();
            if n > 0 { let k = r.below(n as u64); v.insert(r.range(k + 1, n as u64) as usize, k); }
            (v, "ids-dense-reinsert")
        }
        12 | 13 => { let s = r.range(1, 9); ((s..s + n as u64).collect(), "ids-offset") }
        14 | 15 => { // permuted
            let mut v: Vec<u64> = (0..n as u64).collect();
            for i in (1..v.len()).rev() { let j = r.below(i as u64 + 1) as usize; v.swap(i, j); }
            (v, "ids-permuted")
        }
        16 | 17 => ((0..n).map(|_| match r.below(4) { 0 => r.next(), 1 => u64::MAX - r.below(3), _ => r.below(50) }).collect(), "ids-sparse"),
        18 => ((0..n).map(|_| r.below(3)).collect(), "ids-duplicates"),
        _ => ((0..n as u64).map(|i| i * 2).collect(), "ids-gaps"),
    }
}

/// the three known classes, as predicates on the track (mirrors Model/Sketch.v known_ids / known_shape / known_small_fields)
fn classes(track: &SketchTrack) -> (bool, bool, bool) {
    let es: Vec<&SketchEntry> = track.iter().collect();
    let (fl, tl) = disk_shape(track.variant);
    let ids = es.iter().enumerate().any(|(i, e)| e.frame_id != i as u64);
    let shape = es.iter().any(|e| e.term_filter.len() != fl || e.top_terms.len() != tl);
    let small = track.variant == SketchVariant::Small && es.iter().any(|e| e.term_weight_sum != 0 || e.flags.bits() != 7 || e.length_hint != 0);
    (ids, shape, small)
}

fn read_out(res: &Result<Result<SketchTrack, MemvidError>, Box<dyn std::any::Any + Send>>) -> T {
    match res {
        Err(_) => panic_t(),
        Ok(Ok(t)) => ok_t(T::Tup(vec![T::N(variant_n(t.variant)), T::L(t.iter().map(entry_t).collect())])),
        Ok(Err(MemvidError::Io { .. })) => err_t(1),
        Ok(Err(MemvidError::InvalidSketchTrack { reason })) => {
            if reason.contains("magic") { err_t(2) } else if reason.contains("Unknown sketch entry size") { err_t(3) } else if reason.contains("less than expected") { err_t(4) } else { err_t(8) }
        }
        Ok(Err(_)) => err_t(9),
    }
}

fn noise(r: &mut Rng, n: usize) -> Vec<u8> {
    let mut b = r.bytes(n);
    if n >= 4 && r.chance(1, 3) { let p = r.below((n - 3) as u64) as usize; b[p..p + 4].copy_from_slice(&SKETCH_TRACK_MAGIC); }
    b
}

fn build_track(r: &mut Rng, forced: Option<u64>) -> (SketchTrack, Vec<SketchEntry>, Vec<String>) {
    let tv = gen_variant(r);
    let n = match r.below(12) { 0 => 0, 1..=8 => r.range(1, 5), 9 | 10 => r.range(5, 9), _ => r.range(9, 20) } as usize;
    let (ids, idtag) = gen_ids(r, n);
    // one style per track most of the time, so that whole tracks fall inside / outside the classes
    let track_style = match forced { Some(s) => s, None => match r.below(12) { 0..=2 => 0, 3 => 1, 4..=7 => 2, 8 | 9 => 3, 10 => 4, _ => 9 } };
    let mut track = SketchTrack::new(tv);
    let mut ops = vec![];
    for id in ids {
        let style = if track_style == 9 { r.below(5) } else { track_style };
        let e = gen_entry(r, id, tv, style);
        ops.push(e.clone());
        track.insert(e);
    }
    (track, ops, vec![format!("{:?}", tv), idtag.to_string(), format!("style{}", track_style), format!("n{}", match n { 0 => "0", 1..=4 => "1-4", _ => "5+" })])
}

fn track_case(w: &mut dyn std::io::Write, r: &mut Rng, track: SketchTrack, ops: Vec<SketchEntry>, mut tags: Vec<String>, texts: Option<Vec<String>>) {
    let pre = { let k = if r.chance(1, 3) { 0 } else { r.below(40) as usize }; noise(r, k) };
    let suf = { let k = if r.chance(1, 3) { 0 } else { r.below(40) as usize }; noise(r, k) };
    let mut cur = Cursor::new(pre.clone());
    cur.seek(SeekFrom::End(0)).unwrap();
    let wr = write_sketch_track(&mut cur, &track);
    let mut viol: Option<String> = None;
    // tracks built from texts: the entries as inserted must already report every token of their text
    if let Some(texts) = &texts {
        for (i, tx) in texts.iter().enumerate() {
            if i < ops.len() && viol.is_none() { viol = no_false_negative(tx, &ops[i], track.variant); }
        }
    }
    let mut file = cur.into_inner();
    let written = file[pre.len().min(file.len())..].to_vec();
    let (offset, length) = match &wr {
        Ok((o, l, c)) => {
            if *o != pre.len() as u64 || *l != written.len() as u64 || c[..] != blake3::hash(&written).as_bytes()[..] {
                viol = Some(format!("write-metadata: write_sketch_track returned offset {} length {} for {} bytes written at {}, or a checksum that is not BLAKE3 of them", o, l, written.len(), pre.len()));
            }
            (*o, *l)
        }
        Err(e) => { viol = Some(format!("write-error: write_sketch_track failed: {}", e)); (pre.len() as u64, written.len() as u64) }
    };
    file.extend(&suf);
    let rd = catch_unwind(AssertUnwindSafe(|| read_sketch_track(&mut Cursor::new(file.clone()), offset, length)));
    let (k_ids, k_shape, k_small) = classes(&track);
    // the property: what is read back is the track that was written
    let orig: Vec<&SketchEntry> = track.iter().collect();
    let differs: Option<String> = match &rd {
        Err(_) => Some("read_sketch_track panicked".to_string()),
        Ok(Err(e)) => Some(format!("read_sketch_track failed: {}", e)),
        Ok(Ok(back)) => {
            let got: Vec<&SketchEntry> = back.iter().collect();
            if back.variant != track.variant { Some(format!("variant {:?} read back as {:?}", track.variant, back.variant)) }
            else if back.len() != track.len() || got.len() != orig.len() { Some(format!("{} entries read back as {}", orig.len(), got.len())) }
            else if let Some(i) = (0..orig.len()).find(|i| orig[*i] != got[*i]) {
                let (a, b) = (orig[i], got[i]);
                Some(format!("entry {}: frame_id {} -> {}, flags {} -> {}, weight sum {} -> {}, length hint {} -> {}, filter {} -> {} bytes{}, top terms {} -> {}{}",
                    i, a.frame_id, b.frame_id, a.flags.bits(), b.flags.bits(), a.term_weight_sum, b.term_weight_sum, a.length_hint, b.length_hint,
                    a.term_filter.len(), b.term_filter.len(), if a.term_filter != b.term_filter { " (changed)" } else { "" },
                    a.top_terms.len(), b.top_terms.len(), if a.simhash != b.simhash { ", simhash changed" } else { "" }))
            }
            else if let Some(e) = orig.iter().find(|e| back.get(e.frame_id) != Some(*e)) { Some(format!("get({}) differs after read", e.frame_id)) }
            else { None }
        }
    };
    // consequence worth reporting with the finding: a token of the text is no longer found after write + read
    let mut lost = String::new();
    if let (Some(texts), Ok(Ok(back))) = (&texts, &rd) {
        let got: Vec<&SketchEntry> = back.iter().collect();
        'outer: for (i, tx) in texts.iter().enumerate() {
            if i >= got.len() { break; }
            for t in tokenize_for_sketch(tx) {
                if matches!(catch_unwind(AssertUnwindSafe(|| term_filter_maybe_contains(&got[i].term_filter, hash_token(&t)))), Ok(false)) {
                    lost = format!("; after reading back, token {:?} of entry {}'s text is reported absent by its term filter", t, i);
                    break 'outer;
                }
            }
        }
    }
    // a track that is read back unchanged must still report every token of its texts
    if let (None, None, Some(texts), Ok(Ok(back))) = (&differs, &viol, &texts, &rd) {
        let got: Vec<&SketchEntry> = back.iter().collect();
        for (i, tx) in texts.iter().enumerate() {
            if i < got.len() && viol.is_none() { viol = no_false_negative(tx, got[i], back.variant).map(|v| v + " (after write + read)"); }
        }
    }
    if let (Some(d), None) = (&differs, &viol) {
        let class = if k_ids { "frame-ids-not-stored" } else if k_shape { "entry-shape-not-stored" } else if k_small { "small-variant-drops-fields" } else { "roundtrip-differs" };
        viol = Some(format!("{}: sketch track ({:?}, {} entries) is not read back as written: {}{}", class, track.variant, orig.len(), d, lost));
    }
    tags.push(if differs.is_some() { "differs".into() } else { "roundtrips".into() });
    tags.push(format!("class{}{}{}", k_ids as u8, k_shape as u8, k_small as u8));
    let input = T::Tup(vec![T::N(variant_n(track.variant)), T::L(ops.iter().map(entry_t).collect()), T::H(pre.clone()), T::H(suf.clone())]);
    let output = T::Tup(vec![T::L(orig.iter().map(|e| entry_t(e)).collect()), T::H(written.clone()), read_out(&rd), T::Tup(vec![T::B(k_ids), T::B(k_shape), T::B(k_small)])]);
    let idb: Vec<u8> = ops.iter().flat_map(|e| e.frame_id.to_le_bytes()).collect();
    emit(w, "track", &Case { input, output, violation: viol, nontrivial: !orig.is_empty(), tags, key: key_of(&[&written, &idb, &pre, &suf]) });
}

fn track_stream(r: &mut Rng, n: usize, w: &mut dyn std::io::Write) {
    // fixed witnesses first: the recorded finding (one Small entry for frame 3), a Large track made by
    // generate_sketch with dense ids, a Small one with dense ids, a Medium one that must round-trip
    {
        let mut t = SketchTrack::new(SketchVariant::Small);
        let e = generate_sketch(3, "first document about cats", SketchVariant::Small, None);
        t.insert(e.clone());
        track_case(w, r, t, vec![e], vec!["witness-frame3".into()], Some(vec!["first document about cats".into()]));
    }
    for (v, name) in [(SketchVariant::Large, "witness-large"), (SketchVariant::Small, "witness-small"), (SketchVariant::Medium, "witness-medium")] {
        let texts = ["first document about cats and their habits", "second document about dogs and long walks", "third document about birds singing at dawn"];
        let mut t = SketchTrack::new(v);
        let mut ops = vec![];
        for (i, tx) in texts.iter().enumerate() { let e = generate_sketch(i as u64, tx, v, None); ops.push(e.clone()); t.insert(e); }
        track_case(w, r, t, ops, vec![name.into()], Some(texts.iter().map(|s| s.to_string()).collect()));
    }
    {   // a Medium track that must round-trip, whose texts hold one-character multi-byte tokens
        let texts = ["alpha \u{e0} beta \u{65e5} gamma", "\u{e9} \u{e9} delta \u{10348} rust \u{df} memory", "\u{436}, \u{e01}; \u{20000} video frame"];
        let mut t = SketchTrack::new(SketchVariant::Medium);
        let mut ops = vec![];
        for (i, tx) in texts.iter().enumerate() { let e = generate_sketch(i as u64, tx, SketchVariant::Medium, None); ops.push(e.clone()); t.insert(e); }
        track_case(w, r, t, ops, vec!["witness-medium-multibyte".into()], Some(texts.iter().map(|s| s.to_string()).collect()));
    }
    for _ in 0..n {
        let (track, ops, tags) = build_track(r, None);
        track_case(w, r, track, ops, tags, None);
    }
}

// ---------------------------------------------------------------- read on damaged / arbitrary bytes
fn read_stream(r: &mut Rng, n: usize, w: &mut dyn std::io::Write) {
    for _ in 0..n {
        let mut tags: Vec<String> = vec![];
        let (track, _, _) = build_track(r, Some(2));
        let pre = { let k = if r.chance(1, 2) { 0 } else { r.below(30) as usize }; noise(r, k) };
        let mut cur = Cursor::new(pre.clone());
        cur.seek(SeekFrom::End(0)).unwrap();
        let (o, l, _) = write_sketch_track(&mut cur, &track).unwrap();
        let mut file = cur.into_inner();
        let (mut offset, mut length) = (o, l);
        let h = pre.len();
        let nmut = r.range(1, 2);
        for _ in 0..nmut {
            match r.below(14) {
                0 => { let i = h + r.below(4) as usize; file[i] ^= 1 << r.below(8); tags.push("magic".into()); }
                1 => { let v = *r.pick(&[0u16, 31, 33, 32, 64, 96, 128, 65535]); file[h + 6..h + 8].copy_from_slice(&v.to_le_bytes()); tags.push("entry-size".into()); }
                2 => { let c = track.len() as u64; let v = match r.below(4) { 0 => c + 1, 1 => c.saturating_sub(1), 2 => 0, _ => c + r.range(2, 50) }; file[h + 8..h + 16].copy_from_slice(&v.to_le_bytes()); tags.push("count".into()); }
                3 => { let v = *r.pick(&[1u64 << 63, u64::MAX, u64::MAX / 96, u64::MAX / 96 + 1, u64::MAX / 64, (u64::MAX - 24) / 32, (u64::MAX - 24) / 32 + 1, 1u64 << 40]); file[h + 8..h + 16].copy_from_slice(&v.to_le_bytes()); length = if r.chance(1, 2) { u64::MAX } else { length }; tags.push("count-huge".into()); }
                4 => { let v = r.next() as u16; file[h + 4..h + 6].copy_from_slice(&v.to_le_bytes()); tags.push("version".into()); }
                5 => { let k = r.below(file.len() as u64 + 1) as usize; file.truncate(k); tags.push("truncate".into()); }
                6 => { length = match r.below(4) { 0 => length.saturating_sub(1), 1 => 0, 2 => length.saturating_add(r.below(100)), _ => r.below(length.saturating_add(1)) }; tags.push("length".into()); }
                7 => { offset = match r.below(4) { 0 => file.len() as u64, 1 => file.len() as u64 + r.range(1, 10), 2 => r.below(file.len() as u64 + 1), _ => offset.saturating_sub(1) }; tags.push("offset".into()); }
                8 => { let k = r.below(60) as usize; file.extend(r.bytes(k)); tags.push("trailing".into()); }
                9 => { let k = r.below(120) as usize; file = r.bytes(k); offset = 0; length = k as u64; tags.push("random".into()); }
                10 => { if file.len() > h + 24 { let i = r.range((h + 24) as u64, file.len() as u64 - 1) as usize; file[i] ^= 1 << r.below(8); } tags.push("entry-bit".into()); }
                11 => { file[h + 16..h + 24].copy_from_slice(&r.next().to_le_bytes()); tags.push("hdr-flags".into()); }
                _ => { tags.push("intact".into()); }
            }
            if file.len() < h + 24 { break; }
        }
        let rd = catch_unwind(AssertUnwindSafe(|| read_sketch_track(&mut Cursor::new(file.clone()), offset, length)));
        tags.push(match &rd { Err(_) => "panic".into(), Ok(Ok(_)) => "ok".into(), Ok(Err(_)) => "err".into() });
        let input = T::Tup(vec![T::H(file.clone()), T::N(offset as u128), T::N(length as u128)]);
        emit(w, "read", &Case { input, output: read_out(&rd), violation: None, nontrivial: matches!(&rd, Ok(Ok(t)) if !t.is_empty()) || matches!(&rd, Ok(Err(_))),
            tags, key: key_of(&[&file, &offset.to_le_bytes(), &length.to_le_bytes()]) });
    }
}

pub fn run(seed: u64, n: usize, w: &mut dyn std::io::Write) {
    if std::env::var("VERIF_PANIC_TRACE").is_err() { std::panic::set_hook(Box::new(|_| {})); }
    let mut r = Rng::new(seed ^ 0xC39);
    filter_stream(&mut r, n, w);
    sketch_stream(&mut r, n, w);
    tok_stream(&mut r, (n / 3).max(20), w);
    idf_stream(&mut r, (n / 4).max(20), w);
    track_stream(&mut r, (n / 2).max(20), w);
    read_stream(&mut r, (n / 3).max(20), w);
}
