//! C31 footer scan + footer codec.
use crate::term::*;
use memvid_core::footer::{find_last_valid_footer, CommitFooter, FOOTER_MAGIC, FOOTER_SIZE};

fn mk_footer(toc: &[u8], generation: u64) -> Vec<u8> {
    let f = CommitFooter { toc_len: toc.len() as u64, toc_hash: *blake3::hash(toc).as_bytes(), generation };
    f.encode().to_vec()
}

fn gen_buffer(r: &mut Rng) -> (Vec<u8>, Vec<String>) {
    let mut tags = vec![];
    let target = match r.below(10) { 0 => r.below(56) as usize, 1..=6 => r.range(56, 400) as usize, 7..=8 => r.range(400, 1000) as usize, _ => r.range(1000, 2500) as usize };
    let mut b: Vec<u8> = Vec::new();
    let filler = |r: &mut Rng, n: usize| -> Vec<u8> {
        let style = r.below(4);
        (0..n).map(|_| match style {
            0 => r.next() as u8,
            1 => if r.chance(1, 6) { b'M' } else { r.next() as u8 },
            2 => *r.pick(b"MV2FOOT!M"),
            _ => if r.chance(1, 10) { b'M' } else { 0 },
        }).collect()
    };
    let nplant = r.below(5);
    for _ in 0..nplant {
        let pre = r.below(40) as usize;
        b.extend(filler(r, pre));
        let kind = r.below(10);
        match kind {
            0..=2 => { // valid: toc = last k bytes of what is there (or fresh bytes)
                let k = r.range(1, 40) as usize;
                let toc = filler(r, k);
                b.extend(&toc);
                b.extend(mk_footer(&toc, r.below(1000)));
                tags.push("valid".into());
            }
            3 if r.chance(1, 2) => { // magic + in-range length that covers earlier content (possibly earlier valid footers) + wrong hash
                if b.len() >= 2 {
                    let tl = r.range(1, b.len() as u64);
                    let f = CommitFooter { toc_len: tl, toc_hash: [r.next() as u8; 32], generation: 77 };
                    b.extend(f.encode());
                    tags.push("badhash_overlong".into());
                }
            }
            3 => { // wrong hash
                let toc = { let k_ = r.range(1, 20) as usize; filler(r, k_) };
                b.extend(&toc);
                let mut f = mk_footer(&toc, 7);
                let i = 16 + r.below(32) as usize; f[i] ^= 1 << r.below(8);
                b.extend(f);
                tags.push("badhash".into());
            }
            4 => { // toc_len zero, hash of empty
                b.extend(mk_footer(&[], 3));
                tags.push("len0".into());
            }
            5 => { // toc_len larger than position / huge
                let f = CommitFooter { toc_len: if r.chance(1, 2) { u64::MAX } else { b.len() as u64 + 1 + r.below(5) }, toc_hash: [1; 32], generation: 1 };
                b.extend(f.encode());
                tags.push("lenbig".into());
            }
            6 => { // toc that itself contains a complete valid footer (nested)
                let inner_toc = { let k_ = r.range(1, 10) as usize; filler(r, k_) };
                let mut toc = inner_toc.clone();
                toc.extend(mk_footer(&inner_toc, 11));
                toc.extend({ let k_ = r.below(6) as usize; filler(r, k_) });
                b.extend(&toc);
                b.extend(mk_footer(&toc, 12));
                tags.push("nested".into());
            }
            7 => { // toc covers the whole prefix exactly (toc_len == pos)
                if !b.is_empty() {
                    let toc = b.clone();
                    b.extend(mk_footer(&toc, 13));
                    tags.push("wholeprefix".into());
                }
            }
            8 => { // overlapping: a magic inside the hash field of a valid footer
                let toc = { let k_ = r.range(1, 12) as usize; filler(r, k_) };
                b.extend(&toc);
                let f = mk_footer(&toc, u64::from_le_bytes(*FOOTER_MAGIC));
                b.extend(f);
                tags.push("magic_in_generation".into());
            }
            _ => { // truncated footer (magic straddles / footer cut short)
                let toc = filler(r, 5);
                b.extend(&toc);
                let f = mk_footer(&toc, 5);
                let cut = r.range(1, 55) as usize;
                b.extend(&f[..cut]);
                tags.push("cut".into());
            }
        }
    }
    if b.len() < target { let n = target - b.len(); let tail = if r.chance(1, 3) { 0 } else { r.below(n as u64 + 1) as usize }; b.extend(filler(r, tail)); }
    if r.chance(1, 12) && !b.is_empty() { let n = r.below(b.len() as u64) as usize; b.truncate(n); tags.push("trunc".into()); }
    (b, tags)
}

/// candidate TOC windows: every position with magic, room for 56 bytes, 0 < toc_len <= pos
fn oracle_table(b: &[u8]) -> Vec<(Vec<u8>, Vec<u8>)> {
    let mut t = vec![];
    if b.len() < FOOTER_SIZE { return t; }
    for pos in 0..=(b.len() - FOOTER_SIZE) {
        if &b[pos..pos + 8] == FOOTER_MAGIC {
            let tl = u64::from_le_bytes(b[pos + 8..pos + 16].try_into().unwrap());
            if tl > 0 && tl <= pos as u64 {
                let toc = &b[pos - tl as usize..pos];
                t.push((toc.to_vec(), blake3::hash(toc).as_bytes().to_vec()));
            }
        }
    }
    t
}

/// the property, evaluated naively and independently of the implementation's algorithm
fn reference(b: &[u8]) -> Option<(usize, usize, u64, u64)> {
    let mut best = None;
    if b.len() < FOOTER_SIZE { return None; }
    for pos in 0..=(b.len() - FOOTER_SIZE) {
        if &b[pos..pos + 8] != FOOTER_MAGIC { continue; }
        let tl = u64::from_le_bytes(b[pos + 8..pos + 16].try_into().unwrap());
        if tl == 0 || tl > pos as u64 { continue; }
        let toc = &b[pos - tl as usize..pos];
        if blake3::hash(toc).as_bytes()[..] != b[pos + 16..pos + 48] { continue; }
        let g = u64::from_le_bytes(b[pos + 48..pos + 56].try_into().unwrap());
        best = Some((pos, pos - tl as usize, tl, g));
    }
    best
}

pub fn run(seed: u64, n: usize, w: &mut dyn std::io::Write) {
    let mut r = Rng::new(seed ^ 0xC31);
    for _ in 0..n {
        let (b, mut tags) = gen_buffer(&mut r);
        let table = oracle_table(&b);
        let refv = reference(&b);
        // "for any byte string the scan returns ... or nothing": a panic is neither
        let got = match std::panic::catch_unwind(|| find_last_valid_footer(&b)) {
            Ok(g) => g,
            Err(_) => {
                tags.push("panicked".into());
                let input = T::Tup(vec![T::H(b.clone()), T::L(table.iter().map(|(k, d)| T::Tup(vec![T::H(k.clone()), T::H(d.clone())])).collect())]);
                let what = match &refv { Some((p, ..)) => format!("scan-panicked: the scan panicked on a buffer of {} bytes whose last valid footer is at {}", b.len(), p), None => format!("scan-panicked: the scan panicked on a buffer of {} bytes (no valid footer: it must return nothing)", b.len()) };
                emit(w, "scan", &Case { input, output: T::none(), violation: Some(what), nontrivial: true, tags, key: blake3::hash(&b).to_hex()[..16].to_string() });
                continue;
            }
        };
        let out = match &got {
            None => T::none(),
            Some(s) => T::some(T::Tup(vec![T::N(s.footer_offset as u128), T::N(s.toc_offset as u128), T::N(s.footer.toc_len as u128), T::N(s.footer.generation as u128), T::H(s.toc_bytes.to_vec())])),
        };
        let mut viol = None;
        match (&got, &refv) {
            (None, None) => {}
            (Some(s), Some((p, o, tl, g))) => {
                if s.footer_offset != *p || s.toc_offset != *o || s.footer.toc_len != *tl || s.footer.generation != *g || s.toc_bytes != &b[*o..*p] {
                    viol = Some(format!("scan returned footer at {} but the last valid footer is at {}", s.footer_offset, p));
                }
            }
            (None, Some((p, ..))) => viol = Some(format!("scan returned nothing but a valid footer ends at {}", p + FOOTER_SIZE)),
            (Some(s), None) => viol = Some(format!("scan returned an invalid footer at {}", s.footer_offset)),
        }
        let ncand = b.windows(8).filter(|w| *w == FOOTER_MAGIC).count();
        tags.push(format!("cand{}", ncand.min(5)));
        tags.push(if got.is_some() { "found".into() } else { "none".into() });
        let input = T::Tup(vec![T::H(b.clone()), T::L(table.iter().map(|(k, d)| T::Tup(vec![T::H(k.clone()), T::H(d.clone())])).collect())]);
        emit(w, "scan", &Case { input, output: out, violation: viol, nontrivial: ncand >= 1, tags, key: blake3::hash(&b).to_hex()[..16].to_string() });
    }
    // footer decode on arbitrary bytes
    for _ in 0..(n / 4).max(8) {
        let len = match r.below(6) { 0 => r.below(120) as usize, _ => FOOTER_SIZE };
        let mut b = r.bytes(len);
        if r.chance(3, 4) && b.len() >= 8 { b[..8].copy_from_slice(FOOTER_MAGIC); if r.chance(1, 5) { let i = r.below(8) as usize; b[i] ^= 1 << r.below(8); } }
        let d = CommitFooter::decode(&b);
        let out = match &d { None => T::none(), Some(f) => T::some(T::Tup(vec![T::N(f.toc_len as u128), T::H(f.toc_hash.to_vec()), T::N(f.generation as u128)])) };
        let mut viol = None;
        if let Some(f) = &d { if f.encode()[..] != b[..] { viol = Some("decode accepted bytes that do not re-encode to themselves".to_string()); } }
        emit(w, "decode", &Case { input: T::H(b.clone()), output: out, violation: viol, nontrivial: d.is_some(), tags: vec![if d.is_some() { "ok".into() } else { "none".into() }], key: blake3::hash(&b).to_hex()[..16].to_string() });
    }
}
