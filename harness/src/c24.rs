//! C24 capacity limit: histories of puts / commits / tickets / reopen / log pre-sizing on a real
//! Memvid against the capacity state machine of Model/Capacity.v, plus the property oracle
//! (after every commit the payload region end is within the capacity; a put that would exceed it
//! fails with CapacityExceeded; a rejected put leaves the memory unchanged), both evaluated on the
//! implementation's own outputs.  Since fix f25e235 the put check counts the stored bytes of pending
//! puts, projects from max(payload end, data end) and checks the bytes really stored (parent +
//! chunks): the invariant must hold for EVERY history; the class tags of the three old mechanisms
//! are kept as diagnosis of a regression and are no longer known findings.
#![allow(deprecated)]
use crate::store::{payload_bytes, Driver, PayloadKind};
use crate::term::*;
use memvid_core::types::Ticket;
use memvid_core::verif_hooks as vh;
use memvid_core::{Memvid, MemvidError, PutManyOpts};
use std::path::PathBuf;

const BASE0: u64 = 4096 + 65536;

/// A memory whose capacity equals its payload end: every put is rejected by the capacity check
/// and the error carries `required` = the stored size the implementation computed for the bytes.
/// scratch directory on tmpfs when there is one (the property is not about durability; fsync on
/// the shared disk dominates the run time otherwise)
fn scratch() -> tempfile::TempDir {
    let shm = std::path::Path::new("/dev/shm");
    if shm.is_dir() { if let Ok(d) = tempfile::tempdir_in(shm) { return d; } }
    tempfile::tempdir().expect("tempdir")
}

struct Probe { mem: Memvid, _dir: tempfile::TempDir }
impl Probe {
    fn new() -> Self {
        let dir = scratch();
        let mut mem = Memvid::create(dir.path().join("probe.mv2")).expect("create probe");
        let (_, cpe, _) = vh::data_region(&mem);
        mem.apply_ticket(Ticket::new("probe", 2).capacity_bytes(cpe)).expect("probe ticket");
        Probe { mem, _dir: dir }
    }
    fn stored_len(&mut self, bytes: &[u8]) -> u64 {
        match self.mem.put_bytes_with_options(bytes, Driver::options(None, 1, false)) {
            Err(MemvidError::CapacityExceeded { required, .. }) => required,
            other => panic!("probe put was not rejected by the capacity check: {:?}", other.map_err(|e| e.to_string())),
        }
    }
}

struct Snap { region: (u64, u64, u64), wal: (u64, u64, u64, u64), hdr: (u64, u64, u64, u64, u64), frames: usize, next: u64, file: [u8; 32], file_len: u64, payload_bytes: u64, cap: u64, vec: (bool, bool) }
fn snap(mem: &Memvid, path: &PathBuf) -> Snap {
    let st = mem.stats().expect("stats");
    let bytes = std::fs::read(path).expect("read file");
    Snap { region: vh::data_region(mem), wal: vh::wal_stats(mem), hdr: vh::header_fields(mem), frames: mem.frame_count(), next: mem.next_frame_id(), file: *blake3::hash(&bytes).as_bytes(), file_len: bytes.len() as u64, payload_bytes: st.payload_bytes, cap: st.capacity_bytes, vec: (st.vec_enabled, st.has_vec_index) }
}
fn diff(a: &Snap, b: &Snap) -> Vec<&'static str> {
    let mut d = vec![];
    if a.region != b.region { d.push("data_end/payload_end/generation"); }
    if a.wal != b.wal { d.push("log counters"); }
    if a.hdr != b.hdr { d.push("header"); }
    if a.frames != b.frames || a.next != b.next { d.push("frame count"); }
    if a.file != b.file || a.file_len != b.file_len { d.push("file bytes"); }
    if a.payload_bytes != b.payload_bytes || a.cap != b.cap { d.push("stats"); }
    if a.vec != b.vec { d.push("vec_enabled"); }
    d
}

/// max(payload_offset + payload_length) over frames that store bytes (None if there is none)
fn max_frame_end(mem: &Memvid) -> Option<u64> {
    let mut m = None;
    for id in 0..mem.frame_count() as u64 {
        let f = mem.frame_by_id(id).expect("frame");
        if f.payload_length != 0 { let e = f.payload_offset + f.payload_length; m = Some(m.map_or(e, |x: u64| x.max(e))); }
    }
    m
}

/// one accepted put still waiting for its commit, as the harness saw it when it was accepted
struct Admitted { cpe: u64, dend: u64, pend_before: u64, stored_sum: u64, chk: u64, limit: u64, stored: Vec<u64>, op_index: usize }

pub struct Hist { pub ops: Vec<T>, pub outs: Vec<T>, pub violation: Option<String>, pub tags: Vec<String>, pub nontrivial: bool }

fn obs(mem: &Memvid, code: u64, a: u64, b: u64, c: u64) -> T {
    let (dend, cpe, _) = vh::data_region(mem);
    let st = mem.stats().expect("stats");
    T::Tup(vec![T::N(code as u128), T::N(a as u128), T::N(b as u128), T::N(c as u128), T::N(cpe as u128), T::N(dend as u128), T::N(st.capacity_bytes as u128), T::N(st.payload_bytes as u128), T::B(st.vec_enabled), T::N(max_frame_end(mem).unwrap_or(0) as u128)])
}
fn opt_n(v: Option<u64>) -> T { match v { Some(x) => T::some(T::N(x as u128)), None => T::none() } }

/// scripted op (the witnesses of the known findings are run first, every time)
#[derive(Clone, Debug)]
pub enum S { Ticket(u64), TicketRaw(Option<u64>, &'static str), Put(PayloadKind, usize, bool), Commit, Reopen, Presize(u64) }

pub fn run_history(r: &mut Rng, probe: &mut Probe, profile: u64, nops: usize, script: Option<&[S]>) -> Hist {
    let nops = script.map_or(nops, |s| s.len());
    let dir = scratch();
    let path = dir.path().join("m.mv2");
    let mut mem = Memvid::create(&path).expect("create");
    let debug = std::env::var("MV_DEBUG").is_ok();
    let mut ops: Vec<T> = vec![]; let mut outs: Vec<T> = vec![]; let mut tags: Vec<String> = vec![format!("profile{}", profile)];
    let mut viol: Option<String> = None;
    let mut viol_vec: Option<String> = None; // reported only if nothing about the capacity itself failed in this history
    let mut seq: i64 = 1;
    let mut admitted: Vec<Admitted> = vec![];
    let mut frames_seen: usize = 0;
    let mut next_tag: u64 = 1000 + r.below(1_000_000) * 1000;
    let mut n_acc = 0; let mut n_rej = 0; let mut n_commit = 0; let mut edge = 0;
    let mut all_stored: Vec<u64> = vec![]; // stored sizes of every admitted record, in order
    let mut lowered = false; let _ = &lowered;

    // first op of most profiles: a ticket whose capacity is the payload end plus a small budget
    let budget = |r: &mut Rng| -> u64 { match r.below(10) { 0 => 0, 1 => 1, 2 => r.range(2, 40), 3..=5 => r.range(100, 2500), 6..=7 => r.range(2500, 6000), _ => r.range(6000, 12000) } };
    let mut pending_ticket: Option<u64> = match profile { _ if script.is_some() => None, 6 => None, 5 => Some(r.range(100_000, 400_000)), _ => Some(budget(r)) };

    let mut i = 0usize;
    while i < nops {
        let last = i + 1 == nops;
        let t_op = std::time::Instant::now();
        let (dend, cpe, _) = vh::data_region(&mem);
        let limit = mem.get_capacity();
        let pend_sum: u64 = admitted.iter().map(|a| a.stored_sum).sum();
        let c = r.below(100);
        // ---------------------------------------------------------------- choose
        enum K { Put, Commit, Ticket(Option<u64>, i64, &'static str), Reopen, Presize(u64) }
        let mut forced: Option<(PayloadKind, usize, bool)> = None;
        let k = if let Some(sc) = script { match &sc[i] {
                S::Ticket(d) => { seq += 1; K::Ticket(Some(cpe.max(dend) + d), seq, "issuer") }
                S::Put(kind, size, emb) => { forced = Some((kind.clone(), *size, *emb)); K::Put }
                S::TicketRaw(cap, issuer) => { seq += 1; K::Ticket(*cap, seq, *issuer) }
                S::Presize(m) => K::Presize(*m),
                S::Commit => K::Commit, S::Reopen => K::Reopen } }
            else if last { K::Commit }
            else if let Some(d) = pending_ticket.take() { seq += 1; K::Ticket(Some(cpe.max(dend) + d), seq, "issuer") }
            else if profile == 7 && i == 1 { K::Presize(match r.below(6) { 0 => 65536, 1 => 65537, 2 => r.range(70_000, 300_000), 3 => 4 * 1024 * 1024, 4 => 16 * 1024 * 1024, _ => r.range(100_000, 131_072) }) }
            else if c < (if profile == 2 { 45 } else { 66 }) { K::Put }
            else if c < (if profile == 1 { 72 } else { 84 }) { K::Commit }
            else if c < 90 {
                // ticket: raise, keep, drop the capacity (None / 0 -> tier), lower it, stale sequence number, blank issuer
                let used = cpe.max(dend) + pend_sum;
                match r.below(10) {
                    0 => { seq += 1; K::Ticket(None, seq, "issuer") }
                    1 => { seq += 1; K::Ticket(Some(0), seq, "issuer") }
                    2 => K::Ticket(Some(used + 5000), seq - r.below(2) as i64, "issuer"),
                    3 => { seq += 1; K::Ticket(Some(used + r.below(3000)), seq, "  ") }
                    4 if admitted.is_empty() => { seq += 1; lowered = true; K::Ticket(Some(used.saturating_sub(r.range(1, 3000))), seq, "issuer") }
                    _ => { seq += 1; K::Ticket(Some(used + budget(r)), seq, "issuer") }
                }
            }
            else if c < 96 || profile == 4 && c < 99 { K::Reopen }
            else if profile != 5 { K::Presize(r.range(60_000, 200_000)) } else { K::Commit };

        match k {
            K::Put => {
                // ---- payload: aimed at the edges of what is really left (what the fixed check counts) and of what the
                // old check looked at (payload end + size: a revert of the fix accepts those)
                let rem_code = limit.saturating_sub(cpe);
                let rem_true = limit.saturating_sub(cpe.max(dend) + pend_sum);
                let kind = match (profile, r.below(12)) { (3, 0..=6) => PayloadKind::Chunked, (5, _) => PayloadKind::Bin, (_, 0) => PayloadKind::Chunked, (_, 1..=3) => PayloadKind::Text, _ => PayloadKind::Bin };
                let size: usize = match kind {
                    PayloadKind::Chunked => r.range(2500, 7000) as usize,
                    PayloadKind::Text => r.range(1, 2300) as usize,
                    PayloadKind::Bin => if profile == 5 { (match r.below(4) { 0 => r.range(1, 3000), _ => r.range(15_000, 60_000) }) as usize } else {
                        let aim = |rem: u64, r: &mut Rng| -> usize { let t = rem as i64 + (r.below(5) as i64 - 2); if t >= 1 && t <= 70_000 { t as usize } else { r.range(1, 3000) as usize } };
                        match r.below(10) { 0..=2 => aim(rem_code, r), 3..=4 => aim(rem_true, r), 5 => aim(rem_code / 2, r), 6 => r.range(1, 64) as usize, _ => r.range(200, 4000) as usize }
                    },
                };
                let (kind, size) = match &forced { Some((k, sz, _)) => (k.clone(), *sz), None => (kind, size) };
                let tag = if forced.is_some() { 777_000 } else { next_tag }; next_tag += 1000;
                let bytes = payload_bytes(&kind, size, tag);
                let chk = probe.stored_len(&bytes);
                let plan = std::str::from_utf8(&bytes).ok().and_then(|t| vh::plan_text_chunks(t));
                let stored: Vec<u64> = match &plan { None => vec![chk], Some((_, _, chunks)) => { let mut v = vec![0u64]; for ch in chunks { v.push(probe.stored_len(ch.as_bytes())); } v } };
                let stored_sum: u64 = stored.iter().sum();
                let emb = match &forced { Some((_, _, e)) => *e, None => profile != 5 && r.chance(1, 14) };
                let before = snap(&mem, &path);
                let opts = Driver::options(None, 1_700_000_000 + i as i64, false);
                let res = std::panic::catch_unwind(std::panic::AssertUnwindSafe(|| if emb { mem.put_with_embedding_and_options(&bytes, vec![0.25f32, 0.5, -1.0, 2.0], opts) } else { mem.put_bytes_with_options(&bytes, opts) }));
                let after = snap(&mem, &path);
                let grow = after.hdr.2 - before.hdr.2;
                let (code, a, b, cc, ok) = match &res {
                    Ok(Ok(_)) => (0, 0, 0, 0, true),
                    Ok(Err(MemvidError::CapacityExceeded { current, limit, required })) => (1, *current, *limit, *required, false),
                    Ok(Err(MemvidError::TicketRequired { .. })) => (2, 0, 0, 0, false),
                    Ok(Err(e)) => { viol.get_or_insert(format!("put-failed: op {} put returned an unexpected error: {}", i, e)); (9, 0, 0, 0, false) }
                    Err(_) => { viol.get_or_insert(format!("put-panicked: op {} put panicked", i)); (10, 0, 0, 0, false) }
                };
                let auto = ok && after.wal.1 == 0 || ok && after.region.2 != before.region.2;
                if debug { eprintln!("op {} put {:?} size {} chk {} stored {:?} emb {} -> code {} ({},{},{}) grow {} auto {} region {:?} limit {}", i, kind, size, chk, stored, emb, code, a, b, cc, grow, auto, after.region, limit); }
                if ok {
                    n_acc += 1;
                    // ---- property: a put that would exceed the limit fails with CapacityExceeded
                    if cpe.max(dend) + pend_sum + stored_sum > limit { viol.get_or_insert(format!("excess-put-accepted: op {} the put was accepted although max(payload end {}, data end {}) + pending stored bytes {} + its own {} = {} > capacity {}", i, cpe, dend, pend_sum, stored_sum, cpe.max(dend) + pend_sum + stored_sum, limit)); }
                    if chk.abs_diff(rem_true) <= 2 || stored_sum.abs_diff(rem_true) <= 2 { edge += 1; }
                    admitted.push(Admitted { cpe, dend, pend_before: pend_sum, stored_sum, chk, limit, stored: stored.clone(), op_index: i });
                    all_stored.extend(stored.iter());
                    if plan.is_some() { tags.push("chunked".into()); if stored_sum > chk { tags.push("chunks_store_more_than_checked".into()); } }
                    if grow > 0 { tags.push("walgrowth".into()); }
                } else {
                    if code == 1 { n_rej += 1; if chk.abs_diff(rem_true) <= 2 || stored_sum.abs_diff(rem_true) <= 2 { edge += 1; } }
                    if code == 2 { tags.push("ticket_required".into()); }
                    // ---- property: a rejected put leaves the memory unchanged
                    let d = diff(&before, &after);
                    if !d.is_empty() {
                        let only_vec = d == vec!["vec_enabled"];
                        if only_vec && emb { viol_vec.get_or_insert(format!("rejected-embedded-put-enables-vec: op {} a put with an embedding was rejected ({}) but vec_enabled went {} -> {} (enable_vec runs before the capacity check)", i, if code == 1 { "CapacityExceeded" } else { "TicketRequired" }, before.vec.0, after.vec.0)); tags.push("rejected_put_enabled_vec".into()); }
                        else { viol.get_or_insert(format!("rejected-put-changed-memory: op {} a rejected put changed: {}", i, d.join(", "))); }
                    }
                    // ---- the two checks of put_internal: whole-payload size first, then the bytes really stored
                    let tail = cpe.max(dend) + pend_sum;
                    let expected = if tail + chk > limit { Some((tail, limit, chk)) } else if tail + stored_sum > limit { Some((tail, limit, stored_sum)) } else { None };
                    if code == 1 { match expected {
                        Some(e) if e == (a, b, cc) => {}
                        Some(e) => { viol.get_or_insert(format!("error-fields: op {} CapacityExceeded{{current {}, limit {}, required {}}} but expected {{current {}, limit {}, required {}}} (payload end {}, data end {}, pending stored bytes {}, whole payload stores {}, parent + chunks store {})", i, a, b, cc, e.0, e.1, e.2, cpe, dend, pend_sum, chk, stored_sum)); }
                        None => { viol.get_or_insert(format!("fitting-put-rejected: op {} CapacityExceeded{{current {}, limit {}, required {}}} although max(payload end {}, data end {}) + pending {} + {} <= {}", i, a, b, cc, cpe, dend, pend_sum, chk.max(stored_sum), limit)); }
                    } }
                }
                ops.push(T::C("OPut", vec![T::B(emb), T::N(chk as u128), T::L(stored.iter().map(|x| T::N(*x as u128)).collect()), T::N(grow as u128), T::B(auto)]));
                outs.push(obs(&mem, code, a, b, cc));
                if auto { n_commit += 1; tags.push("autocommit".into()); check_commit(&mem, &mut admitted, &mut frames_seen, &all_stored, &mut viol, &mut tags, i, before.hdr.2, lowered); }
            }
            K::Commit => {
                let wal_before = vh::header_fields(&mem).2;
                let r0 = mem.commit();
                if let Err(e) = &r0 { viol.get_or_insert(format!("commit-failed: op {} commit returned {}", i, e)); }
                let grow = vh::header_fields(&mem).2 - wal_before;
                if grow > 0 { tags.push("walgrowth_in_commit".into()); }
                ops.push(T::C("OCommit", vec![T::N(grow as u128)]));
                outs.push(obs(&mem, if r0.is_ok() { 0 } else { 9 }, 0, 0, 0));
                n_commit += 1;
                if debug { eprintln!("op {} commit grow {} region {:?}", i, grow, vh::data_region(&mem)); }
                check_commit(&mem, &mut admitted, &mut frames_seen, &all_stored, &mut viol, &mut tags, i, wal_before, lowered);
            }
            K::Ticket(cap, s, issuer) => {
                let mut t = Ticket::new(issuer, s);
                if let Some(c) = cap { t = t.capacity_bytes(c); }
                let before = snap(&mem, &path);
                let r0 = mem.apply_ticket(t);
                let code = match &r0 { Ok(()) => 0, Err(MemvidError::TicketSequence { .. }) => 3, Err(e) => { viol.get_or_insert(format!("ticket-failed: op {} apply_ticket returned {}", i, e)); 9 } };
                if code == 3 { tags.push("stale_ticket".into()); let after = snap(&mem, &path); if !diff(&before, &after).is_empty() { viol.get_or_insert(format!("rejected-ticket-changed-memory: op {} {}", i, diff(&before, &after).join(", "))); } }
                if code == 0 { match cap { None => tags.push("ticket_no_capacity".into()), Some(0) => tags.push("ticket_capacity_0".into()), _ => {} } if issuer.trim().is_empty() { tags.push("blank_issuer".into()); } }
                if lowered { tags.push("ticket_lowered_below_use".into()); }
                let iss = if issuer == "free-tier" { 0 } else if issuer.trim().is_empty() { 1 } else { 2 };
                ops.push(T::C("OTicket", vec![T::N(s.max(0) as u128), opt_n(cap), T::N(iss)]));
                outs.push(obs(&mem, code, 0, 0, 0));
                if debug { eprintln!("op {} ticket cap {:?} seq {} -> code {} limit {}", i, cap, s, code, mem.get_capacity()); }
            }
            K::Reopen => {
                // commit what is pending first (Drop would do the same), then close and open
                if !admitted.is_empty() || vh::wal_stats(&mem).1 != 0 {
                    let wal_before = vh::header_fields(&mem).2;
                    let r0 = mem.commit();
                    if let Err(e) = &r0 { viol.get_or_insert(format!("commit-failed: op {} commit returned {}", i, e)); }
                    let grow = vh::header_fields(&mem).2 - wal_before;
                    ops.push(T::C("OCommit", vec![T::N(grow as u128)]));
                    outs.push(obs(&mem, if r0.is_ok() { 0 } else { 9 }, 0, 0, 0));
                    n_commit += 1;
                    check_commit(&mem, &mut admitted, &mut frames_seen, &all_stored, &mut viol, &mut tags, i, wal_before, lowered);
                }
                drop(mem);
                mem = match Memvid::open(&path) { Ok(m) => m, Err(e) => { viol.get_or_insert(format!("open-failed: op {} the memory could not be opened again: {}", i, e)); return Hist { ops, outs, violation: viol, tags, nontrivial: false }; } };
                let (d, _, _) = vh::data_region(&mem);
                ops.push(T::C("OReopen", vec![T::N(d as u128)]));
                outs.push(obs(&mem, 0, 0, 0, 0));
                tags.push("reopen".into());
                let (d2, c2, _) = vh::data_region(&mem);
                if d2 > c2 { tags.push("data_end_beyond_payload_end".into()); }
                // hypothesis of the theorems about reopen: data_end at open is not before the payload end
                if d2 < c2 || d2 < max_frame_end(&mem).unwrap_or(0) { viol.get_or_insert(format!("reopen-data-end: op {} after open data_end {} is before the payload end {}", i, d2, c2)); }
                if debug { eprintln!("op {} reopen region {:?}", i, vh::data_region(&mem)); }
            }
            K::Presize(min) => {
                let mut o = PutManyOpts::default(); o.wal_pre_size_bytes = min;
                let r1 = mem.begin_batch(o); let r2 = mem.end_batch();
                if r1.is_err() || r2.is_err() { viol.get_or_insert(format!("presize-failed: op {} begin_batch/end_batch failed", i)); }
                ops.push(T::C("OPresize", vec![T::N(min as u128)]));
                outs.push(obs(&mem, 0, 0, 0, 0));
                tags.push("presize".into());
                let (d2, c2, _) = vh::data_region(&mem);
                if d2 > c2 { tags.push("data_end_beyond_payload_end".into()); }
                if debug { eprintln!("op {} presize {} region {:?} wal {}", i, min, vh::data_region(&mem), vh::header_fields(&mem).2); }
            }
        }
        if debug { eprintln!("   op {} took {:?}", i, t_op.elapsed()); }
        i += 1;
    }
    if n_rej > 0 { tags.push("rejected".into()); }
    if edge > 0 { tags.push("size_within_2_of_the_limit".into()); }
    tags.sort(); tags.dedup();
    let nontrivial = n_acc >= 1 && n_rej >= 1 && n_commit >= 1;
    Hist { ops, outs, violation: viol.or(viol_vec), tags, nontrivial }
}

/// property oracle after a commit: the payload region (max frame payload end, counted from where
/// the region started at creation: a log growth moves every payload by the same amount) is within
/// the capacity; a breach is attributed to the first admitted put of the batch whose full
/// projection (payload end or data end, plus pending stored bytes, plus its own stored bytes)
/// already exceeded the limit it was checked against.
fn check_commit(mem: &Memvid, admitted: &mut Vec<Admitted>, frames_seen: &mut usize, all_stored: &[u64], viol: &mut Option<String>, tags: &mut Vec<String>, i: usize, _wal_before: u64, lowered: bool) {
    let n = mem.frame_count();
    // the stored sizes the harness fed to the model are the ones the implementation stored
    for id in *frames_seen..n {
        let f = mem.frame_by_id(id as u64).expect("frame");
        if id < all_stored.len() && f.payload_length != all_stored[id] { viol.get_or_insert(format!("stored-size-probe: frame {} stores {} bytes but the probe said {}", id, f.payload_length, all_stored[id])); }
    }
    if n != all_stored.len() { viol.get_or_insert(format!("frame-count: after the commit at op {} there are {} frames, {} records were admitted", i, n, all_stored.len())); }
    *frames_seen = n;
    let (_, cpe, _) = vh::data_region(mem);
    let (_, wal_off, wal_size, _, _) = vh::header_fields(mem);
    let cap = mem.stats().expect("stats").capacity_bytes;
    let me = max_frame_end(mem);
    if let Some(me) = me { if me != cpe {
        // begin_batch(wal_pre_size_bytes) moves the payloads without moving cached_payload_end (ensure_wal_capacity,
        // unlike grow_wal_region); recorded as a tag, it is not a statement of this property
        if tags.iter().any(|t| t == "presize") { tags.push("payload_end_cache_stale_after_presize".into()); }
        else { viol.get_or_insert(format!("payload-end-cache: after the commit at op {} the cached payload end is {} but the largest frame payload end is {}", i, cpe, me)); }
    } }
    let end = me.unwrap_or(wal_off + wal_size);
    let shift = (wal_off + wal_size) - BASE0;          // how far log growth moved the region
    let abs_ok = end <= cap;                            // the code's reading: absolute offset <= capacity
    let corr_ok = end - shift <= cap;                   // the same, not counting log growth
    let rel_ok = end - (wal_off + wal_size) <= cap;     // region size <= capacity
    if !admitted.is_empty() && !corr_ok {
        let culprit = admitted.iter().find(|a| a.cpe.max(a.dend) + a.pend_before + a.stored_sum > a.limit);
        let text = format!("after the commit at op {} the payload region ends at {} (capacity {}; {} beyond; the region holds {} bytes, the capacity leaves {} after header and log; read as a pure byte budget the capacity is {})", i, end, cap, end - shift - cap, end - (wal_off + wal_size), cap.saturating_sub(BASE0), if rel_ok { "not exceeded" } else { "exceeded too" });
        let v = match culprit {
            Some(a) if a.pend_before > 0 && a.cpe + a.pend_before + a.chk > a.limit => format!("pending-bytes-uncounted: {}: the put at op {} was admitted against payload end {} + {} = {} <= {} while {} stored bytes of earlier puts were waiting for the commit", text, a.op_index, a.cpe, a.chk, a.cpe + a.chk, a.limit, a.pend_before),
            Some(a) if a.dend > a.cpe && a.dend + a.pend_before + a.chk > a.limit => format!("stale-payload-end: {}: the put at op {} was admitted against payload end {} but the commit writes from data end {}", text, a.op_index, a.cpe, a.dend),
            Some(a) if a.stored_sum > a.chk => format!("chunk-sizes-unchecked: {}: the chunked put at op {} was admitted on {} bytes (whole document compressed) and stored {} bytes in {} chunks", text, a.op_index, a.chk, a.stored_sum, a.stored.len() - 1),
            _ => format!("capacity-exceeded: {}", text),
        };
        viol.get_or_insert(v);
        if !rel_ok { tags.push("byte_budget_exceeded_too".into()); }
    }
    if !abs_ok && corr_ok { tags.push("absolute_end_beyond_capacity_by_log_growth_only".into()); }
    admitted.clear();
}

pub fn run(seed: u64, n: usize, w: &mut dyn std::io::Write) {
    let mut r = Rng::new(seed ^ 0xC24);
    let mut probe = Probe::new();
    // the witnesses of the three fixed defects (f25e235: must now end in a rejection, not in a breach), of the
    // remaining known finding F-C24-4, and fixed edge histories
    let witnesses: Vec<(&str, Vec<S>)> = vec![
        ("fixed_pending", vec![S::Ticket(3000), S::Put(PayloadKind::Bin, 2000, false), S::Put(PayloadKind::Bin, 2000, false), S::Put(PayloadKind::Bin, 2000, false), S::Commit]),
        ("fixed_stale_end", vec![S::Ticket(2000), S::Put(PayloadKind::Bin, 1700, false), S::Commit, S::Reopen, S::Put(PayloadKind::Bin, 100, false), S::Commit]),
        ("fixed_chunks", vec![S::Ticket(1600), S::Put(PayloadKind::Chunked, 6579, false), S::Commit]),
        ("witness_rejected_embedded", vec![S::Ticket(0), S::Put(PayloadKind::Bin, 10, true), S::Commit]),
        // tiers: log of 4 MiB -> Dev (2 GiB, blank issuer not allowed to mutate), 16 MiB -> Enterprise (10 GiB)
        ("tiers", vec![S::Put(PayloadKind::Bin, 100, false), S::Presize(4 * 1024 * 1024), S::TicketRaw(None, "  "), S::Put(PayloadKind::Bin, 100, false), S::TicketRaw(Some(0), "issuer"), S::Put(PayloadKind::Bin, 100, false), S::Presize(16 * 1024 * 1024), S::Put(PayloadKind::Text, 300, false), S::Commit]),
        ("commit_between_puts", vec![S::Ticket(3000), S::Put(PayloadKind::Bin, 2000, false), S::Commit, S::Put(PayloadKind::Bin, 1001, false), S::Put(PayloadKind::Bin, 1000, false), S::Commit, S::Put(PayloadKind::Bin, 1, false), S::Commit]),
    ];
    for (name, sc) in &witnesses {
        let mut h = run_history(&mut r, &mut probe, 9, 0, Some(sc));
        h.tags.push(name.to_string());
        let input = T::L(h.ops.clone());
        let output = T::L(h.outs.clone());
        let key = blake3::hash(input.coq().as_bytes()).to_hex()[..16].to_string();
        emit(w, "hist", &Case { input, output, violation: h.violation, nontrivial: h.nontrivial, tags: h.tags, key });
    }
    for i in 0..n {
        let profile = (i % 8) as u64;
        let nops = match profile { 5 => r.range(6, 14), _ => r.range(4, 22) } as usize;
        let h = run_history(&mut r, &mut probe, profile, nops, None);
        let input = T::L(h.ops.clone());
        let output = T::L(h.outs.clone());
        let key = blake3::hash(input.coq().as_bytes()).to_hex()[..16].to_string();
        emit(w, "hist", &Case { input, output, violation: h.violation, nontrivial: h.nontrivial, tags: h.tags, key });
    }
}
