//! C19 single-file guarantee: histories of API calls (including failing ones) on real memories
//! in a fresh directory, with the directory listed and its inotify events drained after every
//! call, against Model/SingleFile.v; plus the refusal matrix of ensure_single_file.
//!
//! Failing calls are REAL failures of the implementation: capacity exceeded (tiny ticket),
//! invalid frame ids, embedding dimension mismatch, open of garbage / a missing file / a locked
//! file, doctor on garbage, commits failing inside with_staging_lock because RLIMIT_FSIZE makes
//! the copy or the closure's writes fail (EFBIG), and commits whose final renameat fails
//! (EISDIR: the path names a directory for the duration of the call).
use crate::store::*;
use crate::term::*;
use memvid_core::{Memvid, MemvidError};
use std::collections::BTreeSet;
use std::ffi::{CString, OsString};
use std::os::unix::ffi::{OsStrExt, OsStringExt};
use std::path::{Path, PathBuf};

extern "C" {
    fn inotify_init1(flags: i32) -> i32;
    fn inotify_add_watch(fd: i32, path: *const std::os::raw::c_char, mask: u32) -> i32;
    fn read(fd: i32, buf: *mut u8, n: usize) -> isize;
    fn close(fd: i32) -> i32;
    fn setrlimit(resource: i32, rlim: *const [u64; 2]) -> i32;
    fn getrlimit(resource: i32, rlim: *mut [u64; 2]) -> i32;
    fn signal(signum: i32, handler: usize) -> usize;
}
const IN_NONBLOCK: i32 = 0o4000;
const IN_CLOEXEC: i32 = 0o2000000;
const IN_CREATE: u32 = 0x100; const IN_DELETE: u32 = 0x200; const IN_MOVED_FROM: u32 = 0x40; const IN_MOVED_TO: u32 = 0x80;
const RLIMIT_FSIZE: i32 = 1; const SIGXFSZ: i32 = 25; const SIG_IGN: usize = 1;

type Name = Vec<u8>;

#[derive(Clone, Debug, PartialEq)]
enum DirEv { Creat(Name), Unlink(Name), From(Name, u32), To(Name, u32) }

struct Watch { fd: i32 }
impl Watch {
    fn new(dir: &Path) -> Watch {
        unsafe {
            let fd = inotify_init1(IN_NONBLOCK | IN_CLOEXEC);
            assert!(fd >= 0, "inotify_init1");
            let c = CString::new(dir.as_os_str().as_bytes()).unwrap();
            let wd = inotify_add_watch(fd, c.as_ptr(), IN_CREATE | IN_DELETE | IN_MOVED_FROM | IN_MOVED_TO);
            assert!(wd >= 0, "inotify_add_watch");
            Watch { fd }
        }
    }
    fn drain(&self) -> Vec<DirEv> {
        let mut out = vec![];
        let mut buf = vec![0u8; 65536];
        loop {
            let n = unsafe { read(self.fd, buf.as_mut_ptr(), buf.len()) };
            if n <= 0 { break; }
            let mut i = 0usize; let n = n as usize;
            while i + 16 <= n {
                let mask = u32::from_ne_bytes(buf[i + 4..i + 8].try_into().unwrap());
                let cookie = u32::from_ne_bytes(buf[i + 8..i + 12].try_into().unwrap());
                let len = u32::from_ne_bytes(buf[i + 12..i + 16].try_into().unwrap()) as usize;
                let name: Name = buf[i + 16..i + 16 + len].iter().cloned().take_while(|b| *b != 0).collect();
                if mask & IN_CREATE != 0 { out.push(DirEv::Creat(name)); }
                else if mask & IN_DELETE != 0 { out.push(DirEv::Unlink(name)); }
                else if mask & IN_MOVED_FROM != 0 { out.push(DirEv::From(name, cookie)); }
                else if mask & IN_MOVED_TO != 0 { out.push(DirEv::To(name, cookie)); }
                i += 16 + len;
            }
        }
        out
    }
}
impl Drop for Watch { fn drop(&mut self) { unsafe { close(self.fd); } } }

/// soft RLIMIT_FSIZE for this process (None = back to the hard limit); SIGXFSZ ignored so that
/// a write beyond the limit returns EFBIG
fn set_fsize_limit(lim: Option<u64>) {
    unsafe {
        signal(SIGXFSZ, SIG_IGN);
        let mut cur = [0u64; 2];
        getrlimit(RLIMIT_FSIZE, &mut cur);
        let new = [lim.unwrap_or(cur[1]), cur[1]];
        assert!(setrlimit(RLIMIT_FSIZE, &new) == 0, "setrlimit");
    }
}

fn scratch(shm: bool) -> tempfile::TempDir {
    let p = Path::new("/dev/shm");
    if shm && p.is_dir() { if let Ok(d) = tempfile::tempdir_in(p) { return d; } }
    tempfile::tempdir().expect("tempdir")
}

fn join(dir: &Path, n: &[u8]) -> PathBuf { dir.join(OsString::from_vec(n.to_vec())) }
fn listing(dir: &Path) -> Vec<Name> {
    let mut v: Vec<Name> = std::fs::read_dir(dir).unwrap().map(|e| e.unwrap().file_name().into_vec()).collect();
    v.sort(); v
}
/// (name, kind) with kind 0 file, 1 directory, 2 live symlink, 3 dangling symlink
fn listing_kinds(dir: &Path) -> Vec<(Name, u8)> {
    listing(dir).into_iter().map(|n| {
        let p = join(dir, &n);
        let k = match std::fs::symlink_metadata(&p) {
            Ok(m) if m.file_type().is_symlink() => if std::fs::metadata(&p).is_ok() { 2 } else { 3 },
            Ok(m) if m.is_dir() => 1,
            _ => 0,
        };
        (n, k)
    }).collect()
}
fn show(n: &[u8]) -> String { String::from_utf8_lossy(n).to_string() }
fn show_all(l: &[Name]) -> String { l.iter().map(|n| show(n)).collect::<Vec<_>>().join(" ") }
fn is_utf8(n: &[u8]) -> bool { std::str::from_utf8(n).is_ok() }

/// the eight names of the property text for a memory called `n` (written from the property text,
/// not from the implementation)
fn sidecars(n: &[u8]) -> Vec<Name> {
    let mut v = vec![];
    for s in ["-wal", "-shm", "-lock", "-journal"] { let mut x = n.to_vec(); x.extend_from_slice(s.as_bytes()); v.push(x); }
    for s in [".wal", ".shm", ".lock", ".journal"] { let mut x = vec![b'.']; x.extend_from_slice(n); x.extend_from_slice(s.as_bytes()); v.push(x); }
    v
}
fn sidecar_present(dir: &Path, n: &[u8]) -> Option<Name> { sidecars(n).into_iter().find(|c| std::fs::metadata(join(dir, c)).is_ok()) }

fn t_name(n: &[u8]) -> T { T::H(n.to_vec()) }
fn t_dir(l: &[(Name, u8)]) -> T { T::L(l.iter().map(|(n, k)| T::Tup(vec![t_name(n), T::N(*k as u128)])).collect()) }
fn t_names(l: &[Name]) -> T { T::L(l.iter().map(|n| t_name(n)).collect()) }
fn t_bytes_opt(o: &Option<Name>) -> T { match o { Some(n) => T::some(t_name(n)), None => T::none() } }

/// inotify events -> the model's dop triples (kind, a, b); a rename is a From/To pair with one cookie
fn trace_terms(ev: &[DirEv]) -> (T, Vec<(u8, Name, Name)>) {
    let mut out: Vec<(u8, Name, Name)> = vec![];
    let mut i = 0;
    while i < ev.len() {
        match &ev[i] {
            DirEv::Creat(n) => out.push((0, n.clone(), vec![])),
            DirEv::Unlink(n) => out.push((1, n.clone(), vec![])),
            DirEv::From(a, c) => {
                if let Some(DirEv::To(b, c2)) = ev.get(i + 1) { if c == c2 { out.push((2, a.clone(), b.clone())); i += 2; continue; } }
                out.push((3, a.clone(), vec![]));   // moved out of the directory: no model counterpart
            }
            DirEv::To(b, _) => out.push((4, b.clone(), vec![])),   // moved in from elsewhere
        }
        i += 1;
    }
    (T::L(out.iter().map(|(k, a, b)| T::Tup(vec![T::N(*k as u128), t_name(a), t_name(b)])).collect()), out)
}

fn is_staging_of(p: &[u8], n: &[u8]) -> Option<Name> {
    // ".{p}.{6 alphanumerics}"
    if n.len() == p.len() + 8 && n[0] == b'.' && &n[1..1 + p.len()] == p && n[1 + p.len()] == b'.' && n[2 + p.len()..].iter().all(|c| c.is_ascii_alphanumeric()) {
        Some(n[2 + p.len()..].to_vec())
    } else { None }
}

/// the staged commits of one call on memory `p`, read off the directory events:
/// Creat s; Rename s p = committed, Creat s; Unlink s = discarded, Creat s alone = left behind
fn stages_of(p: &[u8], tr: &[(u8, Name, Name)], discarded_as: &'static str) -> (T, usize, usize, Vec<Name>) {
    let mut stages = vec![]; let mut committed = 0; let mut discarded = 0; let mut left = vec![];
    let mut i = 0;
    while i < tr.len() {
        if tr[i].0 == 0 {
            if let Some(sfx) = is_staging_of(p, &tr[i].1) {
                let exit = match tr.get(i + 1) {
                    Some((2, a, b)) if *a == tr[i].1 && b == p => { committed += 1; i += 1; "XOk" }
                    Some((1, a, _)) if *a == tr[i].1 => { discarded += 1; i += 1; discarded_as }
                    _ => { left.push(tr[i].1.clone()); "XCommitErr" }
                };
                stages.push(T::Tup(vec![T::L(vec![t_name(&sfx)]), T::C(exit, vec![])]));
            }
        }
        i += 1;
    }
    (T::L(stages), committed, discarded, left)
}

fn err_aux(e: &MemvidError) -> Option<Name> {
    match e { MemvidError::AuxiliaryFileDetected { path } => Some(path.file_name().map(|n| n.as_bytes().to_vec()).unwrap_or_default()), _ => None }
}

/// what one API call produced, in the shape of Corr/C19.v's call_out
struct CallObs { api: T, code: u8, refused: Option<Name>, trace: T, after: Vec<Name> }
impl CallObs {
    fn out(&self) -> T { T::Tup(vec![T::N(self.code as u128), t_bytes_opt(&self.refused), self.trace.clone(), t_names(&self.after)]) }
}

fn b(v: bool) -> T { T::B(v) }

// ------------------------------------------------------------------------------------------------ refusal matrix
#[derive(Clone, Copy, Debug, PartialEq)]
enum Entry { Create, Open, OpenRo, Doctor, Verify }

fn call_entry(dir: &Path, w: &Watch, name: &[u8], e: Entry) -> (CallObs, Option<String>) {
    let path = join(dir, name);
    let existed = std::fs::symlink_metadata(&path).is_ok();
    let utf8 = is_utf8(name);
    w.drain();
    let (res, is_doctor): (Result<(), MemvidError>, bool) = match e {
        Entry::Create => (Memvid::create(&path).map(|m| drop(m)), false),
        Entry::Open => (Memvid::open(&path).map(|m| drop(m)), false),
        Entry::OpenRo => (Memvid::open_read_only(&path).map(|m| drop(m)), false),
        Entry::Verify => (Memvid::verify(&path, false).map(|_| ()), false),
        Entry::Doctor => {
            let opts = memvid_core::types::DoctorOptions { rebuild_time_index: false, rebuild_lex_index: false, rebuild_vec_index: false, vacuum: false, dry_run: false, quiet: true };
            match std::panic::catch_unwind(|| Memvid::doctor(&path, opts)) { Ok(r) => (r.map(|_| ()), true), Err(_) => (Err(MemvidError::Lock("panic".into())), true) }
        }
    };
    let ev = w.drain();
    let (trace, tr) = trace_terms(&ev);
    let after = listing(dir);
    let refused = res.as_ref().err().and_then(err_aux);
    let errtext = res.as_ref().err().map(|e| e.to_string());
    let ok = res.is_ok();
    let created_now = !existed && std::fs::symlink_metadata(&path).is_ok();
    let (api, code) = match e {
        Entry::Create => {
            let creat_ok = refused.is_none() && (existed || created_now);
            (T::C("ACreate", vec![t_name(name), b(utf8), b(creat_ok), b(ok)]), if refused.is_some() { 2 } else if ok { 1 } else { 0 })
        }
        Entry::Open | Entry::OpenRo | Entry::Verify => { let (stages, _, _, _) = stages_of(name, &tr, "XClosureErr"); (T::C("AOpen", vec![t_name(name), b(utf8), b(ok), stages]), if refused.is_some() { 2 } else if ok { 1 } else { 0 }) }
        Entry::Doctor => {
            let (stages, _, _, _) = stages_of(name, &tr, "XClosureErr");
            // the model's doctor reports "ran" whenever the path exists and it was not refused
            (T::C("ADoctor", vec![t_name(name), b(utf8), stages]), if refused.is_some() { 2 } else if existed { 1 } else { 0 })
        }
    };
    let _ = is_doctor;
    (CallObs { api, code, refused, trace, after }, errtext)
}

fn plant(dir: &Path, n: &[u8], kind: u8) {
    let p = join(dir, n);
    match kind {
        1 => std::fs::create_dir(&p).unwrap(),
        2 => { let t = dir.join("zz-link-target"); if !t.exists() { std::fs::write(&t, b"t").unwrap(); } std::os::unix::fs::symlink("zz-link-target", &p).unwrap() }
        3 => std::os::unix::fs::symlink("zz-no-such-target", &p).unwrap(),
        4 => std::fs::write(&p, b"").unwrap(),
        _ => std::fs::write(&p, b"junk").unwrap(),
    }
}
fn unplant(dir: &Path, n: &[u8]) {
    let p = join(dir, n);
    if let Ok(m) = std::fs::symlink_metadata(&p) { if m.is_dir() { let _ = std::fs::remove_dir_all(&p); } else { let _ = std::fs::remove_file(&p); } }
    let _ = std::fs::remove_file(dir.join("zz-link-target"));
}

/// one matrix case: emits the call and evaluates the refusal rule of the property text
fn refuse_case(out: &mut dyn std::io::Write, dir: &Path, w: &Watch, name: &[u8], e: Entry, what: &str, count: &mut usize) -> (bool, Option<Name>) {
    let before = listing_kinds(dir);
    let forbidden = sidecar_present(dir, name);
    let (obs, errtext) = call_entry(dir, w, name, e);
    let utf8 = is_utf8(name);
    let mut viol = None;
    let demanded = matches!(e, Entry::Create | Entry::Open | Entry::OpenRo);   // the property text names create/open
    match (&forbidden, &obs.refused) {
        (Some(c), None) if demanded => viol = Some(format!("{}: {:?}({}) ran although the forbidden sidecar {} exists{}", if utf8 { "sidecar-not-refused" } else { "non-utf8-name" }, e, show(name), show(c), if utf8 { "" } else { " (the file name is not valid UTF-8: ensure_single_file derives its candidates from the empty string)" })),
        (None, Some(c)) => viol = Some(format!("{}: {:?}({}) was refused because of {} although none of the eight sidecar names of this memory exists", if utf8 { "spurious-refusal" } else { "non-utf8-name" }, e, show(name), show(c))),
        _ => {}
    }
    let before_names: Vec<Name> = before.iter().map(|x| x.0.clone()).collect();
    let mut allowed: BTreeSet<Name> = before_names.iter().cloned().collect();
    if e == Entry::Create { allowed.insert(name.to_vec()); }
    if viol.is_none() { if let Some(x) = obs.after.iter().find(|n| !allowed.contains(*n)) { viol = Some(format!("stray-file: after {:?}({}) the directory holds {} (listing: {})", e, show(name), show(x), show_all(&obs.after))); } }
    if viol.is_none() && obs.refused.is_some() && obs.after != before_names { viol = Some(format!("refused-call-changed-directory: {:?}({})", e, show(name))); }
    let mut tags = vec![format!("{:?}", e), what.to_string(), if obs.refused.is_some() { "refused".into() } else if obs.code == 1 { "ran".into() } else { "error".into() }];
    if !utf8 { tags.push("non_utf8_name".into()); }
    if let Some(t) = &errtext { if obs.refused.is_none() { tags.push(format!("err:{}", t.split(':').next().unwrap_or("").chars().take(30).collect::<String>())); } }
    let input = T::Tup(vec![t_dir(&before), obs.api.clone()]);
    *count += 1;
    emit(out, "refuse", &Case { input, output: obs.out(), violation: viol, nontrivial: forbidden.is_some() || what != "clean", tags, key: format!("{}-{}-{:?}-{}", show(name), what, e, count) });
    (obs.code == 1, obs.refused)
}

fn matrix(out: &mut dyn std::io::Write, r: &mut Rng, names: &[Name]) {
    let mut count = 0usize;
    for name in names {
        let td = scratch(true);
        let dir = td.path().join("d"); std::fs::create_dir(&dir).unwrap();
        let w = Watch::new(&dir);
        // a committed, closed memory under this name, and a second unrelated memory
        { let mut d = Driver::at(&join(&dir, name), true); d.step(&Op::Put { kind: PayloadKind::Text, size: 300, uri: Some(1), ts: 1_700_000_000, embed: None, default_opts: false }); d.step(&Op::Commit); }
        let tgt: Name = { let mut t = b"new-".to_vec(); t.extend_from_slice(name); t };
        let entries = [Entry::Create, Entry::Open, Entry::OpenRo, Entry::Doctor];
        for (si, sc) in sidecars(name).iter().enumerate() {
            for e in entries {
                // create is exercised on a fresh target whose sidecar is the same suffix
                let (nm, side): (&[u8], Name) = if e == Entry::Create { (tgt.as_slice(), sidecars(&tgt)[si].clone()) } else { (name.as_slice(), sc.clone()) };
                let kind = match r.below(8) { 0 => 1, 1 => 2, 2 => 4, _ => 0 };
                plant(&dir, &side, kind);
                let what = format!("sidecar{}_{}", si, ["file", "dir", "livelink", "deadlink", "empty"][kind as usize]);
                refuse_case(out, &dir, &w, nm, e, &what, &mut count);
                unplant(&dir, &side);
                refuse_case(out, &dir, &w, nm, e, "clean", &mut count);
                if e == Entry::Create { let _ = std::fs::remove_file(join(&dir, nm)); }
            }
        }
        // dangling symbolic link under a sidecar name: Path::exists is false, the call runs
        for e in [Entry::Open, Entry::Create] {
            let nm: &[u8] = if e == Entry::Create { tgt.as_slice() } else { name.as_slice() };
            let side = sidecars(nm)[r.below(8) as usize].clone();
            plant(&dir, &side, 3); refuse_case(out, &dir, &w, nm, e, "deadlink", &mut count); unplant(&dir, &side);
            if e == Entry::Create { let _ = std::fs::remove_file(join(&dir, nm)); }
        }
        // two sidecars at once: the first in test order is reported
        for _ in 0..3 {
            let sc = sidecars(name); let i = r.below(8) as usize; let j = (i + 1 + r.below(7) as usize) % 8;
            plant(&dir, &sc[i], 0); plant(&dir, &sc[j], 0);
            refuse_case(out, &dir, &w, name, *r.pick(&[Entry::Open, Entry::OpenRo, Entry::Doctor, Entry::Verify]), "two_sidecars", &mut count);
            unplant(&dir, &sc[i]); unplant(&dir, &sc[j]);
        }
        // near misses that must not refuse: other spellings, sidecars of another memory, the lockfile name, a staging-like name
        let mut near: Vec<Name> = vec![];
        let cat = |a: &[u8], n: &[u8], z: &[u8]| { let mut v = a.to_vec(); v.extend_from_slice(n); v.extend_from_slice(z); v };
        for z in ["-WAL", "-wal2", ".wal", ".lock", "-shm~", "_wal", "-journal.bak", "-", ""] { if !z.is_empty() { near.push(cat(b"", name, z.as_bytes())); } }
        for z in ["-wal", "-shm", "-lock", "-journal"] { near.push(cat(b".", name, z.as_bytes())); near.push(cat(b"x", name, z.as_bytes())); }
        for z in [".wal~", ".WAL", ".AbC123", ".journal2"] { near.push(cat(b".", name, z.as_bytes())); }
        for z in [".wal", ".shm"] { near.push(cat(b"..", name, z.as_bytes())); }
        near.push(b"-wal".to_vec()); near.push(b"..lock".to_vec()); near.push(b"other.mv2-wal".to_vec());
        let forbidden: BTreeSet<Name> = sidecars(name).into_iter().collect();
        near.retain(|n| !forbidden.contains(n) && n != name);
        for _ in 0..6 {
            let k = r.range(1, 3) as usize;
            let picks: Vec<Name> = (0..k).map(|_| r.pick(&near).clone()).collect();
            for p in &picks { if std::fs::symlink_metadata(join(&dir, p)).is_err() { plant(&dir, p, 0); } }
            refuse_case(out, &dir, &w, name, *r.pick(&[Entry::Open, Entry::OpenRo, Entry::Doctor, Entry::Verify]), "near_miss", &mut count);
            for p in &picks { unplant(&dir, p); }
        }
        // not a memory at all: missing file, garbage file
        refuse_case(out, &dir, &w, b"nope.mv2", *r.pick(&[Entry::Open, Entry::OpenRo, Entry::Doctor, Entry::Verify]), "missing", &mut count);
        std::fs::write(dir.join("g.mv2"), b"this is not a memory").unwrap();
        for e in [Entry::Open, Entry::OpenRo, Entry::Doctor, Entry::Verify] { refuse_case(out, &dir, &w, b"g.mv2", e, "garbage", &mut count); }
        plant(&dir, b"g.mv2-journal", 0);
        refuse_case(out, &dir, &w, b"g.mv2", Entry::Doctor, "garbage_sidecar", &mut count);
    }
}

// ------------------------------------------------------------------------------------------------ histories
struct MemState { name: Name, d: Driver, frames_committed: u64, emb_dim: Option<usize>, ticketed: bool, ticket_seq: i64 }

struct Hist {
    dir: PathBuf, _td: tempfile::TempDir, w: Watch,
    initial: Vec<(Name, u8)>, created: BTreeSet<Name>,
    apis: Vec<T>, outs: Vec<T>, viol: Option<String>, tags: Vec<String>,
    induced_leaks: BTreeSet<Name>, lock_names: BTreeSet<Name>, known: bool,
    staged_ok: usize, staged_discarded: usize, failing_calls: usize,
}

impl Hist {
    /// after an API call: listing, events, the property oracle, and the call's record
    fn record(&mut self, api_of: impl FnOnce(&[(u8, Name, Name)]) -> (T, u8, Option<Name>), what: &str) -> Vec<(u8, Name, Name)> {
        let ev = self.w.drain();
        let (trace, tr) = trace_terms(&ev);
        let after = listing(&self.dir);
        let (api, code, refused) = api_of(&tr);
        // ---- property oracle: names other than the initial ones and the targets the harness created
        let mut allowed: BTreeSet<Name> = self.initial.iter().map(|x| x.0.clone()).collect();
        allowed.extend(self.created.iter().cloned());
        let extra: Vec<Name> = after.iter().filter(|n| !allowed.contains(*n)).cloned().collect();
        let missing: Vec<Name> = allowed.iter().filter(|n| !after.contains(*n)).cloned().collect();
        if !extra.is_empty() && self.viol.is_none() {
            let class = if extra.iter().all(|n| self.induced_leaks.contains(n)) { "commit-rename-error-leaves-staging" }
                        else if extra.iter().all(|n| self.lock_names.contains(n)) { "lockfile-guard-sidecar" }
                        else { "stray-file" };
            let why = match class {
                "commit-rename-error-leaves-staging" => " (the commit's final renameat failed with EISDIR; commit returned Err; AtomicWriteFile::_commit had already set finalized, so nothing unlinks the staging file)",
                "lockfile-guard-sidecar" => " (memvid_core::lockfile::acquire returned a guard; its lock file lives beside the memory until the guard is dropped)",
                _ => "",
            };
            self.viol = Some(format!("{}: after call {} ({}) the directory holds {} besides the initial files and the created memories{} -- listing: {}", class, self.apis.len(), what, show_all(&extra), why, show_all(&after)));
        }
        if !missing.is_empty() && self.viol.is_none() { self.viol = Some(format!("file-vanished: after call {} ({}) {} is gone", self.apis.len(), what, show_all(&missing))); }
        self.apis.push(api);
        self.outs.push(T::Tup(vec![T::N(code as u128), t_bytes_opt(&refused), trace, t_names(&after)]));
        tr
    }

    fn call(&mut self, ms: &MemState, what: &str, ok: bool, discarded_as: &'static str) {
        let name = ms.name.clone();
        let mut c = 0; let mut dsc = 0; let mut left = vec![];
        self.record(|tr| { let (stages, cc, dd, ll) = stages_of(&name, tr, discarded_as); c = cc; dsc = dd; left = ll; (T::C("ACall", vec![t_name(&name), stages]), 1, None) }, what);
        self.staged_ok += c; self.staged_discarded += dsc;
        if !ok { self.failing_calls += 1; }
        if ok && (dsc > 0 || !left.is_empty()) && self.viol.is_none() { self.viol = Some(format!("staging-not-committed-on-success: call {} ({}) returned Ok but a staging file was discarded or left", self.apis.len() - 1, what)); }
        self.tags.push(format!("{}:{}", what, if ok { "ok" } else { "err" }));
    }
}

fn put_op(kind: PayloadKind, size: usize, i: i64, embed: Option<Vec<f32>>) -> Op { Op::Put { kind, size, uri: None, ts: 1_700_000_000 + i, embed, default_opts: false } }

fn history(r: &mut Rng, profile: u64, nops: usize) -> Hist {
    let td = scratch(profile % 4 != 3);
    let dir = td.path().join("d"); std::fs::create_dir(&dir).unwrap();
    std::env::set_var("MEMVID_LOCK_REGISTRY_DIR", td.path().join("registry"));
    // initial content: unrelated files, a sidecar of ANOTHER name, a hidden file, a garbage .mv2
    if r.chance(1, 2) { std::fs::write(dir.join("readme.txt"), b"hello").unwrap(); }
    if r.chance(1, 3) { std::fs::write(dir.join("x.mv2-wal"), b"not ours").unwrap(); }
    if r.chance(1, 3) { std::fs::write(dir.join(".hidden"), b"").unwrap(); }
    if r.chance(1, 3) { std::fs::create_dir(dir.join("sub")).unwrap(); }
    let garbage = r.chance(1, 2); if garbage { std::fs::write(dir.join("g.mv2"), { let k = r.below(300) as usize; r.bytes(k) }).unwrap(); }
    let pool: [&[u8]; 7] = [b"m.mv2", b"a b.mv2", "\u{e9}t\u{e9}.mv2".as_bytes(), b"noext", b".dot.mv2", b"n\xff.mv2", b"m.mv2.mv2"];
    let nmem = if r.chance(1, 3) { 2 } else { 1 };
    let mut mems: Vec<MemState> = vec![];
    let mut h = Hist { dir: dir.clone(), w: Watch::new(&dir), _td: td, initial: listing_kinds(&dir), created: BTreeSet::new(), apis: vec![], outs: vec![], viol: None, tags: vec![format!("profile{}", profile)],
                       induced_leaks: BTreeSet::new(), lock_names: BTreeSet::new(), known: false, staged_ok: 0, staged_discarded: 0, failing_calls: 0 };
    for k in 0..nmem {
        let name: Name = if k == 0 && profile % 5 != 4 { b"m.mv2".to_vec() } else { loop { let c = r.pick(&pool).to_vec(); if !mems.iter().any(|m| m.name == c) { break c; } } };
        let path = join(&dir, &name);
        h.w.drain();
        let d = Driver::at(&path, true);
        h.created.insert(name.clone());
        let nm = name.clone();
        h.record(|_| (T::C("ACreate", vec![t_name(&nm), b(is_utf8(&nm)), b(true), b(true)]), 1, None), "create");
        if !is_utf8(&name) { h.tags.push("non_utf8_memory".into()); }
        mems.push(MemState { name, d, frames_committed: 0, emb_dim: None, ticketed: false, ticket_seq: 0 });
    }
    let mut guard: Option<(usize, memvid_core::lockfile::LockfileGuard)> = None;
    let leak_budget = if profile % 4 == 1 { 1 + r.below(2) } else { 0 };
    let mut leaks_done = 0;
    let lock_hist = profile % 6 == 2;
    let mut forced = false;   // every history of a known-class profile reaches its class once (the findings are re-established in every run)
    for i in 0..nops {
        let mi = r.below(mems.len() as u64) as usize;
        let name = mems[mi].name.clone();
        let path = join(&dir, &name);
        let utf8 = is_utf8(&name);
        let c = r.below(100);
        h.w.drain();
        if mems[mi].d.mem.is_none() {
            // closed: open again (or look at it read-only / verify / doctor first)
            let k = r.below(5);
            if k == 0 {
                let ro = r.chance(1, 2);
                let res = if ro { Memvid::open_read_only(&path).map(|m| drop(m)) } else { Memvid::verify(&path, r.chance(1, 2)).map(|_| ()) };
                let ok = res.is_ok(); let nm = name.clone();
                h.record(|tr| { let (stages, _, _, _) = stages_of(&nm, tr, "XClosureErr"); (T::C("AOpen", vec![t_name(&nm), b(utf8), b(ok), stages]), ok as u8, None) }, if ro { "open_read_only" } else { "verify" });
                if ok { let nm = name.clone(); h.record(|tr| { let (stages, _, _, _) = stages_of(&nm, tr, "XClosureErr"); (T::C("AClose", vec![t_name(&nm), stages]), 1, None) }, "drop"); }
                h.tags.push(if ro { "open_read_only".into() } else { "verify".into() });
                continue;
            }
            if k == 1 {
                let bits = r.below(16) as u8;
                let opts = memvid_core::types::DoctorOptions { rebuild_time_index: bits & 1 != 0, rebuild_lex_index: bits & 2 != 0, rebuild_vec_index: bits & 4 != 0, vacuum: bits & 8 != 0, dry_run: false, quiet: true };
                let rep = std::panic::catch_unwind(|| Memvid::doctor(&path, opts));
                let ok = matches!(rep, Ok(Ok(_))); let nm = name.clone();
                let mut c = 0;
                h.record(|tr| { let (stages, cc, _, _) = stages_of(&nm, tr, "XClosureErr"); c = cc; (T::C("ADoctor", vec![t_name(&nm), b(utf8), stages]), 1, None) }, "doctor");
                h.staged_ok += c;
                h.tags.push(format!("doctor:{}", if ok { "ok" } else { "err" }));
                continue;
            }
            let res = Memvid::open(&path);
            let ok = res.is_ok(); let nm = name.clone();
            let mut c = 0;
            h.record(|tr| { let (stages, cc, _, _) = stages_of(&nm, tr, "XClosureErr"); c = cc; (T::C("AOpen", vec![t_name(&nm), b(utf8), b(ok), stages]), ok as u8, None) }, "open");
            h.staged_ok += c; if c > 0 { h.tags.push("open_replayed_log".into()); }
            match res { Ok(m) => { mems[mi].d.mem = Some(m); }
                        Err(e) => { if h.viol.is_none() { h.viol = Some(format!("open-failed: call {} the memory {} could not be opened again: {}", h.apis.len() - 1, show(&name), e)); } break; } }
            h.tags.push("open".into());
            continue;
        }
        let committed = mems[mi].frames_committed;
        let c = if !forced && i >= 1 && leak_budget > 0 { forced = true; 70 } else if !forced && i >= 1 && lock_hist { forced = true; 80 } else { c };
        if c < 30 {
            // put (sometimes with an embedding of the memory's dimension)
            let kind = match r.below(6) { 0 => PayloadKind::Text, 1 => PayloadKind::Chunked, _ => PayloadKind::Bin };
            let size = match kind { PayloadKind::Chunked => r.range(2500, 6000) as usize, PayloadKind::Text => r.range(1, 1500) as usize, _ => match r.below(5) { 0 => r.range(20000, 60000) as usize, _ => r.range(1, 4000) as usize } };
            let embed = if r.chance(1, 5) { let dim = *mems[mi].emb_dim.get_or_insert(r.range(2, 6) as usize); Some((0..dim).map(|_| r.below(100) as f32 / 10.0).collect()) } else { None };
            let obs = mems[mi].d.step(&put_op(kind, size, i as i64, embed));
            if obs.auto_committed { mems[mi].frames_committed = mems[mi].d.mem().frame_count() as u64; }
            h.call(&mems[mi], if mems[mi].ticketed { "put_ticketed" } else { "put" }, obs.ok, "XClosureErr");
        } else if c < 36 {
            // invalid frame id: update / delete
            let bad = committed + r.range(0, 5) + if r.chance(1, 4) { 1 << 40 } else { 0 };
            let m = mems[mi].d.mem();
            let ok = if r.chance(1, 2) { m.update_frame(bad, None, memvid_core::PutOptions::default(), None).is_ok() } else { m.delete_frame(bad).is_ok() };
            h.call(&mems[mi], "invalid_frame_id", ok, "XClosureErr");
        } else if c < 41 {
            // embedding of a different dimension than the committed index
            let dim = mems[mi].emb_dim.unwrap_or(3) + 1 + r.below(3) as usize;
            let ok = mems[mi].d.mem().put_with_embedding_and_options(b"\xff\xfedim", vec![0.5; dim], Driver::options(None, i as i64, false)).is_ok();
            if ok && mems[mi].emb_dim.is_none() { mems[mi].emb_dim = Some(dim); }
            h.call(&mems[mi], "embedding_dimension", ok, "XClosureErr");
        } else if c < 46 {
            // tiny capacity: ticket (in place), then a put that exceeds it
            mems[mi].ticket_seq += 1; let seq = if r.chance(1, 5) { 1 } else { 100 + mems[mi].ticket_seq };   // 1 = stale: TicketSequence error
            let m = mems[mi].d.mem();
            let (_, cpe, dend) = memvid_core::verif_hooks::data_region(m);
            #[allow(deprecated)]
            let tr_ = m.apply_ticket(memvid_core::types::Ticket::new("c19", seq).capacity_bytes(cpe.max(dend) + r.below(2000)));
            if let Err(e) = &tr_ { if std::env::var("MV_DEBUG").is_ok() { eprintln!("c19: apply_ticket failed: {}", e); } }
            let ok = tr_.is_ok();
            mems[mi].ticketed = ok || mems[mi].ticketed;
            h.call(&mems[mi], "apply_ticket", ok, "XClosureErr");
            h.w.drain();
            let obs = mems[mi].d.step(&put_op(PayloadKind::Bin, r.range(2500, 9000) as usize, i as i64, None));
            h.call(&mems[mi], "put_over_capacity", obs.ok, "XClosureErr");
        } else if c < 58 {
            let ok = mems[mi].d.step(&Op::Commit).ok;
            if ok { mems[mi].frames_committed = mems[mi].d.mem().frame_count() as u64; }
            h.call(&mems[mi], "commit", ok, "XClosureErr");
        } else if c < 68 {
            // commit that fails inside with_staging_lock: file size limit below the copy (copy_from fails)
            // or just above the current length (the closure's writes fail)
            let _ = mems[mi].d.step(&put_op(PayloadKind::Bin, r.range(2000, 6000) as usize, i as i64, None));
            h.call(&mems[mi], "put", true, "XClosureErr");
            h.w.drain();
            let len = std::fs::metadata(&path).map(|m| m.len()).unwrap_or(0);
            let copy_fails = r.chance(1, 2);
            let pending = memvid_core::verif_hooks::wal_stats(mems[mi].d.mem()).1 > 0;
            set_fsize_limit(Some(if copy_fails { r.range(1, len.max(2) - 1) } else { len + r.below(64) }));
            let res = mems[mi].d.mem().commit();
            set_fsize_limit(None);
            let ok = res.is_ok();
            if ok { mems[mi].frames_committed = mems[mi].d.mem().frame_count() as u64; }
            let before = h.staged_discarded;
            h.call(&mems[mi], if copy_fails { "commit_copy_efbig" } else { "commit_closure_efbig" }, ok, if copy_fails { "XCopyErr" } else { "XClosureErr" });
            // a limit below the first in-place write of commit makes it fail before with_staging_lock: no staging file at all
            if pending && !ok && h.staged_discarded == before { h.tags.push("commit_failed_before_staging".into()); }
        } else if leaks_done < leak_budget && (c < 74 || r.chance(1, 4)) {
            // commit whose renameat fails: the path names a directory while the call runs
            let _ = mems[mi].d.step(&put_op(PayloadKind::Bin, r.range(100, 3000) as usize, i as i64, None));
            h.call(&mems[mi], "put", true, "XClosureErr");
            if memvid_core::verif_hooks::wal_stats(mems[mi].d.mem()).1 == 0 { continue; }
            let saved = h._td.path().join("saved.mv2");
            std::fs::rename(&path, &saved).unwrap(); std::fs::create_dir(&path).unwrap();
            h.w.drain();
            let res = mems[mi].d.mem().commit();
            let ev_names: Vec<Name> = listing(&dir).into_iter().filter(|n| is_staging_of(&name, n).is_some()).collect();
            if !ev_names.is_empty() { h.known = true; }   // (if the implementation stops leaking, the finding is reported stale, not as a mismatch)
            for n in ev_names { h.induced_leaks.insert(n); }
            leaks_done += 1;
            h.call(&mems[mi], "commit_rename_eisdir", res.is_ok(), "XClosureErr");
            std::fs::remove_dir(&path).unwrap(); std::fs::rename(&saved, &path).unwrap();
            h.w.drain();
            h.tags.push("induced_rename_failure".into());
        } else if c < 79 {
            let ok = mems[mi].d.step(&Op::Vacuum).ok;
            if ok { mems[mi].frames_committed = mems[mi].d.mem().frame_count() as u64; }
            h.call(&mems[mi], "vacuum", ok, "XClosureErr");
        } else if lock_hist && (c < 84 || r.chance(1, 3)) {
            // the separate advisory lock API
            let nm = name.clone();
            if let Some((gi, g)) = guard.take() {
                let gname = mems[gi].name.clone();
                drop(g);
                h.lock_names.clear();
                h.record(|_| (T::C("AUnlockfile", vec![t_name(&gname)]), 1, None), "lockfile_release");
            } else {
                let mut ln = name.clone(); ln.extend_from_slice(b".lock");
                h.lock_names.insert(ln);
                let res = memvid_core::lockfile::acquire(&path, memvid_core::lockfile::LockOptions::default());
                let ok = res.is_ok(); h.known = true;
                h.record(|_| (T::C("ALockfile", vec![t_name(&nm), b(ok)]), ok as u8, None), "lockfile_acquire");
                if let Ok(g) = res { guard = Some((mi, g)); } else { h.lock_names.clear(); }
                h.tags.push("lockfile".into());
            }
        } else if c < 92 {
            // drop the handle (with or without the commit-less exit) ; reopened by a later op
            let crash = r.chance(1, 3);
            let m = mems[mi].d.mem.take().unwrap();
            if crash { memvid_core::verif_hooks::drop_without_commit(m); } else { drop(m); }
            let nm = name.clone();
            let mut c = 0;
            h.record(|tr| { let (stages, cc, _, _) = stages_of(&nm, tr, "XClosureErr"); c = cc; (T::C("AClose", vec![t_name(&nm), stages]), 1, None) }, if crash { "drop_without_commit" } else { "drop" });
            h.staged_ok += c; if c > 0 { h.tags.push("drop_committed".into()); }
            h.tags.push(if crash { "crash".into() } else { "close".into() });
        } else if garbage || c >= 96 {
            // not a memory: garbage bytes / a missing file
            let (gn, what): (&[u8], &str) = if garbage && c < 96 { (&b"g.mv2"[..], "garbage") } else { (&b"nope.mv2"[..], "missing") };
            let gp = join(&dir, gn);
            let k = r.below(4);
            if k == 3 {
                let opts = memvid_core::types::DoctorOptions { rebuild_time_index: true, rebuild_lex_index: true, rebuild_vec_index: true, vacuum: r.chance(1, 2), dry_run: false, quiet: true };
                let _ = std::panic::catch_unwind(|| Memvid::doctor(&gp, opts));
                let code = if what == "garbage" { 1 } else { 0 };
                h.record(|tr| { let (stages, _, _, _) = stages_of(gn, tr, "XClosureErr"); (T::C("ADoctor", vec![t_name(gn), b(true), stages]), code, None) }, "doctor_not_a_memory");
            } else {
                let ok = match k { 0 => Memvid::open(&gp).is_ok(), 1 => Memvid::open_read_only(&gp).is_ok(), _ => Memvid::verify(&gp, false).is_ok() };
                h.record(|_| (T::C("AOpen", vec![t_name(gn), b(true), b(ok), T::L(vec![])]), ok as u8, None), "open_not_a_memory");
                if ok && h.viol.is_none() { h.viol = Some(format!("opened-garbage: {} was opened as a memory", what)); }
            }
            h.failing_calls += 1;
            h.tags.push(format!("{}_probe", what));
        }
    }
    if let Some((gi, g)) = guard.take() {
        let gname = mems[gi].name.clone(); h.w.drain(); drop(g); h.lock_names.clear();
        h.record(|_| (T::C("AUnlockfile", vec![t_name(&gname)]), 1, None), "lockfile_release");
    }
    drop(mems);
    h
}

pub fn run(seed: u64, n: usize, w: &mut dyn std::io::Write) {
    let mut r = Rng::new(seed ^ 0xC19);
    // one open of a LOCKED memory (the implementation retries for 10 s): in a thread beside the rest
    let locked = std::thread::spawn(|| {
        let td = scratch(true); let dir = td.path().join("d"); std::fs::create_dir(&dir).unwrap();
        let watch = Watch::new(&dir);
        let path = dir.join("m.mv2");
        let _holder = Memvid::create(&path).expect("create");
        let before = listing_kinds(&dir); watch.drain();
        let res = Memvid::open(&path);
        let ok = res.is_ok(); let errt = res.as_ref().err().map(|e| e.to_string()); drop(res);
        let (trace, _) = trace_terms(&watch.drain());
        let after = listing(&dir);
        (before, ok, errt, trace, after)
    });
    // refusal matrix
    let all: Vec<Name> = vec![b"m.mv2".to_vec(), b"n\xff.mv2".to_vec(), b"a b.mv2".to_vec(), "\u{e9}t\u{e9}.mv2".as_bytes().to_vec(), b"noext".to_vec(), b".dot.mv2".to_vec(), b"-.mv2".to_vec()];
    let k = (2 + n / 16).min(all.len());
    let t0 = std::time::Instant::now();
    matrix(w, &mut r, &all[..k]);
    eprintln!("c19: matrix over {} names took {:?}", k, t0.elapsed());
    // histories
    for i in 0..n {
        let profile = i as u64;
        let nops = r.range(6, 22) as usize;
        let t1 = std::time::Instant::now();
        let h = history(&mut r, profile, nops);
        eprintln!("c19: history {} ({} calls) took {:?}", i, h.apis.len(), t1.elapsed());
        let names_ok = { let mut allowed: BTreeSet<Name> = h.initial.iter().map(|x| x.0.clone()).collect(); allowed.extend(h.created.iter().cloned()); let l: BTreeSet<Name> = listing(&h.dir).into_iter().collect(); l == allowed };
        let input = T::Tup(vec![t_dir(&h.initial), T::L(h.apis.clone())]);
        let output = T::Tup(vec![T::L(h.outs.clone()), T::B(names_ok), T::B(h.known)]);
        let key = blake3::hash(input.coq().as_bytes()).to_hex()[..16].to_string();
        let mut tags = h.tags.clone(); tags.sort(); tags.dedup();
        tags.push(format!("staged_ok{}", h.staged_ok.min(5))); tags.push(format!("staged_discarded{}", h.staged_discarded.min(3))); tags.push(format!("failing_calls{}", h.failing_calls.min(5)));
        let nontrivial = h.staged_ok >= 1 && (h.staged_discarded >= 1 || h.failing_calls >= 1 || h.known);
        emit(w, "hist", &Case { input, output, violation: h.viol.clone(), nontrivial, tags, key });
    }
    // the locked open
    if let Ok((before, ok, errt, trace, after)) = locked.join() {
        let before_names: Vec<Name> = before.iter().map(|x| x.0.clone()).collect();
        let viol = if after != before_names { Some(format!("stray-file: a failed open of a locked memory changed the directory: {}", show_all(&after))) } else if ok { Some("second-writer: open of a locked memory succeeded".to_string()) } else { None };
        let input = T::Tup(vec![t_dir(&before), T::C("AOpen", vec![t_name(b"m.mv2"), b(true), b(ok), T::L(vec![])])]);
        let output = T::Tup(vec![T::N(ok as u128), T::none(), trace, t_names(&after)]);
        emit(w, "refuse", &Case { input, output, violation: viol, nontrivial: true, tags: vec!["Open".into(), "locked".into(), format!("err:{}", errt.unwrap_or_default().chars().take(30).collect::<String>())], key: "locked-open".into() });
    }
}
