//! C25 tickets: strictly increasing sequence numbers, authentic signatures only.
//!
//! Stream `hist`: an op history (apply_ticket, apply_signed_ticket, bind_memory,
//! set_memory_binding_only, unbind_memory, commit, reopen, exit-without-commit + reopen) on a
//! real, freshly created memory; after every op the result class and stats().seq_no,
//! get_capacity(), current_ticket(), get_memory_binding() are recorded.
//! Stream `verify`: signature::verify_ticket_signature with harness-generated Ed25519 keys.
//!
//! Valid signed tickets under the embedded MEMVID_TICKET_PUBKEY: the private key is not
//! available, the only authentic signature in reach is the dashboard vector quoted in
//! src/signature.rs (memory 69601cef-..., issuer memvid-dashboard, seq 9, 86400 s, 10 GiB).
//! The `dash` scenarios bind that memory id and replay / tamper that ticket.
#![allow(deprecated)]
use crate::term::*;
use ed25519_dalek::{Signer, SigningKey, VerifyingKey};
use memvid_core::constants::MEMVID_TICKET_PUBKEY;
use memvid_core::types::{MemoryBinding, SignedTicket, Ticket};
use memvid_core::{Memvid, MemvidError};
use std::panic::{catch_unwind, AssertUnwindSafe};
use uuid::Uuid;

const DASH_ID: &str = "69601cef-bea5-7ba3-fec3-9b5c00000000";
const DASH_SIG_B64: &str = "OUVSB4rKCSPDlP+rrZN1AlkI6k2zDdNaZb5HKPZDTjqhnCHBYKXg4lyEE4aevDN7rLpdFjINiCCaBEBaH35vDw==";
const DASH_ISSUER: &str = "memvid-dashboard";
const DASH_SEQ: i64 = 9;
const DASH_EXP: u64 = 86400;
const DASH_CAP: u64 = 10737418240;

/// The message a signer signs: JSON with the fields in the order of the dashboard's format
/// (src/signature.rs test_payload_json_format), written here independently of the crate.
fn signer_message(id: &Uuid, issuer: &str, seq: i64, exp: u64, cap: Option<u64>) -> Vec<u8> {
    format!(
        "{{\"version\":1,\"memory_id\":\"{}\",\"issuer\":{},\"seq_no\":{},\"expires_in\":{},\"capacity_bytes\":{}}}",
        id.hyphenated(),
        serde_json::to_string(issuer).unwrap(),
        seq,
        exp,
        match cap { Some(c) => c.to_string(), None => "null".to_string() }
    )
    .into_bytes()
}

fn dash_sig() -> Vec<u8> {
    // SignedTicket's serde helper decodes base64 for us
    let j = format!(r#"{{"issuer":"x","seq_no":1,"expires_in_secs":0,"capacity_bytes":null,"memory_id":"{}","signature":"{}"}}"#, DASH_ID, DASH_SIG_B64);
    let t: SignedTicket = serde_json::from_str(&j).expect("dash ticket");
    t.signature
}

fn embedded_key() -> VerifyingKey { memvid_core::parse_ed25519_public_key_base64(MEMVID_TICKET_PUBKEY).expect("embedded key") }

fn real_verify(vk: &VerifyingKey, msg: &[u8], sig: &[u8]) -> bool {
    let arr: [u8; 64] = match sig.try_into() { Ok(a) => a, Err(_) => return false };
    vk.verify_strict(msg, &ed25519_dalek::Signature::from_bytes(&arr)).is_ok()
}

#[derive(Clone, Debug)]
struct Tk { issuer: String, seq: i64, exp: u64, cap: Option<u64> }
#[derive(Clone, Debug)]
struct STk { t: Tk, id: Uuid, sig: Vec<u8> }

#[derive(Clone, Debug)]
enum Op { Apply(Tk), Signed(STk), Bind(Uuid, Tk), BindOnly(Uuid), Unbind, Commit, Reopen, Crash }

fn opt_n(v: Option<u64>) -> T { match v { Some(x) => T::some(T::N(x as u128)), None => T::none() } }
fn tk_term(t: &Tk) -> T { T::C("mkTicket", vec![T::H(t.issuer.as_bytes().to_vec()), T::Z(t.seq as i128), T::N(t.exp as u128), opt_n(t.cap)]) }
fn op_term(op: &Op) -> T {
    match op {
        Op::Apply(t) => T::C("OApply", vec![tk_term(t)]),
        Op::Signed(s) => T::C("OSigned", vec![T::C("mkSigned", vec![tk_term(&s.t), T::H(s.id.as_bytes().to_vec()), T::H(s.sig.clone())])]),
        Op::Bind(id, t) => T::C("OBind", vec![T::H(id.as_bytes().to_vec()), tk_term(t)]),
        Op::BindOnly(id) => T::C("OBindOnly", vec![T::H(id.as_bytes().to_vec())]),
        Op::Unbind => T::C("OUnbind", vec![]),
        Op::Commit => T::C("OCommit", vec![]),
        Op::Reopen => T::C("OReopen", vec![]),
        Op::Crash => T::C("OCrash", vec![]),
    }
}

#[derive(Clone, Debug, PartialEq)]
struct Obs { seq: Option<i64>, cap: u64, issuer: String, tseq: i64, exp: u64, tcap: u64, verified: bool, bound: Option<Uuid> }
fn observe(m: &Memvid) -> Obs {
    let s = m.stats().expect("stats");
    let t = m.current_ticket();
    Obs { seq: s.seq_no, cap: m.get_capacity(), issuer: t.issuer, tseq: t.seq_no, exp: t.expires_in_secs, tcap: t.capacity_bytes, verified: t.verified, bound: m.get_memory_binding().map(|b| b.memory_id) }
}
fn obs_term(o: &Obs) -> T {
    T::Tup(vec![
        match o.seq { Some(q) => T::some(T::Z(q as i128)), None => T::none() },
        T::N(o.cap as u128),
        T::Tup(vec![T::H(o.issuer.as_bytes().to_vec()), T::Z(o.tseq as i128), T::N(o.exp as u128), T::N(o.tcap as u128), T::B(o.verified)]),
        match &o.bound { Some(id) => T::some(T::H(id.as_bytes().to_vec())), None => T::none() },
    ])
}

#[derive(Clone, Copy, PartialEq, Debug)]
enum Res { Ok, Err(u8), Panic }
fn res_term(r: Res) -> T {
    match r { Res::Ok => T::C("Ok", vec![T::C("tt", vec![])]), Res::Err(k) => T::C("Err", vec![T::N(k as u128)]), Res::Panic => T::C("Panic", vec![T::N(0)]) }
}
fn classify(r: std::thread::Result<memvid_core::Result<()>>) -> Res {
    match r {
        Err(_) => Res::Panic,
        Ok(Ok(())) => Res::Ok,
        Ok(Err(MemvidError::TicketSequence { .. })) => Res::Err(1),
        Ok(Err(MemvidError::TicketSignatureInvalid { .. })) => Res::Err(2),
        Ok(Err(MemvidError::MemoryAlreadyBound { .. })) => Res::Err(3),
        Ok(Err(e)) => { eprintln!("C25: unexpected error class: {}", e); Res::Err(9) }
    }
}

const ISSUERS: &[&str] = &["issuer", "", "memvid-dashboard", "free-tier", "memvid.com", "a\"b\\c", "tab\there\nnl", "\u{1}\u{1f}\u{7f}", "üñï-日本", " ", "x"];

fn gen_seq(r: &mut Rng, cur: i64) -> i64 {
    match r.below(20) {
        0..=4 => cur.saturating_add(1),
        5..=6 => cur,
        7..=8 => cur.saturating_sub(1 + r.below(4) as i64),
        9..=10 => cur.saturating_add(2 + r.below(5) as i64),
        11 => cur.saturating_add(1000 + r.below(1_000_000) as i64),
        12 => 0,
        13 => -(1 + r.below(10) as i64),
        14 => 1,
        15 => if r.chance(2, 3) { cur.saturating_add(1) } else if r.chance(1, 4) { i64::MAX } else { i64::MAX - 1 - r.below(3) as i64 },
        16 => i64::MIN,
        17 => (r.next() >> 1) as i64,
        18 => 2 + r.below(12) as i64,
        _ => cur.saturating_add(1),
    }
}
fn gen_cap(r: &mut Rng) -> Option<u64> {
    match r.below(8) { 0..=1 => None, 2 => Some(0), 3 => Some(1 + r.below(4096)), 4 => Some(u64::MAX), 5 => Some(1u64 << 63), 6 => Some(52428800), _ => Some(r.next()) }
}
fn gen_exp(r: &mut Rng) -> u64 { match r.below(5) { 0 => 0, 1 => 1, 2 => 86400, 3 => u64::MAX, _ => r.next() } }
fn gen_tk(r: &mut Rng, cur: i64) -> Tk {
    Tk { issuer: r.pick(ISSUERS).to_string(), seq: gen_seq(r, cur), exp: gen_exp(r), cap: gen_cap(r) }
}

fn dash_ticket() -> STk {
    STk { t: Tk { issuer: DASH_ISSUER.into(), seq: DASH_SEQ, exp: DASH_EXP, cap: Some(DASH_CAP) }, id: Uuid::parse_str(DASH_ID).unwrap(), sig: dash_sig() }
}

/// the authentic dashboard ticket with exactly one field changed
fn tamper(r: &mut Rng, ids: &[Uuid]) -> (STk, &'static str) {
    let mut s = dash_ticket();
    match r.below(12) {
        0 => { let i = r.below(64) as usize; s.sig[i] ^= 1 << r.below(8); (s, "tamper-sigbit") }
        1 => { s.sig.pop(); (s, "tamper-siglen63") }
        2 => { s.sig.push(0); (s, "tamper-siglen65") }
        3 => { s.sig.clear(); (s, "tamper-siglen0") }
        4 => { s.t.issuer = r.pick(&["memvid-dashboarD", "memvid-dashboard ", "", "memvid.com"]).to_string(); (s, "tamper-issuer") }
        5 => { s.t.seq = *r.pick(&[10i64, 8, 90, 99, -9, i64::MAX, 9000]); (s, "tamper-seq") }
        6 => { s.t.exp = *r.pick(&[86401u64, 0, 8640, u64::MAX]); (s, "tamper-expiry") }
        7 => { s.t.cap = *r.pick(&[None, Some(0), Some(10737418241), Some(u64::MAX), Some(1073741824)]); (s, "tamper-capacity") }
        8 => { s.id = ids[1 + r.below(ids.len() as u64 - 1) as usize]; (s, "tamper-memory-id") }
        9 => { // authentic signature of a DIFFERENT key over the right payload
            let sk = SigningKey::from_bytes(&[7u8; 32]);
            s.sig = sk.sign(&signer_message(&s.id, &s.t.issuer, s.t.seq, s.t.exp, s.t.cap)).to_bytes().to_vec();
            (s, "tamper-other-key")
        }
        10 => { s.sig = r.bytes(64); (s, "tamper-random-sig") }
        _ => { s.sig = vec![0u8; 64]; (s, "tamper-zero-sig") }
    }
}

fn binding(id: Uuid, r: &mut Rng) -> MemoryBinding {
    MemoryBinding { memory_id: id, memory_name: format!("mem{}", r.below(5)), bound_at: chrono::DateTime::from_timestamp(1_700_000_000 + r.below(1000) as i64, 0).unwrap(), api_url: "https://example.invalid".into() }
}

struct Hist { path: std::path::PathBuf, _dir: tempfile::TempDir, mem: Option<Memvid> }
impl Hist {
    fn new(prelude_puts: usize, commit_them: bool) -> Self {
        // memory-backed directory when there is one: every accepted ticket fsyncs three times
        let dir = if std::path::Path::new("/dev/shm").is_dir() { tempfile::tempdir_in("/dev/shm") } else { tempfile::tempdir() }.expect("tempdir");
        let path = dir.path().join("m.mv2");
        let mut mem = Memvid::create(&path).expect("create");
        for i in 0..prelude_puts { mem.put_bytes(format!("prelude document {} about tickets", i).as_bytes()).expect("put"); }
        if prelude_puts > 0 && commit_them { mem.commit().expect("commit"); }
        Hist { path, _dir: dir, mem: Some(mem) }
    }
    fn file_digest(&self) -> [u8; 32] { *blake3::hash(&std::fs::read(&self.path).expect("read file")).as_bytes() }
}

fn one_history(r: &mut Rng, vk: &VerifyingKey) -> Case {
    let dash = Uuid::parse_str(DASH_ID).unwrap();
    let ids = [dash, Uuid::from_bytes([0x11; 16]), Uuid::from_bytes(r.bytes(16).try_into().unwrap()), Uuid::nil()];
    let scenario = r.below(10); // 0..=3 dash scenario, 4..=8 plain, 9 with unbind
    let dash_scn = scenario <= 3;
    let allow_unbind = scenario == 9;
    let nops = match r.below(6) { 0 => r.range(1, 5), 1..=3 => r.range(5, 20), _ => r.range(20, 40) } as usize;
    // 0-2 documents put first, committed or still pending in the log (the model's ticket state
    // does not depend on them; a pending put only means the handle starts dirty)
    let prelude = if r.chance(1, 3) { r.range(1, 2) as usize } else { 0 };
    let pending = prelude > 0 && r.chance(1, 3);
    let mut h = Hist::new(prelude, !pending);
    let mut tags: Vec<String> = vec![if pending { "prelude-pending-puts".into() } else if prelude > 0 { "prelude-committed-puts".into() } else { "prelude-none".into() }, if dash_scn { "scn-dash".into() } else if allow_unbind { "scn-unbind".into() } else { "scn-plain".into() }];
    let mut table: Vec<(Vec<u8>, Vec<u8>)> = vec![];
    let mut ops_t = vec![]; let mut outs_t = vec![];
    let mut viol: Option<String> = None;
    // property oracle state: sequence numbers of the tickets accepted so far on this memory
    let mut accepted: Vec<i64> = vec![];
    let mut unbound_seen = false;
    let (mut n_acc, mut n_rej, mut n_reopen, mut n_signed_ok) = (0, 0, 0, 0);
    let mut keys = String::new();
    for step in 0..nops {
        let cur = h.mem.as_ref().unwrap().current_ticket().seq_no;
        let bound_now = h.mem.as_ref().unwrap().get_memory_binding().map(|b| b.memory_id);
        // ---- choose the op
        let op = loop {
            let k = r.below(100);
            let op = if dash_scn {
                match k {
                    0..=24 => { // unsigned ticket, kept below the dashboard sequence most of the time
                        let mut t = gen_tk(r, cur);
                        if r.chance(3, 4) && cur < DASH_SEQ - 1 { t.seq = r.range(0, (DASH_SEQ - 1) as u64) as i64; }
                        Op::Apply(t)
                    }
                    25..=39 => if bound_now.is_none() || r.chance(1, 4) {
                        let id = if r.chance(5, 6) { dash } else { *r.pick(&ids) };
                        if r.chance(1, 2) { Op::BindOnly(id) } else { let mut t = gen_tk(r, cur); if r.chance(3, 4) && cur < DASH_SEQ - 1 { t.seq = cur + 1; } Op::Bind(id, t) }
                    } else { Op::Signed(dash_ticket()) },
                    40..=57 => Op::Signed(dash_ticket()),
                    58..=79 => { let (s, tag) = tamper(r, &ids); tags.push(tag.into()); Op::Signed(s) }
                    80..=85 => Op::Commit,
                    86..=92 => Op::Reopen,
                    _ => Op::Crash,
                }
            } else {
                match k {
                    0..=49 => Op::Apply(gen_tk(r, cur)),
                    50..=57 => { let id = *r.pick(&ids); if r.chance(1, 2) { Op::BindOnly(id) } else { Op::Bind(id, gen_tk(r, cur)) } }
                    58..=67 => { // signed tickets that are not authentic under the embedded key
                        let t = gen_tk(r, cur);
                        let id = if r.chance(2, 3) { bound_now.unwrap_or(ids[1]) } else { *r.pick(&ids) };
                        let sig = match r.below(4) {
                            0 => SigningKey::from_bytes(&[9u8; 32]).sign(&signer_message(&id, &t.issuer, t.seq, t.exp, t.cap)).to_bytes().to_vec(),
                            1 => r.bytes(64),
                            2 => { let n_ = r.below(130) as usize; r.bytes(n_) }
                            _ => dash_sig(),
                        };
                        Op::Signed(STk { t, id, sig })
                    }
                    68..=75 => Op::Commit,
                    76..=87 => Op::Reopen,
                    88..=95 => Op::Crash,
                    _ => if allow_unbind { Op::Unbind } else { continue },
                }
            };
            break op;
        };
        // ---- oracle table entry for a signed ticket: does the real Ed25519 accept it under the embedded key?
        if let Op::Signed(s) = &op {
            let msg = signer_message(&s.id, &s.t.issuer, s.t.seq, s.t.exp, s.t.cap);
            if real_verify(vk, &msg, &s.sig) && !table.iter().any(|(m, g)| *m == msg && *g == s.sig) { table.push((msg, s.sig.clone())); }
        }
        // ---- run it
        let before = observe(h.mem.as_ref().unwrap());
        let is_ticket_op = matches!(op, Op::Apply(_) | Op::Signed(_) | Op::Bind(..));
        let digest_before = if is_ticket_op { Some(h.file_digest()) } else { None };
        let res = match &op {
            Op::Apply(t) => { let tk = Ticket { issuer: t.issuer.clone(), seq_no: t.seq, expires_in_secs: t.exp, capacity_bytes: t.cap }; let m = h.mem.as_mut().unwrap(); classify(catch_unwind(AssertUnwindSafe(|| m.apply_ticket(tk)))) }
            Op::Signed(s) => { let st = SignedTicket::new(s.t.issuer.clone(), s.t.seq, s.t.exp, s.t.cap, s.id, s.sig.clone()); let m = h.mem.as_mut().unwrap(); classify(catch_unwind(AssertUnwindSafe(|| m.apply_signed_ticket(st)))) }
            Op::Bind(id, t) => { let tk = Ticket { issuer: t.issuer.clone(), seq_no: t.seq, expires_in_secs: t.exp, capacity_bytes: t.cap }; let b = binding(*id, r); let m = h.mem.as_mut().unwrap(); classify(catch_unwind(AssertUnwindSafe(|| m.bind_memory(b, tk)))) }
            Op::BindOnly(id) => { let b = binding(*id, r); let m = h.mem.as_mut().unwrap(); classify(catch_unwind(AssertUnwindSafe(|| m.set_memory_binding_only(b)))) }
            Op::Unbind => { let m = h.mem.as_mut().unwrap(); classify(catch_unwind(AssertUnwindSafe(|| m.unbind_memory()))) }
            Op::Commit => { let m = h.mem.as_mut().unwrap(); classify(catch_unwind(AssertUnwindSafe(|| m.commit()))) }
            Op::Reopen | Op::Crash => {
                let m = h.mem.take().unwrap();
                if matches!(op, Op::Crash) { memvid_core::verif_hooks::drop_without_commit(m); } else { drop(m); }
                match Memvid::open(&h.path) {
                    Ok(m2) => { h.mem = Some(m2); Res::Ok }
                    Err(e) => { viol.get_or_insert(format!("reopen-failed: step {} open error {}", step, e)); break; }
                }
            }
        };
        let after = observe(h.mem.as_ref().unwrap());
        // ---- property oracle on the implementation (independent of the model)
        if is_ticket_op {
            let (q, what) = match &op { Op::Apply(t) => (t.seq, "apply_ticket"), Op::Signed(s) => (s.t.seq, "apply_signed_ticket"), Op::Bind(_, t) => (t.seq, "bind_memory"), _ => unreachable!() };
            if res == Res::Ok {
                n_acc += 1;
                if let Some(m) = accepted.iter().max() {
                    if q <= *m {
                        if unbound_seen { tags.push("obs-lower-seq-accepted-after-unbind".into()); }
                        else { viol.get_or_insert(format!("seq-not-increasing: step {} {} accepted sequence number {} although {} was accepted before on this memory", step, what, q, m)); }
                    }
                }
                accepted.push(q);
                if let Op::Signed(s) = &op {
                    n_signed_ok += 1;
                    let msg = signer_message(&s.id, &s.t.issuer, s.t.seq, s.t.exp, s.t.cap);
                    if !real_verify(vk, &msg, &s.sig) { viol.get_or_insert(format!("signed-accepted-unauthentic: step {} signed ticket accepted but Ed25519 rejects its signature over the canonical payload under the embedded key", step)); }
                    if before.bound != Some(s.id) { viol.get_or_insert(format!("signed-accepted-wrong-memory: step {} signed ticket for memory {} accepted while bound to {:?}", step, s.id, before.bound)); }
                    if !after.verified { viol.get_or_insert(format!("signed-not-marked-verified: step {}", step)); }
                }
            } else {
                n_rej += 1;
                if res == Res::Panic { tags.push("obs-panic-seq-overflow".into()); }
                if after != before { viol.get_or_insert(format!("rejected-changed-state: step {} {} was rejected but the observable state changed from {:?} to {:?}", step, what, before, after)); }
                if digest_before != Some(h.file_digest()) { viol.get_or_insert(format!("rejected-changed-file: step {} {} was rejected but the file bytes changed", step, what)); }
            }
        }
        match &op {
            Op::Unbind => { unbound_seen = true; }
            Op::Reopen | Op::Crash => {
                n_reopen += 1;
                // across reopen the ticket survives unless an unbind was pending / lost
                if !unbound_seen && (after.tseq != before.tseq || after.issuer != before.issuer || after.tcap != before.tcap || after.exp != before.exp || after.verified != before.verified) {
                    viol.get_or_insert(format!("ticket-lost-across-reopen: step {} ticket {:?} became {:?}", step, before, after));
                }
            }
            _ => {}
        }
        let kind = match &op { Op::Apply(_) => "apply", Op::Signed(_) => "signed", Op::Bind(..) => "bind", Op::BindOnly(_) => "bindonly", Op::Unbind => "unbind", Op::Commit => "commit", Op::Reopen => "reopen", Op::Crash => "crash" };
        tags.push(format!("{}-{}", kind, match res { Res::Ok => "ok".to_string(), Res::Err(k) => format!("err{}", k), Res::Panic => "panic".to_string() }));
        keys.push_str(&op_term(&op).coq());
        ops_t.push(op_term(&op));
        outs_t.push(T::Tup(vec![res_term(res), obs_term(&after)]));
    }
    tags.sort(); tags.dedup();
    if n_signed_ok > 0 { tags.push("signed-accepted".into()); }
    let input = T::Tup(vec![T::L(table.iter().map(|(m, g)| T::Tup(vec![T::H(m.clone()), T::H(g.clone())])).collect()), T::L(ops_t)]);
    Case { input, output: T::L(outs_t), violation: viol, nontrivial: n_acc >= 1 && n_rej >= 1 && n_reopen >= 1, tags, key: blake3::hash(keys.as_bytes()).to_hex()[..16].to_string() }
}

fn gen_issuer(r: &mut Rng) -> String {
    match r.below(6) {
        0 => r.pick(ISSUERS).to_string(),
        1 => String::new(),
        2 => { // every control character and the escaped ones
            let n = r.range(1, 12);
            (0..n).map(|_| char::from_u32(*r.pick(&[0u32, 1, 7, 8, 9, 10, 11, 12, 13, 14, 27, 31, 32, 34, 47, 92, 127, 128, 0xe9, 0x2028, 0xffff, 0x1f600])).unwrap()).collect()
        }
        3 => { let n = r.range(1, 40); (0..n).map(|_| (32 + r.below(95)) as u8 as char).collect() }
        4 => { let n = r.range(1, 10); (0..n).map(|_| char::from_u32(r.below(0x250) as u32).unwrap_or('x')).collect() }
        _ => "memvid-dashboard".to_string(),
    }
}
fn gen_any_seq(r: &mut Rng) -> i64 {
    match r.below(10) { 0 => 0, 1 => -1, 2 => i64::MAX, 3 => i64::MIN, 4 => r.below(100) as i64, 5 => -(r.below(100000) as i64), 6 => 9, 7 => 10, _ => r.next() as i64 }
}
fn gen_any_cap(r: &mut Rng) -> Option<u64> {
    match r.below(8) { 0..=1 => None, 2 => Some(0), 3 => Some(u64::MAX), 4 => Some(r.below(1000)), 5 => Some(10737418240), 6 => Some(10u64.pow(r.below(20) as u32)), _ => Some(r.next()) }
}

fn one_verify(r: &mut Rng, w: &mut dyn std::io::Write) {
    let sk = SigningKey::from_bytes(&r.bytes(32).try_into().unwrap());
    let vk = sk.verifying_key();
    let id = match r.below(4) { 0 => Uuid::nil(), 1 => Uuid::from_bytes([0xff; 16]), 2 => Uuid::parse_str(DASH_ID).unwrap(), _ => Uuid::from_bytes(r.bytes(16).try_into().unwrap()) };
    let issuer = gen_issuer(r);
    let seq = gen_any_seq(r);
    let exp = match r.below(5) { 0 => 0, 1 => u64::MAX, 2 => 86400, 3 => 10u64.pow(r.below(20) as u32), _ => r.next() };
    let cap = gen_any_cap(r);
    let signed_msg = signer_message(&id, &issuer, seq, exp, cap);
    let mut sig = sk.sign(&signed_msg).to_bytes().to_vec();
    // what is presented for verification
    let (mut pid, mut pissuer, mut pseq, mut pexp, mut pcap) = (id, issuer.clone(), seq, exp, cap);
    let mode = match r.below(20) {
        0..=10 => "valid",
        11 => { pid = Uuid::from_bytes({ let mut b = *id.as_bytes(); let i = r.below(16) as usize; b[i] ^= 1 << r.below(8); b }); "tamper-memory-id" }
        12 => { pissuer = match r.below(4) { 0 => format!("{} ", issuer), 1 => issuer.to_uppercase() + "x", 2 => issuer.replace('"', "\\\"") + "\"", _ => format!("{}\u{0}", issuer) }; "tamper-issuer" }
        13 => { pseq = match r.below(3) { 0 => seq.wrapping_add(1), 1 => seq.wrapping_neg().wrapping_sub(1), _ => seq.wrapping_mul(10).wrapping_add(1) }; "tamper-seq" }
        14 => { pexp = match r.below(3) { 0 => exp.wrapping_add(1), 1 => exp / 10 + 7, _ => exp ^ (1 << r.below(64)) }; "tamper-expiry" }
        15 => { pcap = match cap { None => Some(0), Some(0) => None, Some(c) => *r.pick(&[None, Some(c.wrapping_add(1)), Some(c / 10 + 3)]) }; "tamper-capacity" }
        16 => { let i = r.below(64) as usize; sig[i] ^= 1 << r.below(8); "tamper-sigbit" }
        17 => { match r.below(4) { 0 => { sig.pop(); } 1 => sig.push(0), 2 => sig.clear(), _ => { let e = sig.clone(); sig.extend(e); } } "tamper-siglen" }
        18 => { sig = SigningKey::from_bytes(&[3u8; 32]).sign(&signed_msg).to_bytes().to_vec(); "tamper-other-key" }
        _ => { sig = r.bytes(64); "tamper-random-sig" }
    };
    let mut table = vec![];
    if real_verify(&vk, &signed_msg, &sig) { table.push((signed_msg.clone(), sig.clone())); }
    let got = catch_unwind(AssertUnwindSafe(|| memvid_core::signature::verify_ticket_signature(&vk, &pid, &pissuer, pseq, pexp, pcap, &sig)));
    let res = classify(got);
    let mut viol = None;
    if res == Res::Ok {
        let pmsg = signer_message(&pid, &pissuer, pseq, pexp, pcap);
        if !real_verify(&vk, &pmsg, &sig) { viol = Some(format!("signature-accepted-unauthentic: verify_ticket_signature accepted ({}) a signature that Ed25519 rejects over the canonical payload of the presented fields", mode)); }
    }
    let input = T::Tup(vec![
        T::L(table.iter().map(|(m, g)| T::Tup(vec![T::H(m.clone()), T::H(g.clone())])).collect()),
        T::Tup(vec![T::H(pid.as_bytes().to_vec()), T::H(pissuer.as_bytes().to_vec()), T::Z(pseq as i128), T::N(pexp as u128), opt_n(pcap), T::H(sig.clone())]),
    ]);
    let mut tags = vec![mode.to_string(), format!("res-{}", match res { Res::Ok => "ok".into(), Res::Err(k) => format!("err{}", k), Res::Panic => "panic".to_string() })];
    if pissuer.bytes().any(|b| b < 0x20 || b == b'"' || b == b'\\') { tags.push("issuer-escaped".into()); }
    if !pissuer.is_ascii() { tags.push("issuer-nonascii".into()); }
    if pseq < 0 { tags.push("seq-negative".into()); }
    if pcap.is_none() { tags.push("cap-null".into()); }
    let key = blake3::hash(input.coq().as_bytes()).to_hex()[..16].to_string();
    emit(w, "verify", &Case { input, output: res_term(res), violation: viol, nontrivial: res == Res::Ok || mode != "valid", tags, key });
}

pub fn run(seed: u64, n: usize, w: &mut dyn std::io::Write) {
    // panics inside the crate are part of the observed behaviour: keep them quiet
    std::panic::set_hook(Box::new(|_| {}));
    let mut r = Rng::new(seed ^ 0xC25);
    let vk = embedded_key();
    // fixed vector first: the dashboard signature must verify under the embedded key
    assert!(real_verify(&vk, &signer_message(&Uuid::parse_str(DASH_ID).unwrap(), DASH_ISSUER, DASH_SEQ, DASH_EXP, Some(DASH_CAP)), &dash_sig()), "dashboard vector no longer verifies");
    // every history gets its own generator state drawn from the one seeded generator, so that
    // histories can run on several threads and still be reproducible
    let seeds: Vec<u64> = (0..n).map(|_| r.next()).collect();
    let workers = std::thread::available_parallelism().map(|p| p.get()).unwrap_or(4).min(8).max(1);
    let mut results: Vec<Option<Case>> = (0..n).map(|_| None).collect();
    std::thread::scope(|sc| {
        let mut handles = vec![];
        for k in 0..workers {
            let seeds = &seeds; let vk = &vk;
            handles.push(sc.spawn(move || {
                let mut out = vec![];
                let mut i = k;
                while i < seeds.len() { let mut rr = Rng(seeds[i]); out.push((i, one_history(&mut rr, vk))); i += workers; }
                out
            }));
        }
        for h in handles { for (i, c) in h.join().expect("history worker") { results[i] = Some(c); } }
    });
    for c in results.into_iter().flatten() { emit(w, "hist", &c); }
    for _ in 0..(2 * n) { one_verify(&mut r, w); }
    let _ = std::panic::take_hook();
}
