//! C18 Read-only access never modifies the file and sees the last commit.
//!
//! Streams
//!   hist   (model: Corr.C18 C18_hist_run) real memories in random committed / pending states (shared
//!          driver store.rs; the tail of each history is left UNCOMMITTED in the log with
//!          verif_hooks::drop_without_commit), then open_read_only and a random sequence of read calls.
//!          Oracle on the implementation alone: BLAKE3 of the file before == after EVERY call (and after
//!          dropping the handle); frame_count and the frame table (with content tags) equal the table the
//!          writer showed at its last commit, never a record that is only in the log.
//!   craft  (model: Corr.C18 C18_run, byte level) the same files after byte surgery (the first two kinds made the
//!          read-only open WRITE before /repo ced2099 / e2af843 and are kept as regression inputs; any byte change is a
//!          violation now, tagged legacy-lock-bytes / catalog-beyond-footer / file-modified): legacy lock bytes
//!          80..140 set (and the neighbours 79 / 140 that must NOT trigger), junk / cut footers / a stale
//!          commit image after the last footer, garbage in the header's footer pointer, corrupt log
//!          records, invalid header fields, a TOC whose Tantivy segment ends at / beyond the footer,
//!          tiny junk files.  Compared: open result (frame_count, footer offset, generation, pending log
//!          bytes, log sequence | error kind), outputs of the read calls, and the file bytes afterwards.
//!   sys    (oracle only) the read-only session in a child process under strace -f -y: no write / pwrite /
//!          ftruncate / fsync / rename / unlink on the memory file; how the file was opened is a tag.
//!   lock   (craft stream, lock_free = false) read-only open while a writer handle holds the lock.
//!   crash  (oracle only) crash images (child killed at its K-th mutating syscall after at least one
//!          commit): the read-only open must not change a byte whether or not it succeeds, and when it
//!          succeeds it shows the table of the last completed commit or of the commit in flight.
use crate::store::*;
use crate::term::*;
use memvid_core::types::{AclEnforcementMode, SearchRequest, TimelineQuery, Toc, VerificationStatus};
use memvid_core::{Memvid, MemvidError};
use std::path::{Path, PathBuf};
use std::process::Command;

const HEADER_SIZE: usize = 4096;
const FOOTER_SIZE: usize = 56;
const MAGIC: &[u8; 8] = b"MV2FOOT!";

fn fhash(p: &Path) -> [u8; 32] { *blake3::hash(&std::fs::read(p).unwrap_or_default()).as_bytes() }
fn u64_at(b: &[u8], o: usize) -> u64 { if b.len() >= o + 8 { u64::from_le_bytes(b[o..o + 8].try_into().unwrap()) } else { 0 } }

fn err_kind(e: &MemvidError) -> u128 {
    let s = e.to_string();
    if s.contains("no valid commit footer") { 1 }
    else if s.starts_with("Table of contents validation failed") || s.starts_with("Deserialization error") || s.starts_with("Checksum mismatch") { 2 }
    else if s.starts_with("Lock acquisition failed") { 8 }
    else if s.starts_with("I/O error") { 9 }
    else if s.contains("magic mismatch") { 11 } else if s.contains("unsupported version") { 12 } else if s.contains("spec byte mismatch") { 13 }
    else if s.contains("wal_offset precedes") { 14 } else if s.contains("wal_size must be non-zero") { 15 }
    else if s.contains("wal record length invalid") { 24 } else if s.contains("wal record checksum mismatch") { 25 }
    else { 50 }
}

fn req(q: &str) -> SearchRequest {
    SearchRequest { query: q.into(), top_k: 5, snippet_chars: 80, uri: None, scope: None, cursor: None, as_of_frame: None, as_of_ts: None,
        no_sketch: false, acl_context: None, acl_enforcement_mode: AclEnforcementMode::Audit }
}

// ---------------------------------------------------------------- terms
fn chunks_term(b: &[u8]) -> T {
    let mut out = vec![]; let mut i = 0; let mut lit = 0;
    while i < b.len() {
        if b[i] == 0 {
            let mut j = i; while j < b.len() && b[j] == 0 { j += 1; }
            if j - i >= 40 {
                if lit < i { out.push(T::Tup(vec![T::N(1), T::H(b[lit..i].to_vec())])); }
                out.push(T::Tup(vec![T::N((j - i) as u128), T::H(vec![0])]));
                lit = j;
            }
            i = j;
        } else { i += 1; }
    }
    if lit < b.len() { out.push(T::Tup(vec![T::N(1), T::H(b[lit..].to_vec())])); }
    T::L(out)
}
fn pairs(v: &[(u64, u64)]) -> T { T::L(v.iter().map(|(a, b)| T::Tup(vec![T::N(*a as u128), T::N(*b as u128)])).collect()) }

/// (frames, has_lex_index, segments init_tantivy materializes, entries catalog_data_end visits, checksum, prepare_toc_bytes image + checksum)
struct TocRow { n: u64, lex: bool, segs: Vec<(u64, u64)>, cat: Vec<(u64, u64)>, ck: Vec<u8>, re: Vec<u8>, re_ck: Vec<u8> }
fn toc_row(toc: &Toc) -> TocRow {
    let c = &toc.segment_catalog;
    let lex = c.lex_enabled || toc.indexes.lex.is_some() || !toc.indexes.lex_segments.is_empty() || !c.tantivy_segments.is_empty();
    let segs: Vec<(u64, u64)> = if !c.tantivy_segments.is_empty() { c.tantivy_segments.iter().map(|d| (d.common.bytes_offset, d.common.bytes_length)).collect() }
        else { toc.indexes.lex_segments.iter().map(|d| (d.bytes_offset, d.bytes_length)).collect() };
    let mut cat = vec![];
    for d in &c.lex_segments { cat.push((d.common.bytes_offset, d.common.bytes_length)); }
    for d in &c.vec_segments { cat.push((d.common.bytes_offset, d.common.bytes_length)); }
    for d in &c.time_segments { cat.push((d.common.bytes_offset, d.common.bytes_length)); }
    for d in &c.tantivy_segments { cat.push((d.common.bytes_offset, d.common.bytes_length)); }
    if let Some(m) = &toc.indexes.lex { cat.push((m.bytes_offset, m.bytes_length)); }
    if let Some(m) = &toc.indexes.vec { cat.push((m.bytes_offset, m.bytes_length)); }
    if let Some(m) = &toc.time_index { cat.push((m.bytes_offset, m.bytes_length)); }
    let (re, re_ck) = reencode(toc);
    TocRow { n: toc.frames.len() as u64, lex, segs, cat, ck: toc.toc_checksum.to_vec(), re, re_ck }
}
/// lifecycle::prepare_toc_bytes through the public pieces
fn reencode(toc: &Toc) -> (Vec<u8>, Vec<u8>) {
    let mut t = toc.clone();
    t.toc_checksum = [0u8; 32];
    let z = t.encode().unwrap_or_default();
    let ck = Toc::calculate_checksum(&z);
    t.toc_checksum = ck;
    (t.encode().unwrap_or_default(), ck.to_vec())
}

fn find(h: &[u8], n: &[u8]) -> Option<usize> { if n.is_empty() || n.len() > h.len() { return None; } h.windows(n.len()).position(|w| w == n) }

/// a byte string as the model receives it: (offset, length) in the model's copy of the file when it occurs there, else a literal
fn key_term(model_before: &[u8], x: &[u8], hint: usize) -> T {
    let at = if hint + x.len() <= model_before.len() && &model_before[hint..hint + x.len()] == x { Some(hint) } else { find(model_before, x) };
    match at { Some(o) if !x.is_empty() => T::Tup(vec![T::N(o as u128), T::N(x.len() as u128), T::H(vec![])]), _ => T::Tup(vec![T::N(0), T::N(0), T::H(x.to_vec())]) }
}

struct Tables { ht: Vec<(Vec<u8>, usize, Vec<u8>)>, tt: Vec<(Vec<u8>, usize, TocRow)>, windows: Vec<(usize, usize)> }
/// BLAKE3 table + TOC table for every file image of a case: candidate TOC windows (magic, room, 0 < toc_len <= pos),
/// log payloads the scan would hash, re-encoded TOC images; each entry with the offset it was seen at
fn tables(images: &[&[u8]]) -> Tables {
    let mut ht: Vec<(Vec<u8>, usize, Vec<u8>)> = vec![]; let mut tt: Vec<(Vec<u8>, usize, TocRow)> = vec![]; let mut windows = vec![];
    let mut seen = std::collections::HashSet::new();
    let mut add = |ht: &mut Vec<(Vec<u8>, usize, Vec<u8>)>, x: &[u8], at: usize| { let d = blake3::hash(x); if seen.insert(*d.as_bytes()) { ht.push((x.to_vec(), at, d.as_bytes().to_vec())); } };
    for (ii, b) in images.iter().enumerate() {
        if b.len() >= FOOTER_SIZE {
            for pos in 0..=(b.len() - FOOTER_SIZE) {
                if b[pos] != b'M' || &b[pos..pos + 8] != MAGIC { continue; }
                let tl = u64_at(b, pos + 8);
                if tl == 0 || tl > pos as u64 { continue; }
                let toff = pos - tl as usize;
                let toc = &b[toff..pos];
                if ii == 0 { windows.push((toff, pos)); }
                add(&mut ht, toc, toff);
                if blake3::hash(toc).as_bytes()[..] == b[pos + 16..pos + 48] && !tt.iter().any(|(k, _, _)| k == toc) {
                    if let Ok(t) = Toc::decode(toc) { if t.verify_checksum().is_ok() {
                        let row = toc_row(&t); add(&mut ht, &row.re, toff); tt.push((toc.to_vec(), toff, row));
                    } }
                }
            }
        }
        // the log scan: header at region start, (sequence, length, digest) records
        if b.len() >= HEADER_SIZE {
            let (wo, ws) = (u64_at(b, 16), u64_at(b, 24));
            if wo >= 4096 && ws > 0 && wo.checked_add(ws).map(|e| e <= b.len() as u64).unwrap_or(false) {
                let mut cur = 0u64;
                while cur + 48 <= ws {
                    let o = (wo + cur) as usize;
                    let seq = u64_at(b, o); let len = u32::from_le_bytes(b[o + 8..o + 12].try_into().unwrap()) as u64;
                    if seq == 0 && len == 0 { break; }
                    if len == 0 || cur + 48 + len > ws { break; }
                    let p = &b[o + 48..o + 48 + len as usize];
                    add(&mut ht, p, o + 48);
                    if blake3::hash(p).as_bytes()[..] != b[o + 16..o + 48] { break; }
                    cur += 48 + len;
                }
            }
        }
    }
    Tables { ht, tt, windows }
}

/// the file the implementation left, relative to the file before (see Corr/C18.v `patch`)
fn patches_term(before: &[u8], after: &[u8], model_before: &[u8]) -> T {
    let p5 = |k: u128, a: u128, b: u128, c: u128, lit: Vec<u8>| T::Tup(vec![T::N(k), T::N(a), T::N(b), T::N(c), T::H(lit)]);
    let mut ps = vec![];
    if after.len() != before.len() { ps.push(p5(2, after.len() as u128, 0, 0, vec![])); }
    let mut cur = before.to_vec(); cur.resize(after.len(), 0);
    let mut i = 0;
    while i < after.len() {
        if cur[i] != after[i] {
            let mut j = i; let mut last = i;
            while j < after.len() && j - last < 16 { if cur[j] != after[j] { last = j; } j += 1; }
            let run = &after[i..=last];
            match (run.len() >= 64).then(|| find(model_before, run)).flatten() {
                Some(src) => ps.push(p5(1, i as u128, src as u128, run.len() as u128, vec![])),
                None => ps.push(p5(0, i as u128, 0, 0, run.to_vec())),
            }
            i = last + 1;
        } else { i += 1; }
    }
    T::L(ps)
}

// ---------------------------------------------------------------- one read-only session, in process
#[derive(Clone, Debug)]
pub struct Call { kind: u8, arg: u64 }
fn call_name(c: &Call) -> String { match c.kind { 0 => "frame_count".into(), 1 => format!("frame_by_id({})", c.arg), 2 => format!("frame_canonical_payload({})", c.arg), 3 => "stats".into(), 4 => "timeline".into(), 5 => "search".into(), _ => "verify".into() } }
fn gen_calls(r: &mut Rng, nframes: u64, k: usize) -> Vec<Call> {
    (0..k).map(|_| { let kind = r.below(7) as u8; Call { kind, arg: if r.chance(1, 6) { nframes + r.below(3) } else { r.below(nframes.max(1)) } } }).collect()
}
fn calls_term(c: &[Call]) -> T { T::L(c.iter().map(|c| T::Tup(vec![T::N(c.kind as u128), T::N(c.arg as u128)])).collect()) }

pub struct Session {
    pub open: Result<(u64, u64, u64, u64, u64), u128>,
    pub outs: Vec<T>,
    /// first call after which the file's digest differed from the digest before the session
    pub modified_by: Option<String>,
    pub rows: Option<(String, u64)>,
}

fn do_call(mem: &mut Memvid, path: &Path, c: &Call, r: &mut Rng) -> T {
    let ok = |k: u128, v: u128| T::Tup(vec![T::N(k), T::C("Ok", vec![T::N(v)])]);
    match c.kind {
        0 => ok(0, mem.frame_count() as u128),
        1 => ok(1, if mem.frame_by_id(c.arg).is_ok() { 1 } else { 0 }),
        2 => { let _ = mem.frame_canonical_payload(c.arg); ok(2, 0) }
        3 => { let _ = mem.stats(); ok(2, 0) }
        4 => { let _ = mem.timeline(TimelineQuery { reverse: r.chance(1, 2), ..Default::default() }); ok(2, 0) }
        5 => { let q = *r.pick(&["alpha", "doc1000 OR bravo", "kilo lima", "zzzz", "\"delta echo\""]);
               match mem.search(req(q)) { Err(MemvidError::LexNotEnabled) => ok(3, 0), _ => ok(3, 1) } }
        _ => match Memvid::verify(path, r.chance(1, 2)) {
            Ok(rep) => {
                let mut pend = 0u128;
                for ch in &rep.checks { if ch.name == "WalPendingRecords" {
                    if ch.status == VerificationStatus::Failed { pend = ch.details.as_deref().and_then(|d| d.split_whitespace().next()).and_then(|x| x.parse().ok()).unwrap_or(9999); }
                } }
                ok(4, pend)
            }
            Err(e) => T::Tup(vec![T::N(4), T::C("Err", vec![T::N(err_kind(&e))])]),
        },
    }
}

/// open_read_only + calls; the file digest is compared with the digest taken before the open after the
/// open, after every call and after the handle is dropped
pub fn session(path: &Path, calls: &[Call], r: &mut Rng, want_table: Option<&mut Driver>) -> Session {
    let h0 = fhash(path);
    let mut modified_by = None;
    let opened = std::panic::catch_unwind(|| Memvid::open_read_only(path));
    let opened = match opened { Ok(x) => x, Err(_) => return Session { open: Err(99), outs: vec![], modified_by: if fhash(path) != h0 { Some("open_read_only (panicked)".into()) } else { None }, rows: None } };
    if fhash(path) != h0 { modified_by = Some("open_read_only".to_string()); }
    let mut mem = match opened { Ok(m) => m, Err(e) => return Session { open: Err(err_kind(&e)), outs: vec![], modified_by, rows: None } };
    let hf = memvid_core::verif_hooks::header_fields(&mem); let ws = memvid_core::verif_hooks::wal_stats(&mem); let dr = memvid_core::verif_hooks::data_region(&mem);
    let open = Ok((mem.frame_count() as u64, hf.0, dr.2, ws.1, ws.3));
    let mut outs = vec![];
    let mut hprev = fhash(path);
    for c in calls {
        outs.push(do_call(&mut mem, path, c, r));
        let h = fhash(path);
        if h != hprev && modified_by.is_none() { modified_by = Some(call_name(c)); }
        hprev = h;
    }
    let mut rows = None;
    if let Some(d) = want_table {
        d.mem = Some(mem);
        let (t, frames) = d.table();
        rows = Some((t.coq(), frames.len() as u64));
        mem = d.mem.take().unwrap();
        if fhash(path) != hprev && modified_by.is_none() { modified_by = Some("frame_by_id / frame_canonical_payload over the whole table".into()); }
        hprev = fhash(path);
    }
    drop(mem);
    if fhash(path) != hprev && modified_by.is_none() { modified_by = Some("dropping the read-only handle".into()); }
    Session { open, outs, modified_by, rows }
}

fn open_term(o: &Result<(u64, u64, u64, u64, u64), u128>) -> T {
    match o { Ok((a, b, c, d, e)) => T::C("Ok", vec![T::Tup(vec![T::N(*a as u128), T::N(*b as u128), T::N(*c as u128), T::N(*d as u128), T::N(*e as u128)])]),
              Err(99) => T::C("Panic", vec![T::N(0)]), Err(k) => T::C("Err", vec![T::N(*k)]) }
}

// ---------------------------------------------------------------- histories
pub struct Built { pub d: Driver, pub ops: Vec<T>, pub rows: String, pub count: u64, pub pending_ops: usize, pub tags: Vec<String>, pub stale: Option<Vec<u8>> }

/// random history; the last `tail` mutating calls stay in the log (no commit, handle dropped without commit)
fn build(r: &mut Rng, small: bool) -> Option<Built> {
    let mut d = Driver::new();
    let mut ops = vec![]; let mut tags = vec![];
    let nops = if small { r.range(2, 6) } else { r.range(3, 16) } as usize;
    let tail = match r.below(6) { 0 => 0, 1..=2 => 1, _ => r.range(2, 4) as usize };
    let mut since_commit = 0usize; let mut uri = 0u32; let mut stale: Option<Vec<u8>> = None;
    let total = nops + tail;
    for i in 0..total {
        let in_tail = i >= nops;
        let nc = d.mem().frame_count() as u64;
        let c = r.below(100);
        let op = if i + 1 == nops && !in_tail { Op::Commit }
            else if c < 55 || nc == 0 || (in_tail && c < 70) {
                let kind = match r.below(10) { 0..=3 => PayloadKind::Text, 4 if !small => PayloadKind::Chunked, _ => PayloadKind::Bin };
                let size = match kind { PayloadKind::Chunked => r.range(2500, 4200) as usize, PayloadKind::Text => r.range(8, if small { 120 } else { 900 }) as usize, _ => r.range(1, if small { 150 } else { 1500 }) as usize };
                uri += 1;
                Op::Put { kind, size, uri: if r.chance(1, 2) { Some(uri) } else { None }, ts: 1_700_000_000 + (r.below(50) as i64) * 3600, embed: None, default_opts: r.chance(1, 5) }
            } else if c < 75 { let t = r.below(nc); Op::Update { target: t, payload: if r.chance(1, 2) { Some((PayloadKind::Bin, r.range(1, 300) as usize)) } else { None }, uri: None } }
            else if c < 86 { Op::Delete { target: r.below(nc) } }
            else if in_tail { Op::Delete { target: r.below(nc) } }
            else if c < 93 { Op::Commit } else if c < 97 { Op::Reopen } else { Op::Crash };
        let obs = d.step(&op);
        if d.open_error.is_some() { return None; }
        ops.push(obs.op_term);
        match op {
            Op::Commit | Op::Reopen | Op::Crash => { since_commit = 0;
                if stale.is_none() { let b = std::fs::read(&d.path).ok()?; let fo = u64_at(&b, 8) as usize; if fo < b.len() { stale = Some(b[fo..].to_vec()); } } }
            _ => { if obs.ok { since_commit += 1; } if obs.auto_committed { since_commit = 0; tags.push("autocommit".into()); } }
        }
    }
    if memvid_core::verif_hooks::wal_stats(d.mem()).1 == 0 && since_commit > 0 { since_commit = 0; }
    let (rows, frames) = d.table();
    let m = d.mem.take().unwrap();
    memvid_core::verif_hooks::drop_without_commit(m);
    tags.push(format!("pending{}", since_commit.min(4)));
    Some(Built { d, ops, rows: rows.coq(), count: frames.len() as u64, pending_ops: since_commit, tags, stale })
}

// ---------------------------------------------------------------- byte surgery
/// `opaque` = [end of the log region, start of the last TOC): payload and index bytes the model never reads
struct Variant { bytes: Vec<u8>, tag: &'static str, class: Option<&'static str>, library_written: bool, opaque: Option<(usize, usize)> }
fn opaque_of(b: &[u8]) -> Option<(usize, usize)> { let (wo, ws) = (u64_at(b, 16) as usize, u64_at(b, 24) as usize); end_footer(b).and_then(|(_, toff, _)| if wo + ws + 64 <= toff { Some((wo + ws, toff)) } else { None }) }

fn junk(r: &mut Rng, n: usize) -> Vec<u8> {
    let style = r.below(4);
    (0..n).map(|_| match style { 0 => r.next() as u8, 1 => if r.chance(1, 5) { b'M' } else { r.next() as u8 }, 2 => *r.pick(b"MV2FOOT!M"), _ => if r.chance(1, 8) { b'M' } else { 0 } }).collect()
}
fn footer(toc: &[u8], generation: u64) -> Vec<u8> {
    let mut f = MAGIC.to_vec(); f.extend((toc.len() as u64).to_le_bytes()); f.extend(blake3::hash(toc).as_bytes()); f.extend(generation.to_le_bytes()); f
}
/// position of the file's last footer if it sits at the very end
fn end_footer(b: &[u8]) -> Option<(usize, usize, u64)> {
    if b.len() < FOOTER_SIZE { return None; }
    let pos = b.len() - FOOTER_SIZE;
    if &b[pos..pos + 8] != MAGIC { return None; }
    let tl = u64_at(b, pos + 8) as usize;
    if tl == 0 || tl > pos { return None; }
    Some((pos, pos - tl, u64_at(b, pos + 48)))
}

fn variant(r: &mut Rng, kind: u64, base: &[u8], stale: &Option<Vec<u8>>) -> Variant {
    let mut b = base.to_vec();
    let (wo, ws) = (u64_at(&b, 16) as usize, u64_at(&b, 24) as usize);
    let opq = opaque_of(base);
    match kind {
        0 => Variant { bytes: b, tag: "plain", class: None, library_written: true, opaque: opq },
        1 => { // legacy lock bytes: 1-5 non-zero bytes in 80..140, boundaries 80 and 139 favoured
            for _ in 0..r.range(1, 5) { let i = match r.below(4) { 0 => 80, 1 => 139, _ => r.range(80, 139) as usize }; b[i] = r.range(1, 255) as u8; }
            Variant { bytes: b, tag: "legacy", class: Some("legacy-lock-bytes"), library_written: false, opaque: opq } }
        2 => { // the neighbours of the region must not trigger: byte 79 (last checksum byte), 140.., end of the padding
            for i in [79usize, 140, 141, 4095] { if r.chance(2, 3) { b[i] = r.range(1, 255) as u8; } }
            Variant { bytes: b, tag: "legacy_neighbours", class: None, library_written: false, opaque: opq } }
        3 => { // junk, cut or wrong-hash footers after the last footer
            let n = r.range(1, 90) as usize; b.extend(junk(r, n));
            if r.chance(1, 2) { let toc = junk(r, 7); b.extend(&toc); let mut f = footer(&toc, 99); if r.chance(1, 2) { f[20] ^= 1; b.extend(f); } else { let cut = r.range(1, 55) as usize; b.extend(&f[..cut]); } }
            Variant { bytes: b, tag: "junk_tail", class: None, library_written: false, opaque: opq } }
        4 => { // an older commit image (TOC + footer) copied after the last footer: the LAST valid footer wins
            match stale { Some(s) => { b.extend(s); Variant { bytes: b, tag: "stale_image_appended", class: None, library_written: false, opaque: opq } }
                          None => Variant { bytes: b, tag: "plain", class: None, library_written: true, opaque: opq } } }
        5 => { // the header's footer pointer is ignored by the read-only path
            let v = match r.below(4) { 0 => 0u64, 1 => u64::MAX, 2 => b.len() as u64 + 7, _ => r.below(b.len() as u64) };
            b[8..16].copy_from_slice(&v.to_le_bytes());
            Variant { bytes: b, tag: "header_footer_pointer", class: None, library_written: false, opaque: opq } }
        6 => { // corrupt first log record: payload byte flipped (checksum mismatch) or length field zero / huge
            let len = u32::from_le_bytes(b[wo + 8..wo + 12].try_into().unwrap()) as usize;
            if len > 0 && 48 + len <= ws {
                match r.below(3) { 0 => { let i = wo + 48 + r.below(len as u64) as usize; b[i] ^= 0x40; }
                                   1 => { b[wo + 8..wo + 12].copy_from_slice(&0u32.to_le_bytes()); }
                                   _ => { b[wo + 8..wo + 12].copy_from_slice(&(ws as u32).to_le_bytes()); } }
                Variant { bytes: b, tag: "log_corrupt", class: None, library_written: false, opaque: opq }
            } else { Variant { bytes: b, tag: "plain", class: None, library_written: true, opaque: opq } } }
        7 => { // invalid header field, half of them together with legacy bytes: the scrub is written before decode fails
            match r.below(5) { 0 => b[r.below(4) as usize] ^= 1, 1 => b[4] ^= 2, 2 => b[6 + r.below(2) as usize] ^= 1, 3 => b[16..24].copy_from_slice(&(r.below(4096)).to_le_bytes()), _ => b[24..32].copy_from_slice(&0u64.to_le_bytes()) }
            let leg = r.chance(1, 2); if leg { b[r.range(80, 139) as usize] = 0xAA; }
            Variant { bytes: b, tag: if leg { "header_invalid_legacy" } else { "header_invalid" }, class: if leg { Some("legacy-lock-bytes") } else { None }, library_written: false, opaque: opq } }
        8 | 9 => { // TOC whose last Tantivy segment ends at (no trigger) / beyond (trigger) the footer offset
            if let Some((pos, toff, g)) = end_footer(&b) {
                if let Ok(mut toc) = Toc::decode(&b[toff..pos]) {
                    if let Some(last) = toc.segment_catalog.tantivy_segments.last_mut() {
                        let beyond = kind == 9;
                        // the rewritten TOC has the same length (fixed-int encoding), so the footer stays at `pos`
                        let target_end = if beyond { pos as u64 + match r.below(3) { 0 => 1, 1 => r.range(2, 300), _ => r.range(300, 5000) } } else { pos as u64 };
                        last.common.bytes_length = target_end.saturating_sub(last.common.bytes_offset);
                        let (img, _) = reencode(&toc);
                        let mut nb = b[..toff].to_vec(); nb.extend(&img); nb.extend(footer(&img, g));
                        return Variant { bytes: nb, tag: if beyond { "catalog_beyond_footer" } else { "catalog_at_footer" }, class: if beyond { Some("catalog-beyond-footer") } else { None }, library_written: false, opaque: opq };
                    }
                }
            }
            Variant { bytes: b, tag: "plain", class: None, library_written: true, opaque: opq } }
        _ => { // tiny files: empty, junk, junk with a valid footer over an undecodable TOC, a real TOC + footer without header
            let v = match r.below(5) {
                0 => vec![],
                1 => { let n_ = r.range(1, 300) as usize; junk(r, n_) }
                2 => { let n_ = r.range(0, 200) as usize; let mut v = junk(r, n_); let k_ = r.range(1, 30) as usize; let toc = junk(r, k_); v.extend(&toc); v.extend(footer(&toc, 3)); let m_ = r.below(20) as usize; v.extend(junk(r, m_)); v }
                3 => { let mut v = vec![]; if let Some((pos, toff, g)) = end_footer(&b) { v.extend(&b[toff..pos]); v.extend(footer(&b[toff..pos], g)); } v }
                _ => { let mut v = b[..HEADER_SIZE.min(b.len())].to_vec(); let n_ = r.below(100) as usize; v.extend(junk(r, n_)); v }
            };
            Variant { bytes: v, tag: "tiny", class: None, library_written: false, opaque: None } }
    }
}

fn emit_craft(w: &mut dyn std::io::Write, r: &mut Rng, dir: &Path, idx: usize, v: &Variant, reference: Option<(&str, u64)>) {
    let path = dir.join(format!("v{}.mv2", idx));
    std::fs::write(&path, &v.bytes).expect("write variant");
    let nf = end_footer(&v.bytes).and_then(|(pos, toff, _)| Toc::decode(&v.bytes[toff..pos]).ok()).map(|t| t.frames.len() as u64).unwrap_or(3);
    let calls_n = r.range(1, 6) as usize;
    let calls = gen_calls(r, nf, calls_n);
    let mut rr = Rng(r.next());
    let s = session(&path, &calls, &mut rr, None);
    emit_craft_with(w, &path, v, true, reference, s, calls);
    let _ = std::fs::remove_file(&path);
}

fn emit_craft_with(w: &mut dyn std::io::Write, path: &Path, v: &Variant, lock_free: bool, reference: Option<(&str, u64)>, sess: Session, calls: Vec<Call>) {
    let after = std::fs::read(path).unwrap_or_default();
    let changed = after != v.bytes;
    let tb = tables(&[&v.bytes, &after]);
    // the model's copy of the file: payload / index bytes replaced by zeros when nothing can look at them
    let mut model_before = v.bytes.clone();
    let mut opaque = false;
    if let Some((a, z)) = v.opaque {
        let lo = a.saturating_sub(8); let hi = (z + 8).min(v.bytes.len());
        let has_magic = v.bytes[lo..hi].windows(8).any(|w8| w8 == MAGIC);
        let touched = tb.windows.iter().any(|(s0, e0)| *s0 < z && *e0 > a);
        let same_after = after.len() >= z && after[a..z] == v.bytes[a..z];
        if z <= v.bytes.len() && !has_magic && !touched && same_after { for x in &mut model_before[a..z] { *x = 0; } opaque = true; }
    }
    let input = T::Tup(vec![chunks_term(&model_before),
        T::L(tb.ht.iter().map(|(k, at, d)| T::Tup(vec![key_term(&model_before, k, *at), T::H(d.clone())])).collect()),
        T::L(tb.tt.iter().map(|(k, at, row)| T::Tup(vec![key_term(&model_before, k, *at),
            T::Tup(vec![T::N(row.n as u128), T::B(row.lex), pairs(&row.segs), pairs(&row.cat), T::H(row.ck.clone()), T::Tup(vec![key_term(&model_before, &row.re, *at), T::H(row.re_ck.clone())])])])).collect()),
        T::B(lock_free), calls_term(&calls), patches_term(&v.bytes, &after, &model_before)]);
    // write trace as the byte diff implies it (the bytes themselves are compared inside the model run)
    let trace = if !changed { T::L(vec![]) } else { trace_shape(&v.bytes, &after) };
    let out = T::Tup(vec![open_term(&sess.open), T::L(sess.outs.clone()), trace, T::B(true)]);
    let mut viol = None;
    if changed {
        let who = sess.modified_by.clone().unwrap_or_else(|| "the session".into());
        let first = v.bytes.iter().zip(after.iter()).position(|(a, b)| a != b).unwrap_or(v.bytes.len().min(after.len()));
        let legacy = v.bytes.len() >= 140 && v.bytes[80..140].iter().any(|x| *x != 0);
        let cls = if legacy && first < 140 && after.len() == v.bytes.len() { "legacy-lock-bytes" } else if v.class == Some("catalog-beyond-footer") { "catalog-beyond-footer" } else { "file-modified" };
        viol = Some(format!("{}: {} changed the memory file ({} -> {} bytes, first difference at offset {}; variant {}; open result {:?})", cls, who, v.bytes.len(), after.len(), first, v.tag, sess.open));
    } else if let (Some((rows, count)), true) = (reference, v.library_written) {
        match &sess.open { Ok((fc, ..)) => { if *fc != count { viol = Some(format!("pending-visible: read-only handle shows {} frames, the last commit has {}", fc, count)); } let _ = rows; }
                           Err(k) => viol = Some(format!("ro-open-failed: open_read_only failed (kind {}) on a file the library wrote", k)) }
    }
    let mut tags = vec![v.tag.to_string(), if opaque { "data_region_opaque".into() } else { "data_region_literal".into() }, if changed { "modified".into() } else { "unchanged".into() }, match &sess.open { Ok(_) => "open_ok".into(), Err(k) => format!("open_err{}", k) }];
    tags.push(if lock_free { "lock_obtained".into() } else { "lock_refused".into() });
    let nontrivial = v.tag != "plain" && v.tag != "tiny";
    let key = blake3::hash(input.coq().as_bytes()).to_hex()[..16].to_string();
    emit(w, "craft", &Case { input, output: out, violation: viol, nontrivial, tags, key });
}

/// the write trace the model predicts has one of two shapes; recover it from before / after bytes:
/// header scrub = [(0, 0, 4096)]; footer alignment = [(0, ce, toc+56); (1, new_len, 0); (2, 0, 0); (0, 0, 4096)]
fn trace_shape(before: &[u8], after: &[u8]) -> T {
    let t3 = |a: u128, b: u128, c: u128| T::Tup(vec![T::N(a), T::N(b), T::N(c)]);
    let hdr_changed = before.len() >= HEADER_SIZE && after.len() >= HEADER_SIZE && before[..HEADER_SIZE] != after[..HEADER_SIZE];
    let legacy = before.len() >= 140 && before[80..140].iter().any(|x| *x != 0);
    let mut ev = vec![];
    if legacy && hdr_changed { ev.push(t3(0, 0, 4096)); }
    // alignment: the new footer pointer in the header names where the TOC image was written
    let tail_changed = after.len() != before.len() || before[HEADER_SIZE.min(before.len())..] != after[HEADER_SIZE.min(after.len())..];
    if tail_changed {
        if let Some((pos, toff, _)) = end_footer(after) {
            ev.push(t3(0, toff as u128, (pos - toff + FOOTER_SIZE) as u128)); ev.push(t3(1, after.len() as u128, 0)); ev.push(t3(2, 0, 0)); ev.push(t3(0, 0, 4096));
        }
    }
    T::L(ev)
}

// ---------------------------------------------------------------- child process under strace
pub fn child(args: &[String]) {
    let path = PathBuf::from(&args[0]);
    let seed: u64 = args[1].parse().unwrap_or(1);
    let mut r = Rng::new(seed);
    if let Ok(mut mem) = Memvid::open_read_only(&path) {
        let n = mem.frame_count() as u64;
        for c in gen_calls(&mut r, n, 8) { let _ = do_call(&mut mem, &path, &c, &mut r); }
        for c in [0u8, 1, 2, 3, 4, 5, 6] { let _ = do_call(&mut mem, &path, &Call { kind: c, arg: 0 }, &mut r); }
        drop(mem);
    }
    std::process::exit(0);
}

fn strace_session(path: &Path, seed: u64) -> (Vec<String>, Vec<String>, bool) {
    let exe = std::env::current_exe().expect("exe");
    let tr = path.with_extension("strace");
    let st = Command::new("strace").arg("-f").arg("-y").arg("-qq").arg("-s").arg("0").arg("-o").arg(&tr)
        .arg("-e").arg("trace=openat,open,write,pwrite64,pwritev,writev,ftruncate,truncate,fsync,fdatasync,rename,renameat,renameat2,unlink,unlinkat,fallocate,copy_file_range,sendfile")
        .arg(exe).arg("C18-child").arg(path).arg(seed.to_string())
        .env("RUST_BACKTRACE", "0").stdout(std::process::Stdio::null()).stderr(std::process::Stdio::null()).status();
    let text = std::fs::read_to_string(&tr).unwrap_or_default();
    let _ = std::fs::remove_file(&tr);
    let p = path.to_string_lossy().to_string();
    let fdmark = format!("<{}>", p); let quoted = format!("\"{}\"", p);
    let name = path.file_name().unwrap().to_string_lossy().to_string();
    let mut bad = vec![]; let mut opens = vec![];
    for line in text.lines() {
        let l = match line.split_once(' ') { Some((_, rest)) => rest.trim_start(), None => continue };
        if l.starts_with("<...") || l.starts_with("+++") || l.starts_with("---") { continue; }
        let sys = l.split('(').next().unwrap_or("");
        match sys {
            "openat" | "open" => { if l.contains(&quoted) { let flags: Vec<&str> = l.split(|c: char| !(c.is_ascii_alphanumeric() || c == '_')).filter(|t| t.starts_with("O_") && *t != "O_CLOEXEC").collect(); opens.push(flags.join("|")); } }
            "write" | "pwrite64" | "pwritev" | "writev" | "ftruncate" | "fsync" | "fdatasync" | "fallocate" => {
                let first = l.split('(').nth(1).unwrap_or("").split(',').next().unwrap_or("");
                if first.contains(&fdmark) { bad.push(l.chars().take(120).collect()); }
            }
            "copy_file_range" | "sendfile" => { // memory file as DESTINATION
                let args: Vec<&str> = l.split('(').nth(1).unwrap_or("").split(',').collect();
                let dest = if sys == "sendfile" { args.first() } else { args.get(2) };
                if dest.map(|d| d.contains(&fdmark)).unwrap_or(false) { bad.push(l.chars().take(120).collect()); }
            }
            "truncate" | "rename" | "renameat" | "renameat2" | "unlink" | "unlinkat" => { if l.contains(&quoted) || l.contains(&format!("\"{}\"", name)) { bad.push(l.chars().take(120).collect()); } }
            _ => {}
        }
    }
    (bad, opens, st.map(|s| s.success()).unwrap_or(false) && !text.is_empty())
}

// ---------------------------------------------------------------- crash images
fn crash_images(w: &mut dyn std::io::Write, r: &mut Rng, base: &Path, nspecs: usize, kills: usize) {
    let specs = ["pt200,c,pb300,c,pb50", "pb100,c,d0,pt90,c,pb5", "pt300,c,U0:100,c,pb10"];
    for si in 0..nspecs {
        let spec = specs[(si + r.below(3) as usize) % specs.len()];
        // committed frame_count after each op (writer's frame_count() is the committed table's length)
        let mut counts = vec![0u64];
        { let mut d = Driver::new(); for op in crate::crash::parse_ops(spec) { let _ = d.step(&op); if d.open_error.is_some() { break; } counts.push(d.mem().frame_count() as u64); } }
        let mut nsys = 0usize;
        for j in 0..kills {
            // the first child runs to the end (and counts the mutating syscalls); the others are killed in the last two thirds,
            // where at least one commit has completed
            let k = if j == 0 { 60_000 } else if nsys < 8 { break } else { r.range(nsys as u64 / 4, nsys as u64 / 2) as usize };   // strace counts `when` per syscall name: the k-th write / fsync / ...
            let dir = base.join(format!("crash{}_{}", si, j)); std::fs::create_dir_all(&dir).unwrap();
            let (run, seen_sys) = crate::crash::run_child(&dir, spec, k, true, false);
            if j == 0 { nsys = seen_sys; }
            let path = dir.join("m.mv2");
            if !path.exists() { continue; }
            let acked = run.acked.len();
            let committed_before = crate::crash::parse_ops(spec).iter().take(acked).any(|o| matches!(o, Op::Commit));
            let mut rr = Rng(r.next());
            let calls = gen_calls(&mut rr, 4, 4);
            let s = session(&path, &calls, &mut rr, None);
            let mut viol = None; let mut tags = vec![format!("spec{}", si), if run.killed { "killed".into() } else { "completed".into() }];
            if let Some(who) = &s.modified_by { viol = Some(format!("file-modified: {} changed a crash image (history {}, killed at mutating syscall {}, {} ops acknowledged)", who, spec, k, acked)); }
            match &s.open {
                Ok((fc, ..)) => {
                    tags.push("open_ok".into());
                    let allowed: Vec<u64> = [acked, acked + 1].iter().filter_map(|i| counts.get(*i).cloned()).collect();
                    let lo = counts.get(acked).cloned().unwrap_or(0);
                    if run.started && committed_before && viol.is_none() && !(allowed.contains(fc)) {
                        viol = Some(format!("crash-image-view: read-only open of a crash image shows {} frames; the last completed commit has {} and the call in flight would give {:?} (history {}, kill {}, {} acknowledged)", fc, lo, counts.get(acked + 1), spec, k, acked));
                    }
                }
                Err(kind) => { tags.push(format!("open_err{}", kind)); if committed_before { tags.push("ro_open_failed_after_commit".into()); } }
            }
            let input = T::Tup(vec![T::S(spec.to_string()), T::N(k as u128), T::N(acked as u128)]);
            let key = format!("crash-{}-{}", si, k);
            emit(w, "crash", &Case { input, output: open_term(&s.open), violation: viol, nontrivial: committed_before && run.killed, tags, key });
        }
    }
}

// ---------------------------------------------------------------- run
pub fn run(seed: u64, n: usize, tier: &str, w: &mut dyn std::io::Write) {
    let mut r = Rng::new(seed ^ 0xC18);
    // everything (memories, Tantivy scratch directories of this process and of the children) under one private directory
    let base = tempfile::Builder::new().prefix("c18_").tempdir().expect("tempdir");
    std::env::set_var("TMPDIR", base.path());
    let thorough = tier == "thorough";

    // ---- writer alive: read-only open must fail on the lock and change nothing; with legacy bytes planted under the
    // writer's feet the header scrub is written BEFORE the lock is requested.  Each costs the 10 s lock retry: own threads.
    let mut lock_threads = vec![];
    for (legacy, commit_first) in [(false, false), (true, false), (true, true)] {
        let dir = base.path().join(format!("lock{}{}", legacy as u8, commit_first as u8)); std::fs::create_dir_all(&dir).unwrap();
        lock_threads.push(std::thread::spawn(move || {
            let path = dir.join("m.mv2");
            let mut d = Driver::at(&path, true);
            for i in 0..3 { let _ = d.step(&Op::Put { kind: PayloadKind::Text, size: 60 + i * 10, uri: None, ts: 1_700_000_000, embed: None, default_opts: false }); if i == 1 && commit_first { let _ = d.step(&Op::Commit); } }
            if legacy { use std::io::{Seek, SeekFrom, Write}; let mut f = std::fs::OpenOptions::new().write(true).open(&path).unwrap(); f.seek(SeekFrom::Start(97)).unwrap(); f.write_all(&[0x5A, 0x01]).unwrap(); }
            let before = std::fs::read(&path).unwrap();
            let mut rr = Rng::new(7);
            let s = session(&path, &[], &mut rr, None);   // writer `d` still alive
            let after = std::fs::read(&path).unwrap();
            drop(d);
            (before, after, s, legacy, commit_first, dir)
        }));
    }

    let t0 = std::time::Instant::now();
    let lap = |what: &str| { if std::env::var("MV_DEBUG").is_ok() { eprintln!("[c18] {:>8.1}s {}", t0.elapsed().as_secs_f64(), what); } };
    // ---- histories
    let mut small_bases: Vec<Built> = vec![];
    let mut trace_bases: Vec<Built> = vec![];
    let n_craft_bases = (n / 3).max(2);
    for i in 0..n {
        let small = i < n_craft_bases;
        let Some(mut b) = build(&mut r, small) else { continue };
        let path = b.d.path.clone();
        let before = std::fs::read(&path).unwrap();
        let calls_n = r.range(3, 10) as usize;
        let calls = gen_calls(&mut r, b.count, calls_n);
        let mut rr = Rng(r.next());
        let s = session(&path, &calls, &mut rr, Some(&mut b.d));
        let mut viol = None;
        if let Some(who) = &s.modified_by { viol = Some(format!("file-modified: {} changed the memory file (library-written file, {} frames committed, {} calls pending in the log)", who, b.count, b.pending_ops)); }
        let (ro_rows, ro_count) = s.rows.clone().unwrap_or((String::new(), u64::MAX));
        match &s.open {
            Err(k) => { viol.get_or_insert(format!("ro-open-failed: open_read_only failed (kind {}) on a file the library wrote", k)); }
            Ok((fc, ..)) => {
                if *fc != b.count || ro_count != b.count { viol.get_or_insert(format!("pending-visible: read-only handle shows {} frames, the last commit has {} ({} calls pending in the log)", fc, b.count, b.pending_ops)); }
                else if ro_rows != b.rows { viol.get_or_insert("table-mismatch: the frame table of the read-only handle differs from the table of the last commit".to_string()); }
                // the log is seen (pending bytes reported) but not applied
                if b.pending_ops > 0 { if let Ok((_, _, _, pend, _)) = s.open { if pend == 0 { b.tags.push("pending_not_in_log".into()); } } }
            }
        }
        // writer afterwards: the pending records are still there and replay
        if viol.is_none() && b.pending_ops > 0 && i % 3 == 0 {
            if let Ok(m) = Memvid::open(&path) { if (m.frame_count() as u64) < b.count { viol = Some(format!("records-lost-after-ro: after the read-only session a writable open shows {} frames, fewer than the {} committed", m.frame_count(), b.count)); } b.tags.push("writer_reopened".into()); memvid_core::verif_hooks::drop_without_commit(m); }
            // restore the exact pre-session bytes for the variants below
            std::fs::write(&path, &before).unwrap();
        }
        let input = T::L(b.ops.clone());
        // the table term is re-read from the handle's rows string: emit raw
        let out_str = format!("({}%N, {}, {})", b.count, if s.rows.is_some() { ro_rows.clone() } else { b.rows.clone() }, if b.pending_ops > 0 { "true" } else { "false" });
        let key = blake3::hash(input.coq().as_bytes()).to_hex()[..16].to_string();
        let mut tags = b.tags.clone(); tags.push(if small { "small".into() } else { "regular".into() });
        let v = serde_json::json!({ "stream": "hist", "in": input.coq(), "out": out_str, "viol": viol, "nontrivial": b.pending_ops > 0, "tags": tags, "key": key });
        writeln!(w, "{}", v).unwrap();
        if small { small_bases.push(b); } else if trace_bases.len() < 3 { trace_bases.push(b); }
    }

    lap("histories done");
    // ---- byte surgery on the small files
    let vdir = base.path().join("variants"); std::fs::create_dir_all(&vdir).unwrap();
    let mut idx = 0usize;
    let mut rot = 0u64;
    for b in small_bases.iter() {
        let basebytes = std::fs::read(&b.d.path).unwrap();
        // every base: legacy bytes, catalog beyond the footer, and two (thorough: all) of the other kinds in rotation
        let mut kinds = vec![1u64, 9];
        // the other nine kinds are dealt out over the bases (quick: two bases see all of them; thorough: every base sees all)
        let others = [0u64, 2, 3, 4, 5, 6, 7, 8, 10];
        let extra = if thorough { 9 } else { (others.len() + n_craft_bases - 1) / n_craft_bases };
        for _ in 0..extra { kinds.push(others[(rot % 9) as usize]); rot += 1; }
        for kind in kinds {
            let v = variant(&mut r, kind, &basebytes, &b.stale);
            let reference = if v.library_written { Some((b.rows.as_str(), b.count)) } else { None };
            emit_craft(w, &mut r, &vdir, idx, &v, reference);
            idx += 1;
        }
    }

    lap("craft done");
    // ---- child under strace
    for (i, tb) in trace_bases.iter().take(if thorough { 3 } else { 1 }).chain(small_bases.iter().take(1)).enumerate() {
        let p = &tb.d.path;
        let h0 = fhash(p);
        let (bad, opens, ran) = strace_session(p, seed + i as u64);
        let mut viol = None;
        if !ran { viol = Some("strace-unavailable: the traced read-only session did not run".to_string()); }
        else if !bad.is_empty() { viol = Some(format!("syscall-write: the read-only session issued {} mutating syscalls on the memory file, first: {}", bad.len(), bad[0])); }
        else if fhash(p) != h0 { viol = Some("file-modified: the traced read-only session changed the memory file".to_string()); }
        let mut tags: Vec<String> = opens.iter().map(|f| format!("open:{}", f)).collect();
        tags.sort(); tags.dedup();
        emit(w, "sys", &Case { input: T::N(i as u128), output: T::N(bad.len() as u128), violation: viol, nontrivial: ran && !opens.is_empty(), tags, key: format!("sys{}", i) });
    }

    lap("strace done");
    // ---- crash images
    crash_images(w, &mut r, base.path(), if thorough { 3 } else { 1 }, if thorough { 5 } else { 2 });

    lap("crash done");
    // ---- a tail of zeros longer than the 16 MiB search window after the last footer (window doubling); oracle only
    if let Some(b) = small_bases.first() {
        let mut bytes = std::fs::read(&b.d.path).unwrap(); let n0 = bytes.len();
        bytes.resize(n0 + (16 << 20) + 4096 + r.below(5000) as usize, 0);
        let p = vdir.join("bigtail.mv2"); std::fs::write(&p, &bytes).unwrap();
        let mut rr = Rng(r.next());
        let s = session(&p, &[Call { kind: 0, arg: 0 }, Call { kind: 5, arg: 0 }], &mut rr, None);
        let mut viol = None;
        if let Some(who) = &s.modified_by { viol = Some(format!("file-modified: {} changed a file with a zero tail beyond the search window", who)); }
        match &s.open { Ok((fc, fo, ..)) => if *fc != b.count || *fo as usize != n0 - FOOTER_SIZE { viol.get_or_insert(format!("window-doubling: footer beyond the first 16 MiB window not found correctly (frames {}, footer offset {}, expected {} / {})", fc, fo, b.count, n0 - FOOTER_SIZE)); },
                         Err(k) => { viol.get_or_insert(format!("window-doubling: open_read_only failed (kind {}) although the file holds a valid footer before a 16 MiB zero tail", k)); } }
        emit(w, "bigtail", &Case { input: T::N(bytes.len() as u128), output: open_term(&s.open), violation: viol, nontrivial: true, tags: vec!["zero_tail_16MiB".into()], key: "bigtail".into() });
        let _ = std::fs::remove_file(&p);
    }

    lap("bigtail done");
    // ---- join the writer-alive cases and emit them as craft cases with lock_free = false
    for t in lock_threads {
        if let Ok((before, after, s, legacy, commit_first, dir)) = t.join() {
            let tag = match (legacy, commit_first) { (false, _) => "writer_alive", (true, false) => "writer_alive_legacy", (true, true) => "writer_alive_after_commit_legacy" };
            let opq = opaque_of(&before);
            let v = Variant { bytes: before, tag, class: if legacy { Some("legacy-lock-bytes") } else { None }, library_written: false, opaque: opq };
            let p = dir.join("after.mv2"); std::fs::write(&p, &after).unwrap();
            // whether the shared lock was obtained is an observed input of the model
            let lock_free = !matches!(s.open, Err(8));
            emit_craft_with(w, &p, &v, lock_free, None, s, vec![]);
        }
    }
    lap("lock joined");
    drop(small_bases); drop(trace_bases);
    std::env::remove_var("TMPDIR");
}
