//! C04 recovery is crash-safe and idempotent: kill enumeration over `Memvid::open` of a file that
//! needs log replay, nested, plus idempotence of a second open.  C03 reuses the protocol stream.
use crate::c02::{check_survivor, golden, proto_cases, table_of, Row};
use crate::crash::*;
use crate::term::*;
use memvid_core::Memvid;
use std::path::Path;

/// histories whose child exits without commit, leaving pending records for the next open to replay
pub const IMAGES: &[&str] = &["pb300,c,pb400,u0", "pb500,pb600,d0", "pt700,c,pc3000", "pb300,c,g66000,pb20"];

fn make_image(dir: &Path, spec: &str) -> bool {
    let (run, _) = run_child(dir, spec, 0, true, true);
    run.ended && dir.join("m.mv2").exists()
}

/// opens the file and reads its table; Tantivy's scratch-directory lock can be transiently busy on a
/// loaded machine (it has nothing to do with the memory file): retry a few times before reporting
fn open_table(path: &Path) -> Result<Vec<Row>, String> {
    let mut last = String::new();
    for attempt in 0..6 {
        let p = path.to_path_buf();
        match std::panic::catch_unwind(move || Memvid::open(&p).map(|mut m| table_of(&mut m))) {
            Ok(Ok(t)) => return Ok(t),
            Ok(Err(e)) => { last = e.to_string(); if !last.contains("LockBusy") { return Err(last); } }
            Err(_) => return Err("panic".into()),
        }
        std::thread::sleep(std::time::Duration::from_millis(150 * (attempt + 1)));
    }
    Err(format!("inconclusive: {}", last))
}

pub fn run(seed: u64, n: usize, tier: &str, w: &mut dyn std::io::Write) {
    let mut r = Rng::new(seed ^ 0xC04);
    let images: Vec<&str> = if tier == "thorough" { IMAGES.to_vec() } else { IMAGES[..3].to_vec() };
    for spec in images {
        let base = tempfile::tempdir().unwrap();
        let img_dir = base.path().join("img"); std::fs::create_dir_all(&img_dir).unwrap();
        if !make_image(&img_dir, spec) { emit(w, "recover", &Case { input: T::S(spec.into()), output: T::S("image-failed".into()), violation: Some(format!("harness-error: could not build the crash image for {}", spec)), nontrivial: false, tags: vec![], key: spec.into() }); continue; }
        let image = img_dir.join("m.mv2");
        // uninterrupted recovery on a copy = the reference
        let ref_dir = base.path().join("ref"); std::fs::create_dir_all(&ref_dir).unwrap();
        std::fs::copy(&image, ref_dir.join("m.mv2")).unwrap();
        let reference = open_table(&ref_dir.join("m.mv2"));
        let gold = golden(spec);
        let all_acked = gold.last().cloned().unwrap_or_default();
        let mut viol0 = None;
        match &reference { Err(e) => viol0 = Some(format!("recovery-failed: opening the crash image of {} failed: {}", spec, e)),
                           Ok(t) => if *t != all_acked { viol0 = Some(format!("recovery-lost-ops: replay of the crash image of {} does not show every acknowledged op ({} frames, expected {})", spec, t.len(), all_acked.len())); } }
        // idempotence: a second and third open change no frame
        let second = open_table(&ref_dir.join("m.mv2"));
        if viol0.is_none() { if let (Ok(a), Ok(b)) = (&reference, &second) { if a != b { viol0 = Some(format!("recovery-not-idempotent: opening the recovered file of {} again changed the frames", spec)); } } else if second.is_err() { viol0 = Some(format!("recovery-not-idempotent: the recovered file of {} does not open a second time: {:?}", spec, second.err())); } }
        emit(w, "recover", &Case { input: T::S(spec.into()), output: T::S("ok".into()), violation: viol0, nontrivial: true, tags: vec!["uninterrupted".into()], key: format!("{}#ref", spec) });
        let Ok(reference) = reference else { continue };
        // kill points inside the recovering open
        let probe = base.path().join("probe"); std::fs::create_dir_all(&probe).unwrap();
        std::fs::copy(&image, probe.join("m.mv2")).unwrap();
        let (_p, nsys) = run_child(&probe, "", 0, false, true);
        let mut ks: Vec<usize> = (1..=nsys).collect();
        if tier != "thorough" && ks.len() > n { for i in (1..ks.len()).rev() { let j = r.below(i as u64 + 1) as usize; ks.swap(i, j); } ks.truncate(n); ks.sort(); }
        let results = std::sync::Mutex::new(vec![]);
        let queue = std::sync::Mutex::new(ks.into_iter().rev().collect::<Vec<_>>());
        std::thread::scope(|sc| {
            for t in 0..12 {
                let (queue, results, base, image, reference, r2seed) = (&queue, &results, base.path(), &image, &reference, seed ^ (t as u64 * 7919));
                sc.spawn(move || { let mut rr = Rng::new(r2seed); loop {
                    let k = { match queue.lock().unwrap().pop() { Some(k) => k, None => break } };
                    let d = base.join(format!("k{}_{}", t, k)); std::fs::create_dir_all(&d).unwrap();
                    std::fs::copy(image, d.join("m.mv2")).unwrap();
                    let (run, _) = run_child(&d, "", k, false, true);
                    let mut verdict = String::from("not-killed"); let mut detail = String::new();
                    if run.killed || !run.ended {
                        // nested: kill a second recovery at a random point, then recover for good
                        let k2 = 1 + rr.below(nsys as u64 + 5) as usize;
                        let (_run2, _) = run_child(&d, "", k2, false, true);
                        static OPEN_LOCK: std::sync::Mutex<()> = std::sync::Mutex::new(());
                        let g = OPEN_LOCK.lock().unwrap_or_else(|e| e.into_inner());
                        let res = open_table(&d.join("m.mv2"));
                        drop(g);
                        match res { Ok(t) => { if &t == reference { verdict = "recovered-same".into(); } else { verdict = "recovered-different".into(); detail = format!("{} frames vs {} after an uninterrupted recovery (second kill at {})", t.len(), reference.len(), k2); } }
                                    Err(e) if e.starts_with("inconclusive") => { verdict = "inconclusive".into(); detail = e; }
                                    Err(e) => { verdict = "recovery-failed".into(); detail = format!("{} (second kill at {})", e, k2); } }
                    }
                    results.lock().unwrap().push((k, verdict, detail));
                    let _ = std::fs::remove_dir_all(&d);
                } });
            }
        });
        let mut res = results.into_inner().unwrap(); res.sort();
        for (k, verdict, detail) in res {
            let viol = match verdict.as_str() { "recovered-different" | "recovery-failed" => Some(format!("crash-in-recovery-{}: image {} recovery killed at syscall {} of {}: {}", verdict, spec, k, nsys, detail)), _ => None };
            emit(w, "recover", &Case { input: T::Tup(vec![T::S(spec.into()), T::N(k as u128)]), output: T::S(verdict.clone()), violation: viol, nontrivial: verdict != "not-killed", tags: vec![verdict], key: format!("{}#{}", spec, k) });
        }
    }
    let _ = check_survivor;
}

pub fn run_c03(_seed: u64, _n: usize, tier: &str, w: &mut dyn std::io::Write) {
    let mut specs = vec!["pb300,pb400,c,pb100,u0,d1,c,r,pt800,c,c,v,pb30000,pb25000,g66000,c".to_string(), "pb500,c,u0,d0,c".to_string(), "pt600,c,pc3000,c,r".to_string()];
    if tier == "thorough" { specs.push("pb100,c,pb200,c,pb300,c,pb400,c,r,pb500,d0,c,v,c".to_string()); }
    for s in specs { proto_cases(&s, w); }
}
