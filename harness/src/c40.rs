//! C40: bulk-ingestion paths are equivalent to plain puts.
//! The same random document set is ingested three ways in three files --
//!   plain : puts, commit
//!   batch : begin_batch(random PutManyOpts), puts, end_batch / commit (either order); sometimes a
//!           prefix of the documents is put (and committed) before begin_batch
//!   skip  : puts with 1-5 commit_skip_indexes in between, then finalize_indexes; sometimes inside
//!           begin_batch / end_batch
//! -- each followed by a fixed battery (frame table, timeline, 10 word searches, 3 vector searches),
//! live and after close + reopen.
//! (a) every path is one model case (stream "hist"): per op (result, frame_count, next_frame_id),
//!     log-region size, vector index as search_vec / frame_embedding see it, and at commit /
//!     finalize / reopen the timeline ids and the engine's documents (probe-word search);
//! (b) property oracle: any pairwise difference between the batteries of the three files (no known
//!     class since fix ed861c9: a skip path that loses embeddings is a plain violation again);
//!     one document set in four additionally runs the BOUNDARY history puts / commit_skip_indexes /
//!     close + reopen / finalize_indexes (model comparison; oracle on frames, timeline and word
//!     searches only: the embeddings of the batch exist in memory only inside that window);
//! (c) stream "presize": begin_batch { wal_pre_size_bytes } on a memory that already holds
//!     frames: new log size and payload offsets against ensure_wal_capacity / adjust_offsets,
//!     contents unchanged (oracle).
use crate::store::*;
use crate::term::*;
use memvid_core::types::{Frame, FrameStatus, PutManyOpts, SearchRequest, TimelineQuery};
use memvid_core::PutOptions;
use std::collections::BTreeSet;
use std::num::NonZeroU64;

const PROBE: &str = "zulu";
const WORDS: [&str; 16] = ["alpha", "bravo", "charlie", "delta", "echo", "foxtrot", "golf", "hotel", "india", "juliet", "kilo", "lima", "mike", "november", "oscar", "papa"];

#[derive(Clone, Debug)]
struct Doc { kind: PayloadKind, size: usize, uri: Option<u32>, ts: i64, emb: Option<Vec<f32>>, default_opts: bool, tag: u64 }

#[derive(Clone, Debug)]
enum BOp { Put(usize), Begin { skip_sync: bool, no_auto: bool, level: i32, presize: u64 }, End, Commit, Skip, Finalize, Reopen }

fn opt_n(v: Option<u64>) -> T { match v { Some(x) => T::some(T::N(x as u128)), None => T::none() } }
fn bits(e: &[f32]) -> Vec<u32> { e.iter().map(|x| x.to_bits()).collect() }
fn emb_term(e: &[f32]) -> T { T::L(e.iter().map(|x| T::N(x.to_bits() as u128)).collect()) }

/// text with the probe word every few words (so that every chunk of a chunked document holds it)
fn text_payload(size: usize, tag: u64) -> Vec<u8> {
    let mut r = Rng::new(tag.wrapping_mul(7919) ^ 0xC40);
    let mut s = format!("doc{} {} ", tag, PROBE);
    let mut k = 0;
    while s.len() < size {
        k += 1;
        if k % 5 == 0 { s.push_str(PROBE); } else { s.push_str(WORDS[r.below(16) as usize]); }
        s.push(if r.chance(1, 9) { '.' } else { ' ' });
        if r.chance(1, 40) { s.push('\n'); }
    }
    s.truncate(size.max(12));
    s.into_bytes()
}
fn doc_bytes(d: &Doc) -> Vec<u8> { match d.kind { PayloadKind::Bin => payload_bytes(&PayloadKind::Bin, d.size, d.tag), _ => text_payload(d.size, d.tag) } }

fn register(d: &mut Driver, bytes: &[u8], tag: u64) -> u64 { *d.tags.entry(*blake3::hash(bytes).as_bytes()).or_insert(tag) }

fn sreq(q: &str, top_k: usize) -> SearchRequest {
    SearchRequest { query: q.to_string(), top_k, snippet_chars: 80, uri: None, scope: None, cursor: None, as_of_frame: None, as_of_ts: None, no_sketch: true, acl_context: None, acl_enforcement_mode: Default::default() }
}

/// did the mutating call end with an automatic checkpoint?  (as store.rs's private oracle)
fn auto_oracle(d: &mut Driver, wal_seq_before: u64, appended: u64) -> (Option<u64>, bool) {
    let (_, pending, _, seq_now) = memvid_core::verif_hooks::wal_stats(d.mem());
    let grew = seq_now - wal_seq_before;
    if grew > 0 && pending == 0 { (Some(grew.saturating_sub(appended)), true) }
    else if grew > appended { (Some(grew - appended), true) }
    else { (None, false) }
}

/// the vector index as search_vec + frame_embedding see it: None when search_vec says "not enabled"
fn vec_obs(d: &mut Driver, err: &mut Option<String>) -> (bool, Option<Vec<(u64, Vec<u32>)>>) {
    let enabled = d.mem().stats().map(|s| s.vec_enabled).unwrap_or(false);
    let q = [0.0f32; 4];
    let idx = match d.mem().search_vec(&q, 1_000_000) {
        Ok(hits) => {
            let mut ids: Vec<u64> = hits.iter().map(|h| h.frame_id).collect();
            ids.sort();
            let mut v = vec![];
            for id in ids {
                match d.mem().frame_embedding(id) {
                    Ok(Some(e)) => v.push((id, bits(&e))),
                    Ok(None) => { err.get_or_insert(format!("search_vec reaches frame {} but frame_embedding is None", id)); v.push((id, vec![])); }
                    Err(e) => { err.get_or_insert(format!("frame_embedding({}) failed: {}", id, e)); }
                }
            }
            Some(v)
        }
        Err(e) => { let s = e.to_string(); if !s.contains("not enabled") { err.get_or_insert(format!("search_vec failed: {}", s)); } None }
    };
    (enabled, idx)
}
fn vec_term(o: &(bool, Option<Vec<(u64, Vec<u32>)>>)) -> T {
    let idx = match &o.1 {
        Some(v) => T::some(T::L(v.iter().map(|(id, e)| T::Tup(vec![T::N(*id as u128), T::L(e.iter().map(|b| T::N(*b as u128)).collect())])).collect())),
        None => T::none(),
    };
    T::Tup(vec![T::B(o.0), idx])
}

fn timeline_ids(d: &mut Driver) -> Result<Vec<(u64, i64)>, String> {
    let q = TimelineQuery::builder().limit(NonZeroU64::new(100_000).unwrap()).build();
    d.mem().timeline(q).map(|es| es.iter().map(|e| (e.frame_id, e.timestamp)).collect()).map_err(|e| e.to_string())
}
fn search_ids(d: &mut Driver, q: &str, k: usize) -> Result<Vec<u64>, String> {
    d.mem().search(sreq(q, k)).map(|r| r.hits.iter().map(|h| h.frame_id).collect()).map_err(|e| e.to_string())
}

/// the fixed battery on one memory
#[derive(Clone, Debug, PartialEq)]
struct Battery {
    table: Vec<(u64, Option<String>, u8, u64, u8, Option<u64>)>,   // id, uri, status, content tag, role, parent
    timeline: Result<Vec<(u64, i64)>, String>,
    words: Vec<(String, Result<Vec<u64>, String>)>,
    vecs: Vec<Result<Vec<u64>, String>>,
}
fn battery(d: &mut Driver, words: &[String], vqs: &[Vec<f32>]) -> Battery {
    let n = d.mem().frame_count() as u64;
    let mut table = vec![];
    for id in 0..n {
        let f = d.mem().frame_by_id(id).expect("frame_by_id");
        let payload = d.mem().frame_canonical_payload(id).unwrap_or_else(|e| format!("<<read error {}>>", e).into_bytes());
        let tag = d.tags.get(blake3::hash(&payload).as_bytes()).cloned().unwrap_or(u64::MAX / 2);
        let status = match f.status { FrameStatus::Active => 0, FrameStatus::Superseded => 1, _ => 2 };
        let role = match f.role { memvid_core::types::FrameRole::Document => 0, memvid_core::types::FrameRole::DocumentChunk => 1, _ => 2 };
        table.push((f.id, f.uri.clone(), status, tag, role, f.parent_id));
    }
    let timeline = timeline_ids(d);
    let words = words.iter().map(|w| (w.clone(), search_ids(d, w, 50))).collect();
    let vecs = vqs.iter().map(|q| d.mem().search_vec(q, 10).map(|hs| hs.iter().map(|h| h.frame_id).collect()).map_err(|e| e.to_string())).collect();
    Battery { table, timeline, words, vecs }
}

struct PathRun { ops: Vec<T>, outs: Vec<T>, live: Option<Battery>, reopened: Option<Battery>, tags: BTreeSet<String>, err: Option<String>, skip_commits: usize, frames: Vec<Frame> }

struct Pending { idx: usize, uri: Option<u32>, tag: u64, nchunks: u64, ts: i64, emb: Option<Vec<f32>>, instant: bool, auto: Option<u64>, grew: Option<u64>, first_id: u64 }
enum OpRec { Put(Pending), Other(T) }

fn run_path(docs: &[Doc], ops: &[BOp], words: &[String], vqs: &[Vec<f32>]) -> PathRun {
    let mut d = Driver::new();
    let mut recs: Vec<OpRec> = vec![]; let mut outs: Vec<T> = vec![];
    let mut tags: BTreeSet<String> = BTreeSet::new();
    let mut err: Option<String> = None;
    let mut live = None; let mut reopened = None; let mut skip_commits = 0;
    for (i, op) in ops.iter().enumerate() {
        let (region_b, _, _, seq_b) = memvid_core::verif_hooks::wal_stats(d.mem());
        let next_before = d.mem().next_frame_id();
        let mut res = T::C("Ok", vec![T::N(0)]);
        let mut settle = false;
        match op {
            BOp::Put(k) => {
                let doc = &docs[*k];
                let bytes = doc_bytes(doc);
                let tag = register(&mut d, &bytes, doc.tag);
                if let Some((_, _, chunks)) = std::str::from_utf8(&bytes).ok().and_then(|t| memvid_core::verif_hooks::plan_text_chunks(t)) {
                    let mut cat = Vec::new();
                    for (j, c) in chunks.iter().enumerate() { register(&mut d, c.as_bytes(), tag + j as u64 + 1); cat.extend_from_slice(c.as_bytes()); }
                    register(&mut d, &cat, tag);
                }
                let opts = Driver::options(doc.uri, doc.ts, doc.default_opts);
                let r = match &doc.emb { Some(e) => d.mem().put_with_embedding_and_options(&bytes, e.clone(), opts), None => d.mem().put_bytes_with_options(&bytes, opts) };
                let ok = match r { Ok(s) => { res = T::C("Ok", vec![T::N(s as u128)]); true } Err(e) => { res = T::C("Err", vec![T::N(9)]); err.get_or_insert(format!("op {} put failed: {}", i, e)); false } };
                let next_after = d.mem().next_frame_id();
                let nchunks = if ok { next_after - next_before - 1 } else { 0 };
                let (auto, ac) = auto_oracle(&mut d, seq_b, 1 + nchunks);
                if ac { tags.insert("autocheckpoint".into()); }
                let region_a = memvid_core::verif_hooks::wal_stats(d.mem()).0;
                let grew = if region_a != region_b { tags.insert("walgrowth".into()); Some(region_a) } else { None };
                if nchunks > 0 { tags.insert("chunked".into()); }
                recs.push(OpRec::Put(Pending { idx: *k, uri: doc.uri, tag, nchunks, ts: doc.ts, emb: doc.emb.clone(), instant: doc.default_opts, auto, grew, first_id: next_before }));
            }
            BOp::Begin { skip_sync, no_auto, level, presize } => {
                let o = PutManyOpts { compression_level: *level, disable_auto_checkpoint: *no_auto, skip_sync: *skip_sync, wal_pre_size_bytes: *presize, ..Default::default() };
                if let Err(e) = d.mem().begin_batch(o) { err.get_or_insert(format!("op {} begin_batch failed: {}", i, e)); res = T::C("Err", vec![T::N(9)]); }
                recs.push(OpRec::Other(T::C("BBegin", vec![T::C("mkOpts", vec![T::B(*skip_sync), T::B(*no_auto), T::Z(*level as i128), T::N(*presize as u128)])])));
                if memvid_core::verif_hooks::wal_stats(d.mem()).0 != region_b { tags.insert("presized".into()); }
            }
            BOp::End => {
                if let Err(e) = d.mem().end_batch() { err.get_or_insert(format!("op {} end_batch failed: {}", i, e)); res = T::C("Err", vec![T::N(9)]); }
                recs.push(OpRec::Other(T::C("BEnd", vec![])));
            }
            BOp::Commit | BOp::Finalize => {
                let r = if matches!(op, BOp::Commit) { d.mem().commit() } else { d.mem().finalize_indexes() };
                if let Err(e) = r { err.get_or_insert(format!("op {} {:?} failed: {}", i, op, e)); res = T::C("Err", vec![T::N(9)]); }
                let (region_a, _, _, seq_a) = memvid_core::verif_hooks::wal_stats(d.mem());
                let grew = if region_a != region_b { tags.insert("walgrowth".into()); Some(region_a) } else { None };
                recs.push(OpRec::Other(T::C(if matches!(op, BOp::Commit) { "BCommit" } else { "BFinalize" }, vec![T::N((seq_a - seq_b) as u128), opt_n(grew)])));
                settle = true;
            }
            BOp::Skip => {
                let pend = memvid_core::verif_hooks::wal_stats(d.mem()).1;
                if let Err(e) = d.mem().commit_skip_indexes() { err.get_or_insert(format!("op {} commit_skip_indexes failed: {}", i, e)); res = T::C("Err", vec![T::N(9)]); }
                if pend > 0 { skip_commits += 1; }
                recs.push(OpRec::Other(T::C("BSkip", vec![])));
            }
            BOp::Reopen => {
                // the live battery is taken just before the close
                live = Some(battery(&mut d, words, vqs));
                let m = d.mem.take().unwrap();
                drop(m);
                match memvid_core::Memvid::open(&d.path) {
                    Ok(m) => { let extra = memvid_core::verif_hooks::wal_stats(&m).3 - seq_b; d.mem = Some(m); recs.push(OpRec::Other(T::C("BReopen", vec![T::N(extra as u128)]))); }
                    Err(e) => { err.get_or_insert(format!("open-failed: the memory could not be opened again: {}", e)); break; }
                }
                settle = true;
            }
        }
        let fc = d.mem().frame_count() as u64; let na = d.mem().next_frame_id();
        let wal = memvid_core::verif_hooks::wal_stats(d.mem()).0;
        let vo = vec_obs(&mut d, &mut err);
        let reads = if settle {
            let tl = match timeline_ids(&mut d) { Ok(v) => v.iter().map(|x| x.0).collect::<Vec<u64>>(), Err(e) => { err.get_or_insert(format!("op {} timeline failed: {}", i, e)); vec![] } };
            let mut lx = match search_ids(&mut d, PROBE, 5000) { Ok(v) => v, Err(e) => { if fc > 0 { err.get_or_insert(format!("op {} probe search failed: {}", i, e)); } vec![] } };
            lx.sort(); lx.dedup();
            T::some(T::Tup(vec![T::L(tl.iter().map(|x| T::N(*x as u128)).collect()), T::L(lx.iter().map(|x| T::N(*x as u128)).collect())]))
        } else { T::none() };
        outs.push(T::Tup(vec![T::Tup(vec![res, T::N(fc as u128), T::N(na as u128)]), T::N(wal as u128), vec_term(&vo), reads]));
    }
    if d.mem.is_some() && err.as_deref().map_or(true, |e| !e.starts_with("open-failed")) { reopened = Some(battery(&mut d, words, vqs)); }
    // text flags of the documents, read from the committed frames (oracle input, as C08)
    let frames: Vec<Frame> = if d.mem.is_some() { let n = d.mem().frame_count() as u64; (0..n).map(|id| d.mem().frame_by_id(id).expect("frame_by_id")).collect() } else { vec![] };
    let has_probe = |id: u64| frames.get(id as usize).and_then(|f| f.search_text.as_deref()).is_some_and(|s| s.contains(PROBE));
    if std::env::var("MV_DEBUG").is_ok() && d.mem.is_some() {
        let lx: BTreeSet<u64> = search_ids(&mut d, PROBE, 5000).unwrap_or_default().into_iter().collect();
        for f in &frames { if has_probe(f.id) != lx.contains(&f.id) { eprintln!("TEXTFLAG frame {} role {:?} has_probe {} in engine {} search_text {:?}", f.id, f.role, has_probe(f.id), lx.contains(&f.id), f.search_text); } }
    }
    let mut ops_t = vec![];
    for r in recs {
        match r {
            OpRec::Other(t) => ops_t.push(t),
            OpRec::Put(p) => {
                let text = has_probe(p.first_id);
                let ctexts: Vec<bool> = (0..p.nchunks).map(|j| has_probe(p.first_id + 1 + j)).collect();
                let doc = T::C("mkDoc", vec![opt_n(p.uri.map(|u| u as u64)), T::N(p.tag as u128), T::N(p.nchunks as u128), T::Z(p.ts as i128), T::B(text), T::L(ctexts.iter().map(|c| T::B(*c)).collect()),
                                             match &p.emb { Some(e) => T::some(emb_term(e)), None => T::none() }, T::B(p.instant)]);
                ops_t.push(T::C("BPut", vec![doc, opt_n(p.auto), opt_n(p.grew)]));
            }
        }
    }
    PathRun { ops: ops_t, outs, live, reopened, tags, err, skip_commits, frames }
}

fn diff(a: &Battery, b: &Battery, what: &str) -> (Vec<String>, bool) {
    // returns (differences, only_vector_differences)
    let mut v = vec![]; let mut nonvec = false;
    if a.table.len() != b.table.len() { v.push(format!("{}: {} frames vs {}", what, a.table.len(), b.table.len())); nonvec = true; }
    for (x, y) in a.table.iter().zip(b.table.iter()) { if x != y { v.push(format!("{}: frame row {:?} vs {:?}", what, x, y)); nonvec = true; break; } }
    if a.timeline != b.timeline { v.push(format!("{}: timeline {:?} vs {:?}", what, a.timeline.as_ref().map(|t| t.len()), b.timeline.as_ref().map(|t| t.len()))); nonvec = true; }
    for (x, y) in a.words.iter().zip(b.words.iter()) { if x != y { v.push(format!("{}: search {:?} gives {:?} vs {:?}", what, x.0, x.1, y.1)); nonvec = true; break; } }
    for (k, (x, y)) in a.vecs.iter().zip(b.vecs.iter()).enumerate() { if x != y { v.push(format!("{}: vector search {} gives {:?} vs {:?}", what, k, x, y)); break; } }
    (v, !nonvec)
}

fn gen_docs(r: &mut Rng, profile: u64) -> Vec<Doc> {
    let n = match profile { 0 => r.range(5, 12), 1 => r.range(8, 24), 2 => r.range(20, 60), _ => r.range(5, 30) } as usize;
    let p_emb = match profile { 0 => 0, 1 => 5, 2 => 3, _ => 8 };
    let mut uri_counter = 0u32;
    (0..n).map(|i| {
        let k = r.below(100);
        let (kind, size) = if k < 12 { (PayloadKind::Chunked, r.range(2500, 6500) as usize) }
                           else if k < 30 { (PayloadKind::Bin, r.range(1, 900) as usize) }
                           else if profile == 2 && k < 36 { (PayloadKind::Bin, r.range(20000, 50000) as usize) }   // crosses the automatic checkpoint / grows the log
                           else { (PayloadKind::Text, r.range(20, 1800) as usize) };
        let uri = if r.chance(1, 2) { uri_counter += 1; Some(uri_counter) } else { None };
        // timestamps: mostly increasing, with ties and out-of-order values
        let ts = 1_700_000_000 + match r.below(6) { 0 => 0, 1 => (i as i64) / 3, 2 => 500 - i as i64, _ => i as i64 * 10 + r.below(10) as i64 };
        let c = i as f32 + 1.0;
        let emb = if profile != 0 && r.chance(1, 25) { Some(vec![]) } else if r.below(10) < p_emb { Some(match r.below(5) { 0 => vec![c, -0.0, 0.0, 1.0], 1 => vec![0.0, 0.0, 0.0, c], _ => vec![c, (r.below(200) as f32 - 100.0) / 8.0, (r.below(1000) as f32) / 16.0, -c / 2.0] }) } else { None };
        let default_opts = r.chance(1, 8) && !matches!(kind, PayloadKind::Bin);
        Doc { kind, size, uri, ts, emb, default_opts, tag: 1000 * (i as u64 + 1) }
    }).collect()
}

fn begin_op(r: &mut Rng) -> BOp {
    let presize = match r.below(9) { 0 | 1 => 0, 2 => 1, 3 => 65536, 4 => 65537, 5 => 100_000, 6 => 1 << 20, 7 => (1 << 20) + 1, _ => r.range(1, 3 << 20) };
    BOp::Begin { skip_sync: r.chance(1, 2), no_auto: r.chance(2, 3), level: *r.pick(&[0, 1, 3, 11]), presize }
}

pub fn run(seed: u64, n: usize, w: &mut dyn std::io::Write) {
    if std::env::var("MV_KEEP_TMPDIR").is_err() && std::path::Path::new("/dev/shm").is_dir() { std::env::set_var("TMPDIR", "/dev/shm"); }
    if std::env::var("MV_C40_PROBE").is_ok() { probe(); return; }
    let mut r = Rng::new(seed ^ 0xC40);
    for i in 0..n {
        let profile = (i % 4) as u64;
        let docs = gen_docs(&mut r, profile);
        let nd = docs.len();
        let all: Vec<BOp> = (0..nd).map(BOp::Put).collect();
        // ---- the three paths
        let mut plain = all.clone(); plain.push(BOp::Commit); plain.push(BOp::Reopen);
        let mut batch: Vec<BOp> = vec![];
        let prefix = if r.chance(1, 3) { r.range(1, nd as u64 - 1) as usize } else { 0 };
        batch.extend(all[..prefix].iter().cloned());
        if prefix > 0 && r.chance(1, 2) { batch.push(BOp::Commit); }
        batch.push(begin_op(&mut r));
        batch.extend(all[prefix..].iter().cloned());
        if r.chance(2, 3) { batch.push(BOp::End); batch.push(BOp::Commit); } else { batch.push(BOp::Commit); batch.push(BOp::End); }
        batch.push(BOp::Reopen);
        let mut skip: Vec<BOp> = vec![];
        let in_batch = r.chance(1, 3);
        if in_batch { skip.push(begin_op(&mut r)); }
        let nseg = r.range(1, 5).min(nd as u64) as usize;
        let mut cuts: BTreeSet<usize> = BTreeSet::new(); cuts.insert(nd);
        while cuts.len() < nseg { cuts.insert(r.range(1, nd as u64) as usize); }
        for k in 0..nd { skip.push(BOp::Put(k)); if cuts.contains(&(k + 1)) { skip.push(BOp::Skip); } }
        if in_batch && r.chance(1, 2) { skip.push(BOp::End); skip.push(BOp::Finalize); } else { skip.push(BOp::Finalize); if in_batch { skip.push(BOp::End); } }
        skip.push(BOp::Reopen);
        // ---- the battery
        let mut words: Vec<String> = vec![PROBE.to_string()];
        for _ in 0..5 { words.push(WORDS[r.below(16) as usize].to_string()); }
        for _ in 0..4 { words.push(format!("doc{}", docs[r.below(nd as u64) as usize].tag)); }
        let embedded: Vec<&Doc> = docs.iter().filter(|d| d.emb.as_ref().is_some_and(|e| !e.is_empty())).collect();
        let vqs: Vec<Vec<f32>> = (0..3).map(|k| if embedded.is_empty() { vec![k as f32, 1.0, 2.0, 3.0] } else { let mut e = embedded[r.below(embedded.len() as u64) as usize].emb.clone().unwrap(); if k == 2 { e[1] += 0.25; } e }).collect();

        let mut runs = vec![("plain", run_path(&docs, &plain, &words, &vqs)), ("batch", run_path(&docs, &batch, &words, &vqs)), ("skip", run_path(&docs, &skip, &words, &vqs))];
        if i % 4 == 1 {
            // the boundary: close + reopen between a commit_skip_indexes and finalize_indexes
            let mut win: Vec<BOp> = vec![];
            let cut = r.range(1, nd as u64) as usize;
            for k in 0..nd { win.push(BOp::Put(k)); if k + 1 == cut || k + 1 == nd { win.push(BOp::Skip); } if k + 1 == cut { win.push(BOp::Reopen); } }
            if cut == nd { /* reopen already placed after the last skip */ } else if r.chance(1, 2) { win.push(BOp::Reopen); }
            win.push(BOp::Finalize); win.push(BOp::Reopen);
            runs.push(("window", run_path(&docs, &win, &words, &vqs)));
        }
        let has_emb = !embedded.is_empty();
        for (name, pr) in runs.iter() {
            let mut viol: Option<String> = pr.err.clone().map(|e| format!("op-failed: {} path: {}", name, e));
            let mut tags: Vec<String> = pr.tags.iter().cloned().collect();
            tags.push(format!("path-{}", name)); tags.push(format!("profile{}", profile));
            if has_emb { tags.push("embedded".into()); }
            if *name != "plain" && viol.is_none() {
                let base = &runs[0].1;
                let mut diffs = vec![]; let mut only_vec = true;
                for (what, a, b) in [("live", &base.live, &pr.live), ("after reopen", &base.reopened, &pr.reopened)] {
                    match (a, b) {
                        (Some(a), Some(b)) => { let (v, ov) = diff(a, b, what); if !v.is_empty() { only_vec &= ov; diffs.extend(v); } }
                        _ => { diffs.push(format!("{}: battery missing", what)); only_vec = false; }
                    }
                }
                if !diffs.is_empty() {
                    let text = format!("{} path differs from plain puts + commit on {} documents: {}", name, nd, diffs.join("; "));
                    // inside the window (reopen between commit_skip_indexes and finalize_indexes) the vector index is outside the statement
                    if *name == "window" && only_vec { tags.push("window-lost-embeddings".into()); }
                    else if *name == "skip" && pr.skip_commits > 0 && has_emb && only_vec { viol = Some(format!("skip-commit-drops-embeddings: {}", &text[..text.len().min(900)])); }
                    else { viol = Some(format!("bulk-path-differs: {}", &text[..text.len().min(1200)])); }
                }
            }
            let input = T::L(pr.ops.clone());
            let output = T::L(pr.outs.clone());
            let key = blake3::hash(input.coq().as_bytes()).to_hex()[..16].to_string();
            let nontrivial = nd >= 5 && pr.live.is_some() && pr.reopened.is_some() && (*name == "plain" || pr.ops.len() > nd + 2);
            emit(w, "hist", &Case { input, output, violation: viol, nontrivial, tags, key });
        }
        if i % 2 == 0 { presize_case(&mut r, w); }
    }
}

/// begin_batch { wal_pre_size_bytes } on a memory that already holds committed frames
fn presize_case(r: &mut Rng, w: &mut dyn std::io::Write) {
    let mut d = Driver::new();
    let nd = r.range(1, 6) as usize;
    let mut tags: Vec<String> = vec![];
    for k in 0..nd {
        let doc = Doc { kind: if r.chance(1, 4) { PayloadKind::Chunked } else if r.chance(1, 3) { PayloadKind::Bin } else { PayloadKind::Text }, size: r.range(1, 5000) as usize, uri: None, ts: 1_700_000_000 + k as i64, emb: None, default_opts: false, tag: 1000 * (k as u64 + 1) };
        let size = if matches!(doc.kind, PayloadKind::Chunked) { doc.size.max(2600) } else { doc.size.min(2000) };
        let doc = Doc { size, ..doc };
        let bytes = doc_bytes(&doc);
        d.mem().put_bytes_with_options(&bytes, Driver::options(None, doc.ts, false)).expect("put");
    }
    d.mem().commit().expect("commit");
    let n = d.mem().frame_count() as u64;
    let before: Vec<(u64, Vec<u8>)> = (0..n).map(|id| (d.mem().frame_by_id(id).unwrap().payload_offset, d.mem().frame_canonical_payload(id).unwrap_or_default())).collect();
    let wal_b = memvid_core::verif_hooks::wal_stats(d.mem()).0;
    let presize = match r.below(8) { 0 => 0, 1 => wal_b, 2 => wal_b + 1, 3 => 1 << 17, 4 => (1 << 17) + 1, 5 => r.range(1, 70000), _ => r.range(65000, 1 << 21) };
    let o = PutManyOpts { wal_pre_size_bytes: presize, ..Default::default() };
    let mut viol: Option<String> = None;
    if let Err(e) = d.mem().begin_batch(o) { viol = Some(format!("op-failed: begin_batch failed: {}", e)); }
    let wal_a = memvid_core::verif_hooks::wal_stats(d.mem()).0;
    let after: Vec<(u64, Vec<u8>)> = (0..n).map(|id| (d.mem().frame_by_id(id).unwrap().payload_offset, d.mem().frame_canonical_payload(id).unwrap_or_else(|e| format!("<<read error {}>>", e).into_bytes()))).collect();
    for (id, (a, b)) in before.iter().zip(after.iter()).enumerate() { if a.1 != b.1 { viol.get_or_insert(format!("presize-content-changed: frame {} reads differently after begin_batch(wal_pre_size_bytes = {})", id, presize)); } }
    // ... and after end_batch + reopen
    let _ = d.mem().end_batch();
    let m = d.mem.take().unwrap(); drop(m);
    match memvid_core::Memvid::open(&d.path) {
        Ok(m) => { d.mem = Some(m); for (id, a) in before.iter().enumerate() { let p = d.mem().frame_canonical_payload(id as u64).unwrap_or_default(); if p != a.1 { viol.get_or_insert(format!("presize-content-changed: frame {} reads differently after begin_batch(wal_pre_size_bytes = {}) + reopen", id, presize)); } } }
        Err(e) => { viol.get_or_insert(format!("open-failed: after begin_batch(wal_pre_size_bytes = {}): {}", presize, e)); }
    }
    if wal_a != wal_b { tags.push("grown".into()); } else { tags.push("unchanged".into()); }
    let input = T::Tup(vec![T::N(wal_b as u128), T::N(presize as u128), T::L(before.iter().map(|x| T::N(x.0 as u128)).collect())]);
    let output = T::Tup(vec![T::N(wal_a as u128), T::L(after.iter().map(|x| T::N(x.0 as u128)).collect())]);
    let key = blake3::hash(input.coq().as_bytes()).to_hex()[..16].to_string();
    emit(w, "presize", &Case { input, output, violation: viol, nontrivial: wal_a != wal_b, tags, key });
}

/// scratch probes (MV_C40_PROBE=1): printed, not part of the check
fn probe() {
    // (1) embedded puts, commit_skip_indexes, finalize_indexes: vector search finds nothing
    let mut d = Driver::new();
    for k in 0..3u64 { d.mem().put_with_embedding_and_options(&text_payload(100, 1000 * (k + 1)), vec![k as f32 + 1.0, 0.0, 0.0, 1.0], Driver::options(None, 1_700_000_000 + k as i64, false)).expect("put"); }
    d.mem().commit_skip_indexes().expect("skip");
    d.mem().finalize_indexes().expect("finalize");
    eprintln!("probe1 skip+finalize: search_vec -> {:?}", d.mem().search_vec(&[1.0, 0.0, 0.0, 1.0], 10).map(|h| h.iter().map(|x| x.frame_id).collect::<Vec<_>>()).map_err(|e| e.to_string()));
    let mut p = Driver::new();
    for k in 0..3u64 { p.mem().put_with_embedding_and_options(&text_payload(100, 1000 * (k + 1)), vec![k as f32 + 1.0, 0.0, 0.0, 1.0], Driver::options(None, 1_700_000_000 + k as i64, false)).expect("put"); }
    p.mem().commit().expect("commit");
    eprintln!("probe1 plain: search_vec -> {:?}", p.mem().search_vec(&[1.0, 0.0, 0.0, 1.0], 10).map(|h| h.iter().map(|x| x.frame_id).collect::<Vec<_>>()).map_err(|e| e.to_string()));
    // (1b) embedded puts, commit_skip_indexes, close + reopen, finalize_indexes
    {
        let mut d = Driver::new();
        for k in 0..3u64 { d.mem().put_with_embedding_and_options(&text_payload(100, 1000 * (k + 1)), vec![k as f32 + 1.0, 0.0, 0.0, 1.0], Driver::options(None, 1_700_000_000 + k as i64, false)).expect("put"); }
        d.mem().commit_skip_indexes().expect("skip");
        eprintln!("probe1b after skip: search_vec -> {:?}", d.mem().search_vec(&[1.0, 0.0, 0.0, 1.0], 10).map(|h| h.iter().map(|x| x.frame_id).collect::<Vec<_>>()).map_err(|e| e.to_string()));
        let m = d.mem.take().unwrap(); drop(m);
        d.mem = Some(memvid_core::Memvid::open(&d.path).expect("open"));
        eprintln!("probe1b after reopen: search_vec -> {:?}", d.mem().search_vec(&[1.0, 0.0, 0.0, 1.0], 10).map(|h| h.iter().map(|x| x.frame_id).collect::<Vec<_>>()).map_err(|e| e.to_string()));
        d.mem().finalize_indexes().expect("finalize");
        eprintln!("probe1b skip, reopen, finalize: search_vec -> {:?} frames {}", d.mem().search_vec(&[1.0, 0.0, 0.0, 1.0], 10).map(|h| h.iter().map(|x| x.frame_id).collect::<Vec<_>>()).map_err(|e| e.to_string()), d.mem().frame_count());
    }
    // (2) begin_batch(pre-size) on a non-empty memory, then a rebuild with no payload insert
    let mut q = Driver::new();
    let a = text_payload(300, 1000); q.mem().put_bytes_with_options(&a, Driver::options(None, 1, false)).expect("put"); q.mem().commit().expect("commit");
    eprintln!("probe2 before begin: data_region {:?} wal {:?}", memvid_core::verif_hooks::data_region(q.mem()), memvid_core::verif_hooks::wal_stats(q.mem()));
    q.mem().begin_batch(PutManyOpts { wal_pre_size_bytes: 1 << 20, ..Default::default() }).expect("begin");
    eprintln!("probe2 after begin : data_region {:?} wal {:?}", memvid_core::verif_hooks::data_region(q.mem()), memvid_core::verif_hooks::wal_stats(q.mem()));
    q.mem().finalize_indexes().expect("finalize");
    eprintln!("probe2 after finalize: data_region {:?}", memvid_core::verif_hooks::data_region(q.mem()));
    let b = text_payload(400, 2000); q.mem().put_bytes_with_options(&b, Driver::options(None, 2, false)).expect("put"); q.mem().commit().expect("commit");
    let f1 = q.mem().frame_by_id(1).unwrap();
    eprintln!("probe2 frame 1 payload_offset {} (log region is [{}, {}))", f1.payload_offset, memvid_core::verif_hooks::header_fields(q.mem()).1, memvid_core::verif_hooks::header_fields(q.mem()).1 + memvid_core::verif_hooks::header_fields(q.mem()).2);
    for k in 0..40u64 { let c = text_payload(1500, 3000 + k * 1000); let _ = q.mem().put_bytes_with_options(&c, Driver::options(None, 3 + k as i64, false)); }
    eprintln!("probe2 frame 0 ok {} frame 1 ok {}", q.mem().frame_canonical_payload(0).map(|p| p == a).unwrap_or(false), q.mem().frame_canonical_payload(1).map(|p| p == b).map_err(|e| e.to_string()).unwrap_or(false));
    let _ = q.mem().end_batch(); let _ = q.mem().commit();
    eprintln!("probe2 after more puts+commit: frame 1 reads {:?}", q.mem().frame_canonical_payload(1).map(|p| p == b).map_err(|e| e.to_string()));
}
