//! C20 corruption is detected, never served silently.
//! Real committed, closed files; every fault (bit flip / 64-byte zeroing / truncation) is
//! applied to a copy; the copy is opened (Memvid::open, open_read_only) and read, and
//! verify(deep) is run; the result is classified Error / Same / Diff and compared with the
//! detection table of coq/Model/Detect.v for the region class the fault fell in.
use crate::term::*;
use memvid_core::footer::find_last_valid_footer;
use memvid_core::io::header::HeaderCodec;
use memvid_core::types::{CanonicalEncoding, FrameRole, FrameStatus, SearchRequest, TimelineQuery, Toc, VerificationStatus};
use memvid_core::{Memvid, PutOptions};
use std::num::NonZeroU64;
use std::panic::{catch_unwind, AssertUnwindSafe};
use std::path::{Path, PathBuf};
use std::sync::atomic::{AtomicUsize, Ordering};
use std::sync::Mutex;

// ---------------------------------------------------------------- region classes (codes shared with Model/Detect.v)
pub const C_HDR_MAGIC: u8 = 0;      // header 0..4 magic, 4..6 version, 6..8 spec bytes
pub const C_HDR_FOOTER_OFF: u8 = 1; // 8..16
pub const C_HDR_WAL_OFF: u8 = 2;    // 16..24
pub const C_HDR_WAL_SIZE: u8 = 3;   // 24..32
pub const C_HDR_CKPT_POS: u8 = 4;   // 32..40
pub const C_HDR_WAL_SEQ: u8 = 5;    // 40..48
pub const C_HDR_TOC_SUM: u8 = 6;    // 48..80
pub const C_HDR_LEGACY: u8 = 7;     // 80..140 (legacy lock area: cleared on read)
pub const C_HDR_PAD: u8 = 8;        // 140..4096
pub const C_WAL_SEQ: u8 = 9;        // record header: sequence (8)
pub const C_WAL_LEN: u8 = 10;       // record header: length (4)
pub const C_WAL_RESERVED: u8 = 11;  // record header: reserved (4)
pub const C_WAL_DIGEST: u8 = 12;    // record header: digest (32)
pub const C_WAL_PAYLOAD: u8 = 13;   // record payload
pub const C_WAL_SENTINEL: u8 = 14;  // the 48 zero bytes that end the scan
pub const C_WAL_SLACK: u8 = 15;     // rest of the log region
pub const C_PAY_PLAIN: u8 = 16;
pub const C_PAY_ZSTD: u8 = 17;
pub const C_TIME_INDEX: u8 = 18;
pub const C_TANTIVY: u8 = 19;
pub const C_VEC: u8 = 20;
pub const C_SKETCH: u8 = 21;
pub const C_MEMORIES: u8 = 22;
pub const C_MESH: u8 = 23;
pub const C_TOC: u8 = 24;
pub const C_FOOT_MAGIC: u8 = 25;
pub const C_FOOT_LEN: u8 = 26;
pub const C_FOOT_HASH: u8 = 27;
pub const C_FOOT_GEN: u8 = 28;
pub const C_UNREF: u8 = 29;         // bytes of the data area no manifest refers to (stale TOCs, old index images)
pub const C_PAST: u8 = 30;          // at / past the end of the footer (truncation point only)
pub const C_PAY_INACTIVE: u8 = 31;  // payload of a deleted / superseded frame
pub const C_PAY_CHUNK: u8 = 32;     // payload of an active DocumentChunk frame whose parent has a chunk manifest

pub fn class_name(c: u8) -> &'static str {
    ["hdr-magic", "hdr-footer-offset", "hdr-wal-offset", "hdr-wal-size", "hdr-checkpoint-pos", "hdr-wal-sequence", "hdr-toc-checksum",
     "hdr-legacy-lock", "hdr-padding", "log-record-seq", "log-record-len", "log-record-reserved", "log-record-digest", "log-record-payload",
     "log-sentinel", "log-slack", "payload-plain", "payload-zstd", "time-index", "tantivy-segment", "vec-index", "sketch-track",
     "memories-track", "mesh-track", "toc", "footer-magic", "footer-toc-len", "footer-toc-hash", "footer-generation", "unreferenced",
     "past-footer", "payload-inactive", "payload-chunk"][c as usize]
}

#[derive(Clone, Debug)]
pub struct Region { pub class: u8, pub start: u64, pub end: u64, pub frame: Option<u64> }

// ---------------------------------------------------------------- scenarios
fn bin_payload(size: usize, tag: u64) -> Vec<u8> { crate::store::payload_bytes(&crate::store::PayloadKind::Bin, size, tag) }
fn text_payload(size: usize, tag: u64) -> Vec<u8> { crate::store::payload_bytes(&crate::store::PayloadKind::Text, size, tag) }
fn emb(k: u64) -> Vec<f32> { let mut r = Rng::new(k ^ 0xE3B); (0..8).map(|_| ((r.below(2001) as f32) - 1000.0) / 1000.0).collect() }

fn opts(uri: u32, ts: i64, lean: bool) -> PutOptions {
    let mut o = PutOptions::default();
    o.timestamp = Some(ts);
    o.uri = Some(format!("mv2://u/{}", uri));
    o.title = Some(format!("title {}", uri));
    if lean { o.auto_tag = false; o.extract_dates = false; o.extract_triplets = false; o.instant_index = false; }
    o
}

/// `focus`: only the payload regions are faulted (the scenario exists for its payload layout: duplicates, shared ranges)
pub struct Scenario { pub name: &'static str, pub bytes: Vec<u8>, pub focus: bool }

fn build(name: &'static str, dir: &Path, f: &dyn Fn(&mut Memvid)) -> Scenario {
    let p = dir.join(format!("{}.mv2", name));
    { let mut m = Memvid::create(&p).expect("create"); f(&mut m); m.commit().expect("commit"); }
    Scenario { name, bytes: std::fs::read(&p).expect("read scenario"), focus: name.as_bytes()[0] >= b'E' }
}

pub fn scenarios(dir: &Path, r: &mut Rng) -> Vec<Scenario> {
    let s0 = r.below(1000);
    let mut v = vec![];
    // A: one plain binary frame (the manual experiment of DESIGN section 8 F7)
    v.push(build("A-plain1", dir, &|m| { m.put_bytes_with_options(&bin_payload(300, 11 + s0), opts(1, 1_700_000_100, true)).expect("put"); }));
    // B: binary + compressible text + short text, one commit
    v.push(build("B-mixed3", dir, &|m| {
        m.put_bytes_with_options(&bin_payload(180, 21 + s0), opts(1, 1_700_000_300, true)).expect("put");
        m.put_bytes_with_options(&text_payload(1400, 22 + s0), opts(2, 1_700_000_100, true)).expect("put");
        m.put_bytes_with_options(&text_payload(120, 23 + s0), opts(3, 1_700_000_200, true)).expect("put");
    }));
    // C: a chunked document + binary, default options (auto tags / triplets -> tracks)
    v.push(build("C-chunked", dir, &|m| {
        m.put_bytes_with_options(&text_payload(5200, 31 + s0), opts(1, 1_700_000_100, false)).expect("put");
        m.put_bytes_with_options(&bin_payload(90, 32 + s0), opts(2, 1_700_000_200, true)).expect("put");
    }));
    // D: embeddings, two commits, a deleted frame
    v.push(build("D-embed2c", dir, &|m| {
        m.put_with_embedding_and_options(&text_payload(260, 41 + s0), emb(1), opts(1, 1_700_000_100, true)).expect("put");
        m.put_with_embedding_and_options(&bin_payload(150, 42 + s0), emb(2), opts(2, 1_700_000_200, true)).expect("put");
        m.commit().expect("commit");
        m.put_with_embedding_and_options(&text_payload(700, 43 + s0), emb(3), opts(3, 1_700_000_300, true)).expect("put");
        for (i, (e, sl, v)) in [("user", "employer", "acme"), ("user", "city", "paris")].iter().enumerate() {
            m.put_memory_card(memvid_core::types::MemoryCard { id: i as u64, kind: memvid_core::types::MemoryKind::Fact, entity: e.to_string(), slot: sl.to_string(), value: v.to_string(),
                polarity: None, event_date: None, document_date: None, version_key: None, version_relation: memvid_core::types::VersionRelation::Sets, source_frame_id: 1, source_uri: None,
                source_offset: None, engine: "x".into(), engine_version: "1".into(), confidence: None, created_at: 1_700_000_000 }).expect("card");
        }
        m.delete_frame(0).expect("delete");
    }));
    // E..H: byte-identical stored payloads in several active frames (dedup is off by default), so that a check remembered
    // per checksum / per handle instead of per read would show
    // E: the same 604-byte binary payload twice, the same compressible text three times, interleaved
    v.push(build("E-dup2p3z", dir, &|m| {
        let (b, t) = (bin_payload(604, 51 + s0), text_payload(1300, 52 + s0));
        m.put_bytes_with_options(&b, opts(1, 1_700_000_100, true)).expect("put");
        m.put_bytes_with_options(&t, opts(2, 1_700_000_200, true)).expect("put");
        m.put_bytes_with_options(&b, opts(3, 1_700_000_300, true)).expect("put");
        m.put_bytes_with_options(&t, opts(4, 1_700_000_400, true)).expect("put");
        m.put_bytes_with_options(&t, opts(5, 1_700_000_500, true)).expect("put");
    }));
    // F: three binary copies, two text copies, over two commits
    v.push(build("F-dup3p2z", dir, &|m| {
        let (b, t) = (bin_payload(250, 61 + s0), text_payload(900, 62 + s0));
        m.put_bytes_with_options(&b, opts(1, 1_700_000_100, true)).expect("put");
        m.put_bytes_with_options(&b, opts(2, 1_700_000_200, true)).expect("put");
        m.put_bytes_with_options(&t, opts(3, 1_700_000_300, true)).expect("put");
        m.commit().expect("commit");
        m.put_bytes_with_options(&t, opts(4, 1_700_000_400, true)).expect("put");
        m.put_bytes_with_options(&b, opts(5, 1_700_000_500, true)).expect("put");
    }));
    // G: a payload-less update (the new frame shares the superseded frame's byte range) + a separate copy of the same bytes
    v.push(build("G-shared", dir, &|m| {
        let b = bin_payload(300, 71 + s0);
        m.put_bytes_with_options(&b, opts(1, 1_700_000_100, true)).expect("put");
        m.put_bytes_with_options(&text_payload(500, 72 + s0), opts(2, 1_700_000_200, true)).expect("put");
        m.commit().expect("commit");
        m.update_frame(0, None, opts(1, 1_700_000_100, true), None).expect("update");
        m.put_bytes_with_options(&b, opts(3, 1_700_000_300, true)).expect("put");
    }));
    // H: the same chunked document twice (every chunk payload exists twice, in two documents)
    v.push(build("H-dupchunk", dir, &|m| {
        let t = text_payload(5200, 81 + s0);
        m.put_bytes_with_options(&t, opts(1, 1_700_000_100, true)).expect("put");
        m.put_bytes_with_options(&t, opts(2, 1_700_000_200, true)).expect("put");
    }));
    v
}

// ---------------------------------------------------------------- region map
pub fn region_map(b: &[u8]) -> (Vec<Region>, Toc, u64, u64) {
    let hdr = HeaderCodec::decode(b[..4096].try_into().unwrap()).expect("header of a clean file");
    let fs = find_last_valid_footer(b).expect("footer of a clean file");
    let toc = Toc::decode(fs.toc_bytes).expect("toc of a clean file");
    let (toc_off, foot_off) = (fs.toc_offset as u64, fs.footer_offset as u64);
    let mut rs: Vec<Region> = vec![];
    let mut add = |class: u8, start: u64, len: u64, frame: Option<u64>| { if len > 0 { rs.push(Region { class, start, end: start + len, frame }); } };
    for (c, s, l) in [(C_HDR_MAGIC, 0, 8), (C_HDR_FOOTER_OFF, 8, 8), (C_HDR_WAL_OFF, 16, 8), (C_HDR_WAL_SIZE, 24, 8), (C_HDR_CKPT_POS, 32, 8),
                      (C_HDR_WAL_SEQ, 40, 8), (C_HDR_TOC_SUM, 48, 32), (C_HDR_LEGACY, 80, 60), (C_HDR_PAD, 140, 4096 - 140)] { add(c, s, l, None); }
    // log region: records from offset 0 until the zero header
    let (w0, wsz) = (hdr.wal_offset, hdr.wal_size);
    let mut cur = 0u64;
    loop {
        if cur + 48 > wsz { break; }
        let h = &b[(w0 + cur) as usize..(w0 + cur + 48) as usize];
        let seq = u64::from_le_bytes(h[0..8].try_into().unwrap());
        let len = u32::from_le_bytes(h[8..12].try_into().unwrap()) as u64;
        if seq == 0 && len == 0 { add(C_WAL_SENTINEL, w0 + cur, 48, None); cur += 48; break; }
        if len == 0 || cur + 48 + len > wsz { break; }
        add(C_WAL_SEQ, w0 + cur, 8, None); add(C_WAL_LEN, w0 + cur + 8, 4, None); add(C_WAL_RESERVED, w0 + cur + 12, 4, None);
        add(C_WAL_DIGEST, w0 + cur + 16, 32, None); add(C_WAL_PAYLOAD, w0 + cur + 48, len, None);
        cur += 48 + len;
    }
    add(C_WAL_SLACK, w0 + cur, wsz - cur, None);
    for f in &toc.frames {
        if f.payload_length == 0 { continue; }
        let chunk_of_manifest = f.role == FrameRole::DocumentChunk && f.parent_id.and_then(|p| toc.frames.get(p as usize)).is_some_and(|p| p.chunk_manifest.is_some());
        let class = if f.status != FrameStatus::Active { C_PAY_INACTIVE } else if chunk_of_manifest { C_PAY_CHUNK } else { match f.canonical_encoding { CanonicalEncoding::Plain => C_PAY_PLAIN, CanonicalEncoding::Zstd => C_PAY_ZSTD } };
        add(class, f.payload_offset, f.payload_length, Some(f.id));
    }
    if let Some(t) = &toc.time_index { add(C_TIME_INDEX, t.bytes_offset, t.bytes_length, None); }
    for s in &toc.segment_catalog.tantivy_segments { add(C_TANTIVY, s.common.bytes_offset, s.common.bytes_length, None); }
    for s in &toc.segment_catalog.vec_segments { add(C_VEC, s.common.bytes_offset, s.common.bytes_length, None); }
    for s in &toc.segment_catalog.time_segments { add(C_TIME_INDEX, s.common.bytes_offset, s.common.bytes_length, None); }
    if let Some(t) = &toc.indexes.vec { add(C_VEC, t.bytes_offset, t.bytes_length, None); }
    if let Some(t) = &toc.indexes.lex { add(C_TANTIVY, t.bytes_offset, t.bytes_length, None); }
    for s in &toc.indexes.lex_segments { add(C_TANTIVY, s.bytes_offset, s.bytes_length, None); }
    if let Some(t) = &toc.sketch_track { add(C_SKETCH, t.bytes_offset, t.bytes_length, None); }
    if let Some(t) = &toc.memories_track { add(C_MEMORIES, t.bytes_offset, t.bytes_length, None); }
    if let Some(t) = &toc.logic_mesh { add(C_MESH, t.bytes_offset, t.bytes_length, None); }
    add(C_TOC, toc_off, foot_off - toc_off, None);
    add(C_FOOT_MAGIC, foot_off, 8, None); add(C_FOOT_LEN, foot_off + 8, 8, None); add(C_FOOT_HASH, foot_off + 16, 32, None); add(C_FOOT_GEN, foot_off + 48, 8, None);
    // first region listed wins on overlap (payload-less updates share ranges); gaps become "unreferenced"
    rs.sort_by_key(|r| (r.start, r.end, r.class == C_PAY_INACTIVE));
    let mut out: Vec<Region> = vec![]; let mut pos = 0u64;
    for r in rs {
        if r.end <= pos { continue; }
        let start = r.start.max(pos);
        if start > pos { out.push(Region { class: C_UNREF, start: pos, end: start, frame: None }); }
        out.push(Region { class: r.class, start, end: r.end, frame: r.frame }); pos = r.end;
    }
    if (b.len() as u64) > pos { out.push(Region { class: C_PAST, start: pos, end: b.len() as u64, frame: None }); }
    (out, toc, toc_off, foot_off)
}

pub fn class_at(rs: &[Region], off: u64) -> (u8, Option<u64>) {
    for r in rs { if off >= r.start && off < r.end { return (r.class, r.frame); } }
    (C_PAST, None)
}

// ---------------------------------------------------------------- observation
pub type Obs = Vec<(String, Result<Vec<u8>, String>)>;

fn dg(parts: &[&[u8]]) -> Vec<u8> { let mut h = blake3::Hasher::new(); for p in parts { h.update(&(p.len() as u64).to_le_bytes()); h.update(p); } h.finalize().as_bytes()[..12].to_vec() }

fn sreq(q: &str) -> SearchRequest {
    SearchRequest { query: q.to_string(), top_k: 50, snippet_chars: 80, uri: None, scope: None, cursor: None, as_of_frame: None, as_of_ts: None, no_sketch: true, acl_context: None, acl_enforcement_mode: Default::default() }
}

/// every read of one handle; `nframes` = frames of the clean file (ids read even if the handle reports fewer)
fn reads(m: &mut Memvid, nframes: u64, obs: &mut Obs) {
    let n = m.frame_count() as u64;
    obs.push(("frame_count".into(), Ok(n.to_le_bytes().to_vec())));
    for id in 0..nframes.max(n).min(nframes + 4) {
        match m.frame_by_id(id) {
            Ok(f) => {
                let meta = format!("{:?}|{:?}|{:?}|{}|{:?}|{:?}|{:?}|{:?}|{:?}|{:?}", f.status, f.uri, f.title, f.timestamp, f.role, f.parent_id, f.canonical_length, f.search_text.as_ref().map(|s| blake3::hash(s.as_bytes()).to_hex()[..12].to_string()), f.tags, f.chunk_index);
                obs.push((format!("frame_meta[{}]", id), Ok(dg(&[meta.as_bytes()]))));
                if f.status != FrameStatus::Active {
                    // a deleted / superseded frame can still be read by id: it goes through read_frame_payload_bytes too
                    obs.push((format!("payload[{}]", id), m.frame_canonical_payload(id).map(|b| dg(&[&b])).map_err(|e| e.to_string())));
                }
                if f.status == FrameStatus::Active {
                    obs.push((format!("payload[{}]", id), m.frame_canonical_payload(id).map(|b| dg(&[&b])).map_err(|e| e.to_string())));
                    obs.push((format!("text[{}]", id), m.frame_text_by_id(id).map(|t| dg(&[t.as_bytes()])).map_err(|e| e.to_string())));
                    if f.role != FrameRole::DocumentChunk {
                        obs.push((format!("embedding[{}]", id), m.frame_embedding(id).map(|e| match e { None => vec![0], Some(v) => dg(&[&v.iter().flat_map(|x| x.to_bits().to_le_bytes()).collect::<Vec<u8>>()]) }).map_err(|e| e.to_string())));
                    }
                }
            }
            Err(e) => obs.push((format!("frame_meta[{}]", id), Err(e.to_string()))),
        }
    }
    for q in ["alpha", "doc"] {
        obs.push((format!("search[{}]", q), m.search(sreq(q)).map(|r| { let mut h: Vec<(u64, String)> = r.hits.iter().map(|h| (h.frame_id, h.text.clone())).collect(); h.sort(); dg(&[format!("{:?}", h).as_bytes()]) }).map_err(|e| e.to_string())));
    }
    let q = TimelineQuery::builder().limit(NonZeroU64::new(1000).unwrap()).build();
    obs.push(("timeline".into(), m.timeline(q).map(|es| dg(&[format!("{:?}", es.iter().map(|e| (e.frame_id, e.timestamp, e.preview.clone(), e.uri.clone(), e.child_frames.clone())).collect::<Vec<_>>()).as_bytes()])).map_err(|e| e.to_string())));
    obs.push(("search_vec".into(), m.search_vec(&emb(2), 10).map(|hs| dg(&[format!("{:?}", hs.iter().map(|h| (h.frame_id, h.distance.to_bits())).collect::<Vec<_>>()).as_bytes()])).map_err(|e| e.to_string())));
    obs.push(("memories".into(), Ok(dg(&[format!("{:?} {:?}", m.memories().card_count(), { let mut v = m.get_entity_memories("user").iter().map(|c| (c.slot.clone(), c.value.clone())).collect::<Vec<_>>(); v.sort(); v }).as_bytes()]))));
}

#[derive(Clone, Copy, PartialEq, Eq, Debug)]
pub enum Verdict { Error, Same, Diff }

/// verdict of one opened-and-read copy against the clean observation
fn judge(base: &Obs, got: &Result<Obs, String>) -> (Verdict, String) {
    let got = match got { Err(e) => return (Verdict::Error, format!("open: {}", e)), Ok(g) => g };
    let mut err = None; let mut diff: Option<String> = None;
    let add = |d: &mut Option<String>, t: String| { match d { Some(s) => { s.push_str(", "); s.push_str(&t); }, None => *d = Some(t) } };
    for (name, bv) in base {
        match got.iter().find(|(n, _)| n == name) {
            None => { if bv.is_ok() { add(&mut diff, format!("{} missing", name)); } }
            Some((_, Err(e))) => { if bv.is_ok() { err.get_or_insert(format!("{}: {}", name, e)); } }
            Some((_, Ok(v))) => { match bv { Ok(b) if b == v => {}, Ok(_) => { add(&mut diff, format!("{} differs", name)); }, Err(_) => { add(&mut diff, format!("{} answers where the clean file fails", name)); } } }
        }
    }
    for (name, v) in got { if v.is_ok() && !base.iter().any(|(n, _)| n == name) { add(&mut diff, format!("{} is new", name)); } }
    if let Some(d) = diff { (Verdict::Diff, d) } else if let Some(e) = err { (Verdict::Error, e) } else { (Verdict::Same, String::new()) }
}

fn guarded<R>(f: impl FnOnce() -> R) -> Result<R, String> {
    catch_unwind(AssertUnwindSafe(f)).map_err(|p| format!("panic: {}", p.downcast_ref::<String>().cloned().or_else(|| p.downcast_ref::<&str>().map(|s| s.to_string())).unwrap_or_default()))
}

fn observe(path: &Path, read_only: bool, nframes: u64) -> Result<Obs, String> {
    guarded(|| {
        let mut m = if read_only { Memvid::open_read_only(path) } else { Memvid::open(path) }.map_err(|e| e.to_string())?;
        let mut obs = vec![];
        reads(&mut m, nframes, &mut obs);
        if !read_only { memvid_core::verif_hooks::drop_without_commit(m); }
        Ok(obs)
    }).and_then(|x| x)
}

/// 0 = Passed, 1 = Failed, 2 = verify returned an error / panicked
fn run_verify(path: &Path) -> (u8, String) {
    match guarded(|| Memvid::verify(path, true)) {
        Ok(Ok(rep)) => if rep.overall_status == VerificationStatus::Passed { (0, String::new()) } else { (1, rep.checks.iter().filter(|c| c.status == VerificationStatus::Failed).map(|c| c.name.clone()).collect::<Vec<_>>().join(",")) },
        Ok(Err(e)) => (2, e.to_string()),
        Err(p) => (2, p),
    }
}

// ---------------------------------------------------------------- faults
#[derive(Clone, Debug)]
pub enum Fault { Flip { off: u64, bit: u8 }, Zero { off: u64, len: u64 }, Trunc { at: u64 } }

fn apply(b: &[u8], f: &Fault) -> Vec<u8> {
    let mut v = b.to_vec();
    match f {
        Fault::Flip { off, bit } => v[*off as usize] ^= 1 << bit,
        Fault::Zero { off, len } => { let e = ((*off + *len) as usize).min(v.len()); for x in &mut v[*off as usize..e] { *x = 0; } }
        Fault::Trunc { at } => v.truncate(*at as usize),
    }
    v
}

pub struct Outcome { pub rw: Verdict, pub ro: Verdict, pub verify: u8, pub why: String, pub changed: bool, pub rewritten: bool, pub ms: [u128; 3], pub orders: String }

/// answer of `frame_canonical_payload(id)` relative to the clean file: 0 = error, 1 = Ok and the clean file's data,
/// 2 = Ok with different data, 3 = Ok where the clean file fails
fn payload_code(m: &mut Memvid, id: u64, clean: &std::collections::HashMap<u64, Option<Vec<u8>>>) -> u8 {
    match guarded(|| m.frame_canonical_payload(id)) {
        Ok(Ok(b)) => match clean.get(&id) { Some(Some(d)) => if *d == dg(&[&b]) { 1 } else { 2 }, _ => 3 },
        _ => 0,
    }
}

/// clean answers of every frame's payload read
fn clean_payloads(path: &Path, nframes: u64) -> std::collections::HashMap<u64, Option<Vec<u8>>> {
    let mut m = Memvid::open_read_only(path).expect("clean ro open");
    (0..nframes).map(|id| (id, m.frame_canonical_payload(id).ok().map(|b| dg(&[&b])))).collect()
}

/// The payload reads of one faulted file under several read schedules, each on its own handle (and one handle used for
/// two passes), with verify(deep) before and after.  `damaged` = the frames whose byte window the fault touches.
/// Result: "name=id:code,...;...;vb=<verify before>;va=<verify after>".
fn order_runs(p: &Path, img: &[u8], nframes: u64, damaged: &[u64], clean: &std::collections::HashMap<u64, Option<Vec<u8>>>) -> String {
    let asc: Vec<u64> = (0..nframes).collect();
    let desc: Vec<u64> = asc.iter().rev().cloned().collect();
    let mut clean_first: Vec<u64> = asc.iter().filter(|i| !damaged.contains(i)).cloned().collect();
    clean_first.extend(damaged); clean_first.extend(damaged);
    let mut damaged_first: Vec<u64> = damaged.to_vec(); damaged_first.extend(&asc); damaged_first.extend(damaged);
    let mut both: Vec<u64> = asc.clone(); both.extend(&desc);
    let mut out = vec![];
    std::fs::write(p, img).unwrap();
    let vb = run_verify(p).0;
    for (name, read_only, sched) in [("asc", true, &asc), ("desc", true, &desc), ("cleanfirst", false, &clean_first), ("damagedfirst", true, &damaged_first), ("ascdesc", false, &both)] {
        std::fs::write(p, img).unwrap();
        let steps: Vec<String> = match guarded(|| if read_only { Memvid::open_read_only(p) } else { Memvid::open(p) }) {
            Ok(Ok(mut m)) => { let v = sched.iter().map(|id| format!("{}:{}", id, payload_code(&mut m, *id, clean))).collect(); if !read_only { memvid_core::verif_hooks::drop_without_commit(m); } v }
            _ => sched.iter().map(|id| format!("{}:0", id)).collect(),
        };
        out.push(format!("{}={}", name, steps.join(",")));
    }
    // verify again on the file as the last read-write handle left it
    let va = run_verify(p).0;
    out.push(format!("vb={}", vb)); out.push(format!("va={}", va));
    out.join(";")
}

fn run_fault(work: &Path, k: usize, clean: &[u8], f: &Fault, base_rw: &Obs, base_ro: &Obs, nframes: u64, sched: Option<(&[u64], &std::collections::HashMap<u64, Option<Vec<u8>>>)>) -> Outcome {
    let img = apply(clean, f);
    let changed = img != clean;
    let p = work.join(format!("f{}.mv2", k));
    let mut why = String::new();
    std::fs::write(&p, &img).unwrap();
    let t0 = std::time::Instant::now();
    let (rw, w1) = judge(base_rw, &observe(&p, false, nframes));
    let t1 = t0.elapsed().as_millis();
    // did the read-write open persist a TOC / footer of its own (file tail no longer the faulted image's tail)?
    let after = std::fs::read(&p).unwrap_or_default();
    let tail = |b: &[u8]| b[b.len().saturating_sub(56)..].to_vec();
    let rewritten = after.len() != img.len() || tail(&after) != tail(&img);
    std::fs::write(&p, &img).unwrap();
    let (ro, w2) = judge(base_ro, &observe(&p, true, nframes));
    let t2 = t0.elapsed().as_millis();
    std::fs::write(&p, &img).unwrap();
    let (vf, w3) = run_verify(&p);
    let t3 = t0.elapsed().as_millis();
    let orders = match sched { Some((damaged, cl)) if changed => order_runs(&p, &img, nframes, damaged, cl), _ => "-".to_string() };
    let _ = std::fs::remove_file(&p);
    if rw != Verdict::Same { why.push_str(&format!("rw {}; ", w1)); }
    if ro != Verdict::Same { why.push_str(&format!("ro {}; ", w2)); }
    if vf != 0 { why.push_str(&format!("verify {}", w3)); }
    Outcome { rw, ro, verify: vf, why, changed, rewritten, ms: [t1, t2 - t1, t3 - t2], orders }
}

fn vcode(v: Verdict) -> u128 { match v { Verdict::Error => 0, Verdict::Same => 1, Verdict::Diff => 2 } }

fn fault_line(f: &Fault) -> String { match f { Fault::Flip { off, bit } => format!("F {} {}", off, bit), Fault::Zero { off, len } => format!("Z {} {}", off, len), Fault::Trunc { at } => format!("T {} 0", at) } }
fn parse_fault(l: &str) -> Fault {
    let p: Vec<&str> = l.split_whitespace().collect();
    let (a, b): (u64, u64) = (p[1].parse().unwrap(), p[2].parse().unwrap());
    match p[0] { "F" => Fault::Flip { off: a, bit: b as u8 }, "Z" => Fault::Zero { off: a, len: b }, _ => Fault::Trunc { at: a } }
}

struct Baseline { rw: Obs, ro: Obs, nframes: u64, verify: u8, stable: bool }
fn baseline(dir: &Path, bytes: &[u8], nframes: u64) -> Baseline {
    let p0 = dir.join("clean.mv2");
    std::fs::write(&p0, bytes).unwrap();
    let rw = observe(&p0, false, nframes).expect("clean rw open");
    let again = observe(&p0, false, nframes).expect("clean rw open 2");
    std::fs::write(&p0, bytes).unwrap();
    let ro = observe(&p0, true, nframes).expect("clean ro open");
    std::fs::write(&p0, bytes).unwrap();
    let (v0, _) = run_verify(&p0);
    let _ = std::fs::remove_file(&p0);
    let stable = judge(&rw, &Ok(again)).0 == Verdict::Same && judge(&rw, &Ok(ro.clone())).0 == Verdict::Same;
    Baseline { rw, ro, nframes, verify: v0, stable }
}

/// worker process: `C20-child <scenario file> <faults file> <start> <stride> <skip-until> <out file>`
/// runs the faults k = start, start+stride, ... (k >= skip-until) one after the other and appends one line per fault.
/// frames (any status) whose stored payload window intersects [off, off+len)
fn damaged_frames(toc: &Toc, off: u64, len: u64) -> Vec<u64> {
    toc.frames.iter().filter(|f| f.payload_length > 0 && f.payload_offset < off + len && f.payload_offset + f.payload_length > off).map(|f| f.id).collect()
}

pub fn child(args: &[String]) {
    std::panic::set_hook(Box::new(|_| {}));
    let bytes = std::fs::read(&args[0]).expect("scenario");
    let faults: Vec<Fault> = std::fs::read_to_string(&args[1]).expect("faults").lines().map(parse_fault).collect();
    let (start, stride, from): (usize, usize, usize) = (args[2].parse().unwrap(), args[3].parse().unwrap(), args[4].parse().unwrap());
    let work = tempfile::Builder::new().prefix("c20w_").tempdir_in(Path::new(&args[0]).parent().unwrap()).expect("workdir");
    let (_, toc, _, _) = region_map(&bytes);
    let base = baseline(work.path(), &bytes, toc.frames.len() as u64);
    let cleanp = work.path().join("cleanp.mv2"); std::fs::write(&cleanp, &bytes).unwrap();
    let clean_answers = clean_payloads(&cleanp, base.nframes); let _ = std::fs::remove_file(&cleanp);
    use std::io::Write;
    let mut out = std::fs::OpenOptions::new().create(true).append(true).open(&args[5]).expect("out");
    let mut k = start;
    while k < faults.len() {
        if k >= from {
            // faults that touch a frame's stored payload window (flips / zeroing): also the read schedules
            let damaged: Vec<u64> = match &faults[k] {
                Fault::Trunc { .. } => vec![],
                Fault::Flip { off, .. } => damaged_frames(&toc, *off, 1),
                Fault::Zero { off, len } => damaged_frames(&toc, *off, *len),
            };
            let sched = if damaged.is_empty() { None } else { Some((&damaged[..], &clean_answers)) };
            let o = run_fault(work.path(), k, &bytes, &faults[k], &base.rw, &base.ro, base.nframes, sched);
            writeln!(out, "{}\t{}\t{}\t{}\t{}\t{}\t{}\t{}", k, vcode(o.rw), vcode(o.ro), o.verify, o.changed as u8 + 2 * o.rewritten as u8, o.ms.iter().sum::<u128>(), o.orders, o.why.replace(['\t', '\n'], " ")).unwrap();
            out.flush().unwrap();
        }
        k += stride;
    }
}

fn run_workers(dir: &Path, sc: &Scenario, faults: &[Fault], workers: usize) -> Vec<Option<Outcome>> {
    let scf = dir.join(format!("{}.img", sc.name)); std::fs::write(&scf, &sc.bytes).unwrap();
    let ff = dir.join(format!("{}.faults", sc.name)); std::fs::write(&ff, faults.iter().map(fault_line).collect::<Vec<_>>().join("\n")).unwrap();
    let exe = std::env::current_exe().expect("exe");
    let mut results: Vec<Option<Outcome>> = (0..faults.len()).map(|_| None).collect();
    let mut from: Vec<usize> = vec![0; workers];
    for _round in 0..6 {
        let mut kids = vec![];
        for wk in 0..workers {
            if from[wk] >= faults.len() { continue; }
            let of = dir.join(format!("{}.{}.out", sc.name, wk));
            let _ = std::fs::remove_file(&of);
            // a damaged length field can make the implementation write enormous scratch files: every worker
            // gets a file-size limit (256 MiB; SIGXFSZ ignored so the write fails with EFBIG) and a private TMPDIR
            let tmpd = dir.join(format!("tmp{}", wk)); let _ = std::fs::create_dir_all(&tmpd);
            let c = std::process::Command::new("sh").arg("-c").arg("ulimit -f 524288; trap '' XFSZ; exec \"$0\" \"$@\"").arg(&exe)
                .args(["C20-child", scf.to_str().unwrap(), ff.to_str().unwrap(), &wk.to_string(), &workers.to_string(), &from[wk].to_string(), of.to_str().unwrap()])
                .env("RUST_BACKTRACE", "0").env("TMPDIR", &tmpd).stdout(std::process::Stdio::null()).stderr(std::process::Stdio::null()).spawn().expect("spawn worker");
            kids.push((wk, c, of));
        }
        if kids.is_empty() { break; }
        for (wk, mut c, of) in kids {
            let _ = c.wait();
            let mut last = None;
            for l in std::fs::read_to_string(&of).unwrap_or_default().lines() {
                let p: Vec<&str> = l.splitn(8, '\t').collect();
                if p.len() < 8 { continue; }
                let k: usize = p[0].parse().unwrap();
                let vd = |x: &str| match x { "0" => Verdict::Error, "1" => Verdict::Same, _ => Verdict::Diff };
                results[k] = Some(Outcome { rw: vd(p[1]), ro: vd(p[2]), verify: p[3].parse().unwrap(), changed: p[4] == "1" || p[4] == "3", rewritten: p[4] == "2" || p[4] == "3", ms: [p[5].parse().unwrap(), 0, 0], orders: p[6].to_string(), why: p[7].to_string() });
                last = Some(k);
            }
            // the worker stopped early: the fault after the last answered one killed the process (abort, not a panic)
            let mut nxt = match last { Some(k) => k + workers, None => { let mut k = wk; while k < from[wk] { k += workers; } k } };
            if nxt < faults.len() {
                results[nxt] = Some(Outcome { rw: Verdict::Error, ro: Verdict::Error, verify: 2, changed: true, rewritten: false, ms: [0, 0, 0], orders: "-".into(), why: "worker process died on this fault (abort)".into() });
                nxt += workers;
            }
            from[wk] = nxt;
        }
    }
    results
}

pub fn run(seed: u64, n: usize, tier: &str, w: &mut dyn std::io::Write) {
    std::panic::set_hook(Box::new(|_| {}));
    let mut r = Rng::new(seed ^ 0xC20);
    let base_dir: PathBuf = std::env::temp_dir();
    let dir = tempfile::Builder::new().prefix("c20_").tempdir_in(base_dir).expect("tempdir");
    let scs = scenarios(dir.path(), &mut r);
    let thorough = tier == "thorough";
    let debug = std::env::var("C20_DEBUG").is_ok();
    let workers: usize = std::env::var("C20_WORKERS").ok().and_then(|s| s.parse().ok()).unwrap_or(12);
    let mut summary: std::collections::BTreeMap<(String, String, String), usize> = Default::default();
    for sc in &scs {
        if let Ok(only) = std::env::var("C20_ONLY") { if !sc.name.starts_with(&only) { continue; } }
        let (regions, toc, _toc_off, _foot_off) = region_map(&sc.bytes);
        let nframes = toc.frames.len() as u64;
        let base = baseline(dir.path(), &sc.bytes, nframes);
        if debug { eprintln!("== {} len {} frames {} verify {}", sc.name, sc.bytes.len(), nframes, base.verify); for rg in &regions { eprintln!("   {:>7}..{:<7} {}{}", rg.start, rg.end, class_name(rg.class), rg.frame.map(|f| format!(" frame {}", f)).unwrap_or_default()); } }
        if !base.stable || base.verify != 0 {
            emit(w, "clean", &Case { input: T::N(0), output: T::N(0), violation: Some(format!("clean-file-unstable: the clean file {} does not read the same on a second open / verify = {}", sc.name, base.verify)), nontrivial: false, tags: vec![sc.name.into()], key: sc.name.into() });
        }
        if let Ok(fl) = std::env::var("C20_FAULT") {
            let f = parse_fault(&fl);
            if std::env::var("C20_TOCDIFF").is_ok() {
                let img = apply(&sc.bytes, &f);
                let t2 = Toc::decode(&img[_toc_off as usize.._foot_off as usize]);
                match t2 { Ok(t2) => { let (a, b) = (format!("{:#?}", toc), format!("{:#?}", t2)); for (x, y) in a.lines().zip(b.lines()) { if x != y { eprintln!("TOC DIFF: {} -> {}", x.trim(), y.trim()); } } eprintln!("lines {} vs {}; verify_checksum of damaged toc: {:?}", a.lines().count(), b.lines().count(), t2.verify_checksum().is_ok()); }, Err(e) => eprintln!("damaged toc does not decode: {}", e) }
            }
            let o = run_fault(dir.path(), 0, &sc.bytes, &f, &base.rw, &base.ro, nframes, None);
            eprintln!("{} {:?} {} -> rw {:?} ro {:?} verify {} ms {:?} :: {}", sc.name, f, class_name(class_at(&regions, match f { Fault::Flip { off, .. } => off, Fault::Zero { off, .. } => off, Fault::Trunc { at } => at }).0), o.rw, o.ro, o.verify, o.ms, o.why);
            continue;
        }
        // ---- fault list
        let mut faults: Vec<Fault> = vec![];
        let mut seq_regions = 0usize; let mut tantivy_regions = 0usize;
        let budget = n.max(40) / scs.iter().filter(|s| !s.focus).count().max(1);      // faults per full scenario (roughly)
        let dense: &[u8] = &[C_PAY_CHUNK, C_HDR_MAGIC, C_HDR_FOOTER_OFF, C_HDR_WAL_OFF, C_HDR_WAL_SIZE, C_HDR_CKPT_POS, C_HDR_WAL_SEQ, C_HDR_TOC_SUM, C_WAL_SEQ, C_WAL_LEN, C_WAL_RESERVED, C_WAL_DIGEST,
                             C_TIME_INDEX, C_FOOT_MAGIC, C_FOOT_LEN, C_FOOT_HASH, C_FOOT_GEN, C_PAY_PLAIN, C_PAY_ZSTD, C_TOC];
        // regions of at most 64 bytes of the dense classes: every byte; the larger ones (payloads, TOC): every byte in
        // thorough, else an even sample with a random phase sized to the budget
        let small_total: u64 = regions.iter().filter(|g| dense.contains(&g.class) && g.end - g.start <= 64).map(|g| g.end - g.start).sum();
        let large_total: u64 = regions.iter().filter(|g| dense.contains(&g.class) && g.end - g.start > 64).map(|g| g.end - g.start).sum();
        let _ = small_total;
        let large_share = (budget as u64 / 2).max(60);
        let step = if thorough { 1 } else { ((large_total + large_share - 1) / large_share).max(1) };
        for g in &regions {
            let span = g.end - g.start;
            let payload_class = [C_PAY_PLAIN, C_PAY_ZSTD, C_PAY_CHUNK, C_PAY_INACTIVE].contains(&g.class);
            // every copy of every payload: first byte, last byte (on top of the sample below)
            if payload_class { for o in [g.start, g.end - 1] { faults.push(Fault::Flip { off: o, bit: r.below(8) as u8 }); } }
            if sc.focus {
                // duplicate-payload scenarios: only the payload windows, each copy in turn
                if !payload_class { continue; }
                let k = if thorough { (span / 4).max(8) } else { 3 };
                for _ in 0..k.min(span) { faults.push(Fault::Flip { off: g.start + r.below(span), bit: r.below(8) as u8 }); }
                let (b0, b1) = (g.start / 64, (g.end - 1) / 64);
                let mut blocks = vec![b0, b1, b0 + r.below(b1 - b0 + 1)]; blocks.sort(); blocks.dedup();
                for bl in blocks { let (a, b) = ((bl * 64).max(g.start), (bl * 64 + 64).min(g.end)); faults.push(Fault::Zero { off: a, len: b - a }); }
                faults.push(Fault::Trunc { at: g.start + span / 2 });
                continue;
            }
            if g.class == C_WAL_SEQ { seq_regions += 1; }
            if [C_WAL_SEQ, C_WAL_LEN, C_WAL_RESERVED, C_WAL_DIGEST].contains(&g.class) && seq_regions > 1 && !thorough {
                // every byte of the first record's header fields, two of each field of the later records (a replayed record costs a full commit, ~1 s)
                for _ in 0..2 { faults.push(Fault::Flip { off: g.start + r.below(span), bit: r.below(8) as u8 }); }
            } else if dense.contains(&g.class) {
                let st = if span <= 64 { 1 } else { step };
                let mut o = g.start + if st > 1 { r.below(st.min(span)) } else { 0 };
                while o < g.end { faults.push(Fault::Flip { off: o, bit: r.below(8) as u8 }); o += st; }
            } else {
                let k = if thorough { (span / 4).max(8) } else { match g.class { C_WAL_SLACK | C_HDR_PAD => 5, C_UNREF | C_WAL_SENTINEL | C_HDR_LEGACY => 3, C_WAL_PAYLOAD | C_TANTIVY => 4, _ => 8 } };
                for _ in 0..k.min(span) { faults.push(Fault::Flip { off: g.start + r.below(span), bit: r.below(8) as u8 }); }
            }
            // the header's log fields decide by value: every bit of their two low bytes as well
            if [C_HDR_WAL_OFF, C_HDR_WAL_SIZE, C_HDR_WAL_SEQ].contains(&g.class) { for b in 0..2u64 { for bit in 0..8u8 { faults.push(Fault::Flip { off: g.start + b, bit }); } } }
            // zeroing of aligned 64-byte blocks: first, last and one random block of the region (quick: one random block and
            // one truncation point for the repeated regions: log records after the first, Tantivy segments after the first)
            let repeated = !thorough && (([C_WAL_SEQ, C_WAL_LEN, C_WAL_RESERVED, C_WAL_DIGEST, C_WAL_PAYLOAD].contains(&g.class) && seq_regions > 1) || (g.class == C_TANTIVY && { tantivy_regions += 1; tantivy_regions > 1 }));
            let (b0, b1) = (g.start / 64, (g.end - 1) / 64);
            let mut blocks = if repeated { vec![b0 + r.below(b1 - b0 + 1)] } else { vec![b0, b1, b0 + r.below(b1 - b0 + 1)] }; blocks.sort(); blocks.dedup();
            for bl in blocks { let (a, b) = ((bl * 64).max(g.start), (bl * 64 + 64).min(g.end)); faults.push(Fault::Zero { off: a, len: b - a }); }
            // truncation at the region's start -1, +0, +1
            for at in [g.start.saturating_sub(1), g.start, g.start + 1] { if at < sc.bytes.len() as u64 && (!repeated || at == g.start) { faults.push(Fault::Trunc { at }); } }
        }
        if !sc.focus {
            faults.push(Fault::Trunc { at: sc.bytes.len() as u64 - 1 });
            for _ in 0..6 { faults.push(Fault::Trunc { at: r.below(sc.bytes.len() as u64) }); }
        }
        let t0 = std::time::Instant::now();
        let results = run_workers(dir.path(), sc, &faults, workers);
        if debug { eprintln!("{}: {} faults in {} ms", sc.name, faults.len(), t0.elapsed().as_millis()); }
        for (k, f) in faults.iter().enumerate() {
            let o = match results[k].as_ref() { Some(o) => o, None => continue };
            let (kind, off, len) = match f { Fault::Flip { off, .. } => (0u128, *off, 1u64), Fault::Zero { off, len } => (1, *off, *len), Fault::Trunc { at } => (2, *at, 0) };
            let (class, frame) = class_at(&regions, off);
            let kname = ["flip", "zero", "trunc"][kind as usize];
            let silent = o.rw == Verdict::Diff || o.ro == Verdict::Diff;
            // a chunk's damaged payload: the only known residue is search falling back to search_text (every differing read is a search)
            let only_search = o.why.split("; ").filter(|p| p.starts_with("rw ") || p.starts_with("ro ")).all(|p| p[3..].split(", ").all(|n| n.starts_with("search[")));
            let tag = if class == C_PAY_CHUNK && only_search && o.verify != 0 { "payload-chunk-search-fallback" } else { class_name(class) };
            // since 55d5bb8 a changed payload of an active frame must also make verify(deep) fail (FramePayloadChecksums)
            let unseen = o.changed && kind != 2 && (class == C_PAY_PLAIN || class == C_PAY_ZSTD || class == C_PAY_CHUNK) && o.verify == 0;
            let viol = if unseen && !silent { Some(format!("{}: {} {:?} of {} {}-> verify(deep) = Passed on a file in which the stored payload of an active frame changed ({})", tag, kname, f, sc.name, frame.map(|x| format!("(frame {}) ", x)).unwrap_or_default(), o.why)) } else if silent { Some(format!("{}: {} {:?} of {} {}-> {}{}", tag, kname, f, sc.name, frame.map(|x| format!("(frame {}) ", x)).unwrap_or_default(), o.why, if o.verify == 0 { " [verify(deep) = Passed]" } else { "" })) } else { None };
            *summary.entry((sc.name.to_string(), format!("{}/{}", class_name(class), kname), format!("rw={:?} ro={:?} v={} ch={}", o.rw, o.ro, o.verify, o.changed))).or_default() += 1;
            if debug && (silent || o.ms[0] > 1500 || std::env::var("C20_ALL").is_ok()) { eprintln!("{} {:?} {} -> rw {:?} ro {:?} verify {} ({} ms) :: {}", sc.name, f, class_name(class), o.rw, o.ro, o.verify, o.ms[0], o.why); }
            let output = T::Tup(vec![T::N(vcode(o.rw)), T::N(vcode(o.ro)), T::N(o.verify as u128)]);
            let input = T::Tup(vec![T::N(class as u128), T::N(kind), T::B(o.changed), T::B(o.rewritten), output.clone()]);
            if let (Some(tm), true) = (&toc.time_index, class == C_TIME_INDEX && kind != 2) {
                if off >= tm.bytes_offset && off + len <= tm.bytes_offset + tm.bytes_length && o.changed {
                    let img = apply(&sc.bytes, f);
                    let trk = img[tm.bytes_offset as usize..(tm.bytes_offset + tm.bytes_length) as usize].to_vec();
                    let reads_ok = |v: Verdict| if v == Verdict::Error { 0u128 } else { 1 };
                    let ti_in = T::Tup(vec![T::H(trk), T::N(tm.bytes_length as u128), T::N(tm.entry_count as u128)]);
                    let mut ti_viol = None;
                    if reads_ok(o.rw) != reads_ok(o.ro) { ti_viol = Some(format!("time-index-modes-disagree: open and open_read_only disagree on a damaged time index ({:?} of {})", f, sc.name)); }
                    emit(w, "ti", &Case { input: ti_in, output: T::Tup(vec![T::N(reads_ok(o.rw)), T::N(if o.verify == 0 { 0 } else { 1 })]), violation: ti_viol, nontrivial: true, tags: vec![sc.name.into(), kname.into()], key: format!("ti:{}:{}:{}:{}", sc.name, kind, off, len) });
                }
            }
            let mut viol = viol;
            if o.orders != "-" {
                let img = apply(&sc.bytes, f);
                let wins: Vec<(Vec<u8>, Vec<u8>)> = toc.frames.iter().map(|fr| (if fr.payload_length > 0 { img[fr.payload_offset as usize..(fr.payload_offset + fr.payload_length) as usize].to_vec() } else { vec![] }, fr.checksum.to_vec())).collect();
                // what frame_canonical_payload(id) reads: its own window, or (chunked document) the windows of its active chunks in chunk order
                let deps: Vec<Vec<u64>> = toc.frames.iter().map(|fr| if fr.role == FrameRole::Document && fr.chunk_manifest.is_some() {
                    let mut ch: Vec<&memvid_core::types::Frame> = toc.frames.iter().filter(|c| c.status == FrameStatus::Active && c.role == FrameRole::DocumentChunk && c.parent_id == Some(fr.id)).collect();
                    ch.sort_by_key(|c| (c.chunk_index.unwrap_or(u32::MAX), c.id)); ch.iter().map(|c| c.id).collect() } else { vec![fr.id] }).collect();
                let mut table: Vec<(Vec<u8>, Vec<u8>)> = vec![];
                for (wb, _) in &wins { if !table.iter().any(|(k, _)| k == wb) { table.push((wb.clone(), blake3::hash(wb).as_bytes().to_vec())); } }
                let mut scheds: Vec<(String, Vec<(u64, u8)>)> = vec![]; let (mut vb, mut va) = (9u8, 9u8);
                for part in o.orders.split(';') {
                    let (name, val) = part.split_once('=').unwrap_or((part, ""));
                    match name { "vb" => vb = val.parse().unwrap_or(9), "va" => va = val.parse().unwrap_or(9),
                        _ => scheds.push((name.to_string(), val.split(',').filter(|x| !x.is_empty()).map(|x| { let (a, b) = x.split_once(':').unwrap(); (a.parse().unwrap(), b.parse().unwrap()) }).collect())) }
                }
                // ---- the property, per read and per schedule
                let mut oviol: Option<String> = None;
                for (name, steps) in &scheds { for (i, (id, code)) in steps.iter().enumerate() { if *code >= 2 && oviol.is_none() {
                    oviol = Some(format!("{}: {} {:?} of {} -> frame_canonical_payload({}) returned Ok with {} at step {} of read schedule '{}' ({:?})", class_name(class), kname, f, sc.name, id, if *code == 2 { "data different from what was committed" } else { "data where the clean file fails" }, i, name, steps)); } } }
                let active_payload = class == C_PAY_PLAIN || class == C_PAY_ZSTD || class == C_PAY_CHUNK;
                if oviol.is_none() && active_payload && (vb == 0 || va == 0) {
                    oviol = Some(format!("{}: {} {:?} of {} -> verify(deep) = Passed ({} the reads) on a file in which the stored payload of an active frame changed", class_name(class), kname, f, sc.name, if vb == 0 { "before" } else { "after" }));
                }
                if oviol.is_none() {
                    let mut seen: std::collections::BTreeMap<u64, u8> = Default::default();
                    'outer: for (name, steps) in &scheds { for (id, code) in steps { let e = seen.entry(*id).or_insert(*code); if *e != *code {
                        oviol = Some(format!("read-order-dependent: {} {:?} of {} -> frame_canonical_payload({}) answers {} in schedule '{}' but {} elsewhere (the read is stateless: the answer may depend only on the frame's bytes and TOC entry)", kname, f, sc.name, id, code, name, e)); break 'outer; } } }
                }
                if viol.is_none() { viol = oviol.clone(); }
                let o_in = T::Tup(vec![
                    T::L(wins.iter().map(|(a, b)| T::Tup(vec![T::H(a.clone()), T::H(b.clone())])).collect()),
                    T::L(deps.iter().map(|d| T::L(d.iter().map(|x| T::Nat(*x)).collect())).collect()),
                    T::L(scheds.iter().map(|(_, st)| T::L(st.iter().map(|(id, _)| T::Nat(*id)).collect())).collect()),
                    T::L(table.iter().map(|(k, d)| T::Tup(vec![T::H(k.clone()), T::H(d.clone())])).collect())]);
                let o_out = T::L(scheds.iter().map(|(_, st)| T::L(st.iter().map(|(_, c)| T::N(if *c == 0 { 0 } else { 1 })).collect())).collect());
                let ncopies = wins.iter().filter(|(wb, ck)| !wb.is_empty() && wins.iter().filter(|(_, c2)| c2 == ck).count() > 1).count();
                emit(w, "order", &Case { input: o_in, output: o_out, violation: oviol, nontrivial: true, tags: vec![sc.name.into(), class_name(class).into(), kname.into(), format!("dupwindows{}", ncopies.min(9)), format!("vb{}va{}", vb, va)], key: format!("order:{}:{}:{}:{}", sc.name, kind, off, len) });
            }
            emit(w, "fault", &Case { input, output, violation: viol, nontrivial: o.changed, tags: vec![sc.name.into(), class_name(class).into(), kname.into(), format!("rw-{:?}", o.rw), format!("ro-{:?}", o.ro), format!("verify-{}", o.verify)], key: format!("{}:{}:{}:{}", sc.name, kind, off, len) });
        }
    }
    if debug { for ((s, c, v), k) in &summary { eprintln!("{:10} {:28} {:44} {}", s, c, v, k); } }
}
