//! C38 SIMD L2 distance: memvid_core::simd::{l2_distance_squared_simd, l2_distance_simd}
//! against the binary32 model, bit for bit (u32 patterns; every NaN -> 0x7fc00000), plus the
//! property oracle evaluated on the implementation alone.
//!
//! Self-test of this check (off unless the environment variable is set): VERIF_C38_MUTANT=k
//! replaces the implementation by a lane-by-lane re-implementation with one seeded defect
//! (k = 0: no defect -- must agree with the real kernel and the model bit for bit;
//!  1 fused multiply-add, 2 tree-shaped horizontal sum, 3 remainder loop skips its first element,
//!  4 last full chunk dropped, 5 remainder reads b at the wrong offset, 6 sqrt missing,
//!  7 expanded form a*a - 2ab + b*b).  `VERIF_C38_MUTANT=k ./check C38` must fail for k >= 1.
use crate::term::*;
use memvid_core::simd::{l2_distance_simd, l2_distance_squared_simd};
use memvid_core::vec::{VecDocument, VecIndex};
use std::panic::{catch_unwind, AssertUnwindSafe};

const CANON_NAN: u32 = 0x7fc0_0000;
fn bits(x: f32) -> u32 { if x.is_nan() { CANON_NAN } else { x.to_bits() } }

/// The property's "scalar definition": the text of the cfg(not(feature = "simd")) fallback in
/// src/simd.rs (the default build does not compile it, so it is copied here).
fn scalar_sq(a: &[f32], b: &[f32]) -> f32 {
    a.iter().zip(b.iter()).map(|(x, y)| { let diff = x - y; diff * diff }).sum()
}

fn mutant() -> Option<u32> { std::env::var("VERIF_C38_MUTANT").ok().and_then(|s| s.parse().ok()) }

fn mutant_sq(a: &[f32], b: &[f32], m: u32) -> f32 {
    assert_eq!(a.len(), b.len());
    let len = a.len(); let chunks = len / 8; let remainder = len % 8;
    let mut sum = [0.0f32; 8];
    let nchunks = if m == 4 { chunks.saturating_sub(1) } else { chunks };
    for i in 0..nchunks {
        let off = i * 8;
        for k in 0..8 {
            let (x, y) = (a[off + k], b[off + k]);
            let d = x - y;
            sum[k] = match m { 1 => d.mul_add(d, sum[k]), 7 => sum[k] + ((x * x - 2.0 * x * y) + y * y), _ => sum[k] + d * d };
        }
    }
    let mut total: f32 = if m == 2 { ((sum[0] + sum[4]) + (sum[1] + sum[5])) + ((sum[2] + sum[6]) + (sum[3] + sum[7])) } else { sum.iter().sum() };
    let off = chunks * 8;
    for i in (if m == 3 { 1 } else { 0 })..remainder {
        let d = a[off + i] - if m == 5 { b[i] } else { b[off + i] };
        total += d * d;
    }
    total
}
fn impl_sq(a: &[f32], b: &[f32]) -> f32 { match mutant() { Some(m) => mutant_sq(a, b, m), None => l2_distance_squared_simd(a, b) } }
fn impl_d(a: &[f32], b: &[f32]) -> f32 { match mutant() { Some(6) => mutant_sq(a, b, 6), Some(m) => mutant_sq(a, b, m).sqrt(), None => l2_distance_simd(a, b) } }

// ---------------------------------------------------------------- component generators
fn sign(r: &mut Rng) -> f32 { if r.chance(1, 2) { -1.0 } else { 1.0 } }
fn pow2(e: i32) -> f32 { (2.0f64).powi(e) as f32 }

#[derive(Clone, Copy, PartialEq, Debug)]
enum Class { SmallInt, Unit, Wide, Subnormal, TinyNormal, Huge, Mixed, Wild, Grid }
const CLASSES: [Class; 9] = [Class::SmallInt, Class::Unit, Class::Wide, Class::Subnormal, Class::TinyNormal, Class::Huge, Class::Mixed, Class::Wild, Class::Grid];

fn component(r: &mut Rng, c: Class) -> f32 {
    match c {
        // integers -8..8: every intermediate is exact, so SIMD = scalar = the integer sum
        Class::SmallInt => (r.below(17) as i32 - 8) as f32,
        // uniform on the grid k/2^23 - 1 in [-1, 1]
        Class::Unit => (r.below((1 << 24) + 1) as f32) / 8_388_608.0 - 1.0,
        // 24-bit mantissa times 2^e, e in -60..60
        Class::Wide => { let e = r.below(121) as i32 - 60; let m = (r.below(1 << 24) | (1 << 23)) as f32 / 8_388_608.0; sign(r) * m * pow2(e) }
        // subnormal bit patterns (incl. 0 and the largest subnormal)
        Class::Subnormal => { let m = match r.below(8) { 0 => 0, 1 => 1, 2 => 0x007f_ffff, _ => r.below(0x0080_0000) as u32 }; f32::from_bits(m | ((r.below(2) as u32) << 31)) }
        // normals around 2^-64..2^-60 whose squares are subnormal or underflow (ties in the subnormal range)
        Class::TinyNormal => { let e = -(r.range(60, 76) as i32); let m = (r.below(1 << 24) | (1 << 23)) as f32 / 8_388_608.0; sign(r) * m * pow2(e) }
        // around 2^62..2^65: squares near and beyond f32::MAX (overflow to +inf)
        Class::Huge => { let e = r.range(61, 66) as i32; let m = (r.below(1 << 24) | (1 << 23)) as f32 / 8_388_608.0; sign(r) * m * pow2(e) }
        Class::Mixed => { let k = *r.pick(&[Class::SmallInt, Class::Unit, Class::Wide, Class::Subnormal, Class::TinyNormal]); component(r, k) }
        // any bit pattern: NaNs, infinities, -0.0, everything
        Class::Wild => match r.below(6) { 0 => f32::INFINITY, 1 => f32::NEG_INFINITY, 2 => f32::NAN, 3 => -0.0, 4 => f32::MAX * sign(r), _ => f32::from_bits(r.next() as u32) },
        // a coarse grid that makes halfway cases (round-to-even ties) frequent in the sums
        Class::Grid => { let k = r.below(9) as i32 - 4; let big = if r.chance(1, 3) { 4096.0 } else { 0.0 }; sign(r) * (big + k as f32 * 0.000_244_140_625 + if r.chance(1, 2) { 1.0 } else { 0.0 }) }
    }
}

fn gen_pair(r: &mut Rng, len: usize, c: Class, shape: u64) -> (Vec<f32>, Vec<f32>, &'static str) {
    let a: Vec<f32> = (0..len).map(|_| component(r, c)).collect();
    match shape {
        // independent vectors
        0..=5 => { let b = (0..len).map(|_| component(r, c)).collect(); (a, b, "independent") }
        // equal vectors
        6 | 7 => { let b = a.clone(); (a, b, "equal") }
        // one component differs (every lane / chunk / remainder position gets hit over the run)
        8 | 9 => {
            let mut b = a.clone();
            if len > 0 { let i = r.below(len as u64) as usize; let mut v = component(r, c); if v.to_bits() == b[i].to_bits() { v = component(r, Class::Unit); } b[i] = v; }
            (a, b, "one-differs")
        }
        // nearby vectors (b = a + small perturbation): heavy cancellation in a - b
        _ => { let b = a.iter().map(|x| x + x * pow2(-(r.range(1, 24) as i32)) * sign(r)).collect(); (a, b, "near") }
    }
}

fn tvec(v: &[f32]) -> T { T::L(v.iter().map(|x| T::N(x.to_bits() as u128)).collect()) }
fn key_of(a: &[f32], b: &[f32]) -> String {
    let mut h = blake3::Hasher::new();
    for x in a { h.update(&x.to_bits().to_le_bytes()); }
    h.update(b"|");
    for x in b { h.update(&x.to_bits().to_le_bytes()); }
    h.finalize().to_hex()[..16].to_string()
}

/// gamma_k = k u / (1 - k u), u = 2^-24
fn gamma(k: usize) -> f64 { let u = (2.0f64).powi(-24); (k as f64 * u) / (1.0 - k as f64 * u) }

/// The property, evaluated on the implementation's own outputs (no model involved).
fn oracle(a: &[f32], b: &[f32], sq: f32, d: f32, c: Class, tags: &mut Vec<String>) -> Option<String> {
    let n = a.len();
    let all_finite = a.iter().chain(b.iter()).all(|x| x.is_finite());
    // l2_distance_simd is the square root of the squared kernel
    if bits(d) != bits(sq.sqrt()) { return Some(format!("sqrt-mismatch: l2_distance_simd = {:08x} but sqrt(l2_distance_squared_simd) = {:08x}", bits(d), bits(sq.sqrt()))); }
    // symmetry, bit for bit
    let sq_r = impl_sq(b, a); let d_r = impl_d(b, a);
    if bits(sq_r) != bits(sq) || bits(d_r) != bits(d) {
        return Some(format!("asymmetric: d(a,b) = {:08x}/{:08x} but d(b,a) = {:08x}/{:08x}", bits(sq), bits(d), bits(sq_r), bits(d_r)));
    }
    // zero on equal finite vectors: exactly +0.0
    let equal = a.iter().zip(b.iter()).all(|(x, y)| x.to_bits() == y.to_bits());
    if equal && all_finite && (sq.to_bits() != 0 || d.to_bits() != 0) {
        return Some(format!("nonzero-on-equal: equal finite vectors give {:08x}/{:08x}, not +0.0", sq.to_bits(), d.to_bits()));
    }
    // never NaN, never negative (sign bit clear) on finite inputs
    if all_finite && (sq.is_nan() || d.is_nan() || sq.is_sign_negative() || d.is_sign_negative()) {
        return Some(format!("negative-or-nan: finite inputs give {:08x}/{:08x}", sq.to_bits(), d.to_bits()));
    }
    // equals the scalar definition up to rounding: TESTED (not proved) against the standard
    // bound for two summation orders of the same n non-negative terms: 2*gamma_{n+1} relative
    let s_sq = scalar_sq(a, b); let s_d = s_sq.sqrt();
    if sq.is_finite() && s_sq.is_finite() {
        let (x, y) = (sq as f64, s_sq as f64);
        let bound = 2.0 * gamma(n + 1) * y * (1.0 + 1e-12);
        if (x - y).abs() > bound { return Some(format!("beyond-rounding: squared simd {:e} vs scalar {:e}, |diff| {:e} > 2*gamma_{}*scalar = {:e}", x, y, (x - y).abs(), n + 1, bound)); }
        let (xd, yd) = (d as f64, s_d as f64);
        let bound_d = (2.0 * gamma(n + 1) + 2.0 * (2.0f64).powi(-24)) * yd * (1.0 + 1e-12);
        if (xd - yd).abs() > bound_d { return Some(format!("beyond-rounding: simd distance {:e} vs scalar {:e}, |diff| {:e} > {:e}", xd, yd, (xd - yd).abs(), bound_d)); }
        if bits(sq) != bits(s_sq) { tags.push("simd!=scalar-bits".into()); } else { tags.push("simd==scalar-bits".into()); }
    } else if sq.is_nan() != s_sq.is_nan() {
        return Some(format!("beyond-rounding: NaN on one side only: simd {:08x} scalar {:08x}", bits(sq), bits(s_sq)));
    } else { tags.push("nonfinite-result".into()); }
    // exact case: integer-valued components with an integer sum below 2^24 -> every intermediate
    // is exact, so both are exactly that integer
    let _ = c;
    if a.iter().chain(b.iter()).all(|x| x.fract() == 0.0 && x.abs() <= 2048.0) {
        let exact: i64 = a.iter().zip(b.iter()).map(|(x, y)| { let dd = *x as i64 - *y as i64; dd * dd }).sum();
        if exact < (1 << 24) {
            tags.push("exact-integers".into());
            if sq != exact as f32 || s_sq != exact as f32 { return Some(format!("inexact-on-integers: integer vectors with sum {} give simd {} scalar {}", exact, sq, s_sq)); }
        }
    }
    None
}

fn pick_len(r: &mut Rng) -> usize {
    match r.below(12) {
        0..=5 => r.below(101) as usize,
        6..=8 => *r.pick(&[0usize, 1, 7, 8, 9, 15, 16, 17, 23, 24, 25, 63, 64, 65, 95, 96, 97, 99, 100]),
        9 | 10 => r.below(33) as usize,
        _ => r.range(101, 160) as usize,
    }
}

pub fn run(seed: u64, n: usize, w: &mut dyn std::io::Write) {
    std::panic::set_hook(Box::new(|_| {}));
    let mut r = Rng::new(seed ^ 0xC38);
    // ---- kernel stream: every length 0..=100 once (class and shape rotate with the seed), then random
    let total = n.max(101 + 8);
    for k in 0..total {
        let (len, c, shape) = if k <= 100 {
            (k, CLASSES[(k + seed as usize) % CLASSES.len()], (k as u64 / 3 + seed) % 12)
        } else {
            (pick_len(&mut r), *r.pick(&CLASSES), r.below(12))
        };
        let (a, b, shape_tag) = gen_pair(&mut r, len, c, shape);
        let got = catch_unwind(AssertUnwindSafe(|| (impl_sq(&a, &b), impl_d(&a, &b))));
        let mut tags = vec![format!("class-{:?}", c), format!("shape-{}", shape_tag), format!("len%8={}", len % 8), format!("chunks-{}", (len / 8).min(13))];
        let (output, violation) = match got {
            Ok((sq, d)) => {
                let mut v = oracle(&a, &b, sq, d, c, &mut tags);
                if mutant() == Some(0) && (bits(sq) != bits(l2_distance_squared_simd(&a, &b)) || bits(d) != bits(l2_distance_simd(&a, &b))) {
                    v = Some("selftest: the lane-by-lane re-implementation disagrees with the real kernel".to_string());
                }
                // the caller in src/vec.rs: VecIndex::search on an uncompressed index reports this distance
                if v.is_none() && !a.is_empty() && mutant().is_none() {
                    let idx = VecIndex::Uncompressed { documents: vec![VecDocument { frame_id: 7, embedding: b.clone() }] };
                    let hits = idx.search(&a, 3);
                    if hits.len() != 1 || bits(hits[0].distance) != bits(d) {
                        v = Some(format!("caller-mismatch: VecIndex::search reports {:?}, l2_distance_simd {:08x}", hits.iter().map(|h| bits(h.distance)).collect::<Vec<_>>(), bits(d)));
                    }
                }
                (T::C("Ok", vec![T::Tup(vec![T::N(bits(sq) as u128), T::N(bits(d) as u128)])]), v)
            }
            Err(_) => (T::C("Panic", vec![T::N(0)]), Some("panic-on-equal-lengths: the kernel panicked on equal-length vectors".to_string())),
        };
        emit(w, "kernel", &Case { input: T::Tup(vec![tvec(&a), tvec(&b)]), output, violation, nontrivial: len >= 9 && len % 8 != 0, tags, key: key_of(&a, &b) });
    }
    // ---- unequal lengths: debug_assert_eq! panics (harness is a debug-profile build)
    for _ in 0..6 {
        let la = r.below(20) as usize; let mut lb = r.below(20) as usize; if lb == la { lb += 1; }
        let a: Vec<f32> = (0..la).map(|_| component(&mut r, Class::Unit)).collect();
        let b: Vec<f32> = (0..lb).map(|_| component(&mut r, Class::Unit)).collect();
        let got = catch_unwind(AssertUnwindSafe(|| (impl_sq(&a, &b), impl_d(&a, &b))));
        let output = match got { Ok((sq, d)) => T::C("Ok", vec![T::Tup(vec![T::N(bits(sq) as u128), T::N(bits(d) as u128)])]), Err(_) => T::C("Panic", vec![T::N(0)]) };
        emit(w, "kernel", &Case { input: T::Tup(vec![tvec(&a), tvec(&b)]), output, violation: None, nontrivial: false, tags: vec!["length-mismatch".into()], key: key_of(&a, &b) });
    }
    // ---- scalar stream: the model's scalar definition vs the fallback's text
    for _ in 0..(n / 8).max(12) {
        let len = pick_len(&mut r).min(100); let c = *r.pick(&CLASSES); let shape = r.below(12);
        let (a, b, shape_tag) = gen_pair(&mut r, len, c, shape);
        let s = scalar_sq(&a, &b);
        emit(w, "scalar", &Case { input: T::Tup(vec![tvec(&a), tvec(&b)]), output: T::Tup(vec![T::N(bits(s) as u128), T::N(bits(s.sqrt()) as u128)]), violation: None, nontrivial: len >= 2, tags: vec![format!("class-{:?}", c), format!("shape-{}", shape_tag)], key: key_of(&a, &b) });
    }
    // ---- single operations: hardware f32 +, -, *, sqrt vs Flocq binary32 on bit patterns
    for _ in 0..(n / 2).max(40) {
        let c1 = *r.pick(&CLASSES); let c2 = if r.chance(2, 3) { c1 } else { *r.pick(&CLASSES) };
        let x = component(&mut r, c1);
        let y = match r.below(6) { 0 => x, 1 => -x, 2 => f32::from_bits(x.to_bits() ^ 1), _ => component(&mut r, c2) };
        let (x, y) = (std::hint::black_box(x), std::hint::black_box(y));
        let out = T::Tup(vec![T::N(bits(x + y) as u128), T::N(bits(x - y) as u128), T::N(bits(x * y) as u128), T::N(bits(x.sqrt()) as u128)]);
        let mut v = None;
        // the two IEEE facts the symmetry theorem rests on, on the hardware
        if bits((x - y) * (x - y)) != bits((y - x) * (y - x)) { v = Some(format!("asymmetric: (x-y)^2 != (y-x)^2 for x={:08x} y={:08x}", x.to_bits(), y.to_bits())); }
        emit(w, "ops", &Case { input: T::Tup(vec![T::N(x.to_bits() as u128), T::N(y.to_bits() as u128)]), output: out, violation: v, nontrivial: x.is_finite() && y.is_finite(), tags: vec![format!("class-{:?}", c1)], key: format!("{:08x}{:08x}", x.to_bits(), y.to_bits()) });
    }
}
