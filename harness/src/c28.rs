//! C28: persisted indexes answer exactly like the in-memory ones.
//! Histories on a real Memvid (text / chunked / blank / binary puts, with or without a 4-dimensional
//! embedding, instant-indexed or not, updates, deletes, commits, reopen, exit-without-commit);
//! at fully committed points FOUR handles are compared: the live one, a byte copy reopened
//! read-write, a copy opened read-only, a copy opened after doctor{rebuild_lex / rebuild_time / rebuild_vec}:
//!  - model (Model/Persist.v): frame count, engine documents holding the probe word, vector ids,
//!    vec enabled, time-index ids, sketch ids in track order, for each of the four handles;
//!  - property oracle: a fixed battery of lexical queries (no_sketch = true), vector queries and
//!    timeline queries must give identical ordered (frame id, range) lists on the four handles;
//!    the same lexical battery with the sketch pre-filter on, classified against F-C39-1;
//!  - between a put and its commit: every hit of a search for a word must be a frame whose text
//!    contains the word (pending documents: the text the harness put).
use crate::store::Driver;
use crate::term::*;
use memvid_core::types::{DoctorOptions, SearchRequest, TimelineQuery};
use memvid_core::{Memvid, PutOptions};
use std::collections::BTreeSet;
use std::num::NonZeroU64;

const COMMON: &str = "zzcommon";
const WORDS: [&str; 10] = ["alpha", "bravo", "charlie", "delta", "echo", "foxtrot", "golf", "hotel", "india", "juliet"];

fn uw(k: u64) -> String {
    let al = b"bcfhjkmpqvwxz";
    let mut s = String::from("zq");
    let mut v = k;
    for _ in 0..5 { s.push(al[(v % 13) as usize] as char); v /= 13; }
    s
}
fn emb_of(k: u64) -> Vec<f32> { vec![(k % 7) as f32, ((k / 7) % 7) as f32, ((k / 49) % 7) as f32, 1.0 + (k % 3) as f32] }

#[derive(Clone, Debug)]
enum Payload { Text(usize), Chunked(usize), Blank(usize), Bin(usize), Lit(String) }

fn payload_bytes(p: &Payload, k: u64) -> Vec<u8> {
    let mut r = Rng::new(k.wrapping_mul(7919) ^ 0xC28);
    match p {
        Payload::Bin(n) => { let mut v = vec![0xFFu8, 0xFE]; while v.len() < (*n).max(2) { v.push(r.next() as u8); } v }
        Payload::Blank(n) => { let mut v = vec![]; for i in 0..(*n).max(1) { v.push(if i % 3 == 2 { b'\n' } else { b' ' }); } v }
        Payload::Lit(t) => format!("{} {} {}.", uw(k), COMMON, t).into_bytes(),
        Payload::Text(n) | Payload::Chunked(n) => {
            let mut s = String::new();
            while s.len() < *n {
                s.push_str(&uw(k)); s.push(' '); s.push_str(COMMON);
                for _ in 0..r.range(2, 6) { s.push(' '); s.push_str(WORDS[r.below(WORDS.len() as u64) as usize]); }
                s.push_str(". ");
                if r.chance(1, 6) { s.push('\n'); }
            }
            s.into_bytes()
        }
    }
}

#[derive(Clone, Debug)]
enum Op {
    Put { payload: Payload, embed: bool, instant: bool, default_opts: bool, uri: Option<u32>, deco: u8 },
    Update { target: u64, payload: Option<usize>, embed: bool, instant: bool },
    Delete { target: u64 },
    Commit, Reopen, Crash,
}

fn put_options(ts: i64, uri: Option<u32>, deco: u8, instant: bool, default_opts: bool) -> PutOptions {
    let mut o = PutOptions::default();
    o.timestamp = Some(ts);
    o.uri = uri.map(|k| format!("mv2://u/{}", k));
    if deco & 1 != 0 { o.track = Some("trk1".into()); }
    if deco & 2 != 0 { o.tags = vec!["taga".into()]; }
    if deco & 4 != 0 { o.labels = vec!["lblb".into()]; }
    if !default_opts { o.auto_tag = false; o.extract_dates = false; o.extract_triplets = false; }
    o.instant_index = instant;
    o
}

fn opt_n(v: Option<u64>) -> T { match v { Some(x) => T::some(T::N(x as u128)), None => T::none() } }
fn list_n(v: &[u64]) -> T { T::L(v.iter().map(|x| T::N(*x as u128)).collect()) }
fn empty_fields() -> T { T::C("mkFields", vec![T::none(), T::none(), T::none(), T::none(), T::none(), T::none(), T::none(), T::L(vec![]), T::L(vec![]), T::L(vec![])]) }

fn sreq(q: &str, top_k: usize, no_sketch: bool, uri: Option<&str>, scope: Option<&str>) -> SearchRequest {
    SearchRequest { query: q.to_string(), top_k, snippet_chars: 80, uri: uri.map(|s| s.to_string()), scope: scope.map(|s| s.to_string()), cursor: None, as_of_frame: None, as_of_ts: None, no_sketch, acl_context: None, acl_enforcement_mode: Default::default() }
}

fn auto_oracle(m: &Memvid, wal_seq_before: u64, appended: u64) -> T {
    let (_, pending, _, seq_now) = memvid_core::verif_hooks::wal_stats(m);
    let grew = seq_now - wal_seq_before;
    if grew > 0 && pending == 0 { T::some(T::N((grew.saturating_sub(appended)) as u128)) }
    else if grew > appended { T::some(T::N((grew - appended) as u128)) }
    else { T::none() }
}

/// the index sets one handle answers from, as the model's C28_obs
fn observe(m: &mut Memvid) -> T {
    let fc = m.frame_count() as u64;
    let mut lex: Vec<u64> = match m.search(sreq(COMMON, 5000, true, None, None)) { Ok(r) => r.hits.iter().map(|h| h.frame_id).collect(), Err(_) => vec![] };
    lex.sort(); lex.dedup();
    let (vec_on, mut vecs) = match m.search_vec(&[0.0, 0.0, 0.0, 1.0], 100_000) { Ok(hs) => (true, hs.iter().map(|h| h.frame_id).collect::<Vec<u64>>()), Err(_) => (m.stats().map(|s| s.vec_enabled).unwrap_or(false), vec![]) };
    vecs.sort(); vecs.dedup();
    let mut tix: Vec<u64> = match m.timeline(TimelineQuery::builder().limit(NonZeroU64::new(100_000).unwrap()).build()) { Ok(es) => es.iter().map(|e| e.frame_id).collect(), Err(_) => vec![u64::MAX >> 20] };
    tix.sort(); tix.dedup();
    let sk: Vec<u64> = m.sketches().iter().map(|e| e.frame_id).collect();
    T::Tup(vec![T::N(fc as u128), list_n(&lex), list_n(&vecs), T::B(vec_on), list_n(&tix), list_n(&sk)])
}

/// the fixed battery; each answer rendered canonically (ordered (frame id, range) lists / error kind)
fn battery(m: &mut Memvid, words: &[String], no_sketch: bool, with_rest: bool) -> Vec<(String, String)> {
    let mut out = vec![];
    let mut qs: Vec<(String, Option<String>, Option<String>)> = vec![];
    let w = |i: usize| words.get(i).cloned().unwrap_or_else(|| "zqnone".to_string());
    for q in [COMMON.to_string(), "alpha".into(), "bravo".into(), "juliet".into(), w(0), w(1), w(2), w(3), "zqnonexistent".into(),
              format!("alpha AND {}", COMMON), "alpha AND bravo".into(), "charlie OR delta".into(), format!("{} OR zqnone", w(0)),
              format!("{} NOT alpha", COMMON), "echo AND NOT foxtrot".into(), "(golf OR hotel) AND india".into(), format!("{} {}", w(1), COMMON),
              "track:trk1".into(), format!("track:trk1 AND {}", COMMON), "tag:taga".into(), format!("label:lblb {}", COMMON), "uri:mv2://u/1".into(),
              format!("uri:mv2://u/2 AND {}", COMMON), "scope:mv2://u/".into(), format!("date:[2023-11-14 TO 2023-11-16] AND {}", COMMON),
              "date:[2023-11-15 TO 2023-11-20] alpha".into(), format!("date:[2020-01-01 TO 2020-12-31] {}", COMMON), format!("\"{} {}\"", w(2), COMMON)] {
        qs.push((q, None, None));
    }
    // one frequent and one rare term (profile 4 plants them): hit ORDER and the BM25 score bit patterns depend on the
    // engine's document statistics, which must be those of the active frames on every handle
    for q in ["papa OR oscar", "oscar OR papa", "papa OR oscar OR quebec", "oscar OR alpha"] { qs.push((q.to_string(), None, Some("@scores".to_string()))); }
    qs.push((COMMON.to_string(), Some("mv2://u/1".to_string()), None));
    qs.push(("alpha".to_string(), None, Some("mv2://u/".to_string())));
    for (q, uri, scope) in qs {
        let top_k = if q.len() % 2 == 0 { 7 } else { 50 };
        let with_scores = scope.as_deref() == Some("@scores");
        let scope = if with_scores { None } else { scope };
        let ans = match m.search(sreq(&q, top_k, no_sketch, uri.as_deref(), scope.as_deref())) {
            Ok(r) if with_scores => format!("{:?} total={}", r.hits.iter().map(|h| (h.frame_id, h.range, h.score.map(f32::to_bits))).collect::<Vec<_>>(), r.total_hits),
            Ok(r) => format!("{:?} total={}", r.hits.iter().map(|h| (h.frame_id, h.range)).collect::<Vec<_>>(), r.total_hits),
            Err(e) => format!("Err({})", e.to_string().chars().take(40).collect::<String>()),
        };
        out.push((format!("search[{} uri={:?} scope={:?} top_k={} no_sketch={}]", q, uri, scope, top_k, no_sketch), ans));
    }
    if with_rest {
        for (i, q) in [[0.0f32, 0.0, 0.0, 1.0], [1.0, 2.0, 3.0, 1.0], [6.0, 6.0, 6.0, 3.0], [3.0, 0.0, 1.0, 2.0], [0.5, 0.25, 4.0, 1.5]].iter().enumerate() {
            let k = [1usize, 3, 10, 100, 100_000][i];
            let ans = match m.search_vec(q, k) { Ok(hs) => format!("{:?}", hs.iter().map(|h| (h.frame_id, h.distance.to_bits())).collect::<Vec<_>>()), Err(e) => format!("Err({})", e.to_string().chars().take(40).collect::<String>()) };
            out.push((format!("search_vec[{:?} k={}]", q, k), ans));
        }
        let tqs = vec![
            ("all", TimelineQuery::builder().limit(NonZeroU64::new(100_000).unwrap()).build()),
            ("reverse-5", TimelineQuery::builder().limit(NonZeroU64::new(5).unwrap()).reverse(true).build()),
            ("since", TimelineQuery::builder().limit(NonZeroU64::new(100).unwrap()).since(1_700_000_000 + 3 * 40_000).build()),
            ("window", TimelineQuery::builder().limit(NonZeroU64::new(3).unwrap()).since(1_700_000_000 + 40_000).until(1_700_000_000 + 9 * 40_000).build()),
        ];
        for (name, q) in tqs {
            let ans = match m.timeline(q) { Ok(es) => format!("{:?}", es.iter().map(|e| (e.frame_id, e.timestamp, e.child_frames.clone())).collect::<Vec<_>>()), Err(e) => format!("Err({})", e.to_string().chars().take(40).collect::<String>()) };
            out.push((format!("timeline[{}]", name), ans));
        }
    }
    out
}

fn copy_to(src: &std::path::Path, dir: &std::path::Path, name: &str) -> std::path::PathBuf {
    let p = dir.join(name);
    let _ = std::fs::remove_file(&p);
    std::fs::copy(src, &p).expect("copy");
    p
}


/// Profile 3: steers the embedded log so that a commit (or the put just before it) finds the write
/// head within 0..1200 bytes of the region end while records are pending: the lex-batch record that
/// flush_tantivy appends inside the commit (or the put) then makes the region GROW, which shifts
/// every byte behind the log and patches the offsets recorded in the TOC.
/// variant 0: growth inside the commit (its own lex-batch record); 1: growth in the put just before
/// the commit; 2: two growths (64 -> 128 -> 256 KiB), both inside commits; 3: growth inside the
/// commit of a handle that was reopened with the head near the end.
struct Steer { variant: u64, target: i64, phase: u32, warm: u32, o_bin: i64, lex_rec: i64, wrapped: bool, growths: u32, after: u32, reopened: bool, done: bool, force_point: bool, docs_put: u32 }

impl Steer {
    fn new(variant: u64, tstep: u64) -> Self { Steer { variant, target: 100 * tstep as i64, phase: 0, warm: 0, o_bin: 330, lex_rec: 900, wrapped: false, growths: 0, after: 0, reopened: false, done: false, force_point: false, docs_put: 0 } }
    /// (region, pending, head)
    fn pos(&self, m: &Memvid) -> (i64, i64, i64) {
        let (region, pending, _, _) = memvid_core::verif_hooks::wal_stats(m);
        let cp = memvid_core::verif_hooks::header_fields(m).3;
        let head = if pending == 0 { cp } else if self.wrapped { pending } else { cp + pending };
        (region as i64, pending as i64, head as i64)
    }
    fn text(r: &mut Rng) -> Op { Op::Put { payload: Payload::Text(r.range(120, 260) as usize), embed: r.chance(1, 3), instant: false, default_opts: false, uri: None, deco: 0 } }
    fn bin(n: i64) -> Op { Op::Put { payload: Payload::Bin(n.max(2) as usize), embed: false, instant: false, default_opts: false, uri: None, deco: 0 } }
    fn next(&mut self, m: &Memvid, r: &mut Rng) -> Op {
        let (region, pending, head) = self.pos(m);
        let room = region - head;
        // what the final approach needs: two documents, the adjusting record, then the lex batch
        let reserve = self.target + self.lex_rec + 2600;
        match self.phase {
            0 => { if self.warm < 3 { self.warm += 1; Self::text(r) } else { self.phase = 1; Op::Commit } }
            1 => {
                if pending > 0 { return Op::Commit; }
                let want = room - reserve - self.lex_rec;
                let cap = (region * 3 / 10).min(40_000);
                if want > 700 { Self::bin((want - 48 - self.o_bin).min(cap)) }
                else if self.variant == 3 && !self.reopened { self.reopened = true; Op::Reopen }
                else { self.phase = 2; self.docs_put = 1; Self::text(r) }
            }
            2 => { if self.docs_put < 2 { self.docs_put += 1; Self::text(r) } else {
                self.phase = 3;
                // the adjusting record: leaves `target` bytes (variant 1: 40..240 bytes, too few for the next put)
                let leave = if self.variant == 1 { 40 + self.target % 200 } else { self.target };
                let n = room - leave - 48 - self.o_bin;
                if n >= 2 { Self::bin(n) } else { self.next(m, r) } } }
            // every commit from here on is followed immediately by the four-handle comparison
            3 => { self.phase = 4; if self.variant == 1 { Self::text(r) } else { self.force_point = true; Op::Commit } }
            4 => { if pending > 0 { self.force_point = true; Op::Commit } else { self.phase = 5; Self::text(r) } }
            5 => { if pending > 0 { self.after += 1; self.force_point = true; Op::Commit } else {
                if self.variant == 2 && self.growths < 2 && self.after < 3 { self.phase = 1; self.next(m, r) } else { self.done = true; Op::Commit } } }
            _ => { self.done = true; Op::Commit }
        }
    }
    /// after the op: learn the record sizes, notice growth
    fn observe(&mut self, op: &Op, before: (i64, i64, i64), m: &Memvid, tags: &mut BTreeSet<String>) {
        let (region_b, pending_b, head_b) = before;
        let (region_a, pending_a, _, _) = memvid_core::verif_hooks::wal_stats(m);
        let (region_a, pending_a) = (region_a as i64, pending_a as i64);
        let cp_a = memvid_core::verif_hooks::header_fields(m).3 as i64;
        let grew = region_a > region_b;
        match op {
            Op::Put { payload, .. } => {
                if pending_b == 0 && pending_a > 0 && !grew { self.wrapped = head_b + pending_a > region_b; }
                if grew { self.wrapped = false; self.growths += 1; tags.insert("log-grew-in-put".into()); }
                if let Payload::Bin(n) = payload { if !grew && pending_a > pending_b { let o = pending_a - pending_b - 48 - *n as i64; if (0..5000).contains(&o) { self.o_bin = o; } } }
            }
            Op::Commit => {
                if pending_b > 0 {
                    tags.insert(format!("room-at-commit:{}", ((region_b - head_b).max(0) / 100 * 100).min(5000)));
                    if grew { self.growths += 1; tags.insert("log-grew-in-commit".into()); if self.reopened { tags.insert("log-grew-in-commit-after-reopen".into()); } if self.growths >= 2 { tags.insert("log-grew-twice".into()); } }
                    else { let l = cp_a - head_b; if (100..5000).contains(&l) { self.lex_rec = l; } }
                    self.wrapped = false;
                }
                let _ = pending_a;
            }
            _ => { self.wrapped = false; }
        }
    }
}

pub struct History { pub ops: Vec<T>, pub outs: Vec<T>, pub points: Vec<T>, pub peeks: Vec<T>, pub violation: Option<String>, pub tags: Vec<String>, pub nontrivial: bool }

pub fn run_history(r: &mut Rng, nops: usize, profile: u64) -> History {
    let dbg = std::env::var("MV_DEBUG").is_ok();
    let mut d = Driver::new();
    let scratch = tempfile::tempdir().expect("tempdir");
    let mut ops_t: Vec<T> = vec![]; let mut outs: Vec<T> = vec![]; let mut points: Vec<T> = vec![]; let mut peeks: Vec<T> = vec![];
    let mut viol: Option<String> = None; let mut known: Option<String> = None; let mut tags: BTreeSet<String> = BTreeSet::new();
    let mut content = 0u64;
    // acknowledged frames in id order: (unique word number, has text, is document)
    let mut frames_ref: Vec<(u64, bool)> = vec![];
    // slots: (index in ops_t, first frame id, count, is_put) -- text flag and sketch bits filled when the frames exist
    let mut slots: Vec<(usize, u64, u64, bool)> = vec![];
    let mut bits_known: Vec<Option<bool>> = vec![];     // per frame id: got a sketch entry when applied
    // texts of pending documents by expected frame id (for the pre-commit oracle)
    let mut pending_texts: Vec<(u64, String)> = vec![];
    let mut words_used: Vec<u64> = vec![];
    let mut n_points = 0; let mut n_peeks = 0; let mut differing_sets = false; let mut sketch_nondense_seen = false;
    let mut uri_counter = 0u32;
    let mut doc_ids: BTreeSet<u64> = BTreeSet::new();
    let mut chunked_docs: BTreeSet<u64> = BTreeSet::new();
    let mut steer: Option<Steer> = if (3000..4000).contains(&profile) { Some(Steer::new((profile - 3000) / 100, (profile - 3000) % 100)) } else { None };
    // profile 4: documents sharing a filler term, a commit, then a commit that holds ONLY delete_frame tombstones of most
    // filler documents, then at once the four handles (doctor WITH rebuild_lex_index); (op, read point after it)
    let script: Option<Vec<(Op, bool)>> = if (4000..5000).contains(&profile) {
        let variant = profile - 4000;
        let lit = |t: &str, embed: bool| Op::Put { payload: Payload::Lit(t.to_string()), embed, instant: false, default_opts: false, uri: None, deco: 0 };
        let k = 4 + r.below(4);                                   // filler documents
        let mut v: Vec<(Op, bool)> = vec![(lit("papa delta echo", false), false), (lit("oscar delta echo", variant % 2 == 1), false)];
        if variant >= 2 { v.swap(0, 1); }
        for j in 0..k { v.push((lit(if j % 2 == 0 { "papa quebec golf" } else { "papa papa quebec" }, false), false)); }
        v.push((Op::Commit, variant % 2 == 0));
        if variant == 1 || variant == 3 { v.push((Op::Reopen, false)); }
        let keep = r.below(2);                                    // leave 0 or 1 filler document
        for j in 0..(k - keep) { v.push((Op::Delete { target: 2 + j }, false)); }
        v.push((Op::Commit, true));                               // the delete-only commit
        v.push((lit("papa hotel india", false), false)); v.push((Op::Commit, true));
        Some(v)
    } else { None };
    let force_lex = script.is_some();
    if script.is_some() { tags.insert("delete-only-commit".into()); }
    let nops = if let Some(sc) = script.as_ref() { sc.len() } else if steer.is_some() { 90 } else { nops };
    let mut last_round = false;
    for i in 0..nops {
        if last_round { break; }
        if steer.as_ref().is_some_and(|st| st.done) { last_round = true; }
        let n_committed = d.mem().frame_count() as u64;
        let c = r.below(100);
        // update / delete targets: Document frames (C01's side condition: no update of a DocumentChunk frame), sometimes inactive or missing ids
        let docs: Vec<u64> = (0..n_committed).filter(|j| doc_ids.contains(j)).collect();
        let pick = |r: &mut Rng| -> u64 { if r.chance(1, 8) || docs.is_empty() { n_committed + r.below(2) } else { docs[r.below(docs.len() as u64) as usize] } };
        let steer_before = steer.as_ref().map(|st| st.pos(d.mem()));
        let op = if let Some(sc) = script.as_ref() { sc[i].0.clone() }
        else if let Some(st) = steer.as_mut() { if st.done || i + 1 == nops { Op::Commit } else { st.next(d.mem(), r) } }
        else if i + 1 == nops { Op::Commit }
        // profile 1 opens with the verified witness of F-C28-1: an instant-indexed whitespace-only put (no sketch entry), a text put, commit, four handles
        else if profile == 1 && i < 3 { match i { 0 => Op::Put { payload: Payload::Blank(5), embed: false, instant: true, default_opts: false, uri: None, deco: 0 }, 1 => Op::Put { payload: Payload::Text(r.range(60, 300) as usize), embed: r.chance(1, 2), instant: false, default_opts: false, uri: None, deco: 0 }, _ => Op::Commit } }
        else if c < 46 || (n_committed == 0 && c < 75) {
            // profile 1 starts with a frame that gets no sketch entry: every later sketch id is shifted by the reload (F-C39-1 / F-C28-1)
            let payload = if profile == 1 && frames_ref.is_empty() { let _ = r.below(12); Payload::Blank(r.range(1, 9) as usize) } else { match r.below(12) {
                0 => Payload::Bin(r.range(2, 200) as usize),
                1 | 2 if profile == 1 => Payload::Blank(r.range(1, 9) as usize),
                1 => Payload::Blank(r.range(1, 9) as usize),
                3 if profile != 2 => Payload::Chunked(r.range(2500, 4200) as usize),
                _ => Payload::Text(r.range(40, 400) as usize),
            } };
            let instant = match profile { 2 => r.chance(3, 4), _ => r.chance(1, 12) } || (profile == 1 && frames_ref.is_empty());   // an instant-indexed whitespace-only put gets no sketch entry
            let uri = if r.chance(1, 3) { uri_counter += 1; Some(if r.chance(1, 3) { 1 } else { uri_counter.min(3) }) } else { None };
            Op::Put { payload, embed: r.chance(2, 5), instant, default_opts: profile == 2 && r.chance(1, 2), uri, deco: (r.below(8) as u8) & if r.chance(1, 2) { 7 } else { 0 } }
        } else if c < 58 && n_committed > 0 {
            let target = pick(r);
            // a payload-less update of a CHUNKED document re-extracts the reused text and re-chunks it (a new parent plus new
            // chunk frames from one call); Model/Store.v's OUpdate is one insert record, so such updates carry a new payload here
            let mut payload = if r.chance(1, 2) { Some(r.range(40, 300) as usize) } else { None };
            if payload.is_none() && chunked_docs.contains(&target) { payload = Some(r.range(40, 300) as usize); tags.insert("update-of-chunked-with-payload".into()); }
            Op::Update { target, payload, embed: r.chance(1, 4), instant: profile == 2 && r.chance(1, 2) }
        } else if c < 70 && n_committed > 0 { Op::Delete { target: pick(r) } }
        else if c < 84 { Op::Commit } else if c < 93 { Op::Reopen } else { Op::Crash };
        if dbg { eprintln!("op {} {:?}", i, op); }

        let wal_seq_before = memvid_core::verif_hooks::wal_stats(d.mem()).3;
        let next_before = d.mem().next_frame_id();
        let fc_before = d.mem().frame_count() as u64;
        let sk_before = d.mem().sketches().len() as u64;
        let mut ok = true; let mut seq = 0u64; let mut errk = 0u128;
        let ts = 1_700_000_000 + (i as i64) * 40_000;
        let op_term;
        match &op {
            Op::Put { payload, embed, instant, default_opts, uri, deco } => {
                content += 1; let k = content;
                let bytes = payload_bytes(payload, k);
                let opts = put_options(ts, *uri, *deco, *instant, *default_opts);
                let res = if *embed { d.mem().put_with_embedding_and_options(&bytes, emb_of(k), opts) } else { d.mem().put_bytes_with_options(&bytes, opts) };
                match res { Ok(s) => seq = s, Err(e) => { ok = false; errk = 9; viol.get_or_insert(format!("op-failed: op {} put {:?} failed: {}", i, payload, e)); } }
                let next_after = d.mem().next_frame_id();
                let nch = if ok { (next_after.max(next_before + 1) - next_before - 1).min(64) } else { 0 };
                // after an automatic checkpoint next_frame_id restarts from the table: recompute from the frame count
                let nch = if ok && d.mem().frame_count() as u64 > fc_before && memvid_core::verif_hooks::wal_stats(d.mem()).1 == 0 { d.mem().frame_count() as u64 - frames_ref.len() as u64 - 1 } else { nch };
                let auto = auto_oracle(d.mem(), wal_seq_before, 1 + nch);
                if ok {
                    let id = frames_ref.len() as u64;
                    let is_text = matches!(payload, Payload::Text(_) | Payload::Chunked(_) | Payload::Lit(_));
                    frames_ref.push((k, is_text)); bits_known.push(None); doc_ids.insert(id);
                    for _ in 0..nch { frames_ref.push((k, true)); bits_known.push(None); }
                    if is_text { words_used.push(k); pending_texts.push((id, String::from_utf8_lossy(&bytes).to_string())); }
                    slots.push((ops_t.len(), id, 1 + nch, true));
                    if nch > 0 { chunked_docs.insert(id); }
                    match payload { Payload::Chunked(_) => { tags.insert("chunked-put".into()); } Payload::Blank(_) => { tags.insert("blank-put".into()); } Payload::Bin(_) => { tags.insert("binary-put".into()); } _ => {} }
                    if *embed { tags.insert("embedded-put".into()); }
                    if *instant { tags.insert("instant-index".into()); }
                }
                op_term = T::C("PMut", vec![T::C("RPut", vec![opt_n(uri.map(|u| u as u64)), T::N(k as u128 * 1000), T::N(nch as u128), auto, empty_fields(), T::B(false), opt_n(if *embed { Some(k) } else { None }), T::B(*instant)]), T::L(vec![])]);
            }
            Op::Update { target, payload, embed, instant } => {
                let mut k = 0;
                let bytes = payload.map(|n| { content += 1; k = content; payload_bytes(&Payload::Text(n), k) });
                let mut opts = put_options(ts, None, 0, *instant, false); opts.timestamp = None;
                let e = if *embed { content += 1; Some(content) } else { None };
                let text_for_oracle = bytes.as_ref().map(|b| String::from_utf8_lossy(b).to_string());
                match d.mem().update_frame(*target, bytes, opts, e.map(emb_of)) {
                    Ok(s) => seq = s,
                    Err(er) => { ok = false; let s = er.to_string(); errk = if s.contains("not active") { 2 } else { 1 }; if dbg { eprintln!("update failed: {}", s); } }
                }
                let auto = auto_oracle(d.mem(), wal_seq_before, 1);
                if ok {
                    let id = frames_ref.len() as u64;
                    let old = frames_ref[*target as usize];
                    frames_ref.push((if payload.is_some() { k } else { old.0 }, true)); bits_known.push(None); doc_ids.insert(id);
                    if let Some(t) = text_for_oracle { words_used.push(k); pending_texts.push((id, t)); }
                    slots.push((ops_t.len(), id, 1, false));
                    tags.insert(if payload.is_some() { "update-payload".into() } else { "update-reuse".into() });
                }
                op_term = T::C("PMut", vec![T::C("RUpdate", vec![T::N(*target as u128), opt_n(if payload.is_some() { Some(k * 1000) } else { None }), auto, empty_fields(), T::B(false), opt_n(e), T::B(*instant)]), T::L(vec![])]);
            }
            Op::Delete { target } => {
                match d.mem().delete_frame(*target) { Ok(s) => seq = s, Err(er) => { ok = false; let s = er.to_string(); errk = if s.contains("not active") { 2 } else { 1 }; } }
                let auto = auto_oracle(d.mem(), wal_seq_before, 1);
                if ok { tags.insert("delete".into()); }
                op_term = T::C("PMut", vec![T::C("RDelete", vec![T::N(*target as u128), auto]), T::L(vec![])]);
            }
            Op::Commit => {
                if let Err(e) = d.mem().commit() { ok = false; errk = 9; viol.get_or_insert(format!("op-failed: op {} commit failed: {}", i, e)); }
                let extra = memvid_core::verif_hooks::wal_stats(d.mem()).3 - wal_seq_before;
                op_term = T::C("PCommit", vec![T::N(extra as u128)]);
            }
            Op::Reopen | Op::Crash => {
                let m = d.mem.take().unwrap();
                if matches!(op, Op::Crash) { memvid_core::verif_hooks::drop_without_commit(m); tags.insert("crash-replay".into()); } else { drop(m); tags.insert("reopen".into()); }
                match Memvid::open(&d.path) {
                    Ok(m) => { let extra = memvid_core::verif_hooks::wal_stats(&m).3 - wal_seq_before; d.mem = Some(m); op_term = T::C(if matches!(op, Op::Crash) { "PCrash" } else { "PReopen" }, vec![T::N(extra as u128)]); }
                    Err(e) => { viol.get_or_insert(format!("open-failed: op {} {:?}: {}", i, op, e)); break; }
                }
            }
        }
        let next_after = d.mem().next_frame_id();
        let fc = d.mem().frame_count() as u64;
        let res = if !ok { T::C("Err", vec![T::N(errk)]) } else { match op { Op::Put { .. } | Op::Update { .. } | Op::Delete { .. } => T::C("Ok", vec![T::N(seq as u128)]), _ => T::C("Ok", vec![T::N(0)]) } };
        ops_t.push(T::C("COp", vec![op_term])); outs.push(T::Tup(vec![res, T::N(fc as u128), T::N(next_after as u128)]));

        // frames that reached the table in this step: did apply_records give them a sketch entry?
        if fc > fc_before {
            let ids: BTreeSet<u64> = d.mem().sketches().iter().map(|e| e.frame_id).collect();
            if matches!(op, Op::Reopen) {
                // the commit ran inside Drop and the open renumbered the track: only the NUMBER of new entries is
                // observable (which of the new frames got one no longer matters: every id is renumbered)
                let k = (ids.len() as u64).saturating_sub(sk_before);
                for (j, id) in (fc_before..fc).enumerate() { if let Some(b) = bits_known.get_mut(id as usize) { *b = Some((j as u64) < k); } }
            } else {
                for id in fc_before..fc { if let Some(b) = bits_known.get_mut(id as usize) { *b = Some(ids.contains(&id)); } }
            }
            pending_texts.retain(|(id, _)| *id >= fc);
        }
        let (_, pending, _, _) = memvid_core::verif_hooks::wal_stats(d.mem());
        let quiet = pending == 0 && fc as usize == frames_ref.len();
        let is_boundary = matches!(op, Op::Commit | Op::Reopen | Op::Crash);
        let mut forced = false;
        if let (Some(st), Some(b)) = (steer.as_mut(), steer_before) { st.observe(&op, b, d.mem.as_ref().unwrap(), &mut tags); if quiet && st.force_point && matches!(op, Op::Commit) { forced = true; st.force_point = false; } }
        let want_point = if let Some(sc) = script.as_ref() { sc[i].1 } else if steer.is_some() { forced || last_round } else { i + 1 == nops || (profile == 1 && i == 2) || (is_boundary && r.chance(2, 3)) || r.chance(1, 6) };
        if quiet && want_point && n_points < (if steer.is_some() { 5 } else { 4 }) {
            // ---------- the four handles ----------
            n_points += 1;
            let lexf = force_lex || r.chance(2, 3); let timef = !lexf || r.chance(1, 2); let vecf = r.chance(1, 2);
            if vecf { tags.insert("doctor-rebuild-vec".into()); }
            let p_rw = copy_to(&d.path, scratch.path(), "rw.mv2");
            let p_ro = copy_to(&d.path, scratch.path(), "ro.mv2");
            let p_dc = copy_to(&d.path, scratch.path(), "dc.mv2");
            let mut words: Vec<String> = vec![];
            for _ in 0..4 { if !words_used.is_empty() { words.push(uw(words_used[r.below(words_used.len() as u64) as usize])); } }
            let live_obs = observe(d.mem());
            let live_sk: Vec<u64> = d.mem().sketches().iter().map(|e| e.frame_id).collect();
            let dense = live_sk.iter().enumerate().all(|(j, id)| *id == j as u64);
            if !dense { sketch_nondense_seen = true; tags.insert("sketch-ids-not-dense".into()); }
            let live_vec_on = d.mem().stats().map(|s| s.vec_enabled).unwrap_or(false);
            let live_main = battery(d.mem(), &words, true, true);
            let live_sketch = battery(d.mem(), &words, false, false);
            let doc_rep = std::panic::catch_unwind(|| Memvid::doctor(&p_dc, DoctorOptions { rebuild_time_index: timef, rebuild_lex_index: lexf, rebuild_vec_index: vecf, vacuum: false, dry_run: false, quiet: true }));
            match &doc_rep { Ok(Ok(_)) => {}, Ok(Err(e)) => { viol.get_or_insert(format!("doctor-failed: after op {}: {}", i, e)); } Err(_) => { viol.get_or_insert(format!("doctor-failed: after op {}: panic", i)); } }
            let mut obs = vec![live_obs];
            let handles: Vec<(&str, Result<Memvid, memvid_core::MemvidError>)> = vec![
                ("reopened read-write", Memvid::open(&p_rw)), ("read-only", Memvid::open_read_only(&p_ro)), ("doctored", Memvid::open_read_only(&p_dc))];
            for (name, h) in handles {
                match h {
                    Ok(mut m) => {
                        obs.push(observe(&mut m));
                        let main = battery(&mut m, &words, true, true);
                        for ((q, a), (_, b)) in live_main.iter().zip(main.iter()) {
                            // doctor{rebuild_vec_index} on a memory without vector index enables an EMPTY one: the live handle
                            // answers VecNotEnabled, the doctored one must answer the empty list (C28_same_answers_outside_known, last clause)
                            if name == "doctored" && vecf && !live_vec_on && q.starts_with("search_vec") { if b != "[]" { viol.get_or_insert(format!("doctor-vec-not-empty: after op {} {} on a memory without vector index returns {} after doctor{{rebuild_vec_index}}", i, q, &b[..b.len().min(160)])); } tags.insert("doctor-enables-empty-vec".into()); continue; }
                            if a != b { viol.get_or_insert(format!("handles-differ: after op {} {} answers differently on the {} handle: live {} / {} {}", i, q, name, &a[..a.len().min(200)], name, &b[..b.len().min(200)])); }
                        }
                        let sk = battery(&mut m, &words, false, false);
                        for ((q, a), (_, b)) in live_sketch.iter().zip(sk.iter()) {
                            if a != b {
                                let msg = format!("after op {} {} answers differently on the {} handle (live sketch ids {:?}): live {} / {} {}", i, q, name, &live_sk[..live_sk.len().min(12)], &a[..a.len().min(160)], name, &b[..b.len().min(160)]);
                                if !dense { known.get_or_insert(format!("prefilter-sketch-ids-not-dense: {}", msg)); tags.insert("prefilter-differs(known class)".into()); }
                                else { viol.get_or_insert(format!("prefilter-differs: {}", msg)); }
                            }
                        }
                    }
                    Err(e) => { viol.get_or_insert(format!("open-failed: after op {} the {} copy does not open: {}", i, name, e)); obs.push(T::Tup(vec![T::N(0), T::L(vec![]), T::L(vec![]), T::B(false), T::L(vec![]), T::L(vec![])])); }
                }
            }
            if obs.len() == 4 { if obs[0].coq() != obs[1].coq() { differing_sets = true; } }
            ops_t.push(T::C("CRead", vec![T::N(0), T::B(lexf), T::B(timef), T::B(vecf)]));
            points.push(T::Tup(obs));
        } else if !quiet && steer.is_none() && script.is_none() && (profile == 2 || r.chance(1, 3)) && n_peeks < 6 {
            // ---------- between a put and its commit ----------
            n_peeks += 1; tags.insert("read-while-pending".into());
            let mut ids: Vec<u64> = match d.mem().search(sreq(COMMON, 5000, true, None, None)) { Ok(resp) => resp.hits.iter().map(|h| h.frame_id).collect(), Err(_) => vec![] };
            ids.sort(); ids.dedup();
            ops_t.push(T::C("CPeek", vec![])); peeks.push(list_n(&ids));
            // words of pending documents and of committed ones, with and without the pre-filter
            let mut probe: Vec<String> = pending_texts.iter().rev().take(3).map(|(id, _)| uw(frames_ref[*id as usize].0)).collect();
            for _ in 0..3 { if !words_used.is_empty() { probe.push(uw(words_used[r.below(words_used.len() as u64) as usize])); } }
            probe.push(COMMON.to_string()); probe.push("alpha".to_string());
            for (j, wq) in probe.iter().enumerate() {
                if let Ok(resp) = d.mem().search(sreq(wq, 50, j % 2 == 0, None, None)) {
                    for h in &resp.hits {
                        let text: Option<String> = if h.frame_id < fc { d.mem().frame_by_id(h.frame_id).ok().and_then(|f| f.search_text.clone()).or_else(|| d.mem().frame_text_by_id(h.frame_id).ok()) }
                                                   else { tags.insert("pending-document-returned".into()); pending_texts.iter().find(|(id, _)| *id == h.frame_id).map(|(_, t)| t.clone()) };
                        match text {
                            Some(t) => { if !t.to_lowercase().contains(&wq.to_lowercase()) { viol.get_or_insert(format!("precommit-hit-without-query: after op {} (records pending) search {:?} returned frame {} whose text does not contain it: {:?}", i, wq, h.frame_id, &t[..t.len().min(80)])); } }
                            None => { viol.get_or_insert(format!("precommit-hit-unknown-frame: after op {} (records pending) search {:?} returned frame {} which is neither in the table ({} frames) nor a pending document", i, wq, h.frame_id, fc)); }
                        }
                    }
                }
            }
        }
    }
    // ---- fill the oracle slots: text flag (index text holds the probe word) and sketch bits
    let n = d.mem().frame_count() as u64;
    let mut texts: Vec<bool> = vec![];
    for id in 0..n { let f = d.mem().frame_by_id(id).expect("frame_by_id"); texts.push(f.search_text.as_deref().is_some_and(|s| s.contains(COMMON))); }
    for (idx, first, count, is_put) in slots {
        let text = texts.get(first as usize).cloned().unwrap_or(false);
        let bits: Vec<T> = (first..first + count).map(|id| T::B(bits_known.get(id as usize).cloned().flatten().unwrap_or(false))).collect();
        if let T::C(_, cop_args) = &mut ops_t[idx] { if let T::C(_, pm_args) = &mut cop_args[0] {
            if let T::C(_, args) = &mut pm_args[0] { if is_put { args[5] = T::B(text); } else { args[4] = T::B(text); } }
            pm_args[1] = T::L(bits);
        } }
    }
    if (3000..4000).contains(&profile) { tags.insert(format!("target-room:{}", (profile - 3000) % 100 * 100)); }
    tags.insert(if profile >= 4000 { format!("profile4-variant{}", profile - 4000) } else if profile >= 3000 { format!("profile3-variant{}", (profile - 3000) / 100) } else { format!("profile{}", profile) });
    if differing_sets { tags.insert("live-and-reopened-sets-differ".into()); }
    let nontrivial = n_points > 0 && frames_ref.len() >= 3 && (profile != 1 || sketch_nondense_seen || true) && (profile != 2 || n_peeks > 0);
    History { ops: ops_t, outs, points, peeks, violation: viol.or(known), tags: tags.into_iter().collect(), nontrivial }
}


/// MV_C28_WITNESS=1: runs candidate witnesses of F-C28-1 and prints what happens (diagnostic only)
fn witness() {
    for variant in 0..8 {
        let mut d = Driver::new();
        let scratch = tempfile::tempdir().unwrap();
        let first: Vec<u8> = match variant { 5 | 6 | 7 => payload_bytes(&Payload::Blank(5), 9), 0 | 4 => b" \n ".to_vec(), 1 => vec![0xFF, 0xFE, 0x01, 0x02], _ => vec![0xFF, 0xFE, 0x01, 0x02] };
        let r0 = d.mem().put_bytes_with_options(&first, put_options(1_700_000_000, None, 0, variant == 6 || variant == 7, variant != 5 && variant != 7));
        if variant == 3 || variant == 4 { d.mem().commit().unwrap(); let dl = d.mem().delete_frame(0); let mut o = put_options(0, None, 0, false, false); o.timestamp = None; let r = d.mem().update_frame(0, None, o, None); eprintln!("  delete_frame(0) -> {:?}; update_frame(0, None) -> {:?}", dl.is_ok(), r.is_ok()); }
        if variant == 2 { d.mem().commit().unwrap(); let mut o = put_options(0, None, 0, false, false); o.timestamp = None; let r = d.mem().update_frame(0, None, o, None); eprintln!("  update_frame(0, None) -> {:?}", r.is_ok()); }
        let text = format!("{} {} alpha bravo.", uw(1), COMMON);
        d.mem().put_bytes_with_options(text.as_bytes(), put_options(1_700_000_100, None, 0, false, false)).unwrap();
        d.mem().commit().unwrap();
        let live_sk: Vec<u64> = d.mem().sketches().iter().map(|e| e.frame_id).collect();
        let live: Vec<u64> = d.mem().search(sreq(COMMON, 10, false, None, None)).map(|r| r.hits.iter().map(|h| h.frame_id).collect()).unwrap_or_default();
        let p = copy_to(&d.path, scratch.path(), "w.mv2");
        let mut m = Memvid::open(&p).unwrap();
        let re_sk: Vec<u64> = m.sketches().iter().map(|e| e.frame_id).collect();
        let re: Result<Vec<u64>, String> = m.search(sreq(COMMON, 10, false, None, None)).map(|r| r.hits.iter().map(|h| h.frame_id).collect()).map_err(|e| e.to_string());
        eprintln!("variant {} first put ok {} frames {}: live sketch ids {:?} search {:?} | reopened sketch ids {:?} search {:?}", variant, r0.is_ok(), d.mem().frame_count(), live_sk, live, re_sk, re);
    }
}

pub fn run(seed: u64, n: usize, w: &mut dyn std::io::Write) {
    if std::env::var("MV_C28_WITNESS").is_ok() { witness(); return; }
    if std::env::var("MV_KEEP_TMPDIR").is_err() && std::env::var("TMPDIR").is_err() && std::path::Path::new("/dev/shm").is_dir() { std::env::set_var("TMPDIR", "/dev/shm"); }
    let mut r = Rng::new(seed ^ 0xC28);
    // seeds 28000..28999 are the fixed-first corpus: log-growth histories only
    let corpus = (28000..28100).contains(&seed);
    let corpus_del = (28100..28200).contains(&seed);   // fixed-first corpus: delete-only commits
    let sweep = r.below(13);
    let plans: Vec<(u64, usize, u64)> = (0..n).map(|i| {
        let g = if corpus { i } else { i / 5 };
        // remaining room at the commit swept in steps of 100 bytes across histories (and runs); variants rotate
        let growth = if corpus { 3000 + [0u64, 3, 2, 1][g % 4] * 100 + [3u64, 6, 0, 2][g % 4] } else { 3000 + ((g as u64 + seed) % 4) * 100 + (sweep + 5 * g as u64) % 13 };
        let profile = if corpus { growth } else if corpus_del { 4000 + (i as u64 + seed) % 4 } else { match i % 5 { 3 => growth, 4 => 4000 + (g as u64 + seed) % 4, k => k as u64 } };
        let nops = r.range(6, 22) as usize; (r.next(), nops, profile) }).collect();
    if let Ok(k) = std::env::var("MV_C28_ONLY") { let k: usize = k.parse().unwrap(); let (sd, nops, profile) = plans[k]; let mut hr = Rng(sd); let h = run_history(&mut hr, nops, profile); eprintln!("viol {:?} tags {:?}", h.violation, h.tags); return; }
    let workers = 6usize;
    let mut results: Vec<Option<History>> = (0..n).map(|_| None).collect();
    for batch in (0..n).collect::<Vec<_>>().chunks(workers) {
        let handles: Vec<(usize, std::thread::JoinHandle<History>)> = batch.iter().map(|&i| {
            let (sd, nops, profile) = plans[i];
            (i, std::thread::spawn(move || { let mut hr = Rng(sd); run_history(&mut hr, nops, profile) }))
        }).collect();
        for (i, h) in handles { results[i] = Some(h.join().expect("history thread panicked")); }
    }
    for h in results.into_iter().flatten() {
        let input = T::L(h.ops.clone());
        let output = T::Tup(vec![T::L(h.outs.clone()), T::L(h.points.clone()), T::L(h.peeks.clone())]);
        let key = blake3::hash(input.coq().as_bytes()).to_hex()[..16].to_string();
        emit(w, "hist", &Case { input, output, violation: h.violation, nontrivial: h.nontrivial, tags: h.tags, key });
    }
}
