//! C13 exact nearest neighbours: the public VecIndex API (stream "api", "nan") and
//! histories on real memories (stream "mem": put_with_embedding / delete / commit /
//! reopen / search_vec).  Distances handed to the Coq model are the values the real kernel
//! (memvid_core::simd::l2_distance_simd) returns, as bit patterns; the property oracle
//! recomputes the answer by brute force from the same kernel and is tolerant to ties
//! exactly as the property is.
use crate::store::*;
use crate::term::*;
use memvid_core::simd::l2_distance_simd;
use memvid_core::vec::{VecIndex, VecIndexBuilder};
use memvid_core::MemvidError;
use std::collections::HashMap;
use std::panic::{catch_unwind, AssertUnwindSafe};

/// distinct float vectors of one case, numbered by bit pattern
struct Pool { ids: HashMap<Vec<u32>, u64>, vecs: Vec<Vec<f32>> }
impl Pool {
    fn new() -> Self { Pool { ids: HashMap::new(), vecs: vec![] } }
    fn id(&mut self, v: &[f32]) -> u64 {
        let k: Vec<u32> = v.iter().map(|x| x.to_bits()).collect();
        if let Some(i) = self.ids.get(&k) { return *i; }
        let i = self.vecs.len() as u64; self.ids.insert(k, i); self.vecs.push(v.to_vec()); i
    }
    fn emb(&mut self, v: &[f32]) -> T { let i = self.id(v); T::Tup(vec![T::N(v.len() as u128), T::N(i as u128)]) }
    /// rows of the distance table for the given queries: every pooled vector of the query's dimension
    fn table(&self, queries: &[u64]) -> T {
        let mut seen = std::collections::HashSet::new();
        let mut rows = vec![];
        for q in queries {
            if !seen.insert(*q) { continue; }
            let qv = &self.vecs[*q as usize];
            let mut row = vec![];
            if !qv.is_empty() {
                for (i, v) in self.vecs.iter().enumerate() {
                    if v.len() == qv.len() { row.push(T::Tup(vec![T::N(i as u128), key_term(l2_distance_simd(qv, v))])); }
                }
            }
            rows.push(T::Tup(vec![T::N(*q as u128), T::L(row)]));
        }
        T::L(rows)
    }
}

/// did the mutating call end with an automatic checkpoint (= a commit)?  read from the driver's oracle term
fn auto_commit(obs: &StepObs) -> bool {
    obs.auto_committed || matches!(&obs.op_term, T::C(_, args) if matches!(args.last(), Some(T::O(Some(_)))))
}

fn key_term(d: f32) -> T { if d.is_nan() { T::none() } else { T::some(T::N(d.to_bits() as u128)) } }
fn hits_term(h: &[(u64, f32)]) -> T { T::L(h.iter().map(|(f, d)| T::Tup(vec![T::N(*f as u128), key_term(*d)])).collect()) }
fn ok(t: T) -> T { T::C("Ok", vec![t]) }
fn err(k: u128) -> T { T::C("Err", vec![T::N(k)]) }
fn panic_t() -> T { T::C("Panic", vec![T::N(0)]) }
fn err_kind(e: &MemvidError) -> u128 {
    match e { MemvidError::VecNotEnabled => 1, MemvidError::VecDimensionMismatch { .. } => 2, MemvidError::InvalidToc { .. } => 3, _ => 99 }
}

#[derive(Clone, Copy, PartialEq)]
enum Style { Tern, SmallInt, Binary, Uniform, Extreme, Nan }

fn gen_comp(r: &mut Rng, s: Style) -> f32 {
    match s {
        Style::Tern => (r.below(3) as i32 - 1) as f32,
        Style::SmallInt => (r.below(7) as i32 - 3) as f32,
        Style::Binary => r.below(2) as f32,
        Style::Uniform => ((r.next() >> 40) as f32 / (1u64 << 23) as f32) - 1.0,
        // finite extremes and +-inf: with finite queries the distances are finite, +inf, never NaN
        Style::Extreme => *r.pick(&[f32::MAX, -f32::MAX, f32::MIN_POSITIVE, 1e-45, -1e-45, 1e38, -1e38, 0.0, -0.0, 1.0, -1.0, 1.8446743e19, 3.4e38, 1.0e-20]),
        Style::Nan => *r.pick(&[f32::NAN, f32::INFINITY, f32::NEG_INFINITY, 0.0, 1.0, -2.0, 3.0, f32::MAX, 0.5]),
    }
}
fn gen_vec(r: &mut Rng, dim: usize, s: Style) -> Vec<f32> { (0..dim).map(|_| gen_comp(r, s)).collect() }
fn pick_dim(r: &mut Rng) -> usize {
    match r.below(10) { 0..=3 => *r.pick(&[1usize, 2, 3, 4, 7, 8, 9, 15, 16, 17, 31, 32, 33, 63, 64]), 4..=6 => r.range(1, 8) as usize, _ => r.range(1, 64) as usize }
}
fn pick_style(r: &mut Rng) -> Style {
    match r.below(10) { 0..=2 => Style::Tern, 3..=4 => Style::SmallInt, 5 => Style::Binary, 6..=8 => Style::Uniform, _ => Style::Extreme }
}
fn pick_k(r: &mut Rng, m: usize) -> u64 {
    match r.below(9) { 0 => 0, 1 => 1, 2 => m.saturating_sub(1) as u64, 3 => m as u64, 4 => m as u64 + 5, 5 => u64::MAX, 6 => m as u64 + 1, _ => r.below(m as u64 + 2) }
}

/// the property on one answer, from the brute-force distances `all` (frame, distance) in index
/// order; returns the first failure.  Tie order is NOT demanded (the property does not).
fn nn_oracle(all: &[(u64, f32)], k: u64, hits: &[(u64, f32)]) -> Option<String> {
    let m = all.len();
    let want = (k.min(m as u64)) as usize;
    if hits.len() != want { return Some(format!("count: {} hits returned, min(k={}, m={}) = {} expected", hits.len(), k, m, want)); }
    // every hit is a distinct document of the index with the kernel's distance
    let mut used = vec![false; m];
    for (f, d) in hits {
        match (0..m).find(|i| !used[*i] && all[*i].0 == *f && all[*i].1.to_bits() == d.to_bits()) {
            Some(i) => used[i] = true,
            None => return Some(format!("membership: hit (frame {}, distance {:?}) is not an unused (frame, kernel distance) pair of the index", f, d)),
        }
    }
    for i in 0..hits.len() { for j in i + 1..hits.len() { if hits[i].1 > hits[j].1 {
        return Some(format!("order: hit {} (frame {}, {:?}) comes before hit {} (frame {}, {:?})", i, hits[i].0, hits[i].1, j, hits[j].0, hits[j].1)); } } }
    if let Some(last) = hits.last() {
        for i in 0..m { if !used[i] && all[i].1 < last.1 {
            return Some(format!("omitted-closer: frame {} at distance {:?} is omitted although the last of {} hits (frame {}) is at {:?}", all[i].0, all[i].1, hits.len(), last.0, last.1)); } }
    }
    None
}

/// class tag of a failure: only the kinds a known finding explains are put into its class
/// (an empty embedding explains panics and dimension-check failures, a NaN distance explains
/// order failures and sort panics); anything else keeps its own tag and is reported as new
fn classify(all: &[(u64, f32)], has_empty: bool, what: String) -> String {
    let kind = what.split(':').next().unwrap_or("").to_string();
    if has_empty && matches!(kind.as_str(), "panic" | "rejected" | "wrong-dim-accepted") { format!("empty-embedding: {}", what) }
    else if all.iter().any(|(_, d)| d.is_nan()) && matches!(kind.as_str(), "panic" | "order" | "omitted-closer") { format!("nan-distance: {}", what) }
    else { what }
}

// ------------------------------------------------------------------ stream api / nan
fn api_case(r: &mut Rng, nan: bool, w: &mut dyn std::io::Write) {
    let mut pool = Pool::new();
    let mut tags: Vec<String> = vec![];
    let m = match r.below(100) { 0..=4 => 0usize, 5..=9 => 1, 10..=34 => r.range(2, 8) as usize, 35..=74 => r.range(9, 40) as usize, 75..=92 => r.range(41, 120) as usize, _ => r.range(121, 300) as usize };
    let m = if nan { m.min(60) } else { m };
    let dim = pick_dim(r);
    let style = if nan { Style::Nan } else { pick_style(r) };
    let dup = r.chance(1, 3);
    let mixed = !nan && r.chance(1, 12) && m >= 2;
    let mut docs: Vec<(u64, Vec<f32>)> = vec![];
    let idmode = r.below(6);
    for i in 0..m {
        let v = if dup && !docs.is_empty() && r.chance(3, 10) { docs[r.below(docs.len() as u64) as usize].1.clone() } else { gen_vec(r, dim, style) };
        let fid = match idmode { 0 => (m - 1 - i) as u64, 1 => r.below(m as u64 / 2 + 1), 2 => i as u64 * 7 + 3, _ => i as u64 };
        docs.push((fid, v));
    }
    if mixed { let i = r.below(m as u64) as usize; let d2 = if r.chance(1, 3) { 0 } else if r.chance(1, 2) { dim + 1 } else { dim.saturating_sub(1) }; docs[i].1 = gen_vec(r, d2, style); tags.push("mixed-dim".into()); }
    tags.push(format!("m{}", match m { 0 => "0", 1 => "1", 2..=8 => "2-8", 9..=40 => "9-40", 41..=120 => "41-120", _ => "121-300" }));
    tags.push(format!("dim{}", match dim { 1 => "1", 2..=7 => "2-7", 8..=16 => "8-16", 17..=32 => "17-32", _ => "33-64" }));
    tags.push(match style { Style::Tern => "tern", Style::SmallInt => "smallint", Style::Binary => "binary", Style::Uniform => "uniform", Style::Extreme => "extreme", Style::Nan => "naninf" }.into());
    if dup { tags.push("dup-vectors".into()); }

    // the implementation: builder -> artifact -> decode
    let mut b = VecIndexBuilder::new();
    for (f, v) in &docs { b.add_document(*f, v.clone()); }
    let artifact = b.finish().expect("finish");
    let index = VecIndex::decode(&artifact.bytes).expect("decode");
    let mut viol: Option<String> = None;
    // reopen equality at this level: the decoded index holds the documents bit for bit, in order
    let back: Vec<(u64, Vec<u32>)> = index.entries().map(|(f, e)| (f, e.iter().map(|x| x.to_bits()).collect())).collect();
    let orig: Vec<(u64, Vec<u32>)> = docs.iter().map(|(f, e)| (*f, e.iter().map(|x| x.to_bits()).collect())).collect();
    if back != orig { viol = Some("roundtrip: VecIndex::decode(finish().bytes) does not hold the documents that were added".into()); }
    let want_len = 8 + docs.iter().map(|(_, e)| 16 + 4 * e.len()).sum::<usize>();
    if artifact.bytes.len() != want_len { viol = Some(format!("roundtrip: artifact has {} bytes, {} expected", artifact.bytes.len(), want_len)); }

    let nq = r.range(2, 5);
    let mut qterms = vec![]; let mut qids = vec![]; let mut outs = vec![]; let mut nontrivial = false;
    for _ in 0..nq {
        let qk = r.below(12);
        let q: Vec<f32> = match qk {
            0 if m > 0 => docs[r.below(m as u64) as usize].1.clone(),
            1 => vec![],
            2 => gen_vec(r, dim + 1, style),
            3 if dim > 1 => gen_vec(r, dim - 1, style),
            4 if !nan => gen_vec(r, dim, Style::SmallInt),
            _ => { let st = if nan && r.chance(1, 2) { Style::SmallInt } else { style }; gen_vec(r, dim, st) }
        };
        let k = pick_k(r, m);
        let qid = pool.id(&q);
        for (_, v) in &docs { pool.id(v); }
        qids.push(qid);
        qterms.push(T::Tup(vec![T::Tup(vec![T::N(q.len() as u128), T::N(qid as u128)]), T::N(k as u128)]));
        let res = catch_unwind(AssertUnwindSafe(|| index.search(&q, k as usize)));
        let same_dim = docs.iter().all(|(_, v)| v.len() == q.len());
        match res {
            Err(_) => {
                if same_dim {
                    let all: Vec<(u64, f32)> = docs.iter().map(|(f, v)| (*f, l2_distance_simd(&q, v))).collect();
                    viol.get_or_insert(classify(&all, false, format!("panic: VecIndex::search panicked although all {} documents have the query's dimension (k = {})", m, k)));
                    if all.iter().any(|(_, d)| d.is_nan()) { tags.push("nan-distance".into()); tags.push("sort-panic".into()); }
                }
                // outside the guard the model cannot say whether std's sort notices the broken order: not compared
                if nan { qterms.pop(); qids.pop(); } else { outs.push(panic_t()); }
            }
            Ok(h) => {
                let hits: Vec<(u64, f32)> = h.iter().map(|x| (x.frame_id, x.distance)).collect();
                if nan {
                    let mut c = hits.clone();
                    c.sort_by(|a, b| a.0.cmp(&b.0).then_with(|| { let ka = if a.1.is_nan() { 1u64 << 32 } else { a.1.to_bits() as u64 }; let kb = if b.1.is_nan() { 1u64 << 32 } else { b.1.to_bits() as u64 }; ka.cmp(&kb) }));
                    outs.push(ok(T::Tup(vec![T::N(hits.len() as u128), if k >= m as u64 { hits_term(&c) } else { T::L(vec![]) }])));
                } else { outs.push(ok(hits_term(&hits))); }
                if same_dim && !q.is_empty() {
                    let all: Vec<(u64, f32)> = docs.iter().map(|(f, v)| (*f, l2_distance_simd(&q, v))).collect();
                    if let Some(wh) = nn_oracle(&all, k, &hits) { viol.get_or_insert(classify(&all, false, wh)); }
                    if all.iter().any(|(_, d)| d.is_nan()) { tags.push("nan-distance".into()); }
                    if m >= 2 && k >= 1 { nontrivial = true; }
                    let mut ds: Vec<u32> = all.iter().map(|x| x.1.to_bits()).collect(); ds.sort(); ds.dedup();
                    if ds.len() < all.len() { tags.push("ties".into()); }
                } else if q.is_empty() && !hits.is_empty() { viol.get_or_insert("empty-query: hits returned for an empty query".into()); }
            }
        }
    }
    tags.sort(); tags.dedup();
    let docs_t = T::L(docs.iter().map(|(f, v)| T::Tup(vec![T::N(*f as u128), pool.emb(v)])).collect());
    let input = T::Tup(vec![docs_t, T::L(qterms), pool.table(&qids)]);
    let key = blake3::hash(input.coq().as_bytes()).to_hex()[..16].to_string();
    if nan {
        emit(w, "nan", &Case { input, output: T::L(outs), violation: viol, nontrivial, tags, key });
    } else {
        let output = T::Tup(vec![T::N(artifact.vector_count as u128), T::N(artifact.dimension as u128), T::L(outs)]);
        emit(w, "api", &Case { input, output, violation: viol, nontrivial, tags, key });
    }
}

// ------------------------------------------------------------------ stream mem
struct RefIndex { committed: Vec<(u64, Vec<f32>)>, pending_put: Vec<(u64, Vec<f32>)>, pending_del: Vec<u64>, dirty: bool }
impl RefIndex {
    /// what a commit does to the set of active embedded frames (index order = insertion order)
    fn commit(&mut self) {
        if !self.dirty { return; }
        let del = std::mem::take(&mut self.pending_del);
        self.committed.retain(|(f, _)| !del.contains(f));
        self.committed.append(&mut self.pending_put);
        self.dirty = false;
    }
}

/// one search_vec call on the real memory: records the model op and the implementation's answer,
/// and evaluates the property against the reference set of active embedded frames
fn do_search(d: &mut Driver, pool: &mut Pool, rf: &RefIndex, q: &[f32], k: u64, ops: &mut Vec<T>, outs: &mut Vec<T>, qids: &mut Vec<u64>, viol: &mut Option<String>, has_empty: bool, nontrivial: &mut bool)
    -> Option<Result<Vec<(u64, f32)>, u128>> {
    let qid = pool.id(q); qids.push(qid);
    ops.push(T::C("VSearch", vec![T::Tup(vec![T::N(q.len() as u128), T::N(qid as u128)]), T::N(k as u128)]));
    let res = catch_unwind(AssertUnwindSafe(|| d.mem().search_vec(q, k as usize)));
    let m = rf.committed.len();
    let idx_dim = rf.committed.first().map(|(_, v)| v.len());
    let uniform = rf.committed.iter().all(|(_, v)| Some(v.len()) == idx_dim);
    let all: Vec<(u64, f32)> = if uniform && idx_dim == Some(q.len()) { rf.committed.iter().map(|(f, v)| (*f, l2_distance_simd(q, v))).collect() } else { vec![] };
    match res {
        Err(_) => {
            outs.push(panic_t());
            viol.get_or_insert(classify(&all, has_empty, format!("panic: search_vec panicked (query dimension {}, {} active embedded frames, k = {})", q.len(), m, k)));
            None
        }
        Ok(Err(e)) => {
            let kd = err_kind(&e); outs.push(err(kd));
            if m > 0 && idx_dim == Some(q.len()) && uniform {
                viol.get_or_insert(classify(&all, has_empty, format!("rejected: search_vec returned '{}' for a query of the index dimension {} over {} active embedded frames", e, q.len(), m)));
            }
            Some(Err(kd))
        }
        Ok(Ok(h)) => {
            let hits: Vec<(u64, f32)> = h.iter().map(|x| (x.frame_id, x.distance)).collect();
            outs.push(ok(hits_term(&hits)));
            if m > 0 && idx_dim != Some(q.len()) && uniform {
                viol.get_or_insert(classify(&all, has_empty, format!("wrong-dim-accepted: a query of dimension {} was answered over an index of dimension {:?}", q.len(), idx_dim)));
            } else if m > 0 && uniform {
                if let Some(wh) = nn_oracle(&all, k, &hits) { viol.get_or_insert(classify(&all, has_empty, wh)); }
                if m >= 2 && k >= 1 { *nontrivial = true; }
            } else if m == 0 && !hits.is_empty() {
                viol.get_or_insert(classify(&all, has_empty, format!("count: {} hits over an index without active embedded frames", hits.len())));
            }
            Some(Ok(hits))
        }
    }
}

/// a fixed history through the corners of the dimension logic: empty memory, pending only,
/// committed, wrong dimension, delete everything (dimension forgotten), another dimension, reopen
fn scripted_history(w: &mut dyn std::io::Write) {
    let mut d = Driver::new(); let mut pool = Pool::new();
    let mut rf = RefIndex { committed: vec![], pending_put: vec![], pending_del: vec![], dirty: false };
    let mut ops: Vec<T> = vec![]; let mut outs: Vec<T> = vec![]; let mut qids: Vec<u64> = vec![];
    let mut viol: Option<String> = None; let mut nontrivial = false; let mut uri = 0u32;
    enum S { Put(Option<Vec<f32>>), Del(u64), Commit, Reopen, Search(Vec<f32>, u64) }
    let script = vec![
        S::Search(vec![1.0, 2.0], 3), S::Put(None), S::Search(vec![1.0, 2.0], 3),
        S::Put(Some(vec![1.0, 0.0])), S::Put(Some(vec![0.0, 3.0])), S::Search(vec![1.0, 2.0], 3), S::Search(vec![1.0, 2.0, 3.0], 3),
        S::Commit, S::Search(vec![1.0, 2.0], 1), S::Search(vec![1.0, 2.0], 5), S::Search(vec![1.0], 5), S::Search(vec![], 5), S::Put(Some(vec![1.0, 2.0, 3.0])),
        S::Del(1), S::Search(vec![1.0, 2.0], 5), S::Del(2), S::Commit, S::Search(vec![1.0, 2.0], 5), S::Search(vec![1.0, 2.0, 3.0], 5), S::Search(vec![], 5),
        S::Reopen, S::Search(vec![1.0, 2.0], 5), S::Search(vec![4.0], 2),
        S::Put(Some(vec![1.0, 2.0, 2.0])), S::Put(Some(vec![1.0, 2.0])), S::Search(vec![1.0, 2.0], 5), S::Commit, S::Search(vec![1.0, 2.0, 3.0], 5), S::Search(vec![1.0, 2.0], 5),
        S::Reopen, S::Search(vec![1.0, 2.0, 3.0], 5),
    ];
    for st in script {
        match st {
            S::Put(emb) => {
                uri += 1;
                let obs = d.step(&Op::Put { kind: PayloadKind::Bin, size: 12, uri: Some(uri), ts: 1_700_000_000 + uri as i64, embed: emb.clone(), default_opts: false });
                let et = match &emb { Some(e) => T::some(pool.emb(e)), None => T::none() };
                ops.push(T::C("VPut", vec![T::N(obs.next_before as u128), et]));
                if obs.ok { outs.push(ok(T::L(vec![]))); rf.dirty = true; if let Some(e) = emb { rf.pending_put.push((obs.next_before, e)); } } else { outs.push(err(2)); }
                if auto_commit(&obs) { rf.commit(); ops.push(T::C("VCommit", vec![])); outs.push(ok(T::L(vec![]))); }
            }
            S::Del(target) => {
                let obs = d.step(&Op::Delete { target });
                if obs.ok { rf.dirty = true; rf.pending_del.push(target); ops.push(T::C("VDelete", vec![T::N(target as u128)])); outs.push(ok(T::L(vec![]))); }
            }
            S::Commit => { d.step(&Op::Commit); rf.commit(); ops.push(T::C("VCommit", vec![])); outs.push(ok(T::L(vec![]))); }
            S::Reopen => { d.step(&Op::Reopen); if d.open_error.is_some() { viol.get_or_insert(format!("reopen-failed: {:?}", d.open_error)); break; } rf.commit(); ops.push(T::C("VReopen", vec![])); outs.push(ok(T::L(vec![]))); }
            S::Search(q, k) => { do_search(&mut d, &mut pool, &rf, &q, k, &mut ops, &mut outs, &mut qids, &mut viol, false, &mut nontrivial); }
        }
    }
    for v in rf.committed.iter().chain(rf.pending_put.iter()) { pool.id(&v.1); }
    let input = T::Tup(vec![T::L(ops), pool.table(&qids)]);
    emit(w, "mem", &Case { input, output: T::L(outs), violation: viol, nontrivial, tags: vec!["scripted-dimension-corners".into()], key: "scripted-1".into() });
}

fn mem_history(r: &mut Rng, big: bool, w: &mut dyn std::io::Write) {
    let mut d = Driver::new();
    let mut pool = Pool::new();
    let mut tags: Vec<String> = vec![];
    let dim = if r.chance(1, 2) { r.range(1, 8) as usize } else { pick_dim(r) };
    let style = pick_style(r);
    let with_empty = r.chance(1, 8);
    let explicit_enable = r.chance(1, 6);
    let nops = if big { r.range(120, 330) as usize } else { match r.below(10) { 0 => r.range(3, 8) as usize, 1..=6 => r.range(10, 40) as usize, _ => r.range(40, 90) as usize } };
    let put_weight = if big { 90 } else { r.range(35, 70) };
    let mut rf = RefIndex { committed: vec![], pending_put: vec![], pending_del: vec![], dirty: false };
    let mut ops: Vec<T> = vec![]; let mut outs: Vec<T> = vec![]; let mut qids: Vec<u64> = vec![];
    let mut viol: Option<String> = None;
    let mut has_empty = false; let mut nontrivial = false;
    let mut all_vecs: Vec<Vec<f32>> = vec![];
    let mut uri = 0u32;
    let mut last_queries: Vec<(Vec<f32>, u64)> = vec![];
    let mut nsearch = 0; let mut ncommit = 0; let mut nreopen = 0; let mut ndelete = 0; let mut nwrong = 0; let mut stale_search = 0;

    let mut i = 0; let mut slow = 0; let slow_cap = if big { 10 } else { 4 };
    while i < nops {
        i += 1;
        let mut c = r.below(100);
        if slow >= slow_cap && c >= put_weight + 8 && c < put_weight + 21 { c = 99; }
        let closing = i + 3 >= nops;
        if explicit_enable && i == 1 {
            let _ = d.mem().enable_vec(); ops.push(T::C("VEnable", vec![])); outs.push(ok(T::L(vec![]))); tags.push("explicit-enable".into());
            continue;
        }
        if !closing && c < put_weight {
            // a put
            let kind = r.below(100);
            let emb: Option<Vec<f32>> = if kind < 10 { None }
                else if kind < 15 { nwrong += 1; let d2 = if dim == 1 || r.chance(1, 2) { dim + 1 } else { dim - 1 }; Some(gen_vec(r, d2, style)) }
                else if kind < 21 && with_empty { Some(vec![]) }
                else if kind < 40 && !all_vecs.is_empty() { Some(all_vecs[r.below(all_vecs.len() as u64) as usize].clone()) }
                else { Some(gen_vec(r, dim, style)) };
            uri += 1;
            let op = Op::Put { kind: if r.chance(1, 2) { PayloadKind::Bin } else { PayloadKind::Text }, size: r.range(4, 60) as usize, uri: Some(uri), ts: 1_700_000_000 + uri as i64, embed: emb.clone(), default_opts: false };
            let obs = d.step(&op);
            let fid = obs.next_before;
            let et = match &emb { Some(e) => T::some(pool.emb(e)), None => T::none() };
            ops.push(T::C("VPut", vec![T::N(fid as u128), et]));
            if obs.ok {
                outs.push(ok(T::L(vec![])));
                rf.dirty = true;
                if let Some(e) = emb { if e.is_empty() { has_empty = true; } if e.len() == dim { all_vecs.push(e.clone()); } rf.pending_put.push((fid, e)); }
            } else { outs.push(err(2)); }
            if auto_commit(&obs) { rf.commit(); ops.push(T::C("VCommit", vec![])); outs.push(ok(T::L(vec![]))); tags.push("auto-commit".into()); }
        } else if !closing && c < put_weight + 8 && !rf.committed.is_empty() && rf.committed.len() <= 8 && slow < slow_cap && r.chance(1, 2) {
            // delete every active embedded frame and commit: the index becomes empty, its dimension unknown
            for (target, _) in rf.committed.clone() {
                let obs = d.step(&Op::Delete { target });
                if obs.ok { ndelete += 1; rf.dirty = true; rf.pending_del.push(target); ops.push(T::C("VDelete", vec![T::N(target as u128)])); outs.push(ok(T::L(vec![])));
                    if auto_commit(&obs) { rf.commit(); ops.push(T::C("VCommit", vec![])); outs.push(ok(T::L(vec![]))); } }
            }
            let obs = d.step(&Op::Commit);
            if !obs.ok { viol.get_or_insert("commit-failed: commit returned an error".into()); }
            rf.commit(); slow += 1; ops.push(T::C("VCommit", vec![])); outs.push(ok(T::L(vec![]))); tags.push("delete-all".into());
            // the emptied index: any query dimension is accepted and nothing is returned
            let q = if r.chance(1, 2) { gen_vec(r, dim, Style::SmallInt) } else { gen_vec(r, dim + 2, Style::SmallInt) };
            let k = pick_k(r, 3);
            do_search(&mut d, &mut pool, &rf, &q, k, &mut ops, &mut outs, &mut qids, &mut viol, has_empty, &mut nontrivial);
            nsearch += 1;
        } else if !closing && c < put_weight + 8 && !rf.committed.is_empty() {
            // delete an active embedded committed frame (or any committed frame)
            let target = if r.chance(4, 5) { rf.committed[r.below(rf.committed.len() as u64) as usize].0 } else { r.below(d.mem().frame_count() as u64 + 1) };
            let obs = d.step(&Op::Delete { target });
            if obs.ok { ndelete += 1; rf.dirty = true; rf.pending_del.push(target); ops.push(T::C("VDelete", vec![T::N(target as u128)])); outs.push(ok(T::L(vec![])));
                if auto_commit(&obs) { rf.commit(); ops.push(T::C("VCommit", vec![])); outs.push(ok(T::L(vec![]))); tags.push("auto-commit".into()); } }
        } else if c < put_weight + 14 || (closing && i + 3 == nops) {
            slow += 1;
            let obs = d.step(&Op::Commit);
            if !obs.ok { viol.get_or_insert("commit-failed: commit returned an error".into()); }
            rf.commit(); ncommit += 1; ops.push(T::C("VCommit", vec![])); outs.push(ok(T::L(vec![])));
        } else if c < put_weight + 18 || (closing && i + 1 == nops) {
            slow += 1;
            // close + reopen; then the previous queries must give the previous answers if nothing was pending
            let clean = !rf.dirty;
            let before: Vec<Option<Result<Vec<(u64, f32)>, u128>>> = if clean { last_queries.clone().iter().map(|(q, k)| do_search(&mut d, &mut pool, &rf, q, *k, &mut ops, &mut outs, &mut qids, &mut viol, has_empty, &mut nontrivial)).collect() } else { vec![] };
            let obs = d.step(&Op::Reopen);
            if d.open_error.is_some() || !obs.ok { viol.get_or_insert(format!("reopen-failed: {:?}", d.open_error)); break; }
            rf.commit(); nreopen += 1; ops.push(T::C("VReopen", vec![])); outs.push(ok(T::L(vec![])));
            if clean {
                for (j, (q, k)) in last_queries.clone().iter().enumerate() {
                    let after = do_search(&mut d, &mut pool, &rf, q, *k, &mut ops, &mut outs, &mut qids, &mut viol, has_empty, &mut nontrivial);
                    let same = match (&before[j], &after) {
                        (Some(Ok(a)), Some(Ok(b))) => a.len() == b.len() && a.iter().zip(b.iter()).all(|(x, y)| x.0 == y.0 && x.1.to_bits() == y.1.to_bits()),
                        (Some(Err(a)), Some(Err(b))) => a == b,
                        (None, None) => true,
                        _ => false };
                    if !same { viol.get_or_insert(classify(&[], has_empty, format!("reopen: query {} gives a different answer after close and reopen", j))); }
                }
                if !last_queries.is_empty() { tags.push("reopen-compared".into()); }
            }
            // and a fresh query against the reopened memory
            let q = if r.chance(5, 6) { gen_vec(r, dim, if style == Style::Extreme { Style::Uniform } else { style }) } else { gen_vec(r, dim + 1, Style::SmallInt) };
            let k = pick_k(r, rf.committed.len());
            do_search(&mut d, &mut pool, &rf, &q, k, &mut ops, &mut outs, &mut qids, &mut viol, has_empty, &mut nontrivial);
            nsearch += 1;
        } else {
            // a search
            let m = rf.committed.len();
            let qk = r.below(14);
            let q: Vec<f32> = match qk {
                0 if m > 0 => rf.committed[r.below(m as u64) as usize].1.clone(),
                1 => vec![],
                2 => gen_vec(r, dim + 1, style),
                3 if dim > 1 => gen_vec(r, dim - 1, style),
                4 => gen_vec(r, dim, Style::SmallInt),
                5 if !rf.pending_put.is_empty() => rf.pending_put[0].1.clone(),
                _ => gen_vec(r, dim, if style == Style::Extreme { Style::Uniform } else { style }),
            };
            // keep NaN out of this stream: a query with a non-finite difference is not generated (finite queries only)
            let k = pick_k(r, m);
            if q.len() != dim { nwrong += 1; }
            if rf.dirty { stale_search += 1; }
            do_search(&mut d, &mut pool, &rf, &q, k, &mut ops, &mut outs, &mut qids, &mut viol, has_empty, &mut nontrivial);
            nsearch += 1;
            if last_queries.len() >= 4 { last_queries.remove(0); }
            last_queries.push((q, k));
        }
    }
    for v in rf.committed.iter().chain(rf.pending_put.iter()) { pool.id(&v.1); }
    tags.push(format!("final-m{}", match rf.committed.len() { 0 => "0", 1..=5 => "1-5", 6..=20 => "6-20", 21..=60 => "21-60", _ => "61+" }));
    tags.push(format!("dim{}", match dim { 1 => "1", 2..=7 => "2-7", 8..=16 => "8-16", 17..=32 => "17-32", _ => "33-64" }));
    tags.push(match style { Style::Tern => "tern", Style::SmallInt => "smallint", Style::Binary => "binary", Style::Uniform => "uniform", Style::Extreme => "extreme", Style::Nan => "naninf" }.into());
    if has_empty { tags.push("empty-embedding-put".into()); }
    if ndelete > 0 { tags.push("deletes".into()); }
    if nreopen > 0 { tags.push("reopens".into()); }
    if nwrong > 0 { tags.push("wrong-dimension".into()); }
    if stale_search > 0 { tags.push("search-with-pending".into()); }
    tags.push(format!("searches{}", match nsearch { 0 => "0", 1..=5 => "1-5", _ => "6+" }));
    let _ = ncommit;
    tags.sort(); tags.dedup();
    let input = T::Tup(vec![T::L(ops), pool.table(&qids)]);
    let key = blake3::hash(input.coq().as_bytes()).to_hex()[..16].to_string();
    emit(w, "mem", &Case { input, output: T::L(outs), violation: viol, nontrivial, tags, key });
}

/// the witnesses of the two known findings, run on the implementation each time
fn witnesses(w: &mut dyn std::io::Write) {
    // F-C13-1: an empty embedding is accepted; afterwards search_vec panics
    {
        let mut d = Driver::new(); let mut pool = Pool::new();
        let mut ops = vec![]; let mut outs = vec![]; let mut qids = vec![];
        let embs: Vec<Vec<f32>> = vec![vec![1.0, 0.0], vec![]];
        let mut okputs = true;
        for (i, e) in embs.iter().enumerate() {
            let obs = d.step(&Op::Put { kind: PayloadKind::Bin, size: 8, uri: Some(i as u32 + 1), ts: 1_700_000_000, embed: Some(e.clone()), default_opts: false });
            okputs &= obs.ok;
            ops.push(T::C("VPut", vec![T::N(obs.next_before as u128), T::some(pool.emb(e))])); outs.push(if obs.ok { ok(T::L(vec![])) } else { err(2) });
        }
        d.step(&Op::Commit); ops.push(T::C("VCommit", vec![])); outs.push(ok(T::L(vec![])));
        let q = vec![1.0f32, 2.0]; let qid = pool.id(&q); qids.push(qid);
        ops.push(T::C("VSearch", vec![T::Tup(vec![T::N(2), T::N(qid as u128)]), T::N(1)]));
        let res = catch_unwind(AssertUnwindSafe(|| d.mem().search_vec(&q, 1)));
        let viol = match res {
            Err(_) => { outs.push(panic_t()); Some("empty-embedding: witness: put_with_embedding(.., vec![]) was accepted and search_vec(&[1.0, 2.0], 1) panics after the commit".to_string()) }
            Ok(Ok(h)) => { outs.push(ok(hits_term(&h.iter().map(|x| (x.frame_id, x.distance)).collect::<Vec<_>>()))); None }
            Ok(Err(e)) => { outs.push(err(err_kind(&e))); None }
        };
        let _ = okputs;
        let input = T::Tup(vec![T::L(ops), pool.table(&qids)]);
        emit(w, "mem", &Case { input, output: T::L(outs), violation: viol, nontrivial: true, tags: vec!["witness-empty-embedding".into()], key: "witness-F-C13-1".into() });
    }
    // F-C13-2: one NaN distance and the nearest frame is no longer returned first
    {
        let vs: Vec<Vec<f32>> = vec![vec![4.0, 2.0], vec![7.0, 2.0], vec![f32::INFINITY, 2.0], vec![f32::NAN, 2.0], vec![2.0, 4.0]];
        let mut b = VecIndexBuilder::new(); let mut pool = Pool::new();
        for (i, v) in vs.iter().enumerate() { b.add_document(i as u64, v.clone()); pool.id(v); }
        let index = VecIndex::decode(&b.finish().expect("finish").bytes).expect("decode");
        let q = vec![1.0f32, 2.0]; let qid = pool.id(&q);
        let h: Vec<(u64, f32)> = index.search(&q, 1).iter().map(|x| (x.frame_id, x.distance)).collect();
        let all: Vec<(u64, f32)> = vs.iter().enumerate().map(|(i, v)| (i as u64, l2_distance_simd(&q, v))).collect();
        let viol = nn_oracle(&all, 1, &h).map(|wh| classify(&all, false, wh).replacen(": ", ": witness: ", 1));
        let docs_t = T::L(vs.iter().enumerate().map(|(i, v)| T::Tup(vec![T::N(i as u128), pool.emb(v)])).collect());
        let input = T::Tup(vec![docs_t, T::L(vec![T::Tup(vec![T::Tup(vec![T::N(2), T::N(qid as u128)]), T::N(1)])]), pool.table(&[qid])]);
        emit(w, "nan", &Case { input, output: T::L(vec![ok(T::Tup(vec![T::N(h.len() as u128), T::L(vec![])]))]), violation: viol, nontrivial: true, tags: vec!["witness-nan-distance".into()], key: "witness-F-C13-2".into() });
    }
}

/// F-C13-2, second face: with NaN distances std's stable sort may notice the broken order and panic
fn witness_sort_panic(w: &mut dyn std::io::Write) {
    let n = f32::NAN;
    let vals = [n, 3.0, 2.0, 1.0, n, 2.0, 3.0, 2.0, 2.0, 1.0, 3.0, 1.0, 1.0, n, 1.0, n, 3.0, 3.0, n, 1.0, 2.0];
    let mut b = VecIndexBuilder::new(); let mut pool = Pool::new();
    for (i, v) in vals.iter().enumerate() { b.add_document(i as u64, vec![*v]); pool.id(&[*v]); }
    let index = VecIndex::decode(&b.finish().expect("finish").bytes).expect("decode");
    let res = catch_unwind(AssertUnwindSafe(|| index.search(&[0.0], 5)));
    let viol = if res.is_err() { Some("nan-distance: witness: panic: VecIndex::search(&[0.0], 5) over 21 one-dimensional embeddings, five of them NaN, panics inside sort_by (comparison is not a total order)".to_string()) } else { None };
    let docs_t = T::L(vals.iter().enumerate().map(|(i, v)| T::Tup(vec![T::N(i as u128), pool.emb(&[*v])])).collect());
    let input = T::Tup(vec![docs_t, T::L(vec![]), T::L(vec![])]);
    emit(w, "nan", &Case { input, output: T::L(vec![]), violation: viol, nontrivial: true, tags: vec!["witness-nan-sort-panic".into()], key: "witness-F-C13-2b".into() });
}

pub fn run(seed: u64, n: usize, tier: &str, w: &mut dyn std::io::Write) {
    let prev = std::panic::take_hook();
    std::panic::set_hook(Box::new(|_| {}));
    let mut r = Rng::new(seed ^ 0xC13);
    witnesses(w);
    witness_sort_panic(w);
    scripted_history(w);
    // n api cases, n/5 nan cases, n/6 histories on real memories (a few of them large in thorough)
    for _ in 0..n { api_case(&mut r, false, w); }
    for _ in 0..n / 5 { api_case(&mut r, true, w); }
    let nh = n / 15;
    for i in 0..nh { mem_history(&mut r, tier == "thorough" && i % 10 == 0, w); }
    std::panic::set_hook(prev);
}
